#!/usr/bin/env python3
"""fixed/fixed_lines.txt ("fixed: property=<id> <commit> <what failed>" lines) -> fixed/fixed.json (list used by merge_known.py)"""
import json, os, re
here = os.path.dirname(os.path.dirname(os.path.abspath(__file__)))
out = []
for l in open(os.path.join(here, 'fixed', 'fixed_lines.txt')):
    l = l.strip()
    if not l: continue
    m = re.match(r'fixed: property=(C\d+) ([0-9a-f]{7,}) (.*)$', l)
    assert m, l
    out.append({'property': m.group(1), 'commit': m.group(2), 'what': m.group(3), 'line': l})
json.dump(out, open(os.path.join(here, 'fixed', 'fixed.json'), 'w'), indent=1)
print(len(out), 'fixed entries')
