#!/usr/bin/env python3
"""print a markdown table of the kept seeded changes (seeded/*/meta.json) and which check reported them"""
import json, glob, os
here = os.path.dirname(os.path.dirname(os.path.abspath(__file__)))
print("| seeded change (`-mK` breaking, `-hK` harmless refactoring) | property | what it needs to manifest | suite with change | outcome of the property's check on /repo HEAD + change (replay keys) |")
print("|---|---|---|---|---|")
for d in sorted(glob.glob(os.path.join(here, 'seeded', '*'))):
    m = json.load(open(os.path.join(d, 'meta.json')))
    c = m.get('confirmed_by_main', {})
    rep = []
    for k in c.get('checks', []):
        keys = [r.replace('.json', '').split('_', 1)[-1] for r in k['replays'] if r != 'no-failing-input-found'][:3]
        if m.get('kind') == 'harmless':
            rep.append(f"{k['check']}: " + ("silent (exit 0), as it must be" if k['exit'] == 0 else f"**FALSE ALARM** ({', '.join(keys)})"))
        else:
            rep.append(f"{k['check']}: " + ("**MISSED**" if not k['caught'] else f"{k['violation_lines']} VIOLATION ({', '.join(keys)})"))
    esc = lambda s: str(s).replace('|', '/').replace('\n', ' ')
    print(f"| `{os.path.basename(d)}` {esc(m.get('summary',''))[:160]} | {m.get('property','')} | {esc(m.get('needs',''))[:200]} | {esc(c.get('tests_with_patch',''))[:22]} | {esc('; '.join(rep))} |")
