#!/bin/bash
# run the quick check of the given properties (default: all registered), N at a time; summary lines on stdout
cd "$(dirname "$0")/.."
props="$@"; [ -z "$props" ] && props=$(ls manifest | grep '^C' | sed 's/.json//')
mkdir -p /tmp/runall
echo $props | tr ' ' '\n' | xargs -P ${PAR:-4} -I{} bash -c './check {} --tier ${TIER:-quick} > /tmp/runall/{}.log 2>&1; echo "{} exit=$? $(tail -1 /tmp/runall/{}.log)"'
