#!/bin/bash
# run_seeds.sh [seed names...]: run every kept seeded change (default: all) against its own property's check on a
# scratch worktree of /repo HEAD and record the outcome in seeded/<name>/meta.json (confirmed_by_main)
cd "$(dirname "$0")/.."
seeds="$@"; [ -z "$seeds" ] && seeds=$(ls seeded)
mkdir -p /tmp/seedrun
printf '%s\n' $seeds | xargs -P ${PAR:-6} -I{} bash -c 's={}; p=${s%%-*}; tools/try_seed.sh seeded/$s $p > /tmp/seedrun/$s.try 2>&1; tools/keep_seed.py seeded/$s $s'
