#!/usr/bin/env python3
"""known_findings.json (the committed known-findings file the checks read) = union of the per-property source
fragments known/Cnn.json + the 'fixed' list kept in fixed/fixed.json.  Run by hand after editing a fragment; never at check time."""
import json, glob, os
here = os.path.dirname(os.path.dirname(os.path.abspath(__file__)))
items = []
for f in sorted(glob.glob(os.path.join(here, 'known', 'C*.json'))):
    items += json.load(open(f)).get('findings', [])
fx = os.path.join(here, 'fixed', 'fixed.json')
fixed = json.load(open(fx)) if os.path.exists(fx) else []
out = {"comment": "Genuine defects of the unchanged tree that are recorded rather than repaired, keyed by the stable root-cause key the check assigns (law x call site x outcome); a different violation of the same property has a different key and is still reported. 'fixed' entries (repaired by a fix: commit in /repo) suppress nothing. Never written at run time. Source fragments: known/Cnn.json, merged by tools/merge_known.py.",
       "findings": items, "fixed": fixed}
json.dump(out, open(os.path.join(here, 'known_findings.json'), 'w'), indent=1)
print(len(items), 'known findings,', len(fixed), 'fixed')
