#!/usr/bin/env python3
"""print a python source file with docstrings and blank lines removed, keeping line numbers"""
import ast, sys
src = open(sys.argv[1]).read()
tree = ast.parse(src)
skip = set()
for node in ast.walk(tree):
    if isinstance(node, (ast.FunctionDef, ast.ClassDef, ast.Module, ast.AsyncFunctionDef)):
        b = node.body
        if b and isinstance(b[0], ast.Expr) and isinstance(getattr(b[0], 'value', None), ast.Constant) and isinstance(b[0].value.value, str):
            for l in range(b[0].lineno, b[0].end_lineno + 1):
                skip.add(l)
lo = int(sys.argv[2]) if len(sys.argv) > 2 else 1
hi = int(sys.argv[3]) if len(sys.argv) > 3 else 10**9
for i, line in enumerate(src.splitlines(), 1):
    if i in skip or not line.strip() or i < lo or i > hi: continue
    if line.strip().startswith('#'): continue
    print(f"{i:5d} {line}")
