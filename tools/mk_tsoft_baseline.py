#!/usr/bin/env python3
"""(Re)write props/tsoft_baseline.json: the threshold multiset (lib/tsoft.py) of every function listed in a
`TSOFT = [(relpath, qualname), ...]` literal of props/Cnn.py, taken from the checkout given as argv[1] (default /repo).
Run when a hand model is (re-)aligned with the source -- never at check time."""
import ast, glob, json, os, subprocess, sys
here = os.path.dirname(os.path.abspath(__file__))
sys.path.insert(0, os.path.join(here, '..'))
from lib import tsoft
repo = sys.argv[1] if len(sys.argv) > 1 else '/repo'
out = {'_repo_head': subprocess.run(['git', '-C', repo, 'rev-parse', '--short', 'HEAD'], capture_output=True, text=True).stdout.strip()}
for p in sorted(glob.glob(os.path.join(here, '..', 'props', 'C??.py'))):
    prop = os.path.basename(p)[:-3]
    lits = {}
    for n in ast.parse(open(p).read()).body:
        if isinstance(n, ast.Assign) and len(n.targets) == 1 and isinstance(n.targets[0], ast.Name) and n.targets[0].id in ('TSOFT', '_TSOFT_STOP'):
            lits[n.targets[0].id] = ast.literal_eval(n.value)
    if 'TSOFT' not in lits:
        continue
    stop = set(lits.get('_TSOFT_STOP', ()))
    out[prop] = {}
    for rel, q in lits['TSOFT']:
        s = tsoft.summary(repo, rel, q, stop - {q})
        if s is None:
            sys.exit(f"{prop}: {rel}::{q} not found")
        out[prop][rel + '::' + q] = s
json.dump(out, open(tsoft.BASELINE, 'w'), indent=1, sort_keys=True)
print({k: (len(v) if isinstance(v, dict) else v) for k, v in out.items()})
