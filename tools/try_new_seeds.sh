#!/bin/bash
# try_new_seeds.sh <round dir> <Cnn-mK as Cnn/mK> ...: confirm + run own check + keep under seeded/<Cnn>-r3<mK>
cd "$(dirname "$0")/.."
rd=$1; shift
printf '%s\n' "$@" | xargs -P ${PAR:-6} -I{} bash -c 's={}; p=${s%%/*}; m=${s#*/}; tools/try_seed.sh '$rd'/$s $p > '$rd'/$p/$m.try 2>&1; tools/keep_seed.py '$rd'/$s ${p}-${TAG:-r3}${m}; grep -E "SEED|check" '$rd'/$p/$m.try | cut -c1-300'
