#!/bin/bash
# run the repository's pinned suite on a checkout, without the two tests that always time out (900 s each) on the
# unchanged tree (test_plot, test_graphics: they need a display); prints the summary line.  usage: fasttests.sh <dir>
d="${1:-/repo}"
cd "$d" && MPLBACKEND=Agg PYTHONPATH="$d" PYTHONDONTWRITEBYTECODE=1 timeout 1200 /venv/bin/python -m pytest -q -p no:cacheprovider --timeout=900 --continue-on-collection-errors \
  --deselect tests/base/test_transforms3d.py::Test3D::test_plot --deselect tests/test_pose2d.py::TestSE2::test_graphics 2>&1 | tail -5
