#!/usr/bin/env python3
"""regenerate coq/_CoqProject: the fixed library = Base/*, Model/Quat.v and the Model/Proofs files of every property that is
registered (has manifest/Cnn.json).  Props/*.v are compiled by the checks (they depend on gen/), not by setup."""
import glob, os
here = os.path.dirname(os.path.dirname(os.path.abspath(__file__)))
os.chdir(os.path.join(here, 'coq'))
done = {os.path.basename(f)[:-5] for f in glob.glob('../manifest/C*.json')}
files = ['theories/Base/Ops.v', 'theories/Base/Lin.v', 'theories/Base/RInst.v', 'theories/Base/RLin.v', 'theories/Model/Quat.v']
for f in sorted(glob.glob('theories/Model/C*.v') + glob.glob('theories/Proofs/C*.v')):
    if os.path.basename(f)[:3] in done:
        files.append(f)
open('_CoqProject', 'w').write('-Q theories SM\n-Q gen SMgen\n' + '\n'.join(files) + '\n')
print(len(files), 'files')
