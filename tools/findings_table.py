#!/usr/bin/env python3
"""markdown: remaining known findings per property (key, what) from known_findings.json, and the fixed list"""
import json, os, collections
here = os.path.dirname(os.path.dirname(os.path.abspath(__file__)))
k = json.load(open(os.path.join(here, 'known_findings.json')))
by = collections.defaultdict(list)
for f in k['findings']:
    by[f['property']].append(f)
print("| property | listed keys | root causes (abridged; full text and reproductions in known_findings.json / docs/Cnn.md) |")
print("|---|---|---|")
for p in sorted(by):
    roots = collections.OrderedDict()
    for f in by[p]:
        r = f.get('root') or f.get('root_cause') or f['key']
        roots.setdefault(str(r), f.get('what', ''))
    txt = '; '.join(f"`{r[:70]}`" for r in list(roots)[:8]) + (' …' if len(roots) > 8 else '')
    print(f"| {p} | {len(by[p])} | {txt} |")
print()
print("Fixed (one line per entry of the `fixed` list):\n")
for f in k.get('fixed', []):
    print("* `" + f['line'].replace('`', "'") + "`")
