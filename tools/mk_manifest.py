#!/usr/bin/env python3
"""assemble MANIFEST.json from manifest/Cnn.json fragments (one per claimed property) and manifest/not_applicable.json"""
import json, os, glob
here = os.path.dirname(os.path.dirname(os.path.abspath(__file__)))
checks = []
for f in sorted(glob.glob(os.path.join(here, 'manifest', 'C*.json'))):
    m = json.load(open(f))
    pid = m['property_id']
    checks.append({
        'property_id': pid,
        'quick_cmd': f'./check {pid} --tier quick',
        'thorough_cmd': f'./check {pid} --tier thorough',
        'evidence_file': f'/verif/evidence/{pid}.json',
        'replay_cmd_template': f'./check {pid} --replay {{path}}',
        'engine': 'coq-sm',
        'level_claimed': m['level_claimed'],
        'level_note': m['level_note'],
        'technique': m.get('technique', 'Coq proof over a model tied to the source'),
    })
na_path = os.path.join(here, 'manifest', 'not_applicable.json')
na = json.load(open(na_path)) if os.path.exists(na_path) else []
claimed = {c['property_id'] for c in checks}
na = [x for x in na if x['property_id'] not in claimed]
listed = claimed | {x['property_id'] for x in na}
for l in open(os.path.join(here, 'properties.jsonl')):
    pid = json.loads(l)['id']
    if pid not in listed:
        na.append({'property_id': pid, 'reason': 'check not built yet in this round (planned, see DESIGN.md §7); not claimed until its proof and correspondence exist'})
man = {
    'version': 1,
    'setup_cmd': './setup.sh',
    'hooks': {'guard': 'SPATIALMATH_VERIF',
              'enable': "no source hooks are used; checks import /repo's working tree via PYTHONPATH=/repo",
              'baseline_off_cmd': 'cd /repo && /venv/bin/python -m pytest -ra -q -p no:cacheprovider --timeout=900 --continue-on-collection-errors',
              'source_commits': [], 'add_only': True},
    'engines': [{'name': 'coq-sm', 'path': '/verif/coq', 'serves_properties': sorted(claimed),
                 'kind_free_text': 'Coq 8.16 development (theories/: fixed library, models, property theorems; gen/: definitions regenerated from /repo on every run) driven by /verif/check'}],
    'checks': checks,
    'not_applicable': na,
}
json.dump(man, open(os.path.join(here, 'MANIFEST.json'), 'w'), indent=1)
print(f"{len(checks)} checks, {len(na)} not claimed")
