#!/usr/bin/env python3
"""keep_seed.py <seed dir> <name>: copy a confirmed seeded change (patch.diff, demo.py, meta.json + what was run) to /verif/seeded/<name>/"""
import json, os, re, shutil, sys
sd, name = sys.argv[1], sys.argv[2]
here = os.path.dirname(os.path.dirname(os.path.abspath(__file__)))
dst = os.path.join(here, 'seeded', name)
os.makedirs(dst, exist_ok=True)
for f in ('patch.diff', 'demo.py'):
    if os.path.realpath(os.path.join(sd, f)) != os.path.realpath(os.path.join(dst, f)):
        shutil.copy(os.path.join(sd, f), dst)
meta = json.load(open(os.path.join(sd, 'meta.json'))) if os.path.exists(os.path.join(sd, 'meta.json')) else {}
res = open(os.path.join(sd, 'out', 'result.txt')).read().strip().split('\n')
m = re.match(r'demo_exit_clean=(\d+) demo_exit_with_patch=(\d+) tests_with_patch="(.*)"', res[0])
checks = []
for l in res[1:]:
    k = re.match(r'check=(\S+) exit=(\d+) violations=(\d+) keys=(.*)', l)
    checks.append({'check': k.group(1), 'exit': int(k.group(2)), 'violation_lines': int(k.group(3)),
                   'replays': k.group(4).split()[:12], 'caught': int(k.group(2)) == 1 and int(k.group(3)) > 0})
meta['confirmed_by_main'] = {
    'ran': 'tools/try_seed.sh (scratch worktree of /repo HEAD + git apply patch.diff; demo.py with and without the patch; whole pinned suite minus the two display tests that always time out; ./check with VERIF_REPO=<worktree> VERIF_SCRATCH=<scratch>)',
    'demo_exit_clean': int(m.group(1)), 'demo_exit_with_patch': int(m.group(2)), 'tests_with_patch': m.group(3),
    'repo_head': os.popen('git -C /repo rev-parse --short HEAD').read().strip(),
    'checks': checks}
json.dump(meta, open(os.path.join(dst, 'meta.json'), 'w'), indent=1)
harmless = meta.get('kind') == 'harmless'
if harmless:
    print(name, 'kept (harmless);', 'FALSE ALARM' if any(c['exit'] != 0 for c in checks) else 'silent')
else:
    print(name, 'kept;', 'caught' if any(c['caught'] for c in checks) else 'MISSED')
