#!/usr/bin/env python3
"""per-property numbers of the last committed run (evidence/*.json) as a markdown table for DESIGN.md §11.2"""
import json, os, glob
here = os.path.dirname(os.path.dirname(os.path.abspath(__file__)))
print('| id | tier | obligations discharged | of which `_refuted` / `_partial` | correspondence cases (disagreements) | property evaluations on the implementation | known findings hit | wall s |')
print('|---|---|---|---|---|---|---|---|')
for f in sorted(glob.glob(os.path.join(here, 'evidence', 'C*.json'))):
    e = json.load(open(f)); c = e['coverage']
    names = c.get('obligation_names', [])
    nr = sum(1 for n in names if '_refuted' in n); npart = sum(1 for n in names if '_partial' in n)
    corr = c.get('correspondence', {})
    print(f"| {e['property_id']} | {e['tier']} | {c['discharged']}/{c['obligations']} | {nr} / {npart} | {corr.get('cases', 0)} ({corr.get('disagreements', 0)}) | "
          f"{c.get('evaluations', 0)} | {len(c.get('known_findings_hit', []))} | {e.get('wall_s', '')} |")
