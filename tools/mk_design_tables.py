#!/usr/bin/env python3
"""refresh the generated blocks of DESIGN.md (<!-- BEGIN:x --> ... <!-- END:x -->): fixes, findings, seeds"""
import os, re, subprocess
here = os.path.dirname(os.path.dirname(os.path.abspath(__file__)))
p = os.path.join(here, 'DESIGN.md')
s = open(p).read()
def put(tag, text):
    global s
    s = re.sub(rf'(<!-- BEGIN:{tag} -->).*?(<!-- END:{tag} -->)', lambda m: m.group(1) + '\n' + text.strip('\n') + '\n' + m.group(2), s, flags=re.S)
fixes = subprocess.run(['git', '-C', '/repo', 'log', '--reverse', '--format=* `%h` %s', '9631893..HEAD'], capture_output=True, text=True).stdout
put('fixes', fixes)
put('findings', subprocess.run(['python3', os.path.join(here, 'tools', 'findings_table.py')], capture_output=True, text=True).stdout.split('\nFixed (one line')[0])
put('seeds', subprocess.run(['python3', os.path.join(here, 'tools', 'seed_table.py')], capture_output=True, text=True).stdout)
put('summary', subprocess.run(['python3', os.path.join(here, 'tools', 'summary_table.py')], capture_output=True, text=True).stdout)
open(p, 'w').write(s)
print('DESIGN.md tables refreshed')
