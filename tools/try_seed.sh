#!/bin/bash
# try_seed.sh <dir with patch.diff, demo.py> <Cnn> [more Cnn ...]
# confirms a seeded change (applies, suite still 228 passed, demo fails with / passes without) in a scratch
# worktree, runs the given checks against that worktree (never against /repo), prints a summary, cleans up.
sd="$(readlink -f "$1")"; shift
name=$(echo "$sd" | tr '/' '_')
w=/tmp/try/$name; rm -rf $w; mkdir -p $w
git -C /repo worktree add --detach $w/wt HEAD >/dev/null 2>&1 || { echo "worktree failed"; exit 2; }
run_demo() { (cd $w/wt && MPLBACKEND=Agg PYTHONPATH=$w/wt PYTHONDONTWRITEBYTECODE=1 timeout 600 /venv/bin/python "$sd/demo.py" >/dev/null 2>&1; echo $?); }
clean=$(run_demo)
if ! git -C $w/wt apply "$sd/patch.diff" 2>$w/apply.err; then echo "SEED $sd: patch does not apply: $(head -2 $w/apply.err)"; git -C /repo worktree remove --force $w/wt; rm -rf $w; exit 2; fi
mut=$(run_demo)
tests=$("$(dirname "$0")/fasttests.sh" $w/wt | tail -1)
echo "SEED $sd: demo clean=$clean mutated=$mut | tests: $tests"
mkdir -p "$sd/out"; : > "$sd/out/result.txt"
echo "demo_exit_clean=$clean demo_exit_with_patch=$mut tests_with_patch=\"$tests\"" >> "$sd/out/result.txt"
for p in "$@"; do
  VERIF_REPO=$w/wt VERIF_SCRATCH=$w/scr_$p timeout 3000 "$(dirname "$0")/../check" $p > $w/$p.log 2>&1; rc=$?
  echo "  check $p exit=$rc: $(grep -c '^VIOLATION' $w/$p.log) VIOLATION lines; $(grep '^VIOLATION' $w/$p.log | head -3 | sed 's#.*/replay/##' | tr '\n' ' ')"
  cp $w/$p.log "$sd/out/$p.log"
  echo "check=$p exit=$rc violations=$(grep -c '^VIOLATION' $w/$p.log) keys=$(grep '^VIOLATION' $w/$p.log | sed 's#.*/replay/##' | tr '\n' ' ')" >> "$sd/out/result.txt"
done
git -C /repo worktree remove --force $w/wt; rm -rf $w
