#!/bin/bash
# Audit of the Coq development: no declared axioms / admitted proofs / disabled checks anywhere (fixed files and
# the generated ones present), and optionally an independent re-check with coqchk (-o prints the axioms).
#   tools/audit.sh            grep only (fast; also run by setup.sh)
#   tools/audit.sh --coqchk   additionally coqchk -o over every compiled .vo of the fixed library (minutes, GBs)
cd "$(dirname "$0")/../coq" || exit 2
bad=$(grep -rnE '\b(Admitted|admit|Axiom|Axioms|Parameter|Parameters|Conjecture|Admit Obligations|Unset Guard Checking|Unset Positivity Checking|Unset Universe Checking|bypass_check|type-in-type|impredicative-set|native_compute)\b' --include='*.v' theories gen 2>/dev/null | grep -vE '^\S+:\s*[0-9]+:\s*\(\*.*\*\)\s*$' | grep -vE 'Print Assumptions')
# top-level Variable/Hypothesis/Context outside a Section is also a declaration: flag any file that uses them without a Section
for f in $(grep -rlE '^\s*(Variable|Variables|Hypothesis|Hypotheses)\b' --include='*.v' theories gen 2>/dev/null); do
  grep -qE '^\s*Section\b' "$f" || bad="$bad"$'\n'"$f: Variable/Hypothesis outside a Section"
done
if [ -n "$(echo "$bad" | tr -d '[:space:]')" ]; then echo "AUDIT FAILED:"; echo "$bad"; exit 1; fi
echo "audit: no Admitted/admit/Axiom/Parameter/Conjecture/disabled checks in $(find theories gen -name '*.v' 2>/dev/null | wc -l) .v files"
if [ "$1" = "--coqchk" ]; then
  vos=$(find theories -name '*.vo' | sed 's#^theories/#SM.#; s#\.vo$##; s#/#.#g')
  timeout 3000 coqchk -silent -o -Q theories SM $vos 2>&1 | tail -40
fi
