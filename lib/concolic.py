"""Harness-process patches that let the real library run on SymPy symbols through code that calls
math.* / np.linalg.norm / np.zeros etc.  Nothing in /repo is modified.  Comparisons on symbolic
values are decided under a shadow valuation VAL and recorded in PATH (concolic execution)."""
import math
import numpy as np
import sympy
from sympy.core.relational import Relational

VAL = {}
PATH = []
_installed = False


def _rel_bool(self):
    v = bool(self.subs(VAL))
    PATH.append((self, v))
    return v


def install():
    global _installed
    if _installed:
        return
    _installed = True
    Relational.__bool__ = _rel_bool
    _m = {k: getattr(math, k) for k in ('sin', 'cos', 'tan', 'sqrt', 'acos', 'asin', 'atan', 'atan2', 'exp', 'log')}

    def _wrap(name, symf):
        def f(*a):
            if any(isinstance(x, sympy.Expr) for x in a):
                return symf(*a)
            return _m[name](*a)
        return f
    for k, f in dict(sin=sympy.sin, cos=sympy.cos, tan=sympy.tan, sqrt=sympy.sqrt, acos=sympy.acos,
                     asin=sympy.asin, atan=sympy.atan, atan2=sympy.atan2, exp=sympy.exp, log=sympy.log).items():
        setattr(math, k, _wrap(k, f))
    _norm, _isscalar = np.linalg.norm, np.isscalar

    def norm(x, *a, **k):
        xa = np.asarray(x)
        if xa.dtype == object:
            return sympy.sqrt(sum(e * e for e in xa.flatten()))
        return _norm(x, *a, **k)
    np.linalg.norm = norm
    np.isscalar = lambda x: isinstance(x, sympy.Expr) or _isscalar(x)
    # The tracer follows the NUMERIC path of the code (symbols stand for floats; comparisons are decided
    # under the shadow valuation and recorded).  base.unitvec short-circuits its zero-length test when the
    # length is a SymPy expression (the library's own symbolic support, since fix 2d89a18): switch that
    # module-level flag off in the harness process so that the threshold comparison a float input meets is
    # the one that is traced.  (C16, which checks the symbolic behaviour itself, does not install this.)
    import spatialmath.base.vectors as _vec          # imported here, after the math.* wrappers are in place
    if hasattr(_vec, '_symbolics'):
        _vec._symbolics = False


_alloc_saved = {}


class object_alloc:
    """context manager: np.zeros/eye/identity return object arrays (needed where the library
    allocates a float result and stores symbolic entries into it)"""
    def __enter__(self):
        z, e, i = np.zeros, np.eye, np.identity
        _alloc_saved.update(zeros=z, eye=e, identity=i)

        def zeros(*a, **k):
            if k.get('dtype') in (None, float, np.float64):
                k = dict(k)
                k['dtype'] = object
            return z(*a, **k)
        np.zeros = zeros
        np.eye = lambda *a, **k: e(*a, **k).astype(object)
        np.identity = lambda *a, **k: i(*a, **k).astype(object)
        return self

    def __exit__(self, *a):
        np.zeros, np.eye, np.identity = _alloc_saved['zeros'], _alloc_saved['eye'], _alloc_saved['identity']
