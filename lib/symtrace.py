"""T-sym: run the real library on SymPy symbols and emit Gallina definitions (definitions only).

A `Gen` object collects traces for one property.  Each trace is produced by calling a Python
callable (normally *the library call itself*) on symbolic arguments; the resulting object array
is printed as a Gallina definition over the generic `ops` record.  The same callable is kept as
the numeric thunk for the Sym==Num correspondence (the generated text, extracted to OCaml and run
on floats, must agree with the numeric library call on the same arguments).

Fail-closed: any SymPy node the printer does not know raises.
"""
import math
import numpy as np
import sympy

SHAPES = {
    'S': (), 'V2': (2,), 'V3': (3,), 'V4': (4,), 'V6': (6,), 'V8': (8,),
    'M22': (2, 2), 'M33': (3, 3), 'M44': (4, 4), 'M66': (6, 6), 'M88': (8, 8),
}


def shape_name(shape):
    for k, v in SHAPES.items():
        if v == tuple(shape):
            return k
    raise ValueError(f"unsupported shape {shape}")


def coq_type(sh):
    return 'T' if sh == 'S' else f'{sh} T'


class PrintError(Exception):
    pass


def _z(n):
    n = int(n)
    return f"(of_Z O ({n})%Z)" if n < 0 else f"(of_Z O {n}%Z)"


def coq_expr(e):
    """SymPy expression -> Gallina term over the generic ops record `O` (notations of the header)."""
    e = sympy.sympify(e)
    if e.is_Symbol:
        return str(e)
    if e.is_Integer:
        n = int(e)
        if n == 0:
            return "(zero O)"
        if n == 1:
            return "(one O)"
        return _z(n)
    if e.is_Rational:
        return f"({_z(e.p)} / {_z(e.q)})"
    if e.is_Float:
        f = float(e)
        if not math.isfinite(f):
            raise PrintError(f"non-finite float {e}")
        r = sympy.Rational(*f.as_integer_ratio())
        if abs(float(r) - float(e)) > 0:
            raise PrintError(f"float {e} not exactly representable")
        return coq_expr(r)
    if e is sympy.pi:
        return "(pi_f O)"
    if e.is_Add:
        return "(" + " + ".join(coq_expr(a) for a in e.args) + ")"
    if e.is_Mul:
        return "(" + " * ".join(coq_expr(a) for a in e.args) + ")"
    if e.is_Pow:
        b, n = e.args
        if n.is_Integer:
            k = int(n)
            if k > 0:
                return "(" + " * ".join([coq_expr(b)] * k) + ")"
            if k < 0:
                return f"((one O) / {coq_expr(sympy.Pow(b, -k))})"
        if n.is_Rational and int(n.q) == 2:
            k = int(n.p)
            if k > 0:
                s = f"(sqrt_ O {coq_expr(b)})"
                return "(" + " * ".join([s] * k) + ")"
            else:
                return f"((one O) / {coq_expr(sympy.Pow(b, -n))})"
        raise PrintError(f"unsupported power {e}")
    fn = {sympy.sin: 'sin_', sympy.cos: 'cos_', sympy.tan: 'tan_', sympy.acos: 'acos_',
          sympy.asin: 'asin_', sympy.atan: 'atan_', sympy.Abs: 'abs_', sympy.floor: 'floor_',
          sympy.exp: 'exp_', sympy.log: 'ln_'}
    for k, v in fn.items():
        if isinstance(e, k):
            return f"({v} O {coq_expr(e.args[0])})"
    if isinstance(e, sympy.atan2):
        return f"(atan2_ O {coq_expr(e.args[0])} {coq_expr(e.args[1])})"
    raise PrintError(f"unsupported expression node {type(e).__name__}: {e}")


def tuple_pat(names):
    return "(" + ",".join(names) + ")"


def sym_input(name, sh):
    """symbols for one input of shape sh; returns (python value handed to the library, flat symbol list)"""
    shape = SHAPES[sh]
    if sh == 'S':
        s = sympy.Symbol(name, real=True)
        return s, [s]
    n = int(np.prod(shape))
    syms = [sympy.Symbol(f"{name}{i}" if len(shape) == 1 else f"{name}{i // shape[1]}{i % shape[1]}", real=True)
            for i in range(n)]
    arr = np.array(syms, dtype=object).reshape(shape)
    return arr, syms


def input_pattern(name, sh):
    shape = SHAPES[sh]
    if sh == 'S':
        return None
    if len(shape) == 1:
        return tuple_pat([f"{name}{i}" for i in range(shape[0])])
    return tuple_pat([tuple_pat([f"{name}{i}{j}" for j in range(shape[1])]) for i in range(shape[0])])


def to_object_array(res):
    """library result -> numpy object array of sympy expressions"""
    if isinstance(res, (sympy.Expr, int, float, np.integer, np.floating)):
        return np.array(sympy.sympify(res), dtype=object)
    if isinstance(res, sympy.MatrixBase):
        res = np.array(res.tolist(), dtype=object)
    a = np.asarray(res)
    if a.dtype != object:
        a = a.astype(object)
    return a


def output_term(arr, sh):
    shape = SHAPES[sh]
    if tuple(arr.shape) != shape:
        # tolerate (n,1) / (1,n) for vectors
        if len(shape) == 1 and arr.size == shape[0]:
            arr = arr.reshape(shape)
        else:
            raise PrintError(f"result shape {arr.shape} is not {shape}")
    if sh == 'S':
        return coq_expr(arr.item())
    if len(shape) == 1:
        return tuple_pat([coq_expr(x) for x in arr])
    return "(" + ",\n     ".join(tuple_pat([coq_expr(x) for x in row]) for row in arr) + ")"


HEADER = """(* GENERATED on every run by /verif/lib/symtrace.py from /repo's working tree -- do not edit.
   Definitions only; the theorems about them are in the fixed hand-written theories/Props files. *)
From Coq Require Import ZArith.
From SM Require Import Base.Ops.
Create HintDb smgen discriminated.
Section Gen.
Context {T : Type} (O : ops T).
Local Infix "+" := (add O). Local Infix "-" := (sub O). Local Infix "*" := (mul O). Local Infix "/" := (div O).
"""


class Trace:
    def __init__(self, name, inputs, out, term, fn, num_fn, sampler, tol, note):
        self.name, self.inputs, self.out, self.term = name, inputs, out, term
        self.fn, self.num_fn, self.sampler, self.tol, self.note = fn, num_fn, sampler, tol, note


class Gen:
    def __init__(self, prop):
        self.prop = prop
        self.traces = []
        self.failed = []      # (name, reason): entry points the tracer could not run symbolically

    def trace(self, name, inputs, fn, out=None, num_fn=None, sampler=None, post=None, tol=1e-11, note="",
              optional=False):
        """inputs: list of (argname, shape-name).  fn(*symbolic_args) is called on symbols.
        num_fn(*float_args) (default fn) gives the numeric result for Sym==Num."""
        vals, allsyms = [], []
        for an, sh in inputs:
            v, syms = sym_input(an, sh)
            vals.append(v)
            allsyms += syms
        try:
            res = fn(*vals)
            if post is not None:
                res = post(res)
            arr = to_object_array(res)
            if out is None:
                out = shape_name(arr.shape if arr.shape not in [(n, 1) for n in range(9)] + [(1, n) for n in range(9)]
                                 else (arr.size,))
            term = output_term(arr, out)
            free = set()
            for x in arr.flatten():
                free |= sympy.sympify(x).free_symbols
            extra = free - set(allsyms)
            if extra:
                raise PrintError(f"result mentions unknown symbols {extra}")
        except Exception as ex:  # noqa
            self.failed.append((name, f"{type(ex).__name__}: {ex}"))
            if optional:
                return None
            raise
        t = Trace(name, inputs, out, term, fn, num_fn or fn, sampler, tol, note)
        self.traces.append(t)
        return t

    def model(self, name, inputs, out, coq, module, num_fn, sampler=None, tol=1e-11, note=""):
        """register a HAND-WRITTEN generic model function (theories/Model/<module>.v, qualified name `coq`,
        first argument the ops record) for the numeric correspondence T-num: it is extracted with the traces,
        run on OCaml floats and compared with num_fn (the library call) on the same inputs.
        out: a shape name, 'B' (bool) or 'O:<shape>' (option; the library returning None / raising maps to None)"""
        t = Trace(name, inputs, out, None, None, num_fn, sampler, tol, note)
        t.coq, t.module = coq, module
        self.traces.append(t)
        return t

    # ------------------------------------------------------------------ emission
    def coq_text(self):
        out = [HEADER]
        for t in self.traces:
            if t.term is None:
                continue
            binders = " ".join(f"({an} : {coq_type(sh)})" for an, sh in t.inputs)
            lets = "".join(f"  let '{input_pattern(an, sh)} := {an} in\n" for an, sh in t.inputs if sh != 'S')
            if t.note:
                out.append(f"(* {t.note} *)\n")
            out.append(f"Definition {t.name} {binders} : {coq_type(t.out)} :=\n{lets}  {t.term}.\n\n")
        out.append("End Gen.\n")
        for t in self.traces:
            if t.term is None:
                continue
            out.append(f"Arguments {t.name} {{T}} O.\n#[export] Hint Unfold {t.name} : smgen.\n")
        return "".join(out)

    def extract_text(self, modname):
        names = " ".join(getattr(t, 'coq', None) or t.name for t in self.traces)
        mods = sorted({t.module for t in self.traces if getattr(t, 'module', None)})
        imp = "".join(f"From SM Require Import {m}.\n" for m in mods)
        return (f"{imp}From SMgen Require Import {modname}.\nRequire Extraction.\nRequire Import ExtrOcamlBasic.\n"
                f"Extraction Language OCaml.\nSet Extraction Output Directory \".\".\n"
                f"Extraction \"{modname.lower()}_ml.ml\" {names}.\n")

    def driver_text(self, modname):
        """OCaml driver: reads lines `name f1 f2 ...` (hex floats), prints result floats (%h)."""
        m = modname.lower() + "_ml"
        M = m[0].upper() + m[1:]
        lines = [DRIVER_PRELUDE.replace("@M@", M)]
        lines.append("let dispatch name (a : float array) : float list =\n  match name with\n")
        for t in self.traces:
            idx = 0
            args = []
            for an, sh in t.inputs:
                n = int(np.prod(SHAPES[sh])) if sh != 'S' else 1
                args.append(_ocaml_build(sh, idx))
                idx += n
            fname = (getattr(t, 'coq', None) or t.name).split('.')[-1]
            lines.append(f"  | \"{t.name}\" -> {_ocaml_flatten(t.out)} ({M}.{fname} fops {' '.join(args)})\n")
        lines.append("  | _ -> failwith (\"unknown trace \" ^ name)\n")
        lines.append(DRIVER_MAIN)
        return "".join(lines)


def _nest(items):
    """left-nested pairs like Coq's (a,b,c) = ((a,b),c)"""
    s = items[0]
    for x in items[1:]:
        s = f"({s}, {x})"
    return s


def _ocaml_build(sh, idx):
    shape = SHAPES[sh]
    if sh == 'S':
        return f"a.({idx})"
    if len(shape) == 1:
        return _nest([f"a.({idx + i})" for i in range(shape[0])])
    rows = []
    for i in range(shape[0]):
        rows.append(_nest([f"a.({idx + i * shape[1] + j})" for j in range(shape[1])]))
    return _nest(rows)


def _ocaml_flatten(sh):
    if sh == 'B':
        return "(fun b -> [if b then 1.0 else 0.0])"
    if sh.startswith('O:'):
        return f"(fun o -> match o with None -> raise Model_none | Some x -> {_ocaml_flatten(sh[2:])} x)"
    shape = SHAPES[sh]
    if sh == 'S':
        return "(fun x -> [x])"
    if len(shape) == 1:
        pat = _nest([f"x{i}" for i in range(shape[0])])
        return f"(fun {pat} -> [{'; '.join(f'x{i}' for i in range(shape[0]))}])"
    rows = [_nest([f"x{i}_{j}" for j in range(shape[1])]) for i in range(shape[0])]
    pat = _nest(rows)
    flat = "; ".join(f"x{i}_{j}" for i in range(shape[0]) for j in range(shape[1]))
    return f"(fun {pat} -> [{flat}])"


DRIVER_PRELUDE = """(* GENERATED driver: instantiates the extracted scalar-generic definitions with OCaml floats *)
open @M@
exception Model_none
let rec pos_to_float (p : positive) : float = match p with
  | XH -> 1.0 | XO q -> 2.0 *. pos_to_float q | XI q -> 2.0 *. pos_to_float q +. 1.0
let z_to_float (z : z) : float = match z with Z0 -> 0.0 | Zpos p -> pos_to_float p | Zneg p -> -. (pos_to_float p)
let fops : float ops = {
  zero = 0.0; one = 1.0; add = ( +. ); sub = ( -. ); mul = ( *. ); div = ( /. );
  neg = (fun x -> -. x); sqrt_ = sqrt; sin_ = sin; cos_ = cos; tan_ = tan; acos_ = acos; asin_ = asin;
  atan_ = atan; atan2_ = (fun y x -> Float.atan2 y x); abs_ = abs_float; floor_ = floor; exp_ = exp; ln_ = log;
  ltb = (fun x y -> x < y); leb = (fun x y -> x <= y); eqb = (fun x y -> x = y);
  of_Z = z_to_float; eps = epsilon_float; pi_f = 0x1.921fb54442d18p+1 }
"""

DRIVER_MAIN = """
let () =
  try
    while true do
      let line = input_line stdin in
      match String.split_on_char ' ' (String.trim line) with
      | [] | [""] -> ()
      | name :: rest ->
        let a = Array.of_list (List.map float_of_string (List.filter (fun s -> s <> "") rest)) in
        (try
          let r = dispatch name a in
          print_string (String.concat " " (List.map (Printf.sprintf "%h") r)); print_newline ()
        with Model_none -> print_string "NONE"; print_newline ()
           | e -> print_string ("ERR " ^ Printexc.to_string e); print_newline ())
    done
  with End_of_file -> ()
"""
