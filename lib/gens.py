"""Shared input generators (every random choice derives from the context's single PCG64)."""
import math
import numpy as np


def log_uniform(rng, lo, hi):
    return 10 ** rng.uniform(math.log10(lo), math.log10(hi))


def signed_mag(rng, lo, hi, n=None):
    if n is None:
        return log_uniform(rng, lo, hi) * rng.choice([-1.0, 1.0])
    return np.array([signed_mag(rng, lo, hi) for _ in range(n)])


def rand_unit(rng, n=3):
    while True:
        v = rng.normal(size=n)
        nv = np.linalg.norm(v)
        if nv > 1e-3:
            return v / nv


SPECIAL_ANGLES = [0.0, math.pi / 2, -math.pi / 2, math.pi, -math.pi, 2 * math.pi, math.pi / 4, 3 * math.pi / 4]


def angle(rng):
    """special values, tiny offsets from them, many turns, uniform"""
    r = rng.random()
    if r < 0.25:
        return float(rng.choice(SPECIAL_ANGLES))
    if r < 0.5:
        return float(rng.choice(SPECIAL_ANGLES)) + signed_mag(rng, 1e-12, 1e-1)
    if r < 0.6:
        return float(rng.integers(-160, 161)) * 2 * math.pi + rng.uniform(-math.pi, math.pi)
    return rng.uniform(-math.pi, math.pi)


def rot_from_axis_angle(axis, th):
    """independent Rodrigues (oracle side)"""
    w = np.asarray(axis, float)
    w = w / np.linalg.norm(w)
    K = np.array([[0, -w[2], w[1]], [w[2], 0, -w[0]], [-w[1], w[0], 0]])
    return np.eye(3) + math.sin(th) * K + (1 - math.cos(th)) * (K @ K)


def rand_rot(rng, mag=None):
    """rotation with magnitude: None -> [0,pi] incl. ends & near-ends"""
    if mag is None:
        r = rng.random()
        if r < 0.1:
            mag = 0.0
        elif r < 0.2:
            mag = math.pi
        elif r < 0.35:
            mag = log_uniform(rng, 1e-12, 1e-1)
        elif r < 0.5:
            mag = math.pi - log_uniform(rng, 1e-12, 1e-1)
        else:
            mag = rng.uniform(0, math.pi)
    r = rng.random()
    if r < 0.2:
        ax = np.eye(3)[rng.integers(3)] * rng.choice([-1.0, 1.0])
    else:
        ax = rand_unit(rng)
    return rot_from_axis_angle(ax, mag)


def rand_trans(rng, lo=1e-6, hi=1e6, n=3):
    if rng.random() < 0.1:
        return np.zeros(n)
    m = log_uniform(rng, lo, hi)
    return rand_unit(rng, n) * m if n > 1 else np.array([m])


def rand_se3(rng, tlo=1e-6, thi=1e6):
    T = np.eye(4)
    T[:3, :3] = rand_rot(rng)
    T[:3, 3] = rand_trans(rng, tlo, thi)
    return T


def rand_rot2(rng):
    th = angle(rng)
    return np.array([[math.cos(th), -math.sin(th)], [math.sin(th), math.cos(th)]])


def rand_se2(rng, tlo=1e-6, thi=1e6):
    T = np.eye(3)
    T[:2, :2] = rand_rot2(rng)
    T[:2, 2] = rand_trans(rng, tlo, thi, 2)
    return T
