import argparse
import importlib
import os
import sys
import traceback

sys.path.insert(0, os.path.dirname(os.path.dirname(os.path.abspath(__file__))))
from lib.core import Ctx  # noqa


def main():
    ap = argparse.ArgumentParser()
    ap.add_argument('prop')
    ap.add_argument('--tier', default=os.environ.get('VERIF_TIER', 'quick'))
    ap.add_argument('--replay', default=None)
    a = ap.parse_args()
    tier = os.environ.get('VERIF_TIER') or a.tier
    if tier not in ('quick', 'thorough'):
        tier = 'quick'
    seed = int(os.environ.get('VERIF_SEED', '0'))
    mod = importlib.import_module('props.' + a.prop)
    ctx = Ctx(a.prop, tier, seed)
    if a.replay:
        sys.exit(mod.replay(ctx, a.replay) if hasattr(mod, 'replay') else generic_replay(ctx, mod, a.replay))
    try:
        mod.run(ctx)
    except Exception:
        tb = traceback.format_exc()
        print(tb, file=sys.stderr)
        ctx.fail('harness:exception', 'the check could not complete on this tree: ' + tb[-1500:], {'traceback': tb}, no_input=True)
    sys.exit(ctx.finish())


def generic_replay(ctx, mod, path):
    """re-run the whole quick check and report whether the recorded key reproduces"""
    import json
    rec = json.load(open(path))
    key = rec.get('key') or ('obligation:' + rec.get('broken_obligation', ''))
    mod.run(ctx)
    keys = {f.key for f in ctx.findings} | {'obligation:' + o.name for o in ctx.obligations if o.ok is False}
    if key in keys:
        print(f"REPRODUCED {key}")
        return 1
    print(f"not reproduced: {key}")
    return 0


if __name__ == '__main__':
    main()
