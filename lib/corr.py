"""Sym==Num correspondence: generated Gallina text (extracted, run on OCaml floats) vs. the numeric
library call on the same arguments.  This checks the translator (printer + SymPy evaluation) and
that the symbolic and the float code paths of the library compute the same function."""
import math
import numpy as np
from .symtrace import SHAPES


def hexf(x):
    return float(x).hex()


def default_sample(rng, inputs):
    vals = []
    for an, sh in inputs:
        shape = SHAPES[sh]
        scale = 10 ** rng.uniform(-0.5, 0.5)
        v = rng.normal(size=shape) * scale if shape else float(rng.normal() * scale)
        vals.append(v)
    return vals


def flat(vals):
    out = []
    for v in vals:
        out += [float(x) for x in np.asarray(v, dtype=float).flatten()]
    return out


def parse_line(line):
    if line.startswith('NONE'):
        return 'NONE'
    if line.startswith('ERR'):
        return None
    return [float.fromhex(t) for t in line.split()]


def sym_num(ctx, gen, modname, ncases):
    """returns number of disagreements; records findings key corr:<trace>"""
    exe = ctx.build_driver(modname, gen.extract_text(modname), gen.driver_text(modname))
    lines, meta = [], []
    for t in gen.traces:
        for k in range(ncases):
            args = t.sampler(ctx.rng) if t.sampler else default_sample(ctx.rng, t.inputs)
            f = flat(args)
            lines.append(t.name + " " + " ".join(hexf(x) for x in f))
            meta.append((t, args))
    with ctx.timed('corr:run-model'):
        outs = ctx.run_driver(exe, lines)
    bad = 0
    with ctx.timed('corr:run-impl'):
        for (t, args), line in zip(meta, outs):
            got = parse_line(line)
            try:
                r = t.num_fn(*args)
                exp = 'NONE' if r is None else np.asarray(r, dtype=float).flatten()
            except Exception as ex:  # numeric path raises where symbolic path produced a value
                exp = 'NONE' if t.out.startswith('O:') else None
                err = f"{type(ex).__name__}: {ex}"
            ctx.corr['cases'] += 1
            ctx.case(('corr', t.name, tuple(flat(args))))
            ok = True
            if isinstance(exp, str) or isinstance(got, str):
                ok = isinstance(exp, str) and isinstance(got, str)
                detail = f"model={got} impl={exp}"
            elif exp is None or got is None or len(got) != len(exp):
                ok = False
                detail = f"model={got} impl={'raised ' + err if exp is None else list(exp)}"
            else:
                scale = max(1.0, float(np.max(np.abs(exp))) if len(exp) else 1.0)
                for g, e in zip(got, exp):
                    if math.isnan(g) and math.isnan(e):
                        continue
                    if not abs(g - e) <= t.tol * scale:
                        ok = False
                detail = f"model={got} impl={list(exp)}"
            if not ok:
                bad += 1
                ctx.corr['disagreements'] += 1
                ctx.fail(f"corr:{t.name}", f"generated model {t.name} and the numeric implementation disagree: {detail}",
                         {'trace': t.name, 'inputs_hex': [hexf(x) for x in flat(args)], 'detail': detail})
    ctx.corr['functions'] += len(gen.traces)
    ctx.sample({'kind': 'Sym==Num', 'line': lines[0][:200], 'model_out': outs[0][:200]})
    return bad
