"""Shared machinery of the checks: context, Coq / OCaml runners, known findings, evidence, verdict."""
import json
import os
import re
import subprocess
import sys
import time
import hashlib

VERIF = os.path.dirname(os.path.dirname(os.path.abspath(__file__)))
COQ = os.path.join(VERIF, 'coq')
# VERIF_SCRATCH redirects everything a run writes (generated Coq, compiled Props, evidence, replays) to another
# directory, and VERIF_REPO points the run at another checkout: used only to try the checks on scratch
# worktrees (seeded changes) without touching /repo, /verif/coq/gen or /verif/evidence.
SCRATCH = os.environ.get('VERIF_SCRATCH')
GEN = os.path.join(SCRATCH, 'gen') if SCRATCH else os.path.join(COQ, 'gen')
EVID = os.path.join(SCRATCH, 'evidence') if SCRATCH else os.path.join(VERIF, 'evidence')
REPO = os.environ.get('VERIF_REPO', '/repo')
COQ_FLAGS = ['-Q', os.path.join(COQ, 'theories'), 'SM', '-Q', GEN, 'SMgen']


def sh(cmd, timeout=600, cwd=None, input=None):
    t0 = time.time()
    try:
        p = subprocess.run(cmd, cwd=cwd, input=input, capture_output=True, text=True, timeout=timeout)
        return p.returncode, p.stdout, p.stderr, time.time() - t0
    except subprocess.TimeoutExpired as e:
        return 124, (e.stdout or b'').decode() if isinstance(e.stdout, bytes) else (e.stdout or ''), 'TIMEOUT', time.time() - t0


class Obligation:
    def __init__(self, name, file, kind='theorem'):
        self.name, self.file, self.kind = name, file, kind
        self.ok = None
        self.detail = ''


class Finding:
    """a failure of the property observed on the implementation (or a broken obligation)"""
    def __init__(self, key, what, replay=None, no_input=False):
        self.key, self.what, self.replay, self.no_input = key, what, replay or {}, no_input


class Ctx:
    def __init__(self, prop, tier='quick', seed=0):
        self.prop, self.tier, self.seed = prop, tier, seed
        self.t0 = time.time()
        self.obligations = []
        self.findings = []           # raw findings; classified at verdict time
        self.assumptions_out = {}    # theorem -> Print Assumptions text
        self.evaluations = 0
        self.nontrivial = set()
        self.samples = []
        self.stats = {}              # free-form counters for the evidence
        self.timings = {}
        self.notes = []
        self.corr = {'cases': 0, 'disagreements': 0, 'functions': 0}
        os.makedirs(GEN, exist_ok=True)
        import numpy as np
        self.rng = np.random.Generator(np.random.PCG64(seed))

    @property
    def thorough(self):
        return self.tier == 'thorough'

    def n(self, quick, thorough):
        return thorough if self.thorough else quick

    # ---------------------------------------------------------------- bookkeeping
    def timed(self, label):
        ctx = self

        class _T:
            def __enter__(self_):
                self_.t = time.time()

            def __exit__(self_, *a):
                ctx.timings[label] = round(ctx.timings.get(label, 0) + time.time() - self_.t, 2)
        return _T()

    def count(self, key, n=1):
        self.stats[key] = self.stats.get(key, 0) + n

    def case(self, sig=None, nontrivial=True):
        """record one evaluated case; sig identifies it for the distinct-nontrivial count"""
        self.evaluations += 1
        if nontrivial and sig is not None:
            self.nontrivial.add(hashlib.md5(repr(sig).encode()).hexdigest()[:16])

    def sample(self, s, limit=12):
        if len(self.samples) < limit:
            self.samples.append(s)

    def fail(self, key, what, replay=None, no_input=False):
        # keep the first finding per key (plus a count)
        self.count('fail:' + key)
        for f in self.findings:
            if f.key == key:
                return
        self.findings.append(Finding(key, what, replay, no_input))

    # ---------------------------------------------------------------- Coq
    def write_gen(self, fname, text):
        p = os.path.join(GEN, fname)
        with open(p, 'w') as f:
            f.write(text)
        return p

    def coqc(self, path, timeout=900):
        extra = []
        if not os.path.abspath(path).startswith(os.path.abspath(GEN)):
            # fixed source file (theories/Props/...): keep its compiled output out of the source tree
            os.makedirs(os.path.join(GEN, 'props_out'), exist_ok=True)
            extra = ['-o', os.path.join(GEN, 'props_out', os.path.basename(path)[:-2] + '.vo')]
        rc, out, err, dt = sh(['timeout', str(timeout), 'coqc', '-q'] + COQ_FLAGS + extra + [path], timeout=timeout + 30, cwd=COQ)
        return rc, out, err, dt

    def coq_eval(self, header, terms, name='cases', timeout=600, chunk=400):
        """evaluate closed Gallina terms with vm_compute inside Coq; returns one printed value (string) per term.
        header: Coq text (imports, Open Scope).  Used for model-vs-implementation correspondence of the
        list/Z/finite-table models."""
        res = []
        for c in range(0, len(terms), chunk):
            part = terms[c:c + chunk]
            body = header + "\nSet Printing Width 1000000. Set Printing Depth 1000000.\n" + \
                "".join(f"Eval vm_compute in ({t}).\n" for t in part)
            p = self.write_gen(f"{name}_{self.prop}_{c // chunk}.v", body)
            with self.timed('coq_eval'):
                rc, out, err, dt = self.coqc(p, timeout)
            if rc != 0:
                raise RuntimeError('coq_eval failed: ' + err[-1500:])
            vals = re.findall(r'^\s*= (.*?)\n\s*: ', out, re.M | re.S)
            if len(vals) != len(part):
                raise RuntimeError(f'coq_eval: expected {len(part)} values, parsed {len(vals)}')
            res += [' '.join(v.split()) for v in vals]
        return res

    def prove(self, vfile, timeout=900):
        """compile a fixed Props file; every Theorem/Lemma/Example/Corollary in it is an obligation.
        On failure the theorem containing the error line (and all later ones) are undischarged."""
        path = vfile if os.path.isabs(vfile) else os.path.join(COQ, vfile)
        src = open(path).read()
        decls = [(m.start(), m.group(2)) for m in re.finditer(r'^(Theorem|Lemma|Example|Corollary|Fact)\s+([A-Za-z0-9_\']+)', src, re.M)]
        line_of = lambda pos: src.count('\n', 0, pos) + 1
        obs = [Obligation(name, os.path.relpath(path, VERIF)) for _, name in decls]
        bad = audit_source(src)
        if bad:
            # a declared axiom / admitted proof / disabled kernel check: nothing in the file is believed
            for o in obs:
                o.ok = False
                o.detail = 'audit: forbidden declaration in %s: %s' % (os.path.basename(path), bad)
            self.obligations += obs
            return False, obs, 'audit: ' + bad
        with self.timed('prove'):
            rc, out, err, dt = self.coqc(path, timeout)
        first_bad = None
        if rc != 0:
            m = re.search(r'line (\d+), characters', err)
            errline = int(m.group(1)) if m else 0
            for i, (pos, name) in enumerate(decls):
                if line_of(pos) <= errline:
                    first_bad = i
            if first_bad is None:
                first_bad = 0
        for i, o in enumerate(obs):
            if first_bad is None:
                o.ok = True
            elif i < first_bad:
                o.ok = True
            elif i == first_bad:
                o.ok = False
                o.detail = (err.strip()[-1500:] if err else 'coqc failed')
            else:
                o.ok = False
                o.detail = 'not reached: an earlier theorem in the same file failed'
        self.obligations += obs
        # Print Assumptions output
        pa = _parse_assumptions(out)
        names = re.findall(r'^Print Assumptions\s+([A-Za-z0-9_\']+)', src, re.M)
        self.assumptions_out[os.path.basename(path)] = {(names[i] if i < len(names) else k): v
                                                         for i, (k, v) in enumerate(pa.items())}
        self.timings['coqc:' + os.path.basename(path)] = round(dt, 2)
        # every axiom a property theorem rests on must be one the standard library itself declares
        foreign = sorted({a for v in pa.values() if v.startswith('Axioms: ')
                          for a in v[len('Axioms: '):].split(', ') if not STDLIB_AXIOM.match(a)})
        if foreign and rc == 0:
            for o in obs:
                o.ok = False
                o.detail = 'Print Assumptions reports axioms not declared by the standard library: ' + ', '.join(foreign)
            return False, obs, 'foreign axioms: ' + ', '.join(foreign)
        return rc == 0, obs, err

    # ---------------------------------------------------------------- OCaml
    def build_driver(self, modname, extract_text, driver_text):
        """extract generated definitions to OCaml and build the float driver; returns path of the executable"""
        bdir = os.path.join(GEN, 'ml_' + modname)
        os.makedirs(bdir, exist_ok=True)
        ev = os.path.join(bdir, 'Extract_%s.v' % modname)
        with open(ev, 'w') as f:
            f.write(extract_text)
        with self.timed('extract'):
            rc, out, err, dt = sh(['timeout', '600', 'coqc', '-q'] + COQ_FLAGS + [ev], cwd=bdir, timeout=630)
        if rc != 0:
            raise RuntimeError('extraction failed: ' + err[-2000:])
        m = modname.lower() + '_ml'
        with open(os.path.join(bdir, 'driver.ml'), 'w') as f:
            f.write(driver_text)
        with self.timed('ocamlopt'):
            rc, out, err, dt = sh(['ocamlfind', 'ocamlopt', '-w', '-a', '-O2' if False else '-inline', '0', m + '.mli', m + '.ml', 'driver.ml', '-o', 'driver'],
                                  cwd=bdir, timeout=600)
        if rc != 0:
            raise RuntimeError('ocamlopt failed: ' + err[-2000:])
        return os.path.join(bdir, 'driver')

    def run_driver(self, exe, lines, timeout=600):
        rc, out, err, dt = sh([exe], input="\n".join(lines) + "\n", timeout=timeout)
        if rc != 0:
            raise RuntimeError('driver failed: ' + err[-1000:])
        return out.strip('\n').split('\n')

    # ---------------------------------------------------------------- verdict
    def finish(self):
        known_keys = load_known(self.prop)
        # broken obligations become findings (no failing input) unless an input-level finding exists
        broken = [o for o in self.obligations if o.ok is False and not o.detail.startswith('not reached')]
        violations, knowns = [], []
        for f in self.findings:
            if f.key in known_keys:
                knowns.append(f)
            else:
                violations.append(f)
        os.makedirs(EVID, exist_ok=True)
        rdir = os.path.join(EVID, 'replay')
        os.makedirs(rdir, exist_ok=True)
        lines = []
        for f in knowns:
            lines.append(f"KNOWN-FINDING: property={self.prop} {f.key}: {known_keys[f.key].get('what', f.what)}")
        input_violations = [f for f in violations if not f.no_input]
        vio_count = 0
        for f in violations:
            p = os.path.join(rdir, f"{self.prop}_{_slug(f.key)}.json")
            json.dump({'property': self.prop, 'key': f.key, 'what': f.what, 'seed': self.seed, 'tier': self.tier,
                       'replay': f.replay}, open(p, 'w'), indent=1, default=str)
            suffix = ' no-failing-input-found' if f.no_input else ''
            lines.append(f"VIOLATION property={self.prop} replay={p}{suffix}")
            vio_count += 1
        for o in broken:
            # a broken proof obligation: the property is no longer shown to hold
            p = os.path.join(rdir, f"{self.prop}_obligation_{_slug(o.name)}.json")
            related = [f.key for f in input_violations]
            json.dump({'property': self.prop, 'broken_obligation': o.name, 'file': o.file, 'coq_error': o.detail,
                       'failing_inputs_found_by_search': related, 'seed': self.seed, 'tier': self.tier}, open(p, 'w'), indent=1)
            suffix = '' if related else ' no-failing-input-found'
            lines.append(f"VIOLATION property={self.prop} replay={p}{suffix}")
            vio_count += 1
        # known findings that no longer reproduce are reported informally (not an error)
        hit = {f.key for f in knowns}
        for k in known_keys:
            if k not in hit:
                self.notes.append(f"known finding {k} did not reproduce in this run")
        n_ob = len(self.obligations)
        n_ok = sum(1 for o in self.obligations if o.ok)
        tb = ["Coq 8.16.1 kernel (coqc, full .vo build; vm_compute where stated; no native_compute)",
              "translator: /verif/lib/symtrace.py (SymPy automatic evaluation + printer), checked by the Sym==Num correspondence",
              "extraction: ExtrOcamlBasic only (Extract Inductive bool/option/list/prod/unit/sumbool), no Extract Constant; OCaml 4.13.1 float driver; libm",
              "CPython 3.12 / NumPy / SymPy running /repo's working tree"]
        byax = {}
        for fn, a in self.assumptions_out.items():
            for thm, ax in a.items():
                byax.setdefault(ax, []).append(thm)
        for ax, thms in byax.items():
            tb.append(f"Print Assumptions -> {ax}  [for: {', '.join(thms)}]")
        tb += list(getattr(self, 'trusted_extra', []))
        ev = {
            'property_id': self.prop, 'tier': self.tier, 'seed': self.seed, 'level': 'proof',
            'coverage': {
                'obligations': n_ob, 'discharged': n_ok,
                'checker_cmd': 'coqc -q -Q coq/theories SM -Q coq/gen SMgen <gen/*.v, theories/Props/%s*.v> (via ./check %s)' % (self.prop, self.prop),
                'trusted_base': tb,
                'evaluations': self.evaluations, 'distinct_nontrivial': len(self.nontrivial),
                'rule': getattr(self, 'rule', ''),
                'samples': self.samples,
                'obligation_names': [o.name + ('' if o.ok else ' [FAILED]') for o in self.obligations],
                'correspondence': self.corr,
                'stats': self.stats,
                'known_findings_hit': sorted(hit),
                'notes': self.notes,
                'timings_s': self.timings,
            },
            'assumptions': getattr(self, 'assumptions', []),
            'wall_s': round(time.time() - self.t0, 2),
            'violations': vio_count,
        }
        json.dump(ev, open(os.path.join(EVID, self.prop + '.json'), 'w'), indent=1, default=str)
        for l in lines:
            print(l)
        print(f"[{self.prop}] obligations {n_ok}/{n_ob} discharged; evaluations {self.evaluations}; "
              f"correspondence cases {self.corr['cases']} disagreements {self.corr['disagreements']}; "
              f"known findings {len(knowns)}; violations {vio_count}; {ev['wall_s']} s")
        return 1 if vio_count else 0


def load_known(prop):
    """known findings of one property: /verif/known_findings.json (the committed file); never written at run time"""
    kf_path = os.path.join(VERIF, 'known_findings.json')
    known = json.load(open(kf_path)) if os.path.exists(kf_path) else {'findings': []}
    items = list(known.get('findings', []))
    # known/Cnn.json are the per-property SOURCES of that file (tools/merge_known.py); only the merged,
    # committed file is consulted at run time
    return {k['key']: k for k in items if k.get('property') == prop and k.get('status', 'known') == 'known'}


STDLIB_AXIOM = re.compile(r"^(ClassicalDedekindReals\.|Classical_Prop\.|classic$|FunctionalExtensionality\.|functional_extensionality|"
                          r"PrimInt63\.|Uint63\.|PrimFloat\.|FloatAxioms\.|Eqdep\.|JMeq\.|ProofIrrelevance\.|proof_irrelevance$|"
                          r"ClassicalEpsilon\.|ClassicalUniqueChoice\.|ClassicalChoice\.|ChoiceFacts\.|Rdefinitions\.|Raxioms\.|"
                          r"PropExtensionality\.|IndefiniteDescription\.|Epsilon\.|Description\.)")

_FORBIDDEN = re.compile(r"\b(Admitted|admit|Axiom|Axioms|Parameter|Parameters|Conjecture|Conjectures|Admit Obligations|"
                        r"Unset Guard Checking|Unset Positivity Checking|Unset Universe Checking|bypass_check|native_compute)\b")


def audit_source(src):
    """forbidden declarations in a Coq source (comments and Print Assumptions lines ignored); '' when clean"""
    out, depth, i = [], 0, 0
    while i < len(src):                      # strip (possibly nested) comments
        if src.startswith('(*', i):
            depth += 1; i += 2
        elif src.startswith('*)', i) and depth:
            depth -= 1; i += 2
        else:
            if not depth:
                out.append(src[i])
            i += 1
    code = ''.join(out)
    hits = [m.group(0) for m in _FORBIDDEN.finditer(code)]
    if re.search(r'^\s*(Variable|Variables|Hypothesis|Hypotheses)\b', code, re.M) and not re.search(r'^\s*Section\b', code, re.M):
        hits.append('Variable/Hypothesis outside a Section')
    return ', '.join(sorted(set(hits)))


def _slug(s):
    return re.sub(r'[^A-Za-z0-9_.-]+', '_', s)[:120]


def _parse_assumptions(out):
    """map theorem name -> axioms text from coqc stdout; relies on the convention that each
    `Print Assumptions thm.` in the Props files directly follows the theorem, in order."""
    res = {}
    blocks = re.split(r'\n(?=Closed under the global context|Axioms:)', '\n' + out)
    k = 0
    for b in blocks:
        b = b.strip()
        if b.startswith('Closed under'):
            res[f'#{k}'] = 'Closed under the global context'
            k += 1
        elif b.startswith('Axioms:'):
            names = re.findall(r'^([A-Za-z_][A-Za-z0-9_.\']*)\s*:', b[len('Axioms:'):], re.M)
            res[f'#{k}'] = 'Axioms: ' + ', '.join(sorted(set(names)))
            k += 1
    return res
