"""Refactoring-insensitive threshold summary ("T-soft"), the fallback of the per-property T-const passes.

The T-const passes compare the guard structure of a modelled function with the one its hand-written Coq model mirrors.
That comparison is syntactic: an independently written behaviour-preserving refactoring (helpers extracted, early
returns, a `for` turned into a `while`, locals renamed/hoisted) changes it although every property still holds and the
hand model still corresponds.  What the theorems really depend on from the source text are the NUMERIC THRESHOLDS
(`k * _eps`, float literals in ordering comparisons, `tol=` defaults); everything else of a hand model is tied by the
execution correspondence (extracted model vs implementation on the same inputs).

So when a structural comparison fails, the pass asks this module whether the threshold multiset of the function --
taken over the function AND the transitive closure of the same-module functions / same-class methods it calls (so that
a guard moved into an extracted helper is still seen) -- equals the multiset recorded in props/tsoft_baseline.json for the
tree the model was last aligned with.  Equal: the thresholds the theorems were proved for are still the ones in the
source; the difference is reported as a note, the model keeps the recorded constants and the numeric correspondence is
escalated to its thorough size.  Different (a threshold moved, changed value or comparison operator, appeared or
disappeared): the pass fails closed as before.

The baseline file is written by tools/mk_tsoft_baseline.py from /repo HEAD when a model is (re-)aligned; never at run time.
"""
import ast
import copy
import json
import os

HERE = os.path.dirname(os.path.abspath(__file__))
BASELINE = os.path.join(HERE, '..', 'props', 'tsoft_baseline.json')
ORDER = {ast.Lt: 'Lt', ast.LtE: 'LtE', ast.Gt: 'Gt', ast.GtE: 'GtE'}
MIRROR = {'Lt': 'Gt', 'Gt': 'Lt', 'LtE': 'GtE', 'GtE': 'LtE'}


def module_funcs(path):
    """qualified name -> FunctionDef for module-level functions ('f') and methods ('C.m')"""
    tree = ast.parse(open(path).read())
    out = {}
    for n in tree.body:
        if isinstance(n, (ast.FunctionDef, ast.AsyncFunctionDef)):
            out[n.name] = n
        elif isinstance(n, ast.ClassDef):
            for m in n.body:
                if isinstance(m, (ast.FunctionDef, ast.AsyncFunctionDef)):
                    out[n.name + '.' + m.name] = m
    return out


def closure(funcs, qual, stop=()):
    """the function `qual` and every same-module function / same-class method reachable from it by calls written as
    `name(..)`, `self.name(..)`, `cls.name(..)`, `Class.name(..)`; functions in `stop` (modelled separately) are not entered"""
    cls = qual.split('.')[0] if '.' in qual else None
    seen, todo = [], [qual]
    while todo:
        q = todo.pop()
        if q in seen or q not in funcs:
            continue
        seen.append(q)
        for n in ast.walk(funcs[q]):
            # a helper may be called directly or be selected first (`extract = _helper_xyz` ... `extract(R)`): every reference counts
            f = n.func if isinstance(n, ast.Call) else n
            if not isinstance(f, (ast.Name, ast.Attribute)) or not isinstance(getattr(f, 'ctx', None), ast.Load):
                continue
            cand = []
            if isinstance(f, ast.Name):
                cand.append(f.id)
            elif isinstance(f, ast.Attribute) and isinstance(f.value, ast.Name):
                c = q.split('.')[0] if '.' in q else cls
                if f.value.id in ('self', 'cls', 'left', 'right') and c:
                    cand.append(c + '.' + f.attr)
                cand.append(f.value.id + '.' + f.attr)
            for c in cand:
                if c in funcs and c not in seen and c not in stop and c != qual:
                    todo.append(c)
    return [funcs[q] for q in seen]


def _inline_single(fn):
    """copy of fn in which locals assigned exactly once by `name = expr` are inlined at their uses (depth-limited)"""
    fn = copy.deepcopy(fn)
    params = {a.arg for a in fn.args.args + fn.args.kwonlyargs}
    stores, simple = {}, {}
    for n in ast.walk(fn):
        if isinstance(n, ast.Name) and isinstance(n.ctx, ast.Store):
            stores[n.id] = stores.get(n.id, 0) + 1
        if isinstance(n, ast.Assign) and len(n.targets) == 1 and isinstance(n.targets[0], ast.Name):
            simple.setdefault(n.targets[0].id, []).append(n.value)
        if isinstance(n, ast.AugAssign) and isinstance(n.target, ast.Name):
            stores[n.target.id] = stores.get(n.target.id, 0) + 1
    single = {k: v[0] for k, v in simple.items() if stores.get(k) == 1 and len(v) == 1 and k not in params}

    def inl(e, depth):
        class T(ast.NodeTransformer):
            def visit_Name(self, n):
                if isinstance(n.ctx, ast.Load) and n.id in single and depth < 6:
                    return inl(copy.deepcopy(single[n.id]), depth + 1)
                return n
        return T().visit(e)
    return inl(fn, 0), params


def _defaults(fn):
    a = fn.args
    d = {}
    for arg, val in zip(a.args[len(a.args) - len(a.defaults):], a.defaults):
        if isinstance(val, ast.Constant) and isinstance(val.value, (int, float)) and not isinstance(val.value, bool):
            d[arg.arg] = val.value
    for arg, val in zip(a.kwonlyargs, a.kw_defaults):
        if isinstance(val, ast.Constant) and isinstance(val.value, (int, float)) and not isinstance(val.value, bool):
            d[arg.arg] = val.value
    return d


def _thr(e, dflt):
    """a description of e when it is a threshold expression (k*_eps, float literal, tol parameter), else None"""
    if isinstance(e, ast.BinOp) and isinstance(e.op, ast.Mult):
        for a, b in ((e.left, e.right), (e.right, e.left)):
            if isinstance(b, ast.Name) and b.id == '_eps':
                if isinstance(a, ast.Constant):
                    return f"{a.value!r}*eps"
                if isinstance(a, ast.Name) and a.id in dflt:
                    return f"{a.id}={dflt[a.id]!r}*eps"
                return f"({ast.unparse(a)})*eps"
    if isinstance(e, ast.Name) and e.id == '_eps':
        return "1*eps"
    if isinstance(e, ast.Constant) and isinstance(e.value, float):
        return repr(e.value)
    if isinstance(e, ast.Name) and e.id in dflt and isinstance(dflt[e.id], float):
        return f"{e.id}={dflt[e.id]!r}"
    return None


def thresholds(nodes):
    """sorted multiset (list of strings) of the numeric thresholds of a list of FunctionDef nodes"""
    out = []
    root_dflt = _defaults(nodes[0]) if nodes else {}
    for fn0 in nodes:
        fn, params = _inline_single(fn0)
        own = _defaults(fn0)
        # a helper that receives the caller's `tol` as a plain parameter of the same name: the value is the caller's default
        dflt = dict({k: v for k, v in root_dflt.items() if k in params and fn0 is not nodes[0]}, **own)
        for k, v in own.items():
            if 'tol' in k.lower() or isinstance(v, float):
                out.append(f"default {k}={v!r}")
        used = set()
        for n in ast.walk(fn):
            if isinstance(n, ast.Compare):
                operands = [n.left] + list(n.comparators)
                for i, op in enumerate(n.ops):
                    o = ORDER.get(type(op))
                    if o is None:
                        continue
                    l, r = operands[i], operands[i + 1]
                    tl, tr = _thr(l, dflt), _thr(r, dflt)
                    if tr is not None:
                        out.append(f"cmp {o} {tr}")
                        used.update(id(x) for x in ast.walk(r))
                    elif tl is not None:
                        out.append(f"cmp {MIRROR[o]} {tl}")
                        used.update(id(x) for x in ast.walk(l))
        # every other use of _eps (passed as an argument, stored, ...)
        parents = {}
        for n in ast.walk(fn):
            for c in ast.iter_child_nodes(n):
                parents[id(c)] = n
        inlined_defs = set()       # `tol = 10 * _eps` whose only role is to be inlined at its uses: already counted there
        for n in ast.walk(fn):
            if isinstance(n, ast.Assign) and len(n.targets) == 1 and isinstance(n.targets[0], ast.Name) and n.targets[0].id not in params:
                nm = n.targets[0].id
                nstores = sum(1 for x in ast.walk(fn0) if isinstance(x, ast.Name) and x.id == nm and isinstance(x.ctx, ast.Store))
                nloads = sum(1 for x in ast.walk(fn0) if isinstance(x, ast.Name) and x.id == nm and isinstance(x.ctx, ast.Load))
                if nstores == 1 and nloads >= 1:
                    inlined_defs.update(id(x) for x in ast.walk(n.value))
        for n in ast.walk(fn):
            if isinstance(n, ast.Name) and n.id == '_eps' and id(n) not in used and id(n) not in inlined_defs:
                p = parents.get(id(n))
                while p is not None and isinstance(p, ast.BinOp) and isinstance(parents.get(id(p)), ast.BinOp):
                    p = parents.get(id(p))
                out.append("eps-use " + (ast.unparse(p) if isinstance(p, ast.expr) else '_eps'))
            if isinstance(n, ast.keyword) and n.arg and 'tol' in n.arg.lower() and isinstance(n.value, ast.Constant):
                out.append(f"kw {n.arg}={n.value.value!r}")
    return sorted(out)


def summary(repo, relpath, qual, stop=()):
    funcs = module_funcs(os.path.join(repo, relpath))
    if qual not in funcs:
        return None
    return thresholds(closure(funcs, qual, stop))


def load_baseline():
    with open(BASELINE) as f:
        return json.load(f)


def same_thresholds(repo, prop, relpath, qual, stop=()):
    """(True/False, found, expected): does the threshold multiset of `qual` (+ helper closure) equal the recorded one"""
    base = load_baseline().get(prop, {}).get(relpath + '::' + qual)
    found = summary(repo, relpath, qual, stop)
    # compared as SETS: a refactoring may merge three identical threshold tests into one shared predicate, or unfold one into several
    return (base is not None and found is not None and sorted(set(found)) == sorted(set(base))), found, base
