#!/bin/bash
# Build the fixed part of the Coq development (full .vo build, no -vos) from files on disk only,
# after auditing the sources for declared axioms / admitted proofs / disabled kernel checks.
set -e
here="$(cd "$(dirname "$0")" && pwd)"
"$here/tools/audit.sh"
cd "$here/coq"
coq_makefile -f _CoqProject -o Makefile.coq >/dev/null
timeout 3000 make -f Makefile.coq -j16
