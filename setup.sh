#!/bin/bash
# Build the fixed part of the Coq development (full .vo build, no -vos) from files on disk only.
set -e
cd "$(dirname "$0")/coq"
coq_makefile -f _CoqProject -o Makefile.coq >/dev/null
timeout 3000 make -f Makefile.coq -j16
