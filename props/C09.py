"""C09 -- Sequence broadcasting: element-wise results and strict length rules.

Kind-B property (no Reals).  Pipeline:
  prove       theories/Props/C09.v   (theorems about the hand model SM.Model.C09_Broadcast: binop, op2, unop,
              accessor shapes, pose_interp; for any lengths / element types / element operation)
  correspond  (T-seq) the REAL helpers SMUserList.binop, SMPose._op2, SMUserList.unop are called with a tagging
              operation on real objects of every length 0..6 (x scalar / same-class / foreign right operand,
              x list1) and must return exactly what `Eval vm_compute` of the model returns;
              the accessor shapes and pose_interp are tied the same way through the method grid
  oracle      every list-capable class x operator x (m, n) in 1..5 x 1..5 (exhaustive, every run) with
              distinguishable elements: element k of the result against the single-valued operation on the k-th
              elements, the decoded (left index, right index) pattern against the Coq model's, ValueError on
              mismatch; every per-value accessor / unary method x M in 1..5 against the per-element call.
"""
import math
import operator
import re
import warnings
import numpy as np

warnings.filterwarnings('ignore')
from spatialmath import base, SO2, SE2, SO3, SE3, Quaternion, UnitQuaternion, Twist2, Twist3  # noqa: E402
from spatialmath.smuserlist import SMUserList  # noqa: E402
from spatialmath.super_pose import SMPose  # noqa: E402

CLASSES = {'SO2': SO2, 'SE2': SE2, 'SO3': SO3, 'SE3': SE3, 'Quaternion': Quaternion,
           'UnitQuaternion': UnitQuaternion, 'Twist2': Twist2, 'Twist3': Twist3}
POSES = ('SO2', 'SE2', 'SO3', 'SE3')
NMAX = 6                                  # 1..5 is the property's range; 6 is added so that the length also coincides with the
LENS = tuple(range(1, NMAX + 1))          # element dimension of twists (6), besides quaternions (4) and 3x3 matrices (3)
COQ_HEADER = ("From Coq Require Import List Arith.\nFrom SM Require Import Model.C09_Broadcast.\n"
              "Import ListNotations.\n")


# --------------------------------------------------------------------------------------------- elements
def rot3(rng):
    """generic rotation, angle in (0.4, 2.4): away from the identity / half-turn branches of log, angvec, rpy, eul"""
    ax = rng.normal(size=3)
    ax /= np.linalg.norm(ax)
    th = rng.uniform(0.4, 2.4)
    K = np.array([[0, -ax[2], ax[1]], [ax[2], 0, -ax[0]], [-ax[1], ax[0], 0]])
    return np.eye(3) + math.sin(th) * K + (1 - math.cos(th)) * (K @ K)


def elem(cn, rng):
    """one generic element value of class cn (distinct from every other draw with probability 1)"""
    if cn == 'SO2':
        th = rng.uniform(0.3, 2.8) * rng.choice([-1, 1])
        return np.array([[math.cos(th), -math.sin(th)], [math.sin(th), math.cos(th)]])
    if cn == 'SE2':
        T = np.eye(3)
        T[:2, :2] = elem('SO2', rng)
        T[:2, 2] = rng.uniform(0.2, 2.0, size=2) * rng.choice([-1, 1], size=2)
        return T
    if cn == 'SO3':
        return rot3(rng)
    if cn == 'SE3':
        T = np.eye(4)
        T[:3, :3] = rot3(rng)
        T[:3, 3] = rng.uniform(0.2, 2.0, size=3) * rng.choice([-1, 1], size=3)
        return T
    if cn == 'Quaternion':
        return rng.uniform(0.2, 2.0, size=4) * rng.choice([-1, 1], size=4)
    if cn == 'UnitQuaternion':
        th = rng.uniform(0.4, 2.4)
        ax = rng.normal(size=3)
        ax /= np.linalg.norm(ax)
        return np.r_[math.cos(th / 2), math.sin(th / 2) * ax]
    if cn == 'Twist3':
        w = rng.normal(size=3)
        w *= rng.uniform(0.3, 1.4) / np.linalg.norm(w)
        return np.r_[rng.uniform(0.2, 1.5, size=3) * rng.choice([-1, 1], size=3), w]
    if cn == 'Twist2':
        return np.r_[rng.uniform(0.2, 1.5, size=2) * rng.choice([-1, 1], size=2), rng.uniform(0.3, 1.4) * rng.choice([-1, 1])]
    raise KeyError(cn)


def mk(cn, arrays):
    """an object of class cn holding the given element values (always through the list form of the constructor)"""
    cls = CLASSES[cn]
    arrays = [np.array(a, dtype=float) for a in arrays]
    if cn in POSES:
        return cls(arrays, check=False)
    return cls(arrays)


def singles(obj):
    """the single-valued objects X[i]"""
    return [obj[i] for i in range(len(obj))]


def hexl(a):
    return [float(x).hex() for x in np.asarray(a, dtype=float).flatten()]


# --------------------------------------------------------------------------------------------- normalisation
def vals(r):
    """the values a result holds, as a list (a bare array / scalar / bool is ONE value)"""
    if isinstance(r, SMUserList):
        return [np.asarray(x) for x in r.data]
    if isinstance(r, (list, tuple)):
        return list(r)
    return [r]


def same(x, y, tol=1e-9):
    if isinstance(x, SMUserList) or isinstance(y, SMUserList):
        if not (isinstance(x, SMUserList) and isinstance(y, SMUserList)) or len(x) != len(y):
            return False
        return all(same(a, b, tol) for a, b in zip(x.data, y.data))
    if isinstance(x, (bool, np.bool_)) or isinstance(y, (bool, np.bool_)):
        return isinstance(x, (bool, np.bool_)) and isinstance(y, (bool, np.bool_)) and bool(x) == bool(y)
    if isinstance(x, (list, tuple)) and isinstance(y, (list, tuple)):
        return len(x) == len(y) and all(same(a, b, tol) for a, b in zip(x, y))
    if x is None or y is None or isinstance(x, str) or isinstance(y, str):
        return type(x) is type(y) and x == y
    try:
        a, b = np.asarray(x, dtype=float), np.asarray(y, dtype=float)
    except Exception:
        return False
    a, b = np.squeeze(a), np.squeeze(b)
    if a.shape != b.shape:
        return False
    if not (np.all(np.isfinite(a)) and np.all(np.isfinite(b))):
        return bool(np.array_equal(a, b, equal_nan=True))
    return bool(np.all(np.abs(a - b) <= tol * (1 + np.abs(b))))


def exn_name(ex):
    return type(ex).__name__


def pick(k, n):
    return 0 if n == 1 else k


def blen(m, n):
    return n if m == 1 else m


# --------------------------------------------------------------------------------------------- Coq model table
def coq_list(tags):
    return '[' + '; '.join(str(t) for t in tags) + ']'


class ModelTable:
    """results of the Coq model on tag lists, computed once per run by vm_compute"""
    def __init__(self, ctx, maxlen=6):
        self.terms, self.keys = [], []
        self.maxlen = maxlen
        P = '(@pair nat nat)'
        for m in range(maxlen + 1):
            L = coq_list(range(m))
            for n in range(maxlen + 1):
                R = coq_list(range(100, 100 + n))
                for l1 in ('true', 'false'):
                    self.add(('binop', l1 == 'true', m, n), f"binop {P} {l1} {L} (Seq {R})")
                self.add(('op2', m, n), f"op2 {P} {L} (SameClass {R})")
            for l1 in ('true', 'false'):
                self.add(('binop', l1 == 'true', m, 's'), f"binop {P} {l1} {L} (Scalar 500)")
            self.add(('op2', m, 's'), f"op2 {P} {L} (ScalarLike 500)")
            self.add(('op2', m, 'f'), f"op2 {P} {L} (@Foreign nat)")
            self.add(('unop', m), f"unop S {L}")
            self.add(('acc_branch1', m), f"acc_branch1 S {L}")
            self.add(('acc_map_unwrap', m), f"acc_map_unwrap S {L}")
            self.add(('acc_map', m), f"acc_map S {L}")
            for k in range(maxlen + 1):
                self.add(('interp', m, k), f"pose_interp {P} {L} {coq_list(range(100, 100 + k))}")
        out = ctx.coq_eval(COQ_HEADER, self.terms, name='model')
        self.val = dict(zip(self.keys, out))
        ctx.stats['model:terms-evaluated'] = len(self.terms)

    def add(self, key, term):
        self.keys.append(key)
        self.terms.append(term)

    def __getitem__(self, k):
        return self.val[k]

    def pairs(self, key):
        """('ok', [(i, j), ...]) | ('err', kind) | ('none',) with right tags shifted back by 100 (scalar -> 's')"""
        return parse_model(self.val[key])


def parse_model(s):
    if s.startswith('Err'):
        return ('err', s.split()[1])
    if 'PNone' in s:
        return ('none',)
    prs = [(int(a), ('s' if int(b) == 500 else int(b) - 100)) for a, b in re.findall(r'\((\d+), (\d+)\)', s)]
    return ('ok', prs)


def coq_fmt_pairs(kind, prs):
    """print a Python-side observation exactly as Coq prints the model value"""
    ps = '; '.join(f"({a}, {b})" for a, b in prs)
    if kind == 'bare':
        return f"Ok (Bare ({prs[0][0]}, {prs[0][1]}))"
    if kind == 'list':
        return f"Ok (PList [{ps}])"
    if kind == 'none':
        return "Ok PNone"
    return f"Err {kind}"


# --------------------------------------------------------------------------------------------- T-seq: the helpers
def tag_obj(cn, tags):
    """object of class cn whose element i carries tags[i] in its first entry (not valid group elements: the helpers
    never look at the values, only hand them to op)"""
    shp = {'SO2': (2, 2), 'SE2': (3, 3), 'SO3': (3, 3), 'SE3': (4, 4), 'Quaternion': (4,), 'UnitQuaternion': (4,),
           'Twist3': (6,), 'Twist2': (3,)}[cn]
    o = CLASSES[cn].Empty()
    for t in tags:
        a = np.zeros(shp)
        a.flat[0] = t
        o.data.append(a)
    return o


def tg(x):
    """tag of an operand handed to op by a helper; a whole list (never expected) shows up as a tuple"""
    if isinstance(x, (int, float)):
        return int(x)
    if isinstance(x, np.ndarray):
        return int(x.flat[0])
    if isinstance(x, list):
        return ('LIST',) + tuple(tg(y) for y in x)
    return ('?', type(x).__name__)


def observe_helper(call):
    """canonical Coq-style string of what a helper returned"""
    try:
        r = call()
    except Exception as ex:
        return 'Err ' + exn_name(ex)
    if r is None:
        return 'Ok PNone'
    if isinstance(r, list):
        return 'Ok (PList [' + '; '.join(f"({a}, {b})" for a, b in r) + '])'
    if isinstance(r, tuple):
        return f"Ok (Bare ({r[0]}, {r[1]}))"
    return 'Ok ?' + repr(r)


def helper_correspondence(ctx, MT, maxlen=6):
    """the real binop / _op2 / unop against the model, exhaustive for lengths 0..maxlen"""
    maxlen = MT.maxlen
    op = lambda x, y: (tg(x), tg(y))  # noqa: E731
    ncase = nbad = 0

    def cmp(site, key, got, replay):
        nonlocal ncase, nbad
        ncase += 1
        ctx.corr['cases'] += 1
        ctx.case(('helper', site, key))
        exp = MT[key]
        if got != exp:
            nbad += 1
            ctx.corr['disagreements'] += 1
            ctx.fail(f'corr:{site}', f"the hand model of {site} no longer mirrors the implementation: case {key}: "
                     f"implementation gives {got}, model gives {exp}", dict(replay, case=list(map(str, key)), implementation=got, model=exp))

    for host in ('Quaternion', 'Twist3', 'SE3'):
        for m in range(maxlen + 1):
            L = tag_obj(host, range(m))
            for l1 in (True, False):
                for n in range(maxlen + 1):
                    R = tag_obj(host, range(100, 100 + n))
                    cmp('SMUserList.binop', ('binop', l1, m, n), observe_helper(lambda: L.binop(R, op, list1=l1)),
                        {'host': host, 'left_len': m, 'right_len': n, 'list1': l1})
                cmp('SMUserList.binop', ('binop', l1, m, 's'), observe_helper(lambda: L.binop(500, op, list1=l1)),
                    {'host': host, 'left_len': m, 'right': 'scalar', 'list1': l1})
            got = L.unop(lambda x: tg(x) + 1)
            cmp('SMUserList.unop', ('unop', m), '[' + '; '.join(str(t) for t in got) + ']', {'host': host, 'len': m})
            if m:
                got = L.unop(lambda x: np.array([tg(x) + 1, 0.0]), matrix=True)
                rows = [int(r[0]) for r in np.asarray(got)] if np.ndim(got) == 2 and np.shape(got)[1] == 2 else ['?']
                cmp('SMUserList.unop', ('unop', m), '[' + '; '.join(str(t) for t in rows) + ']', {'host': host, 'len': m, 'matrix': True})
    for host in POSES:
        for m in range(maxlen + 1):
            L = tag_obj(host, range(m))
            for n in range(maxlen + 1):
                R = tag_obj(host, range(100, 100 + n))
                cmp('SMPose._op2', ('op2', m, n), observe_helper(lambda: L._op2(R, op)), {'host': host, 'left_len': m, 'right_len': n})
            cmp('SMPose._op2', ('op2', m, 's'), observe_helper(lambda: L._op2(500, op)), {'host': host, 'left_len': m, 'right': 'scalar'})
            arr = np.zeros(L.shape)
            arr.flat[0] = 500
            cmp('SMPose._op2', ('op2', m, 's'), observe_helper(lambda: L._op2(arr, op)), {'host': host, 'left_len': m, 'right': 'ndarray of the pose shape'})
            cmp('SMPose._op2', ('op2', m, 'f'), observe_helper(lambda: L._op2('foreign', op)), {'host': host, 'left_len': m, 'right': 'foreign'})
    ctx.stats['corr:helper-cases'] = ncase
    ctx.stats['corr:helper-disagreements'] = nbad
    ctx.corr['functions'] += 3


# --------------------------------------------------------------------------------------------- operator grid
class Spy:
    """records which broadcasting helper an operator call goes through (wrappers call the original)"""
    def __init__(self):
        self.log = []
        self.orig_binop, self.orig_op2 = SMUserList.binop, SMPose._op2
        spy = self

        def binop(self_, right, op, op2=None, list1=True):
            spy.log.append(('binop', bool(list1)))
            return spy.orig_binop(self_, right, op, op2, list1)

        def _op2(left, right, op):
            spy.log.append(('op2',))
            return spy.orig_op2(left, right, op)
        self.w_binop, self.w_op2 = binop, _op2

    def __enter__(self):
        SMUserList.binop, SMPose._op2 = self.w_binop, self.w_op2
        return self

    def __exit__(self, *a):
        SMUserList.binop, SMPose._op2 = self.orig_binop, self.orig_op2


def defined_in_library(cn, dunder):
    """the class (or a spatialmath base class) defines the operator itself (not inherited from collections.UserList / object)"""
    for k in CLASSES[cn].__mro__:
        if dunder in k.__dict__:
            return k.__module__.startswith('spatialmath')
    return False


BINOPS = [('*', operator.mul, '__mul__'), ('/', operator.truediv, '__truediv__'), ('+', operator.add, '__add__'),
          ('-', operator.sub, '__sub__'), ('*=', operator.imul, '__imul__'), ('/=', operator.itruediv, '__itruediv__'),
          ('+=', operator.iadd, '__iadd__'), ('-=', operator.isub, '__isub__')]
EQOPS = [('==', operator.eq, '__eq__'), ('!=', operator.ne, '__ne__')]


def call(f):
    try:
        return ('ok', f())
    except Exception as ex:  # noqa: BLE001
        return ('raise', ex)


def single_value(r):
    """a single-valued operation must hand back exactly one value"""
    v = vals(r)
    return v[0] if len(v) == 1 else None


def definer(cn, attr):
    """name of the class whose body defines attr for class cn: findings are keyed by the code site (root cause), so that
    SO2/SE2/SO3/SE3 sharing SMPose.__mul__ give ONE key"""
    for k in CLASSES[cn].__mro__:
        if attr in k.__dict__:
            return k.__name__
    return cn


OPTOK = {'*': 'mul', '/': 'div', '+': 'add', '-': 'sub', '==': 'eq', '!=': 'ne', '**': 'pow', '*=': 'imul', '/=': 'idiv', '+=': 'iadd', '-=': 'isub'}


def optoken(opname):
    """operator name as it appears in finding keys (no punctuation: keys become file names)"""
    for sym in sorted(OPTOK, key=len, reverse=True):
        if opname.startswith(sym):
            rest = opname[len(sym):]
            return OPTOK[sym] + ('-' + rest if rest else '')
    return opname.lstrip('.')


def check_cell(ctx, MT, cn, opname, m, n, res, table, spy_log, replay, decode=True, right_kind='seq', dunder=None, variant=''):
    """res = ('ok', value) | ('raise', ex) of the real operator on operands holding m and n values;
    table[i][j] = single-valued reference for elements (i, j) (n == 's': one column).  Returns nothing; reports."""
    site = f"{definer(cn, dunder) if dunder else cn}.{optoken(opname)}"
    site = REPAIRED_SITES.get(site, site) + variant
    replay = dict(replay, concrete_class=cn)
    nn = 1 if right_kind != 'seq' else n
    cell = 'Mxscalar' if right_kind == 'scalar' else ('1x1' if (m, nn) == (1, 1) else '1xM' if m == 1 else 'Mx1' if nn == 1 else 'MxM' if m == nn else 'MxN')
    ctx.case(('op', cn, opname, m, n, right_kind))
    ctx.count('oracle:operator-cells')
    if cell == 'MxN':
        if res[0] == 'ok':
            ctx.fail(f'oracle:op:{site}:MxN:no-error', f"{cn}{opname}: operands holding {m} and {n} values do not raise ValueError "
                     f"(returned {len(vals(res[1]))} values)", dict(replay, observed='value'))
        elif not isinstance(res[1], ValueError):
            ctx.fail(f'oracle:op:{site}:MxN:raises:{exn_name(res[1])}', f"{cn}{opname} ({site}): operands holding {m} and {n} values raise "
                     f"{exn_name(res[1])} instead of ValueError: {res[1]}", dict(replay, observed=exn_name(res[1])))
        return
    if res[0] == 'raise':
        ctx.fail(f'oracle:op:{site}:{cell}:raises:{exn_name(res[1])}', f"{cn}{opname} ({site}) with operands holding {m} and {n} values raises "
                 f"{exn_name(res[1])}: {res[1]} (the single-valued operation on the elements succeeds)", dict(replay, observed=exn_name(res[1])))
        return
    got = vals(res[1])
    want_len = blen(m, nn)
    if len(got) != want_len:
        ctx.fail(f'oracle:op:{site}:{cell}:length', f"{cn}{opname} ({site}): {m} op {n} gives {len(got)} values, expected {want_len}",
                 dict(replay, observed_len=len(got)))
        return
    pattern = []
    for k in range(want_len):
        i, j = pick(k, m), pick(k, nn)
        if not same(got[k], table[i][j]):
            # where does it come from?
            src = [(a, b) for a in range(m) for b in range(nn) if same(got[k], table[a][b])]
            ctx.fail(f'oracle:op:{site}:{cell}:element', f"{cn}{opname} ({site}): {m} op {n}: result element {k} is not the single-valued operation on "
                     f"left[{i}], right[{j}]" + (f"; it equals the operation on (left, right) elements {src}" if src else ''),
                     dict(replay, element=k, expected_from=[i, j], matches=src, got=hexl(got[k]) if not isinstance(got[k], (bool, np.bool_)) else bool(got[k])))
            return
        if decode:
            src = [(a, b) for a in range(m) for b in range(nn) if same(got[k], table[a][b])]
            pattern.append(src[0] if len(src) == 1 else None)
    # the Coq model's index pattern for the helper the call went through
    helpers = sorted(set(spy_log))
    ctx.stats.setdefault('helpers', {})[f"{cn}{opname}"] = [' '.join(map(str, h)) for h in helpers] or ['none (comprehension)']
    if decode and None not in pattern:
        ctx.count('oracle:patterns-decoded')
        nkey = 's' if right_kind == 'scalar' else n
        for h in helpers:
            key = ('binop', h[1], m, nkey) if h[0] == 'binop' else ('op2', m, nkey)
            if right_kind == 'points':
                continue
            mod = MT.pairs(key)
            obs = [(a, ('s' if right_kind == 'scalar' else b)) for a, b in pattern]
            ctx.corr['cases'] += 1
            if mod != ('ok', obs):
                ctx.corr['disagreements'] += 1
                ctx.fail(f'corr:pattern:{site}', f"{site}: {m} op {n}: the (left, right) index pattern of the result {obs} differs from "
                         f"the Coq model of {h[0]}: {mod}", dict(replay, observed=obs, model=str(mod)))


def operator_grid(ctx, MT):
    for _ in range(ctx.n(1, 8)):       # independent pools of elements (the (m, n) grid is exhaustive for each)
        operator_grid_pool(ctx, MT)


def operator_grid_pool(ctx, MT):
    rng = ctx.rng
    for cn in CLASSES:
        # one pool of generic elements per class and run: left elements A[0..4], right elements B[0..4]
        A = [elem(cn, rng) for _ in range(NMAX)]
        B = [elem(cn, rng) for _ in range(NMAX)]
        for opname, op, dunder in BINOPS:
            if not defined_in_library(cn, dunder):
                ctx.stats.setdefault('out-of-scope', []).append(f"{cn}{opname}: not defined by the library (inherited from UserList/object) -- C08")
                continue
            As, Bs = singles(mk(cn, A)), singles(mk(cn, B))
            table = [[None] * NMAX for _ in range(NMAX)]
            ok = True
            for i in range(NMAX):
                for j in range(NMAX):
                    r = call(lambda: op(As[i], Bs[j]))
                    v = single_value(r[1]) if r[0] == 'ok' else None
                    if v is None:
                        ok = False
                    table[i][j] = v
            if not ok:
                ctx.stats.setdefault('out-of-scope', []).append(f"{cn}{opname}{cn}: the single-valued operation itself is not available")
                continue
            for m in LENS:
                for n in LENS:
                    L, R = mk(cn, A[:m]), mk(cn, B[:n])
                    with Spy() as spy:
                        res = call(lambda: op(L, R))
                    check_cell(ctx, MT, cn, opname, m, n, res, table, spy.log,
                               {'class': cn, 'op': opname, 'm': m, 'n': n, 'left_hex': [hexl(a) for a in A[:m]], 'right_hex': [hexl(b) for b in B[:n]]}, dunder=dunder)
            # scalar right operand
            s = 1.75
            rs = [call(lambda: op(As[i], s)) for i in range(NMAX)]
            if all(r[0] == 'ok' and single_value(r[1]) is not None for r in rs):
                stab = [[single_value(r[1])] for r in rs]
                for m in LENS:
                    L = mk(cn, A[:m])
                    with Spy() as spy:
                        res = call(lambda: op(L, s))
                    check_cell(ctx, MT, cn, opname + 'scalar', m, 's', res, stab, spy.log,
                               {'class': cn, 'op': opname, 'm': m, 'right': s, 'left_hex': [hexl(a) for a in A[:m]]}, right_kind='scalar', dunder=dunder)
        # scalar * X  (__rmul__)
        s = 1.75
        As = singles(mk(cn, A))
        rs = [call(lambda: s * As[i]) for i in range(NMAX)]
        if all(r[0] == 'ok' and single_value(r[1]) is not None for r in rs):
            stab = [[single_value(r[1])] for r in rs]
            for m in LENS:
                L = mk(cn, A[:m])
                with Spy() as spy:
                    res = call(lambda: s * L)
                check_cell(ctx, MT, cn, 'scalar-times-X', m, 's', res, stab, spy.log,   # (key renamed after fix d78118f: no stale known entry matches)
                           {'class': cn, 'op': 'scalar * X', 'm': m, 'left': s, 'right_hex': [hexl(a) for a in A[:m]]}, right_kind='scalar', dunder='__rmul__')
        else:
            ctx.stats.setdefault('out-of-scope', []).append(f"scalar*{cn}: the single-valued operation itself is not available (C08)")
        # twist * pose (binop with operands of two classes)
        if cn in ('Twist3', 'Twist2'):
            pn = 'SE3' if cn == 'Twist3' else 'SE2'
            Bp = [elem(pn, rng) for _ in range(NMAX)]
            As, Bs = singles(mk(cn, A)), singles(mk(pn, Bp))
            table = [[single_value(As[i] * Bs[j]) for j in range(NMAX)] for i in range(NMAX)]
            for m in LENS:
                for n in LENS:
                    L, R = mk(cn, A[:m]), mk(pn, Bp[:n])
                    with Spy() as spy:
                        res = call(lambda: L * R)
                    check_cell(ctx, MT, cn, '*' + pn, m, n, res, table, spy.log,
                               {'class': cn, 'op': '*' + pn, 'm': m, 'n': n, 'left_hex': [hexl(a) for a in A[:m]], 'right_hex': [hexl(b) for b in Bp[:n]]}, dunder='__mul__')
        # == and != : right elements are copies of chosen left elements, or fresh
        As = singles(mk(cn, A))
        for opname, op, dunder in EQOPS:
            neg = opname == '!='
            for m in LENS:
                for n in LENS:
                    pats = [[j % m for j in range(n)], [(j + 1) % m for j in range(n)], [-1] * n]
                    pats += [[int(x) for x in rng.integers(-1, m, size=n)] for _ in range(3)]
                    for pat in pats:
                        Rl = [A[p] if p >= 0 else B[j] for j, p in enumerate(pat)]
                        L, R = mk(cn, A[:m]), mk(cn, Rl)
                        # single-valued reference: the library's own == on single values
                        Rs = singles(R)
                        table = [[None] * n for _ in range(m)]
                        bad = False
                        for i in range(m):
                            for j in range(n):
                                r = call(lambda: As[i] == Rs[j])
                                if r[0] != 'ok' or not isinstance(r[1], (bool, np.bool_)):
                                    bad = True
                                    continue
                                if bool(r[1]) != (pat[j] == i):
                                    ctx.fail(f'oracle:op:{cn}.eq:single-valued', f"{cn}: single-valued == gives {r[1]} for "
                                             f"{'equal' if pat[j] == i else 'different'} values", {'class': cn, 'left_hex': hexl(A[i]), 'right_hex': hexl(Rl[j])})
                                table[i][j] = (not bool(r[1])) if neg else bool(r[1])
                        if bad:
                            continue
                        with Spy() as spy:
                            res = call(lambda: op(L, R))
                        check_cell(ctx, MT, cn, opname, m, n, res, table, spy.log,
                                   {'class': cn, 'op': opname, 'm': m, 'n': n, 'right_is_copy_of_left_index': pat,
                                    'left_hex': [hexl(a) for a in A[:m]], 'right_hex': [hexl(b) for b in Rl]}, decode=False, dunder=dunder)
        # ** : unary over the sequence
        if defined_in_library(cn, '__pow__'):
            As = singles(mk(cn, A))
            for e in (-2, -1, 0, 1, 2, 3):
                refs = [call(lambda: As[i] ** e) for i in range(NMAX)]
                if not all(r[0] == 'ok' and single_value(r[1]) is not None for r in refs):
                    ctx.stats.setdefault('out-of-scope', []).append(f"{cn}**{e}: single-valued power not available")
                    continue
                tab = [[single_value(r[1])] for r in refs]
                for m in LENS:
                    L = mk(cn, A[:m])
                    res = call(lambda: L ** e)
                    check_cell(ctx, MT, cn, '**', m, 's', res, tab, [],
                               {'class': cn, 'op': '**', 'exponent': e, 'm': m, 'left_hex': [hexl(a) for a in A[:m]]},
                               decode=(e != 0), right_kind='scalar', dunder='__pow__')
        # pose * point(s)
        if cn in POSES + ('UnitQuaternion',):
            N = 2 if cn in ('SO2', 'SE2') else 3
            As = singles(mk(cn, A))
            P = rng.uniform(0.3, 2.0, size=(N, NMAX)) * rng.choice([-1, 1], size=(N, NMAX))
            table = [[np.asarray(As[i] * P[:, j]).flatten() for j in range(NMAX)] for i in range(NMAX)]
            for m in LENS:
                for n in LENS:
                    L = mk(cn, A[:m])
                    pts = P[:, 0].copy() if n == 1 else P[:, :n].copy()
                    res = call(lambda: L * pts)
                    if res[0] == 'ok':
                        r = np.asarray(res[1], dtype=float)
                        if r.ndim == 1:
                            r = r.reshape(-1, 1)
                        res = ('ok', [r[:, k] for k in range(r.shape[1])] if r.ndim == 2 and r.shape[0] == N else [r])
                    check_cell(ctx, MT, cn, '*points', m, n, res, table, [],
                               {'class': cn, 'op': 'pose*points', 'm': m, 'n_points': n, 'left_hex': [hexl(a) for a in A[:m]], 'points_hex': hexl(pts)},
                               right_kind='seq', dunder='__mul__')


# --------------------------------------------------------------------------------------------- binary METHODS (not dunder operators)
# Methods of the list-capable classes that combine two objects value by value.  The set is the UNION of
#   (a) the methods recorded here, found by the enumeration below on the baseline tree (so that a method which STOPS
#       using the helper -- e.g. inner() rewritten with np.dot -- is still held to the broadcasting rules), and
#   (b) every public non-dunder method whose body (AST) calls self.binop / self.unop / self._op2 on the CURRENT tree
#       (so that a newly vectorised method is not forgotten).
# Other public methods that accept one same-class operand for single values (found by reflection) are probed and
# reported in the evidence as a census only (they do not claim to be vectorised).
VECTORISED_BINARY_METHODS = {('Quaternion', 'inner')}


def helper_based_methods():
    """(defining class name, method name) of public non-dunder methods whose body calls .binop/.unop/._op2 -- from the AST"""
    import ast
    import inspect
    import textwrap
    found = set()
    seen = set()
    for cls in CLASSES.values():
        for k in cls.__mro__:
            if not k.__module__.startswith('spatialmath') or k in seen or k.__name__ in ('SMUserList',):
                continue
            seen.add(k)
            for name, obj in k.__dict__.items():
                fn = obj.fget if isinstance(obj, property) else obj
                if name.startswith('_') or not inspect.isfunction(fn):
                    continue
                try:
                    tree = ast.parse(textwrap.dedent(inspect.getsource(fn)))
                except (OSError, TypeError, SyntaxError):
                    continue
                for node in ast.walk(tree):
                    if isinstance(node, ast.Call) and isinstance(node.func, ast.Attribute) and node.func.attr in ('binop', 'unop', '_op2'):
                        found.add((k.__name__, name))
    return found


def same_class_binary_candidates(cn):
    """public non-dunder methods of class cn, defined by the library (not by SMUserList/UserList), with exactly one required
    positional parameter besides self"""
    import inspect
    out = []
    cls = CLASSES[cn]
    for name in dir(cls):
        if name.startswith('_'):
            continue
        k = next((c for c in cls.__mro__ if name in c.__dict__), None)
        if k is None or not k.__module__.startswith('spatialmath') or k.__name__ == 'SMUserList':
            continue
        fn = k.__dict__[name]
        if not inspect.isfunction(fn):
            continue
        ps = list(inspect.signature(fn).parameters.values())[1:]
        req = [q for q in ps if q.default is inspect.Parameter.empty and q.kind in (q.POSITIONAL_ONLY, q.POSITIONAL_OR_KEYWORD)]
        if len(req) == 1:
            out.append((k.__name__, name))
    return out


def binary_method_grid(ctx, MT):
    rng = ctx.rng
    helper = helper_based_methods()
    vectorised = set(VECTORISED_BINARY_METHODS) | helper
    ctx.stats['binary-methods:helper-based (AST)'] = sorted(f"{a}.{b}" for a, b in helper)
    ctx.stats['binary-methods:held-to-the-property'] = sorted(f"{a}.{b}" for a, b in vectorised)
    for cn in CLASSES:
        A = [elem(cn, rng) for _ in range(NMAX)]
        B = [elem(cn, rng) for _ in range(NMAX)]
        As, Bs = singles(mk(cn, A)), singles(mk(cn, B))
        for dcls, name in same_class_binary_candidates(cn):
            label = f"{cn}.{name}(other)"
            refs = [[call(lambda: getattr(As[i], name)(Bs[j])) for j in range(NMAX)] for i in range(NMAX)]
            if not all(r[0] == 'ok' and single_value(r[1]) is not None for row in refs for r in row):
                continue        # not a method that takes one same-class operand
            table = [[single_value(r[1]) for r in row] for row in refs]
            is_vec = (dcls, name) in vectorised
            for m in LENS:
                for n in LENS:
                    L, R = mk(cn, A[:m]), mk(cn, B[:n])
                    with Spy() as spy:
                        res = call(lambda: getattr(L, name)(R))
                    if is_vec:
                        check_cell(ctx, MT, cn, '.' + name, m, n, res, table, spy.log,
                                   {'class': cn, 'method': name, 'm': m, 'n': n, 'left_hex': [hexl(a) for a in A[:m]], 'right_hex': [hexl(b) for b in B[:n]]},
                                   dunder=name)
                    elif (m, n) != (1, 1):
                        want = blen(m, n)
                        good = (m == n or m == 1 or n == 1) and res[0] == 'ok' and len(vals(res[1])) == want and \
                            all(same(vals(res[1])[q], table[pick(q, m)][pick(q, n)]) for q in range(want))
                        if not good:
                            ctx.stats.setdefault('census:single-value-only-methods', {})[label] = \
                                ('raises ' + exn_name(res[1])) if res[0] == 'raise' else 'not element-wise'


# --------------------------------------------------------------------------------------------- method grid
def M_(label, attr, f, shape='acc_branch1', cat='named'):
    return (label, attr, f, shape, cat)


def methods_of(cn):
    """(label, attribute name, call, accessor shape of the hand model, category).
    shape: which definition of Model/C09_Broadcast.v mirrors the method's code (None: not modelled, oracle only).
    category 'named': one of the kinds of method the property names (inverse, rotation part, translation, angle sets,
    log/exp, determinant, norm, conjugate, conversions, per-value components) ; 'census': other single-value methods,
    reported in the evidence only."""
    ms = []
    if cn in POSES:
        ms += [M_('inv()', 'inv', lambda x: x.inv()),
               M_('R', 'R', lambda x: x.R),
               M_('det()', 'det', lambda x: x.det()), M_('log()', 'log', lambda x: x.log(), 'acc_map_unwrap'),
               M_('log(twist=True)', 'log', lambda x: x.log(twist=True), 'acc_map_unwrap'),
               M_('norm()', 'norm', lambda x: x.norm(), 'acc_map')]
    if cn == 'SO2':
        ms += [M_('SE2()', 'SE2', lambda x: x.SE2())]                       # one SE2 per value since fix eb56988
    if cn == 'SO3':
        ms += [M_('SE3.SO3(X)', 'SE3.SO3', lambda x: SE3.SO3(x))]           # classmethod of SE3, per value of its SO3 argument since fix d6fb3fc
    if cn in ('SE2', 'SE3'):
        ms += [M_('t', 't', lambda x: x.t)]
    if cn in ('SO2', 'SE2'):
        ms += [M_('theta()', 'theta', lambda x: x.theta()), M_("theta('deg')", 'theta', lambda x: x.theta('deg'))]
    if cn == 'SE2':
        ms += [M_('xyt()', 'xyt', lambda x: x.xyt())]
    if cn in ('SO3', 'SE3', 'UnitQuaternion'):
        for order in ('zyx', 'xyz', 'yxz'):
            ms += [M_(f"rpy(order='{order}')", 'rpy', (lambda o: lambda x: x.rpy(order=o))(order))]
        ms += [M_("rpy(unit='deg')", 'rpy', lambda x: x.rpy(unit='deg')), M_('eul()', 'eul', lambda x: x.eul()),
               M_("eul(unit='deg')", 'eul', lambda x: x.eul(unit='deg')),
               M_('angvec()', 'angvec', lambda x: x.angvec()),
               M_("angvec(unit='deg')", 'angvec', lambda x: x.angvec(unit='deg'))]
    if cn in ('SO3', 'SE3'):
        ms += [M_('eul(flip=True)', 'eul', lambda x: x.eul(flip=True))]
    if cn == 'SE3':
        ms += [M_('Twist3()', 'Twist3', lambda x: x.Twist3(), 'acc_map'), M_('Ad()', 'Ad', lambda x: x.Ad(), None, 'census'),
               M_('jacob()', 'jacob', lambda x: x.jacob(), None, 'census')]
    if cn in ('SO3', 'SE3'):
        ms += [M_(a, a, (lambda a: lambda x: getattr(x, a))(a), None, 'census') for a in 'noa']
    if cn in ('Quaternion', 'UnitQuaternion'):
        ms += [M_('s', 's', lambda x: x.s), M_('v', 'v', lambda x: x.v), M_('vec', 'vec', lambda x: x.vec),
               M_('conj()', 'conj', lambda x: x.conj(), 'acc_map'), M_('norm()', 'norm', lambda x: x.norm()),
               M_('unit()', 'unit', lambda x: x.unit(), 'acc_map'), M_('-x', '__neg__', lambda x: -x, 'acc_map'),
               M_('log()', 'log', lambda x: x.log()), M_('exp()', 'exp', lambda x: x.exp()),            # maps over the values since fix 0242ef3
               M_('matrix', 'matrix', lambda x: x.matrix)]        # branches on len(self) == 1 since fix 66f9b8b
    if cn == 'UnitQuaternion':
        ms += [M_('inv()', 'inv', lambda x: x.inv(), 'acc_map'), M_('R', 'R', lambda x: x.R), M_('SO3()', 'SO3', lambda x: x.SO3()),
               M_('SE3()', 'SE3', lambda x: x.SE3()), M_('vec3', 'vec3', lambda x: x.vec3, None, 'census')]
    if cn in ('Twist3', 'Twist2'):
        ms += [M_('inv()', 'inv', lambda x: x.inv(), 'acc_map'), M_('S', 'S', lambda x: x.S), M_('v', 'v', lambda x: x.v),
               M_('w', 'w', lambda x: x.w),
               M_('isprismatic', 'isprismatic', lambda x: x.isprismatic),          # the M > 1 branch iterates twist objects since fix 98c866c
               M_('isrevolute', 'isrevolute', lambda x: x.isrevolute), M_('isunit', 'isunit', lambda x: x.isunit),
               M_('exp()', 'exp', lambda x: x.exp()),
               M_('unit', 'unit', lambda x: x.unit)]                 # branches on len(self) == 1 since fix 4908bfb
    if cn == 'Twist3':
        ms += [M_('se3()', 'se3', lambda x: x.se3()), M_('SE3()', 'SE3', lambda x: x.SE3()),
               M_('theta()', 'theta', lambda x: x.theta()), M_('pitch()', 'pitch', lambda x: x.pitch()),
               M_('pole()', 'pole', lambda x: x.pole()),
               M_('line()', 'line', lambda x: x.line(), 'acc_map'), M_('ad()', 'ad', lambda x: x.ad(), None, 'census'),
               M_('Ad()', 'Ad', lambda x: x.Ad(), None, 'census')]
    if cn == 'Twist2':
        ms += [M_('se2()', 'se2', lambda x: x.se2()), M_('SE2()', 'SE2', lambda x: x.SE2())]
    return ms


def split_values(r, M, refs):
    """the M per-value results held by r, or None.  Accepted layouts: an object / list of M values; an ndarray with the
    values along the first axis (M, ...) or along the last axis (..., M) (SO3.rpy returns 3xM, UnitQuaternion.rpy Mx3)"""
    if isinstance(r, SMUserList):
        return list(r.data) if len(r) == M else None
    if isinstance(r, (list, tuple)):
        return list(r) if len(r) == M else None
    if isinstance(r, np.ndarray) and r.ndim >= 1:
        cands = []
        if r.shape[0] == M:
            cands.append([r[i] for i in range(M)])
        if r.shape[-1] == M and r.ndim >= 2:
            cands.append([r[..., i] for i in range(M)])
        for c in cands:
            if all(same(c[i], refs[i]) for i in range(M)):
                return c
        return cands[0] if cands else None
    return None


def unwrap(v):
    """value of a single-valued result: objects by their one data element"""
    if isinstance(v, SMUserList):
        return v.data[0] if len(v) == 1 else v
    return v


def describe(r):
    if isinstance(r, SMUserList):
        return f"{type(r).__name__} holding {len(r)}"
    if isinstance(r, np.ndarray):
        return f"ndarray{r.shape}"
    if isinstance(r, (list, tuple)):
        return f"{type(r).__name__} of {len(r)}"
    return type(r).__name__


def parse_acc(s, M):
    """model value on tags 0..M-1 with f = S  ->  the same canonical form as the observation"""
    if s.startswith('Err'):
        return ('err', s.split()[1])
    nums = [int(x) - 1 for x in re.findall(r'\d+', s)]
    if 'Bare' in s and M > 1:
        return ('first',) if nums == [0] else ('?', s)
    return ('ok', nums)


# sites whose sequence defect was repaired: their cells stay in the grid under a key no stale known entry can match
REPAIRED_SITES = {'SMTwist.unit': 'SMTwist.unit[seq-branch-4908bfb]', 'Twist2.unit': 'Twist2.unit[seq-branch-4908bfb]',
                  'SMTwist.isprismatic': 'SMTwist.isprismatic[seq-branch-98c866c]', 'SMTwist.isrevolute': 'SMTwist.isrevolute[seq-branch-98c866c]',
                  'SMPose.mul-points': 'SMPose.mul-points[columns-86fcbcb]',
                  'UnitQuaternion.mul-points': 'UnitQuaternion.mul-points[columns-e6aec7a]',
                  'SO2.R': 'SO2.R[seq-branch-42a8032]', 'SO3.angvec': 'SO3.angvec[seq-branch-3803e60]',
                  'UnitQuaternion.angvec': 'UnitQuaternion.angvec[seq-branch-3803e60]', 'Quaternion.log': 'Quaternion.log[seq-branch-5d38d76]',
                  'UnitQuaternion.SO3': 'UnitQuaternion.SO3[seq-branch-7b9d842]', 'UnitQuaternion.SE3': 'UnitQuaternion.SE3[seq-branch-7b9d842]',
                  'Twist3.v': 'Twist3.v[seq-branch-77cb365]', 'Twist3.w': 'Twist3.w[seq-branch-77cb365]',
                  'Twist2.v': 'Twist2.v[seq-branch-77cb365]', 'Twist2.w': 'Twist2.w[seq-branch-77cb365]',
                  'Twist3.theta': 'Twist3.theta[seq-branch-a77df5a]', 'Twist3.pitch': 'Twist3.pitch[seq-branch-a77df5a]',
                  'Twist3.pole': 'Twist3.pole[seq-branch-a77df5a]',
                  'Twist3.exp': 'Twist3.exp[seq-branch-3804c67]', 'Twist3.SE3': 'Twist3.SE3[seq-branch-3804c67]',
                  'Twist2.exp': 'Twist2.exp[seq-branch-3804c67]', 'Twist2.SE2': 'Twist2.SE2[seq-branch-3804c67]',
                  'Quaternion.exp': 'Quaternion.exp[seq-branch-0242ef3]', 'SO2.SE2': 'SO2.SE2[seq-branch-eb56988]', 'SE3.SO3': 'SE3.SO3[seq-branch-d6fb3fc]',
                  'Twist3.exp(theta-vector)': 'Twist3.exp(theta-vector)[3804c67]', 'Twist2.exp(theta-vector)': 'Twist2.exp(theta-vector)[3804c67]'}


def method_grid(ctx, MT, census_out=None):
    for _ in range(ctx.n(1, 8)):
        method_grid_pool(ctx, MT, census_out)


def method_grid_pool(ctx, MT, census_out=None):
    rng = ctx.rng
    for cn in CLASSES:
        A = [elem(cn, rng) for _ in range(NMAX)]
        for label, attr, f, shape, cat in methods_of(cn):
            site = attr if '.' in attr else f"{definer(cn, attr)}.{attr}"
            site = REPAIRED_SITES.get(site, site)
            what = f"{cn}.{label}" + (f" (defined by {site})" if not site.startswith(cn + '.') else '')
            X5 = mk(cn, A)
            refs_r = [call(lambda: f(x)) for x in singles(X5)]
            if not all(r[0] == 'ok' for r in refs_r):
                bad = next(r[1] for r in refs_r if r[0] != 'ok')
                ctx.stats.setdefault('out-of-scope', []).append(f"{cn}.{label}: the single-valued call itself raises {exn_name(bad)}")
                continue
            refs = [unwrap(r[1]) for r in refs_r]
            for M in LENS:
                X = mk(cn, A[:M])
                res = call(lambda: f(X))
                ctx.case(('method', cn, label, M))
                ctx.count('oracle:method-cells')
                replay = {'class': cn, 'method': label, 'site': site, 'M': M, 'elements_hex': [hexl(a) for a in A[:M]]}
                # ---- observe
                if res[0] == 'raise':
                    obs = ('err', exn_name(res[1]))
                else:
                    r = res[1]
                    got = [unwrap(r)] if M == 1 else split_values(r, M, refs)
                    if got is not None and len(got) == M and all(same(got[i], refs[i]) for i in range(M)):
                        obs = ('ok', list(range(M)))
                    elif M > 1 and same(unwrap(r), refs[0]):
                        obs = ('first',)
                    elif got is not None and len(got) == M:
                        obs = ('wrong', [[j for j in range(M) if same(got[i], refs[j])] for i in range(M)])
                    else:
                        obs = ('shape', describe(r))
                if census_out is not None:
                    census_out.append((f"{cn}.{label}", shape, cat, M, obs))
                # ---- the property
                if obs[0] != 'ok' and cat == 'named':
                    if obs[0] == 'err':
                        ctx.fail(f'oracle:method:{site}:sequence-raises:{obs[1]}', f"{what} on an object holding {M} values raises {obs[1]}: {res[1]} "
                                 f"(it succeeds on each element)", dict(replay, observed=obs[1]))
                    elif obs[0] == 'first':
                        ctx.fail(f'oracle:method:{site}:first-element-only', f"{what} on an object holding {M} values returns the result for "
                                 f"element 0 only", dict(replay, observed='value of element 0'))
                    elif obs[0] == 'wrong':
                        ctx.fail(f'oracle:method:{site}:wrong-element', f"{what} on an object holding {M} values: result i is not the result for element i "
                                 f"(result i equals the per-element result of elements {obs[1]})", dict(replay, observed=obs[1]))
                    else:
                        ctx.fail(f'oracle:method:{site}:wrong-shape', f"{what} on an object holding {M} values does not return {M} results "
                                 f"(got {obs[1]})", dict(replay, observed=obs[1]))
                elif obs[0] != 'ok':
                    ctx.stats.setdefault('census:single-value-only-methods', {})[f"{cn}.{label}"] = ' '.join(map(str, obs))
                # ---- the hand model of the accessor shape
                if shape is None:
                    continue
                key = (shape, M)
                ctx.corr['cases'] += 1
                mod = parse_acc(MT[key], M)
                if mod != obs:
                    ctx.corr['disagreements'] += 1
                    ctx.fail(f'corr:accessor:{site}', f"{what}: the accessor shape {shape} of the hand model predicts {mod} for {M} values, "
                             f"the implementation gives {obs}", dict(replay, model=str(mod), observed=str(obs)))
    # an option that never reaches the kernel (for any length): recorded, not a broadcasting failure
    for cn in ('SO3', 'SE3'):
        X = mk(cn, [elem(cn, rng) for _ in range(3)])
        try:
            seq = np.asarray(X.eul(flip=True))
            per = np.array([x.eul(flip=True) for x in X]).T
            ker = np.array([base.tr2eul(x.A, flip=True) for x in X]).T
            ctx.stats.setdefault('observations', {})[f'{cn}.eul(flip=True)'] = (
                f"sequence result equals per-element method results: {same(seq, per)}; equals base.tr2eul(x, flip=True): {same(seq, ker)} "
                "(the flip option is dropped by the method for every length, single values included: not a broadcasting matter, see C05/C15)")
        except Exception as ex:  # noqa: BLE001
            ctx.stats.setdefault('observations', {})[f'{cn}.eul(flip=True)'] = 'raises ' + exn_name(ex)


# --------------------------------------------------------------------------------------------- interpolation / twist exp over a vector
def interp_grid(ctx, MT):
    """X.interp(s) for X holding m values and s holding k values (m, k in 1..5): interior coefficients; the end points s = 0 and s = 1 (which the
    single-valued code answers by short-cuts: they must not bypass the per-value dispatch); and with the other end given (start= / dest=)"""
    rng = ctx.rng
    S_INT = np.array([0.15, 0.3, 0.45, 0.6, 0.8, 0.9])
    S_END = np.array([1.0, 0.0, 0.5, 1.0, 0.0, 0.25])
    for cn in POSES + ('UnitQuaternion',):
        A = [elem(cn, rng) for _ in range(NMAX)]
        As = singles(mk(cn, A))
        other = singles(mk(cn, [elem(cn, rng)]))[0]
        okw = {'dest': other} if cn == 'UnitQuaternion' else {'start': other}
        for variant, S, kw in (('', S_INT, {}), (':end-points', S_END, {}), (':end-points-with-' + next(iter(okw)), S_END, okw),
                               (':with-' + next(iter(okw)), S_INT, okw)):
            refs = [[call(lambda: As[i].interp(float(S[j]), **kw)) for j in range(NMAX)] for i in range(NMAX)]
            if not all(r[0] == 'ok' and single_value(r[1]) is not None for row in refs for r in row):
                bad = next(r[1] for row in refs for r in row if r[0] != 'ok' or single_value(r[1]) is None)
                ctx.stats.setdefault('out-of-scope', []).append(f"{cn}.interp(s{variant}): the single-valued call itself raises / is not single-valued: {exn_name(bad) if isinstance(bad, BaseException) else type(bad).__name__} (C11)")
                continue
            table = [[single_value(r[1]) for r in row] for row in refs]
            site = f"{definer(cn, 'interp')}.interp"
            for m in LENS:
                for k in LENS:
                    X = mk(cn, A[:m])
                    forms = ('scalar', 'scalar2', 'array') if (k == 1 and variant.startswith(':end-points')) else ('scalar', 'array') if k == 1 else ('array',)
                    for form in forms:
                        # scalar2: the second entry of the grid as a plain float (with S_END: s = 0.0, after s = 1.0)
                        sv = float(S[0]) if form == 'scalar' else float(S[1]) if form == 'scalar2' else S[:k].copy()
                        col = (lambda q: 1) if form == 'scalar2' else (lambda q: pick(q, k))
                        res = call(lambda: X.interp(sv, **kw))
                        ctx.case(('interp', cn, m, k, form, variant))
                        ctx.count('oracle:interp-cells')
                        replay = {'class': cn, 'method': 'interp', 'm': m, 's': np.asarray(sv).tolist(), 'elements_hex': [hexl(a) for a in A[:m]],
                                  'other_end': ({next(iter(kw)): hexl(np.asarray(other.A))} if kw else None)}
                        if res[0] == 'ok':
                            got = vals(res[1])
                            want = blen(m, k)
                            good = len(got) == want and all(same(got[q], table[pick(q, m)][col(q)]) for q in range(want))
                            obs = ('ok', [(pick(q, m), pick(q, k)) for q in range(want)]) if good else ('bad', describe(res[1]))
                        else:
                            obs = ('err', exn_name(res[1]))
                        cell = '1x1' if (m, k) == (1, 1) else '1xK' if m == 1 else 'Mx1' if k == 1 else 'MxK'
                        ckey = cell + ('[vector-s-51bc88a]' if cell in ('1x1', '1xK') else '[multi-7443e8d]' if cell == 'Mx1' else '') if site == 'UnitQuaternion.interp' else cell
                        if cell != 'MxK' and obs[0] != 'ok':
                            # the property: one value x vector of s -> K results; M values x one s -> M results
                            ctx.fail(f'oracle:interp{variant}:{site}:{ckey}:' + (f'err:{obs[1]}' if obs[0] == 'err' else 'wrong-result'), f"{cn}.interp on an object holding {m} values with s holding {k} "
                                     f"value(s) ({form}{variant}) gives {obs} instead of {blen(m, k)} results equal to the single-valued interpolations",
                                     dict(replay, observed=str(obs)))
                        if site in ('SMPose.interp', 'UnitQuaternion.interp'):     # UnitQuaternion.interp has the same three cases since fix 7443e8d
                            mod = parse_model(MT[('interp', m, k)])
                            ctx.corr['cases'] += 1
                            if mod != obs:
                                ctx.corr['disagreements'] += 1
                                ctx.fail('corr:' + site + variant, f"{cn}.interp ({form}{variant}): {m} values, s of {k}: the hand model pose_interp gives {mod}, the implementation {obs}",
                                         dict(replay, model=str(mod), observed=str(obs)))


def twist_exp_grid(ctx, MT):
    """Twist.exp(theta) with theta a vector: m twists x k angles"""
    rng = ctx.rng
    TH = np.array([0.3, 0.5, 0.7, 0.9, 1.1, 1.3])
    for cn in ('Twist3', 'Twist2'):
        A = [elem(cn, rng) for _ in range(NMAX)]
        As = singles(mk(cn, A))
        refs = [[call(lambda: As[i].exp(float(TH[j]))) for j in range(NMAX)] for i in range(NMAX)]
        if not all(r[0] == 'ok' and single_value(r[1]) is not None for row in refs for r in row):
            ctx.stats.setdefault('out-of-scope', []).append(f"{cn}.exp(theta): the single-valued call itself raises")
            continue
        table = [[single_value(r[1]) for r in row] for row in refs]
        for m in LENS:
            for k in LENS:
                X = mk(cn, A[:m])
                th = TH[:k].copy()
                res = call(lambda: X.exp(th))
                check_cell(ctx, MT, cn, '.exp(theta-vector)', m, k, res, table, [],
                           {'class': cn, 'method': 'exp', 'm': m, 'theta': th.tolist(), 'elements_hex': [hexl(a) for a in A[:m]]})


# --------------------------------------------------------------------------------------------- aliased operands
# The operator grid combines DISTINCT objects.  Here the two operands are the same object (x op x), or one is an element / a slice
# of the other (which shares the value arrays): the result must be what two independent objects holding the same values give.
# Model side this is the instance left = right of the general theorems (C09_binop_same_operand, C09_op2_same_operand).
def alias_grid(ctx, MT):
    rng = ctx.rng
    for cn in CLASSES:
        A = [elem(cn, rng) for _ in range(NMAX)]
        As, Cs = singles(mk(cn, A)), singles(mk(cn, A))          # two independent sets of single-valued objects with the same values
        ops = [(o, f, d, True) for o, f, d in BINOPS if defined_in_library(cn, d)] + [(o, f, d, False) for o, f, d in EQOPS]
        if cn in ('Quaternion', 'UnitQuaternion'):
            ops.append(('.inner', lambda a, b: a.inner(b), 'inner', True))
        for opname, op, dunder, decode in ops:
            refs = [[call(lambda: op(As[i], Cs[j])) for j in range(NMAX)] for i in range(NMAX)]
            if not all(r[0] == 'ok' and single_value(r[1]) is not None for row in refs for r in row):
                continue                                            # operator not available for single values: out of scope (operator grid says so)
            table = [[single_value(r[1]) for r in row] for row in refs]
            for m in LENS:
                def run(kind, make_right, cols, n):
                    """cols[j] = index into A of the j-th value of the right operand"""
                    X = mk(cn, A[:m])
                    R = make_right(X)
                    before = [np.array(a) for a in X.data]
                    with Spy() as spy:
                        res = call(lambda: op(X, R))
                    tab = [[table[i][cols[j]] for j in range(n)] for i in range(m)]
                    check_cell(ctx, MT, cn, opname, m, n, res, tab, spy.log,
                               {'class': cn, 'op': opname, 'aliasing': kind, 'm': m, 'n': n, 'values_hex': [hexl(a) for a in A[:m]]},
                               decode=decode and len(set(cols[:n])) == n, dunder=dunder, variant=f'[{kind}]')
                    ctx.count('oracle:alias-cells')
                    if len(X) != m or not all(np.array_equal(a, b) for a, b in zip(before, X.data)):
                        ctx.fail(f'oracle:alias:{definer(cn, dunder)}.{optoken(opname)}:operand-changed', f"{cn}: X {opname} ({kind}) changed the values held by X",
                                 {'class': cn, 'op': opname, 'aliasing': kind, 'm': m})
                run('x-op-x', lambda X: X, list(range(m)), m)
                run('x-op-element-of-x', lambda X: X[0], [0], 1)
                run('x-op-last-element-of-x', lambda X: X[m - 1], [m - 1], 1)
                run('x-op-full-slice-of-x', lambda X: X[0:m], list(range(m)), m)
                if m >= 2:
                    run('x-op-reversed-slice-of-x', lambda X: X[::-1], list(range(m - 1, -1, -1)), m)
                # element of x on the LEFT
                X = mk(cn, A[:m])
                with Spy() as spy:
                    res = call(lambda: op(X[0], X))
                check_cell(ctx, MT, cn, opname, 1, m, res, [[table[0][j] for j in range(m)]], spy.log,
                           {'class': cn, 'op': opname, 'aliasing': 'element-of-x-op-x', 'm': 1, 'n': m, 'values_hex': [hexl(a) for a in A[:m]]},
                           decode=decode, dunder=dunder, variant='[element-of-x-op-x]')
                ctx.count('oracle:alias-cells')


# --------------------------------------------------------------------------------------------- keyword options
# The grids above call every method with its DEFAULT options.  Here every keyword option of every vectorised method is swept
# (the options are read from the signature by reflection; the values come from OPTION_VALUES by parameter name, object-valued
# options such as dest / start are built so that the option matters), over the full product of the option values, and the
# sequence call is compared element by element with the single-valued call made with the SAME options.
OPTION_VALUES = {'unit': ['rad', 'deg'], 'units': ['rad', 'deg'], 'order': ['zyx', 'xyz', 'yxz'], 'flip': [False, True],
                 'twist': [False, True], 'shortest': [False, True], 'dest': ['<none>', '<object>'], 'start': ['<none>', '<object>'],
                 'theta': ['<none>', 0.7], 's': [0.35]}
SEQUENCE_PARAM = {'interp': 's', 'exp': 'theta'}      # the argument that may itself be a sequence


def method_options(cn, attr):
    """keyword options (parameters with a default) of a method, in signature order; None for properties"""
    import inspect
    obj = None
    for k in CLASSES[cn].__mro__:
        if attr in k.__dict__:
            obj = k.__dict__[attr]
            break
    if obj is None or isinstance(obj, property) or not inspect.isfunction(obj):
        return None
    ps = list(inspect.signature(obj).parameters.values())[1:]
    return [q.name for q in ps if q.kind in (q.POSITIONAL_OR_KEYWORD, q.KEYWORD_ONLY) and q.default is not inspect.Parameter.empty]


def signed_pool(cn, rng, ref=None):
    """NMAX generic elements; for unit quaternions the sign of element i is chosen so that its inner product with ref (default: the
    identity) is negative for odd i -- the case in which `shortest` changes the result"""
    A = [elem(cn, rng) for _ in range(NMAX)]
    if cn == 'UnitQuaternion':
        r = np.r_[1.0, 0, 0, 0] if ref is None else np.asarray(ref, float)
        for i in range(NMAX):
            sgn = 1.0 if float(A[i] @ r) >= 0 else -1.0
            A[i] = A[i] * sgn * (-1.0 if i % 2 else 1.0)
    return A


def option_grid(ctx):
    import itertools
    rng = ctx.rng
    swept, unknown, live = {}, set(), {}
    for cn in CLASSES:
        attrs = []
        for label, attr, f, shape, cat in methods_of(cn):
            if cat == 'named' and '.' not in attr and attr not in attrs and not attr.startswith('__'):
                attrs.append(attr)
        if cn in POSES + ('UnitQuaternion',):
            attrs.append('interp')
        for attr in attrs:
            opts = method_options(cn, attr)
            if not opts:
                continue
            site = f"{definer(cn, attr)}.{attr}"
            names = [o for o in opts if o in OPTION_VALUES]
            for o in opts:
                if o not in OPTION_VALUES:
                    unknown.add(f"{site}({o}=)")
            seqp = SEQUENCE_PARAM.get(attr)
            combos = list(itertools.product(*[OPTION_VALUES[o] for o in names]))
            swept[site] = names
            for combo in combos:
                kwv = dict(zip(names, combo))
                # object-valued options
                obj_opt = next((o for o in ('dest', 'start') if kwv.get(o) == '<object>'), None)
                other = mk(cn, [elem(cn, rng)]) if obj_opt else None
                if obj_opt and cn == 'UnitQuaternion' and rng.random() < 0.5:
                    other = mk(cn, [-np.asarray(other.data[0])])
                A = signed_pool(cn, rng, ref=(other.data[0] if (other is not None and cn == 'UnitQuaternion') else None))
                kw = {}
                for o, v in kwv.items():
                    if v == '<none>':
                        continue
                    kw[o] = other if v == '<object>' else v
                tag = ','.join(f"{o}={'given' if kwv[o] == '<object>' else 'None' if kwv[o] == '<none>' else kwv[o]}" for o in names if o != seqp)
                As = singles(mk(cn, A))

                def one(x, **extra):
                    return call(lambda: getattr(x, attr)(**dict(kw, **extra)))
                # (a) receiver holding M values (the sequence parameter, if any, is a scalar or absent)
                refs = [one(x) for x in As]
                if all(r[0] == 'ok' for r in refs):
                    rv = [unwrap(r[1]) for r in refs]
                    for o in names:                                   # is the option live on this pool?
                        if kwv[o] != OPTION_VALUES[o][0]:
                            base_kw = {k: v for k, v in kw.items() if k != o}
                            d0 = [call(lambda: getattr(x, attr)(**base_kw)) for x in As[:3]]
                            if any(r0[0] != 'ok' or not same(unwrap(r0[1]), rv[i]) for i, r0 in enumerate(d0)):
                                live[f"{site}({o}=)"] = True
                            else:
                                live.setdefault(f"{site}({o}=)", False)
                    for M in LENS:
                        X = mk(cn, A[:M])
                        res = one(X)
                        ctx.case(('option', cn, attr, tag, 'M', M))
                        ctx.count('oracle:option-cells')
                        good = res[0] == 'ok' and (lambda got: got is not None and len(got) == M and all(same(got[i], rv[i]) for i in range(M)))(
                            [unwrap(res[1])] if M == 1 else split_values(res[1], M, rv))
                        if not good:
                            ctx.fail(f'oracle:option:{site}:M-values:{tag}', f"{cn}.{attr}({tag}) on an object holding {M} values does not give the {M} "
                                     f"single-valued results obtained with the same options ({show_outcome(res)})",
                                     {'class': cn, 'method': attr, 'options': {k: str(v) for k, v in kwv.items()}, 'M': M,
                                      'elements_hex': [hexl(a) for a in A[:M]], 'option_object_hex': hexl(other.data[0]) if other is not None else None})
                            break
                else:
                    ctx.stats.setdefault('options:single-valued-call-raises', {})[f"{cn}.{attr}({tag})"] = exn_name(next(r[1] for r in refs if r[0] != 'ok'))
                # (b) one value, the sequence parameter holding K values: element k against the scalar call with the same options
                if seqp and seqp in names:
                    SV = np.array([0.12, 0.27, 0.41, 0.58, 0.73, 0.88])
                    x = As[1]                                          # odd index: negative inner product for unit quaternions
                    rk = [one(x, **{seqp: float(v)}) for v in SV]
                    if all(r[0] == 'ok' and single_value(r[1]) is not None for r in rk):
                        for K in LENS:
                            res = one(x, **{seqp: SV[:K].copy()})
                            ctx.case(('option', cn, attr, tag, 'K', K))
                            ctx.count('oracle:option-cells')
                            got = vals(res[1]) if res[0] == 'ok' else None
                            good = got is not None and len(got) == K and all(same(got[i], single_value(rk[i][1])) for i in range(K))
                            if not good:
                                bad = [i for i in range(K) if got is not None and len(got) == K and not same(got[i], single_value(rk[i][1]))]
                                ctx.fail(f'oracle:option:{site}:vector-{seqp}:{tag}', f"{cn}.{attr}({seqp} = {K} values, {tag}): "
                                         + (f"element(s) {bad} differ from the scalar calls made with the same options" if bad else f"gives {show_outcome(res)}"),
                                         {'class': cn, 'method': attr, 'options': {k: str(v) for k, v in kwv.items()}, seqp: SV[:K].tolist(), 'differing_elements': bad,
                                          'receiver_hex': hexl(A[1]), 'option_object_hex': hexl(other.data[0]) if other is not None else None})
                                break
    ctx.stats['options:swept'] = {k: v for k, v in swept.items()}
    ctx.stats['options:not-swept (no value table for the parameter name)'] = sorted(unknown)
    ctx.stats['options:live-on-the-pool'] = {k: v for k, v in sorted(live.items())}


# --------------------------------------------------------------------------------------------- history cells
# Every grid above uses FRESH operands.  The model is a function of the current list of values only; the history cells
# tie that to the implementation: evaluate E on X, change X through a list mutator (or change the object the first
# evaluation returned, or take a slice), evaluate E again and compare with E on a fresh object built from X's CURRENT
# values.  A result that depends on what was computed before (a cache that is not invalidated) shows up here.
def evaluations_of(cn, rng):
    """(site, label, E) with E(X) -> value; one per accessor / unary method / operator position of the grids"""
    ev = []
    for label, attr, f, shape, cat in methods_of(cn):
        ev.append((f"{definer(cn, attr)}.{attr}", f"X.{label}", f))
    P = mk(cn, [elem(cn, rng)])
    for opname, op, dunder in BINOPS[:4] + EQOPS:
        if defined_in_library(cn, dunder):
            site = f"{definer(cn, dunder)}.{optoken(opname)}"
            ev.append((site + '(left operand)', f"X {opname} P", (lambda o: lambda X: o(X, P))(op)))
            ev.append((site + '(right operand)', f"P {opname} X", (lambda o: lambda X: o(P, X))(op)))
    if defined_in_library(cn, '__mul__'):
        ev.append((f"{definer(cn, '__mul__')}.mul-scalar", 'X * 1.75', lambda X: X * 1.75))
    if defined_in_library(cn, '__rmul__'):
        ev.append((f"{definer(cn, '__rmul__')}.scalar-times-X", '1.75 * X', lambda X: 1.75 * X))
    if defined_in_library(cn, '__pow__'):
        ev.append((f"{definer(cn, '__pow__')}.pow", 'X ** 2', lambda X: X ** 2))
        ev.append((f"{definer(cn, '__pow__')}.pow", 'X ** -1', lambda X: X ** -1))
    if cn in POSES + ('UnitQuaternion',):
        pt = rng.uniform(0.3, 2.0, size=2 if cn in ('SO2', 'SE2') else 3)
        ev.append((f"{definer(cn, '__mul__')}.mul-points", 'X * point', lambda X: X * pt))
        ev.append((f"{definer(cn, 'interp')}.interp", 'X.interp(0.3)', lambda X: X.interp(0.3)))
    if cn in ('Quaternion', 'UnitQuaternion'):
        ev.append(('Quaternion.inner', 'X.inner(P)', lambda X: X.inner(P)))
        ev.append(('Quaternion.inner', 'P.inner(X)', lambda X: P.inner(X)))
    if cn in ('Twist3', 'Twist2'):
        Q = mk('SE3' if cn == 'Twist3' else 'SE2', [elem('SE3' if cn == 'Twist3' else 'SE2', rng)])
        ev.append((f"{cn}.mul-pose", 'X * pose', lambda X: X * Q))
        ev.append((f"{cn}.exp", 'X.exp([0.4])', lambda X: X.exp([0.4])))
    return ev


def mutators_of(cn, rng):
    """(name, applicable(len), apply(X)) -- the list mutators of SMUserList, with new values of class cn"""
    new1 = lambda: mk(cn, [elem(cn, rng)])  # noqa: E731
    new2 = lambda: mk(cn, [elem(cn, rng), elem(cn, rng)])  # noqa: E731

    def delitem(X):
        del X[0]

    def setitem0(X):
        X[0] = new1()

    def setlast(X):
        X[len(X) - 1] = new1()
    return [('append', lambda k: k < NMAX, lambda X: X.append(new1())),
            ('extend', lambda k: k + 2 <= NMAX, lambda X: X.extend(new2())),
            ('insert(0, v)', lambda k: k < NMAX, lambda X: X.insert(0, new1())),
            ('pop()', lambda k: k >= 2, lambda X: X.pop()),
            ('pop(0)', lambda k: k >= 2, lambda X: X.pop(0)),
            ('reverse()', lambda k: k >= 2, lambda X: X.reverse()),
            ('del X[0]', lambda k: k >= 2, delitem),
            ('X[0] = v', lambda k: True, setitem0),
            ('X[-1] = v', lambda k: k >= 2, setlast)]


def outcome_same(r1, r2):
    if r1[0] != r2[0]:
        return False
    if r1[0] == 'raise':
        return type(r1[1]) is type(r2[1])
    return same(r1[1], r2[1])


def show_outcome(r):
    return ('raises ' + exn_name(r[1])) if r[0] == 'raise' else describe(r[1])


def history_grid(ctx):
    rng = ctx.rng
    for cn in CLASSES:
        evs = evaluations_of(cn, rng)
        muts = mutators_of(cn, rng)
        for site, label, E in evs:
            def judge(kind, X, second, replay):
                """second = E(X) after the history; compare with E on a fresh object holding X's current values"""
                fresh = mk(cn, [np.array(a, dtype=float) for a in X.data])
                ref = call(lambda: E(fresh))
                ctx.case(('history', cn, label, kind, replay.get('mutator'), replay.get('length_before')))
                ctx.count('oracle:history-cells')
                if not outcome_same(second, ref):
                    ctx.fail(f'oracle:history:{site}:{kind}', f"{cn}: {label} depends on the history of the object, not only on its current values: "
                             f"after [{replay['history']}] it gives {show_outcome(second)}, a fresh object holding the same {len(X)} value(s) "
                             f"gives {show_outcome(ref)}", dict(replay, **{'class': cn, 'evaluation': label, 'current_values_hex': [hexl(a) for a in X.data]}))
            for k0 in range(1, NMAX):
                for mname, ok, apply in muts:
                    if not ok(k0):
                        continue
                    # (1) evaluate, mutate the operand, evaluate again
                    X = mk(cn, [elem(cn, rng) for _ in range(k0)])
                    first = call(lambda: E(X))
                    m = call(lambda: apply(X))
                    if m[0] == 'raise' or len(X) == 0:
                        ctx.stats.setdefault('history:mutator-unavailable', {})[f"{cn} {mname}"] = exn_name(m[1]) if m[0] == 'raise' else 'empty'
                        continue
                    judge('stale-after-mutation', X, call(lambda: E(X)),
                          {'history': f"{label}; X.{mname}; {label}" if not mname.startswith(('del', 'X[')) else f"{label}; {mname}; {label}",
                           'mutator': mname, 'length_before': k0, 'length_after': len(X)})
                    # (2) mutate the object the first evaluation returned, evaluate again
                    if first[0] == 'ok' and isinstance(first[1], SMUserList) and first[1] is not X:
                        X = mk(cn, [elem(cn, rng) for _ in range(k0)])
                        r0 = E(X)
                        rc = type(r0).__name__
                        rm = [mm for mm in mutators_of(rc, rng) if mm[0] == mname] if rc in CLASSES else []
                        if rm and rm[0][1](len(r0)) and call(lambda: rm[0][2](r0))[0] == 'ok':
                            judge('stale-after-result-mutation', X, call(lambda: E(X)),
                                  {'history': f"r = {label}; r.{mname}; {label}", 'mutator': mname, 'length_before': k0, 'length_after': len(X)})
                # (3) evaluate, take a slice, evaluate on the slice
                if k0 >= 2:
                    for sl, sname in ((slice(0, k0 - 1), 'X[0:-1]'), (slice(None, None, -1), 'X[::-1]'), (slice(1, None), 'X[1:]')):
                        X = mk(cn, [elem(cn, rng) for _ in range(k0)])
                        call(lambda: E(X))
                        y = call(lambda: X[sl])
                        if y[0] == 'raise' or len(y[1]) == 0:
                            continue
                        Y = y[1]
                        judge('stale-on-slice', Y, call(lambda: E(Y)), {'history': f"{label}; Y = {sname}; the same on Y", 'mutator': sname, 'length_before': k0, 'length_after': len(Y)})
                        call(lambda: Y.reverse())
                        judge('stale-on-slice', Y, call(lambda: E(Y)), {'history': f"{label}; Y = {sname}; the same on Y; Y.reverse(); the same on Y", 'mutator': sname + '+reverse', 'length_before': k0, 'length_after': len(Y)})


# --------------------------------------------------------------------------------------------- run
def run(ctx):
    ctx.rule = ("obligations: theorems of theories/Props/C09.v about the hand model Model/C09_Broadcast.v; evaluations: "
                "helper-correspondence cases (real binop/_op2/unop vs vm_compute of the model, all lengths 0..6) + operator cells "
                "(class x operator x (m,n) in 1..5^2, every run) + method cells (class x method x M in 1..5) + interp / exp(theta) cells; "
                "a case is distinct by its (kind, class, operator/method, lengths) signature")
    ctx.trusted_extra = ["hand model Model/C09_Broadcast.v mirrors smuserlist.py:462-625 and super_pose.py:1329-1380; checked by the exhaustive "
                         "correspondence run (lengths 0..6), not generated from the source",
                         "ctx.coq_eval: vm_compute inside coqc, output parsed by regular expressions"]
    ctx.prove('theories/Props/C09.v')
    with ctx.timed('model-table'):
        MT = ModelTable(ctx, maxlen=ctx.n(6, 12))
    with ctx.timed('correspond:helpers'):
        helper_correspondence(ctx, MT)
    with ctx.timed('oracle:operators'):
        operator_grid(ctx, MT)
        for _ in range(ctx.n(1, 8)):
            binary_method_grid(ctx, MT)
    cen = []
    with ctx.timed('oracle:methods'):
        method_grid(ctx, MT, cen)
    with ctx.timed('oracle:interp'):
        for _ in range(ctx.n(1, 8)):
            interp_grid(ctx, MT)
            twist_exp_grid(ctx, MT)
    with ctx.timed('oracle:aliasing'):
        for _ in range(ctx.n(1, 4)):
            alias_grid(ctx, MT)
    with ctx.timed('oracle:options'):
        for _ in range(ctx.n(1, 4)):
            option_grid(ctx)
    with ctx.timed('oracle:history'):
        for _ in range(ctx.n(1, 3)):
            history_grid(ctx)
    ctx.sample({'kind': 'operator cell', 'class': 'SE3', 'op': '*', 'm': 1, 'n': 3, 'expect': 'result[k] == SE3(left[0]) * SE3(right[k])'})
    ctx.sample({'kind': 'helper correspondence', 'call': 'Quaternion(3 values).binop(Quaternion(2 values), tag-pair)', 'model': MT[('binop', True, 3, 2)]})
    ctx.sample({'kind': 'helper correspondence', 'call': 'SE3(1 value)._op2(SE3(4 values), tag-pair)', 'model': MT[('op2', 1, 4)]})
    import os
    if os.environ.get('C09_CENSUS'):
        for site, shape, cat, M, obs in cen:
            print(f"{site:38s} {str(shape):28s} {cat:7s} M={M} {obs}")
