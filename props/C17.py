"""C17 -- functions and operators never modify their arguments.

Three parts (DESIGN.md section 7 C17, docs/C17.md):
  1. T-eff translator: a fail-closed `ast` pass over every function / method / nested function / lambda of
     /repo/spatialmath (plot / animate / timing excluded) that emits one *effect program* per function into
     coq/gen/EffProgs_C17.v (language and semantics: coq/theories/Model/C17_Effects.v);
  2. Props/C17.v: the verified checker is run on the regenerated programs by vm_compute, and the soundness
     theorem (real calls, every depth, every execution) is instantiated on them;
  3. the tie / oracle: a reflection-driven snapshot harness (every public callable of spatialmath.base, every
     public method / operator of every class; byte-level snapshots before and after; histories in which results
     are passed on; determinism).
"""
import ast
import builtins
import copy
import importlib
import inspect
import io
import json
import math
import operator
import os
import pickle
import sys
import types
import contextlib

import numpy as np

from lib.core import REPO

# ======================================================================================================
# 1. translator
# ======================================================================================================
EXCLUDED_FILES = {'animate.py', 'timing.py', 'graphics.py', '__init__.py'}
EXCLUDED_FN = ('plot', 'animate')           # substring of the function name: graphics, out of scope for C17

# methods that may write their receiver: constructors (+ the constructor helper) and the documented list mutators
SELFWRITER_NAMES = {'__init__', 'arghandler', '__setitem__', '__delitem__', 'append', 'extend', 'insert', 'pop',
                    'clear', 'reverse', 'remove', 'sort'}
# method names that mutate the receiver for SOME builtin / numpy / collections type
MUT_NAMES = SELFWRITER_NAMES | {
    'update', 'setdefault', 'popitem', 'add', 'discard', 'difference_update', 'intersection_update',
    'symmetric_difference_update', 'fill', 'itemset', 'put', 'resize', 'partition', 'setflags', 'setfield',
    'byteswap', 'appendleft', 'extendleft', 'popleft', 'rotate', 'at', 'shuffle', 'seed', 'write', 'writelines',
    '__iadd__', '__isub__', '__imul__', '__itruediv__', '__ifloordiv__', '__imod__', '__ipow__', '__imatmul__',
    '__iand__', '__ior__', '__ixor__', '__ilshift__', '__irshift__', '__setattr__', '__delattr__', '__setstate__',
    '__setslice__', 'sort_values', 'setdiag', 'set'}
MUT_NAMES -= {'write', 'writelines', 'set', 'at', 'seed', 'shuffle'}     # handled by the function tables below
# library methods named like an in-place operator delegate to the binary operator; they are *pure* programs and
# are checked like every other function, so calling them by name is an ordinary call
INPLACE_DUNDERS = {'__iadd__', '__isub__', '__imul__', '__itruediv__', '__ipow__'}

# external callables that return a new (or immutable) object -- trusted table, validated dynamically
FRESH_FUNCS = {
    'numpy': {'zeros', 'ones', 'eye', 'identity', 'empty', 'full', 'array', 'pad', 'zeros_like', 'ones_like',
              'empty_like', 'full_like', 'concatenate', 'vstack', 'hstack', 'column_stack', 'dstack', 'stack', 'block',
              'cross', 'dot', 'matmul', 'inner', 'outer', 'kron', 'copy', 'tile', 'repeat', 'linspace', 'arange',
              'logspace', 'sum', 'prod', 'mean', 'cumsum', 'trace', 'delete', 'insert', 'append',
              'roll', 'where', 'argmax', 'argmin', 'argsort', 'sort', 'abs', 'absolute', 'sign', 'sqrt',
              'sin', 'cos', 'tan', 'arcsin', 'arccos', 'arctan', 'arctan2', 'exp', 'log', 'floor', 'ceil', 'mod',
              'deg2rad', 'rad2deg', 'radians', 'degrees', 'allclose', 'isclose', 'all', 'any', 'isscalar',
              'array_equal', 'count_nonzero', 'vectorize', 'meshgrid', 'maximum', 'minimum', 'clip', 'around',
              'round', 'diff', 'float64', 'int64', 'isnan', 'isinf', 'isfinite', 'nonzero', 'unique', 'add',
              'subtract', 'multiply', 'divide', 'negative', 'power', 'square', 'hypot', 'fmod', 'remainder'},
    'numpy.linalg': {'inv', 'pinv', 'norm', 'det', 'eig', 'eigh', 'svd', 'solve', 'matrix_power', 'matrix_rank',
                     'lstsq', 'cond', 'qr', 'cholesky', 'eigvals', 'eigvalsh'},
    'scipy.linalg': {'expm', 'logm', 'sqrtm', 'null_space', 'inv', 'norm', 'det'},
    'builtins': {'len', 'abs', 'float', 'int', 'str', 'bool', 'complex', 'sum', 'round', 'sorted', 'list', 'tuple', 'dict',
                 'set', 'frozenset', 'range', 'zip', 'enumerate', 'map', 'filter', 'repr', 'format', 'isinstance',
                 'issubclass', 'all', 'any', 'hasattr', 'callable', 'id', 'hash', 'ord', 'chr', 'divmod',
                 'pow', 'print', 'bytes', 'slice', 'reversed', 'iter'},
    'copy': {'copy', 'deepcopy'},
}
FRESH_MODULES = {'math', 'cmath', 'sympy', 'operator_none'}       # every function of these returns a new / immutable object
# methods (on an arbitrary receiver) that return a new or immutable object, used only when no class of the
# library defines a method of that name
FRESH_METHODS = {'copy', 'flatten', 'tolist', 'format', 'join', 'split', 'replace', 'strip', 'lstrip', 'rstrip',
                 'lower', 'upper', 'startswith', 'endswith', 'astype', 'sum', 'mean', 'dot', 'all', 'any', 'tobytes',
                 'item', 'keys', 'values', 'items', 'count', 'index', 'find', 'subs', 'evalf', 'simplify', 'expand',
                 'is_integer', 'encode', 'decode', 'center', 'ljust', 'rjust', 'zfill', 'title'}
# external callables that write an argument: name -> indices of the written arguments (None = refuse altogether)
WRITE_ARG_FUNCS = {
    'numpy.copyto': [0], 'numpy.put': [0], 'numpy.place': [0], 'numpy.putmask': [0], 'numpy.fill_diagonal': [0],
    'numpy.put_along_axis': [0], 'random.shuffle': [0], 'numpy.random.shuffle': [0], 'builtins.setattr': [0],
    'builtins.delattr': [0], 'operator.setitem': [0], 'operator.delitem': [0], 'operator.iadd': [0], 'operator.isub': [0],
    'operator.imul': [0], 'operator.itruediv': [0], 'operator.imatmul': [0], 'operator.ipow': [0],
    'operator.iconcat': [0], 'builtins.exec': None, 'builtins.eval': None, 'builtins.vars': None,
    'builtins.globals': None, 'builtins.compile': None, 'builtins.__import__': None,
    'numpy.ndarray.sort': [0], 'numpy.ndarray.fill': [0], 'numpy.ndarray.resize': [0], 'numpy.ndarray.put': [0],
    'numpy.ndarray.itemset': [0], 'builtins.list.append': [0], 'builtins.list.extend': [0], 'builtins.list.insert': [0],
    'builtins.list.sort': [0], 'builtins.list.reverse': [0], 'builtins.list.clear': [0], 'builtins.list.pop': [0],
    'builtins.list.remove': [0], 'builtins.dict.update': [0], 'builtins.dict.pop': [0], 'builtins.dict.clear': [0],
    'builtins.dict.setdefault': [0], 'collections.UserList.append': [0], 'collections.UserList.extend': [0],
    'collections.UserList.insert': [0], 'collections.UserList.pop': [0], 'collections.UserList.clear': [0],
    'collections.UserList.reverse': [0], 'collections.UserList.sort': [0], 'collections.UserList.remove': [0],
    'collections.UserList.__init__': [0], 'collections.UserList.__setitem__': [0], 'collections.UserList.__delitem__': [0],
    'collections.UserList.__iadd__': [0], 'collections.UserList.__imul__': [0],
}
WRITE_ARG0_BARE = {'setitem', 'delitem', 'iadd', 'isub', 'imul', 'itruediv', 'ifloordiv', 'imod', 'ipow', 'imatmul', 'iand', 'ior',
                   'ixor', 'ilshift', 'irshift', 'iconcat', 'shuffle', 'copyto', 'put', 'place', 'putmask', 'fill_diagonal',
                   'put_along_axis'}
FORBIDDEN_ATTRS = {'__dict__', '__setattr__', '__delattr__', '__globals__', '__code__', '__closure__', '__defaults__',
                   '__kwdefaults__', '__bases__', '__mro__', '__subclasses__', '__slots__', '__setstate__', 'ctypes',
                   'data_as', '__array_interface__', 'flags', 'setflags', 'strides_as'}
OWNED_ATTR = 'data'       # the list held by an SMUserList: always created by the library for that instance (checked)


class Fn:
    """one function-like AST node"""
    def __init__(self, module, qual, node, cls, parent, decorators):
        self.module, self.qual, self.node, self.cls, self.parent = module, qual, node, cls, parent
        self.decorators = decorators
        self.id = None
        a = node.args
        self.params = [x.arg for x in getattr(a, 'posonlyargs', [])] + [x.arg for x in a.args]
        if a.vararg:
            self.params.append(a.vararg.arg)
        self.params += [x.arg for x in a.kwonlyargs]
        self.kwarg = a.kwarg.arg if a.kwarg else None     # **kw is a new dict on every call: a fresh local
        self.name = getattr(node, 'name', '<lambda>')
        is_method = cls is not None and parent is None and isinstance(node, ast.FunctionDef)
        self.static = 'staticmethod' in decorators or 'abstractstaticmethod' in decorators
        self.classmethod = 'classmethod' in decorators
        self.selfwriter = bool(is_method and not self.static and not self.classmethod and self.name in SELFWRITER_NAMES
                               and self.params)
        # parameters with a str-constant default: assumed to be passed a str (or None) -- an accepted-form assumption
        self.str_params = set()
        pos = getattr(a, 'posonlyargs', []) + a.args
        for p, d in zip(pos[len(pos) - len(a.defaults):], a.defaults):
            if isinstance(d, ast.Constant) and isinstance(d.value, str):
                self.str_params.add(p.arg)
        for p, d in zip(a.kwonlyargs, a.kw_defaults):
            if d is not None and isinstance(d, ast.Constant) and isinstance(d.value, str):
                self.str_params.add(p.arg)
        self.fullname = f"{module}:{qual}"


def own_nodes(node):
    """walk the nodes of a function body that belong to its own scope (nested def / lambda / class bodies excluded;
    their decorators, defaults and bases are included)"""
    stack = list(reversed(node if isinstance(node, list) else [node]))
    while stack:
        n = stack.pop()
        yield n
        if isinstance(n, (ast.FunctionDef, ast.AsyncFunctionDef)):
            stack.extend(n.decorator_list)
            stack.extend(n.args.defaults)
            stack.extend(d for d in n.args.kw_defaults if d is not None)
        elif isinstance(n, ast.Lambda):
            stack.extend(n.args.defaults)
            stack.extend(d for d in n.args.kw_defaults if d is not None)
        elif isinstance(n, ast.ClassDef):
            stack.extend(n.decorator_list)
            stack.extend(n.bases)
        else:
            stack.extend(reversed(list(ast.iter_child_nodes(n))))


def assigned_names(nodes):
    """every name (re)bound or deleted anywhere inside the given nodes -- nested scopes included (conservative)"""
    out = set()
    for top in (nodes if isinstance(nodes, list) else [nodes]):
        for n in ast.walk(top):
            if isinstance(n, ast.Name) and isinstance(n.ctx, (ast.Store, ast.Del)):
                out.add(n.id)
            elif isinstance(n, (ast.FunctionDef, ast.AsyncFunctionDef, ast.ClassDef)):
                out.add(n.name)
            elif isinstance(n, (ast.Import, ast.ImportFrom)):
                for al in n.names:
                    out.add((al.asname or al.name).split('.')[0])
            elif isinstance(n, ast.ExceptHandler) and n.name:
                out.add(n.name)
            elif isinstance(n, (ast.Global, ast.Nonlocal)):
                out.update(n.names)
    return out


def chain(e):
    """(root expression, list of accessors from the root outwards) of a Subscript / Attribute chain"""
    path = []
    while isinstance(e, (ast.Subscript, ast.Attribute, ast.Starred)):
        if isinstance(e, ast.Attribute):
            path.append(('attr', e.attr))
        elif isinstance(e, ast.Subscript):
            path.append(('item', None))
        e = e.value
    return e, list(reversed(path))


def is_str_expr(e):
    if isinstance(e, ast.Constant):
        return isinstance(e.value, str)
    if isinstance(e, ast.JoinedStr):
        return True
    if isinstance(e, ast.BinOp) and isinstance(e.op, ast.Add):
        return is_str_expr(e.left) and is_str_expr(e.right)
    if isinstance(e, ast.Call) and isinstance(e.func, ast.Attribute) and e.func.attr == 'format':
        return is_str_expr(e.func.value)
    return False


def is_class_name_expr(e):
    """type(x).__name__  /  x.__class__.__name__"""
    if not (isinstance(e, ast.Attribute) and e.attr == '__name__'):
        return False
    v = e.value
    if isinstance(v, ast.Attribute) and v.attr == '__class__':
        return True
    return isinstance(v, ast.Call) and isinstance(v.func, ast.Name) and v.func.id == 'type' and len(v.args) == 1


class Translator:
    def __init__(self, repo):
        self.repo = repo
        self.pkg = os.path.join(repo, 'spatialmath')
        self.fns = []                 # all Fn, index = function id
        self.by_key = {}              # (module, qualname) -> Fn   (top-level functions and methods)
        self.lib_method_names = set()
        self.modules = {}             # module name -> live module object
        self.trees = {}
        self.sites = []               # human-readable log of every write site and how it was classified
        self.classname_getattr = []
        self.used_fresh = {}
        self.class_names = set()
        self.assumed_str = []         # (function, parameter) pairs where the str-parameter assumption was used
        self.top_reasons = {}         # function -> reasons it got a write to TOP
        self.stats = {'write_sites': 0, 'write_sites_refined': 0, 'top_writes': 0, 'fresh_defs': 0, 'other_defs': 0,
                      'freshcall_defs': 0, 'new_defs': 0, 'mutcalls': 0}

    # ---------------------------------------------------------------- collection
    def collect(self):
        files = []
        for dp, dn, fs in os.walk(self.pkg):
            dn.sort()
            for f in sorted(fs):
                if f.endswith('.py') and f not in EXCLUDED_FILES:
                    files.append(os.path.join(dp, f))
        for p in files:
            rel = os.path.relpath(p, self.repo)[:-3].replace(os.sep, '.')
            with open(p, encoding='utf-8') as fh:
                src = fh.read()
            import warnings
            with warnings.catch_warnings():
                warnings.simplefilter('ignore')
                tree = ast.parse(src)
            self.trees[rel] = tree
            mod = importlib.import_module(rel)
            if os.path.realpath(mod.__file__) != os.path.realpath(p):
                raise RuntimeError(f"live module {rel} is {mod.__file__}, not the analysed file {p}")
            self.modules[rel] = mod
            self._collect_body(rel, tree.body, '', None, None)
        for i, f in enumerate(self.fns):
            f.id = i

    def _collect_body(self, module, body, prefix, cls, parent):
        for top in body:
            for n in own_nodes(top):
                if isinstance(n, (ast.FunctionDef, ast.AsyncFunctionDef)):
                    decs = {ast.unparse(d).split('(')[0].split('.')[-1] for d in n.decorator_list}
                    qual = prefix + n.name
                    if any(s in n.name for s in EXCLUDED_FN) and parent is None:
                        continue                   # graphics: excluded together with everything nested in it
                    fn = Fn(module, qual, n, cls, parent, decs)
                    self.fns.append(fn)
                    if parent is None:
                        # a later definition with the same qualified name replaces the earlier one at run time
                        self.by_key[(module, qual)] = fn
                        if cls is not None:
                            self.lib_method_names.add(n.name)
                    self._collect_body(module, n.body, qual + '.<locals>.', cls, fn)
                elif isinstance(n, ast.Lambda):
                    fn = Fn(module, prefix + f'<lambda@{n.lineno}:{n.col_offset}>', n, cls, parent, set())
                    self.fns.append(fn)
                    self._collect_body(module, [n.body], fn.qual + '.<locals>.', cls, fn)
                elif isinstance(n, ast.ClassDef):
                    self.class_names.add(n.name)
                    if parent is None and cls is None:
                        self._collect_body(module, n.body, prefix + n.name + '.', n.name, None)
                    else:
                        self._collect_body(module, n.body, prefix + n.name + '.', n.name, parent)

    # ---------------------------------------------------------------- name resolution through the live modules
    def resolve(self, fn, e, localnames):
        """the run-time object a Name / dotted expression denotes, resolved through the module's globals
        (only through modules and classes, never through instances); None when not resolvable"""
        parts = []
        while isinstance(e, ast.Attribute):
            parts.append(e.attr)
            e = e.value
        if not isinstance(e, ast.Name) or e.id in localnames:
            return None
        mod = self.modules[fn.module]
        if e.id in mod.__dict__:
            obj = mod.__dict__[e.id]
        elif hasattr(builtins, e.id):
            obj = getattr(builtins, e.id)
        else:
            return None
        for a in reversed(parts):
            if not isinstance(obj, (types.ModuleType, type)) and not (isinstance(obj, np.ufunc)) \
                    and not type(obj).__name__ in ('RClass', 'CClass'):
                return None
            try:
                obj = inspect.getattr_static(obj, a) if isinstance(obj, type) else getattr(obj, a)
            except AttributeError:
                return None
            if isinstance(obj, (classmethod, staticmethod)):
                obj = obj.__func__
        return obj

    def lib_fn_of(self, obj):
        """the Fn of a library function object (top-level function or method), else None"""
        if isinstance(obj, types.MethodType):
            obj = obj.__func__
        if isinstance(obj, types.FunctionType) and obj.__module__ in self.modules:
            return self.by_key.get((obj.__module__, obj.__qualname__))
        return None

    @staticmethod
    def ext_name(obj):
        m = getattr(obj, '__module__', None)
        n = getattr(obj, '__qualname__', None) or getattr(obj, '__name__', None)
        if isinstance(obj, (types.BuiltinFunctionType, types.BuiltinMethodType)) and m is None:
            s = getattr(obj, '__self__', None)
            m = getattr(s, '__name__', None) if isinstance(s, types.ModuleType) else None
        if isinstance(obj, (types.MethodDescriptorType, types.WrapperDescriptorType)):
            oc = obj.__objclass__
            return f"{oc.__module__}.{oc.__name__}.{obj.__name__}"
        if isinstance(obj, types.FunctionType) and '.' in (n or ''):
            return f"{m}.{n}"
        return f"{m}.{n}" if m and n else None

    # ---------------------------------------------------------------- one function
    def translate(self, fn):
        T = _FnTranslator(self, fn)
        T.run()
        return T


class _FnTranslator:
    def __init__(self, tr, fn):
        self.tr, self.fn = tr, fn
        self.stmts = []
        self.vars = {}
        for i, p in enumerate(fn.params):
            self.vars[p] = i
        self.nparams = len(fn.params)
        self.nvars = self.nparams
        body = fn.node.body if isinstance(fn.node.body, list) else [fn.node.body]
        self.body = body
        names = set()
        for n in own_nodes(body):
            if isinstance(n, ast.Name) and isinstance(n.ctx, (ast.Store, ast.Del)):
                names.add(n.id)
            elif isinstance(n, (ast.FunctionDef, ast.AsyncFunctionDef, ast.ClassDef)):
                names.add(n.name)
            elif isinstance(n, (ast.Import, ast.ImportFrom)):
                for al in n.names:
                    names.add((al.asname or al.name).split('.')[0])
            elif isinstance(n, ast.ExceptHandler) and n.name:
                names.add(n.name)
        self.declared_global = set()
        for n in own_nodes(body):
            if isinstance(n, (ast.Global, ast.Nonlocal)):
                self.declared_global.update(n.names)
        self.locals = (names - set(fn.params)) - self.declared_global
        if fn.kwarg:
            self.locals.add(fn.kwarg)
        for x in sorted(self.locals):
            self.vars[x] = self.nvars
            self.nvars += 1
        self.localnames = set(self.vars)
        # names of enclosing function scopes shadow module globals as well
        p = fn.parent
        self.enclosing = set()
        while isinstance(p, Fn):
            self.enclosing |= set(p.params) | assigned_names(p.node.body if isinstance(p.node.body, list) else [p.node.body])
            if p.kwarg:
                self.enclosing.add(p.kwarg)
            p = p.parent
        self.shadow = self.localnames | self.enclosing
        self.top = None
        # nested functions bound exactly once (by their def) in this scope: calls of that name are calls of that program
        self.nested = {}
        stores = {}
        for n in own_nodes(body):
            if isinstance(n, ast.Name) and isinstance(n.ctx, (ast.Store, ast.Del)):
                stores[n.id] = stores.get(n.id, 0) + 1
        for n in own_nodes(body):
            if isinstance(n, ast.FunctionDef) and n.name not in stores and n.name not in fn.params and \
                    sum(1 for m in own_nodes(body) if isinstance(m, (ast.FunctionDef, ast.ClassDef)) and m.name == n.name) == 1:
                for g in tr.fns:
                    if g.node is n:
                        self.nested[n.name] = g

    # ------------------------------------------------------------ emission helpers
    def newvar(self):
        v = self.nvars
        self.nvars += 1
        return v

    def emit(self, s):
        self.stmts.append(s)

    def emit_def(self, v, cls):
        k = {'Fresh': 'fresh_defs', 'New': 'new_defs', 'Other': 'other_defs'}.get(cls if isinstance(cls, str) else '', 'freshcall_defs')
        self.tr.stats[k] += 1
        self.emit(('Def', v, cls))

    def top_write(self, why, node=None):
        """a write that cannot be classified: a write to a root that is never fresh (rejected by the checker)"""
        if self.top is None:
            self.top = self.newvar()
            self.emit(('Def', self.top, 'Other'))
        self.emit(('Write', self.top))
        self.tr.stats['top_writes'] += 1
        line = getattr(node, 'lineno', self.fn.node.lineno)
        self.tr.top_reasons.setdefault(self.fn.fullname, []).append(f"line {line}: {why}")
        self.tr.sites.append(f"{self.fn.fullname}:{line} TOP {why}")

    def write_name(self, name, known, node, how='Write', what=''):
        """a write whose root is the plain name `name`"""
        self.tr.stats['write_sites'] += 1
        if how == 'MutCall':
            self.tr.stats['mutcalls'] += 1
        line = getattr(node, 'lineno', 0)
        if name in self.declared_global or name not in self.vars:
            self.top_write(f"write to non-local name {name!r} {what}", node)
            return
        if name in known and name != (self.fn.params[0] if self.fn.selfwriter else None):
            # the reaching definition at this point is unique and fresh: use a site-local variable
            v = self.newvar()
            self.emit_def(v, known[name])
            self.emit((how, v))
            self.tr.stats['write_sites_refined'] += 1
            self.tr.sites.append(f"{self.fn.fullname}:{line} {how} {name} [reaching def {self.show(known[name])}] {what}")
            return
        self.emit((how, self.vars[name]))
        self.tr.sites.append(f"{self.fn.fullname}:{line} {how} {name} {what}")

    @staticmethod
    def show(c):
        return c if isinstance(c, str) else f"FreshCall {c[1].fullname}"

    def write_target(self, t, known, node, what):
        """a store / delete / in-place update whose target is the Subscript / Attribute expression t"""
        root, path = chain(t)
        if any(k == 'attr' and a in FORBIDDEN_ATTRS for k, a in path):
            self.top_write(f"write through {ast.unparse(t)[:60]}", node)
            return
        if isinstance(root, ast.Call) and isinstance(root.func, ast.Name) and root.func.id == 'super' and not root.args:
            self.top_write(f"store through super(): {ast.unparse(t)[:60]}", node)
            return
        if isinstance(root, ast.Name):
            if len(path) == 1:
                self.write_name(root.id, known, node, 'Write', what)
                return
            if len(path) == 2 and path[0] == ('attr', OWNED_ATTR) and path[1][0] == 'item':
                # x.data[i] = v : the list owned by x is part of x's value
                self.write_name(root.id, known, node, 'Write', what + ' (owned list)')
                return
            self.top_write(f"write at depth {len(path)}: {ast.unparse(t)[:60]}", node)
            return
        c = self.classify(root, known)
        if c in ('Fresh', 'New') and len(path) == 1:
            self.tr.stats['write_sites'] += 1
            self.tr.sites.append(f"{self.fn.fullname}:{getattr(node, 'lineno', 0)} write into a fresh temporary {what}")
            return
        self.top_write(f"write whose root is not a name: {ast.unparse(t)[:60]}", node)

    # ------------------------------------------------------------ classification of a right-hand side
    @staticmethod
    def join(a, b):
        if a == b:
            return a
        if a in ('Fresh', 'New') and b in ('Fresh', 'New'):
            return 'Fresh'
        return 'Other'

    def classify(self, e, known):
        """'Fresh' | 'New' | ('FreshCall', Fn) | 'Other'"""
        if isinstance(e, ast.Name):
            return known.get(e.id, 'Other') if e.id in self.vars else 'Other'
        if isinstance(e, (ast.Constant, ast.JoinedStr, ast.BinOp, ast.UnaryOp, ast.Compare, ast.List, ast.Tuple, ast.Dict,
                          ast.Set, ast.ListComp, ast.SetComp, ast.DictComp, ast.GeneratorExp, ast.Lambda)):
            return 'Fresh'
        if isinstance(e, ast.BoolOp):
            c = self.classify(e.values[0], known)
            for v in e.values[1:]:
                c = self.join(c, self.classify(v, known))
            return c
        if isinstance(e, ast.IfExp):
            return self.join(self.classify(e.body, known), self.classify(e.orelse, known))
        if isinstance(e, ast.NamedExpr):
            return self.classify(e.value, known)
        if isinstance(e, ast.Subscript):
            obj = self.tr.resolve(self.fn, e.value, self.shadow)
            if obj is not None and type(obj).__module__.startswith('numpy') and type(obj).__name__ in ('RClass', 'CClass'):
                return 'Fresh'                                   # np.r_[..], np.c_[..]
            return 'Other'
        if isinstance(e, ast.Call):
            return self.classify_call(e, known)
        return 'Other'

    def classify_call(self, e, known):
        f = e.func
        kw = {k.arg for k in e.keywords}
        # instantiation through the receiver's class
        if isinstance(f, ast.Attribute) and f.attr == '__class__':
            return 'New'
        if isinstance(f, ast.Call) and isinstance(f.func, ast.Name) and f.func.id == 'type' and 'type' not in self.shadow \
                and len(f.args) == 1:
            return 'New'
        if isinstance(f, ast.Name) and self.fn.classmethod and self.fn.params and f.id == self.fn.params[0] \
                and f.id not in assigned_names(self.body):
            return 'New'
        if isinstance(f, ast.Attribute) and f.attr == '__new__':
            return 'New'
        if isinstance(f, ast.Name) and f.id in self.nested:
            return ('FreshCall', self.nested[f.id])
        obj = self.tr.resolve(self.fn, f, self.shadow)
        if obj is not None:
            lf = self.tr.lib_fn_of(obj)
            if lf is not None:
                if lf.selfwriter:
                    return 'Other'
                return ('FreshCall', lf)
            if isinstance(obj, type):
                if obj.__module__ in self.tr.modules or obj.__module__.startswith('spatialmath'):
                    return 'New'
                if obj in (memoryview, np.ndarray, np.matrix, np.memmap, np.recarray, super, type):
                    return 'Other'
                return 'Fresh'
            name = self.tr.ext_name(obj)
            if name:
                m, _, n = name.rpartition('.')
                if m in FRESH_MODULES or m.split('.')[0] in FRESH_MODULES:
                    self.tr.used_fresh[name] = obj
                    return 'Fresh'
                if n in FRESH_FUNCS.get(m, ()) or (m.startswith('numpy') and n in FRESH_FUNCS['numpy']
                                                   and getattr(np, n, None) is obj):
                    if m.startswith('numpy') and ({'copy', 'out', 'subok'} & kw):
                        return 'Other'
                    self.tr.used_fresh[name] = obj
                    return 'Fresh'
            if isinstance(obj, np.ufunc):
                if 'out' in kw or len(e.args) > obj.nin:
                    return 'Other'
                return 'Fresh'
            return 'Other'
        if isinstance(f, ast.Attribute) and f.attr in FRESH_METHODS and f.attr not in self.tr.lib_method_names:
            if f.attr == 'astype' and ('copy' in kw or len(e.args) > 1):
                return 'Other'
            return 'Fresh'
        return 'Other'

    # ------------------------------------------------------------ expression-level effects
    def scan(self, e, known):
        """effects of evaluating the expression(s) e: mutating calls, out=, blacklisted functions, walrus,
        comprehension targets, escapes of bound mutators"""
        if e is None:
            return
        nodes = list(own_nodes(e))
        callfuncs = {id(n.func) for n in nodes if isinstance(n, ast.Call)}
        for n in nodes:
            if isinstance(n, ast.Call):
                self.scan_call(n, known)
            elif isinstance(n, ast.Attribute):
                if n.attr in FORBIDDEN_ATTRS and isinstance(n.ctx, ast.Load):
                    self.top_write(f"use of {n.attr}", n)
                elif n.attr in (MUT_NAMES - INPLACE_DUNDERS) and id(n) not in callfuncs and isinstance(n.ctx, ast.Load):
                    self.top_write(f"bound mutator {ast.unparse(n)[:50]} escapes", n)
            elif isinstance(n, ast.NamedExpr):
                self.bind_name(n.target.id, self.classify(n.value, known), known, n, flow=False)
            elif isinstance(n, ast.comprehension):
                self.bind_target(n.target, 'Other', known, n, flow=False)
            elif isinstance(n, (ast.Yield, ast.YieldFrom)):
                self.emit_ret(n.value, known, n)
            elif isinstance(n, ast.Await):
                self.top_write('await', n)

    def scan_call(self, c, known):
        f = c.func
        # out= (NumPy's output argument); a str constant is the library's own format selector, not an array
        for k in c.keywords:
            if k.arg == 'out' and not (isinstance(k.value, ast.Constant) and (isinstance(k.value.value, str) or k.value.value is None)):
                self.write_expr(k.value, known, c, 'out= argument')
            if k.arg is None:                   # **kw: may carry out=
                r, p = chain(k.value)
                if not (isinstance(r, ast.Name) and not p and r.id == self.fn.kwarg):
                    pass                        # the contents of a forwarded dict are the caller's business
        if isinstance(f, ast.Name) and f.id in ('getattr', 'setattr', 'delattr') and f.id not in self.shadow:
            if f.id != 'getattr':
                if c.args:
                    self.write_expr(c.args[0], known, c, f.id)
                return
            if len(c.args) >= 2 and is_class_name_expr(c.args[1]) and not (self.tr.class_names & (MUT_NAMES | FORBIDDEN_ATTRS)):
                # getattr(X, type(y).__name__): the attribute is named like a class; the translator checks that no
                # class of the library is named like a mutator
                self.tr.classname_getattr.append((self.fn.fullname, c.lineno))
                return
            if len(c.args) < 2 or not (isinstance(c.args[1], ast.Constant) and isinstance(c.args[1].value, str)) \
                    or c.args[1].value in MUT_NAMES or c.args[1].value in FORBIDDEN_ATTRS:
                self.top_write('getattr with a computed or mutator name', c)
            return
        obj = self.tr.resolve(self.fn, f, self.shadow)
        if obj is not None:
            name = self.tr.ext_name(obj)
            bare = getattr(obj, '__name__', '')
            home = getattr(obj, '__module__', None) or type(getattr(obj, '__self__', None)).__module__ or ''
            if name not in WRITE_ARG_FUNCS and bare in WRITE_ARG0_BARE and \
                    home.split('.')[0].lstrip('_') in ('operator', 'random', 'numpy'):
                name = 'operator.setitem'                 # same treatment: the first argument is written
            if name in WRITE_ARG_FUNCS:
                idx = WRITE_ARG_FUNCS[name]
                if idx is None:
                    self.top_write(f"call of {name}", c)
                else:
                    for i in idx:
                        if i < len(c.args):
                            self.write_expr(c.args[i], known, c, f"argument {i} of {name}")
                        else:
                            self.top_write(f"call of {name} with the written argument passed by keyword", c)
                return
            if isinstance(obj, np.ufunc) and len(c.args) > obj.nin:
                for a in c.args[obj.nin:]:
                    self.write_expr(a, known, c, f"positional output of ufunc {obj.__name__}")
                return
            if isinstance(obj, (types.MethodDescriptorType, types.WrapperDescriptorType)) and obj.__name__ in MUT_NAMES:
                if c.args:
                    self.write_expr(c.args[0], known, c, f"explicit receiver of {name}")
                else:
                    self.top_write(f"call of {name} without positional receiver", c)
                return
            lf = self.tr.lib_fn_of(obj)
            if lf is not None and lf.selfwriter and c.args:
                # Class.append(x, ..) : explicit receiver
                self.write_expr(c.args[0], known, c, f"explicit receiver of {lf.fullname}", how='MutCall')
                return
        if isinstance(f, ast.Attribute):
            if isinstance(f.value, ast.Attribute) and isinstance(obj := self.tr.resolve(self.fn, f.value, self.shadow), np.ufunc) \
                    and f.attr in ('at',):
                if c.args:
                    self.write_expr(c.args[0], known, c, 'ufunc.at')
                return
            if f.attr in MUT_NAMES:
                how = 'MutCall' if f.attr in SELFWRITER_NAMES else 'Write'
                r = f.value
                if isinstance(r, ast.Call) and isinstance(r.func, ast.Name) and r.func.id == 'super':
                    if f.attr in SELFWRITER_NAMES and self.fn.cls is not None and not isinstance(self.fn.parent, Fn):
                        if self.fn.name == '__new__' or self.fn.static or self.fn.classmethod:
                            if c.args:
                                self.write_expr(c.args[0], known, c, f"super().{f.attr}(obj, ..)", how='MutCall')
                            else:
                                self.top_write(f"super().{f.attr}() without receiver", c)
                        elif self.fn.params:
                            self.write_name(self.fn.params[0], known, c, 'MutCall', f"super().{f.attr}(..)")
                        else:
                            self.top_write(f"super().{f.attr}() in a function without parameters", c)
                    else:
                        self.top_write(f"super().{f.attr}(..)", c)
                    return
                self.write_expr(r, known, c, f".{f.attr}(..)", how=how, receiver=True)

    def write_expr(self, r, known, node, what, how='Write', receiver=False):
        """a write into the object the expression r evaluates to"""
        root, path = chain(r)
        if any(k == 'attr' and a in FORBIDDEN_ATTRS for k, a in path):
            self.top_write(f"write through {ast.unparse(r)[:60]}", node)
        elif isinstance(root, ast.Name) and not path:
            self.write_name(root.id, known, node, how, what)
        elif isinstance(root, ast.Name) and path == [('attr', OWNED_ATTR)]:
            self.write_name(root.id, known, node, 'Write', what + ' (owned list)')
        elif self.classify(r, known) in ('Fresh', 'New'):
            self.tr.stats['write_sites'] += 1
            self.tr.sites.append(f"{self.fn.fullname}:{getattr(node, 'lineno', 0)} write into a fresh temporary {what}")
        else:
            self.top_write(f"{what} on {ast.unparse(r)[:60]}", node)

    # ------------------------------------------------------------ bindings
    def bind_name(self, name, cls, known, node, flow=True):
        if name in self.declared_global or name not in self.vars:
            self.top_write(f"binding of non-local name {name!r}", node)
            return
        self.emit_def(self.vars[name], cls if isinstance(cls, str) else ('FreshCall', cls[1]))
        if flow and cls != 'Other':
            known[name] = cls
        else:
            known.pop(name, None)

    def bind_target(self, t, cls, known, node, flow=True):
        if isinstance(t, ast.Name):
            self.bind_name(t.id, cls, known, node, flow)
        elif isinstance(t, (ast.Tuple, ast.List)):
            for x in t.elts:
                self.bind_target(x, 'Other', known, node, flow)
        elif isinstance(t, ast.Starred):
            self.bind_target(t.value, 'Other', known, node, flow)
        elif isinstance(t, (ast.Subscript, ast.Attribute)):
            self.scan(t.value, known)
            if isinstance(t, ast.Subscript):
                self.scan(t.slice, known)
            self.write_target(t, known, node, 'store ' + ast.unparse(t)[:40])
        else:
            self.top_write(f"unknown assignment target {type(t).__name__}", node)

    def only_str_augmented(self, name):
        """every (re)binding of the parameter inside the function is `name += <str expression>`"""
        aug = set()
        for n in own_nodes(self.body):
            if isinstance(n, ast.AugAssign) and isinstance(n.target, ast.Name) and n.target.id == name:
                if not (isinstance(n.op, ast.Add) and is_str_expr(n.value)):
                    return False
                aug.add(id(n.target))
        if name in assigned_names([x for x in self.body]) and any(
                isinstance(n, ast.Name) and n.id == name and isinstance(n.ctx, (ast.Store, ast.Del)) and id(n) not in aug
                for top in self.body for n in ast.walk(top)):
            return False
        return True

    def emit_ret(self, e, known, node):
        if e is None:
            return                                      # the implicit `return None` is emitted once at the end
        if isinstance(e, ast.Name) and e.id in self.vars and e.id not in known:
            self.emit(('Ret', self.vars[e.id]))
            return
        v = self.newvar()
        c = self.classify(e, known)
        self.emit_def(v, c)
        self.emit(('Ret', v))

    # ------------------------------------------------------------ statements (with the reaching-definition refinement)
    def block(self, stmts, known):
        for s in stmts:
            self.stmt(s, known)

    def drop(self, known, names):
        for n in names:
            known.pop(n, None)

    def stmt(self, s, known):
        fn = self.fn
        if isinstance(s, ast.Assign):
            self.scan(s.value, known)
            c = self.classify(s.value, known)
            if isinstance(s.value, ast.Name) is False and len(s.targets) >= 1:
                pass
            # ownership discipline: X.data = <a list created here>
            for t in s.targets:
                if isinstance(t, ast.Attribute) and t.attr == OWNED_ATTR and c == 'Other':
                    self.top_write(f"the owned list .{OWNED_ATTR} is set to an object that is not created here: {ast.unparse(s)[:70]}", s)
            walrus = {n.target.id for n in own_nodes(s.value) if isinstance(n, ast.NamedExpr)}
            self.drop(known, walrus)
            for t in s.targets:
                self.bind_target(t, c, known, s)
        elif isinstance(s, ast.AnnAssign):
            if s.value is not None:
                self.scan(s.value, known)
                self.bind_target(s.target, self.classify(s.value, known), known, s)
        elif isinstance(s, ast.AugAssign):
            self.scan(s.value, known)
            t = s.target
            if isinstance(t, ast.Name):
                if t.id in fn.str_params and t.id in fn.params and is_str_expr(s.value) and isinstance(s.op, ast.Add) \
                        and self.only_str_augmented(t.id):
                    # fmt += "..." on a parameter whose default is a str constant: a rebinding of a str
                    self.tr.assumed_str.append((fn.fullname, t.id, s.lineno))
                    self.tr.sites.append(f"{fn.fullname}:{s.lineno} str-parameter rebinding {t.id} += <str>")
                else:
                    self.write_name(t.id, known, s, 'Write', 'augmented assignment ' + ast.unparse(s)[:50])
                # afterwards t is the same object or the result of the binary operator: known[t] stays as it was
            else:
                self.scan(t.value, known)
                if isinstance(t, ast.Subscript):
                    self.scan(t.slice, known)
                self.write_target(t, known, s, 'augmented store ' + ast.unparse(t)[:40])
        elif isinstance(s, ast.Delete):
            for t in s.targets:
                if isinstance(t, ast.Name):
                    known.pop(t.id, None)
                    if t.id not in self.vars:
                        self.top_write(f"del of non-local {t.id}", s)
                else:
                    self.bind_target(t, 'Other', known, s)
        elif isinstance(s, ast.Return):
            self.scan(s.value, known)
            self.emit_ret(s.value, known, s)
        elif isinstance(s, ast.Expr):
            self.scan(s.value, known)
        elif isinstance(s, (ast.If, ast.While)):
            changed = assigned_names([s])
            if isinstance(s, ast.While):
                self.drop(known, changed)
            self.scan(s.test, known)
            self.drop(known, {n.target.id for n in own_nodes(s.test) if isinstance(n, ast.NamedExpr)})
            self.block(s.body, dict(known))
            if isinstance(s, ast.While):
                self.block(s.orelse, dict(known))
            else:
                self.block(s.orelse, dict(known))
            self.drop(known, changed)
        elif isinstance(s, (ast.For, ast.AsyncFor)):
            changed = assigned_names([s])
            self.scan(s.iter, known)
            self.drop(known, changed)
            self.bind_target(s.target, 'Other', known, s, flow=False)
            self.block(s.body, dict(known))
            self.block(s.orelse, dict(known))
            self.drop(known, changed)
        elif isinstance(s, (ast.With, ast.AsyncWith)):
            changed = assigned_names([s])
            for it in s.items:
                self.scan(it.context_expr, known)
                if it.optional_vars is not None:
                    self.bind_target(it.optional_vars, 'Other', known, s, flow=False)
            self.block(s.body, known)
            self.drop(known, changed)
        elif isinstance(s, ast.Try) or type(s).__name__ == 'TryStar':
            changed = assigned_names([s])
            self.block(s.body, dict(known))
            self.drop(known, changed)
            for h in s.handlers:
                self.scan(h.type, known)
                if h.name:
                    self.bind_name(h.name, 'Other', known, h, flow=False)
                self.block(h.body, dict(known))
            self.block(s.orelse, dict(known))
            self.block(s.finalbody, dict(known))
            self.drop(known, changed)
        elif isinstance(s, (ast.Raise,)):
            self.scan(s.exc, known)
            self.scan(s.cause, known)
        elif isinstance(s, ast.Assert):
            self.scan(s.test, known)
            self.scan(s.msg, known)
        elif isinstance(s, (ast.Global, ast.Nonlocal)):
            self.top_write(f"{type(s).__name__.lower()} {', '.join(s.names)}", s)
        elif isinstance(s, (ast.FunctionDef, ast.AsyncFunctionDef, ast.ClassDef)):
            for d in s.decorator_list:
                self.scan(d, known)
            if not isinstance(s, ast.ClassDef):
                for d in s.args.defaults + [d for d in s.args.kw_defaults if d is not None]:
                    self.scan(d, known)
            self.bind_name(s.name, 'Other', known, s, flow=False)
        elif isinstance(s, (ast.Import, ast.ImportFrom)):
            for al in s.names:
                if al.name == '*':
                    self.top_write('import * inside a function', s)
                else:
                    self.bind_name((al.asname or al.name).split('.')[0], 'Other', known, s, flow=False)
        elif isinstance(s, (ast.Pass, ast.Break, ast.Continue)):
            pass
        else:
            self.top_write(f"statement of unknown kind {type(s).__name__}", s)

    def run(self):
        fn = self.fn
        known = {}
        if fn.kwarg:
            self.emit_def(self.vars[fn.kwarg], 'Fresh')          # **kw: a new dict on every call
            known[fn.kwarg] = 'Fresh'
        if isinstance(fn.node, ast.Lambda):
            self.scan(fn.node.body, known)
            self.emit_ret(fn.node.body, known, fn.node)
        else:
            self.block(self.body, known)
        v = self.newvar()
        self.emit(('Def', v, 'Fresh'))                            # implicit `return None`
        self.emit(('Ret', v))


def fresh_set(progs, fns):
    """greatest set FS of functions all of whose returned variables are fresh-only given FS (any such set is sound:
    Coq re-checks it; the proof is by induction on the call depth)"""
    FS = {f.id for f in fns}
    while True:
        bad = set()
        for f in fns:
            if f.id not in FS:
                continue
            st = progs[f.id]
            np_ = len(f.params)
            for s in st:
                if s[0] == 'Ret':
                    x = s[1]
                    ok = x >= np_ and all(rhs_fresh(d[2], FS) for d in st if d[0] == 'Def' and d[1] == x)
                    if not ok:
                        bad.add(f.id)
                        break
        if not bad:
            return FS
        FS -= bad


def rhs_fresh(c, FS):
    if c in ('Fresh', 'New'):
        return True
    if c == 'Other':
        return False
    return c[1].id in FS


def py_check(progs, fns, FS):
    """the checker, in Python (only used to name rejected functions in messages; the verdict is Coq's)"""
    res = {}
    for f in fns:
        st = progs[f.id]
        np_ = len(f.params)

        def freshonly(x):
            return x >= np_ and all(rhs_fresh(d[2], FS) for d in st if d[0] == 'Def' and d[1] == x)
        ok = True
        for s in st:
            if s[0] in ('Write', 'MutCall'):
                ok &= freshonly(s[1]) or (f.selfwriter and s[1] == 0)
            elif s[0] == 'Def':
                ok &= not (f.selfwriter and s[1] == 0)
                if not isinstance(s[2], str):
                    ok &= not s[2][1].selfwriter
        if f.id in FS:
            ok &= all(freshonly(s[1]) for s in st if s[0] == 'Ret')
        res[f.id] = bool(ok)
    return res


def coq_text(fns, progs, FS):
    def rhs(c):
        return c if isinstance(c, str) else f"(FreshCall {c[1].id})"

    def st(s):
        if s[0] == 'Def':
            return f"Def {s[1]} {rhs(s[2])}"
        return f"{s[0]} {s[1]}"
    L = ["(* GENERATED by props/C17.py from the working tree of the library: one effect program per function. *)",
         "From Coq Require Import List String.", "Import ListNotations.", "From SM Require Import Model.C17_Effects.",
         "Open Scope string_scope.", "", "Definition prog_C17 : program := ["]
    rows = []
    for f in fns:
        rows.append(f"  (* {f.id} {f.fullname} *) mkfunc {len(f.params)} {'true' if f.selfwriter else 'false'} [" +
                    "; ".join(st(s) for s in progs[f.id]) + "]")
    L.append(";\n".join(rows))
    L.append("].")
    L.append("")
    L.append("Definition fresh_C17 : list fname := [" + "; ".join(str(i) for i in sorted(FS)) + "].")
    L.append("")
    L.append("Definition names_C17 : list string := [")
    L.append(";\n".join(f'  "{f.fullname}"' for f in fns))
    L.append("].")
    return "\n".join(L) + "\n"


def translate_all(repo):
    tr = Translator(repo)
    tr.collect()
    progs = {}
    for f in tr.fns:
        progs[f.id] = tr.translate(f).stmts
    FS = fresh_set(progs, tr.fns)
    return tr, progs, FS


# ======================================================================================================
# 3. the tie / oracle: reflection-driven snapshot harness on the real implementation
# ======================================================================================================
DOCUMENTED_MUTATORS = {'append', 'extend', 'insert', 'pop', 'clear', 'reverse', 'remove', 'sort', '__setitem__',
                       '__delitem__', '__init__', 'arghandler'}       # arghandler: the constructors' argument handler
LEFT_MAY_CHANGE = {'__iadd__', '__isub__', '__imul__', '__itruediv__', '__ipow__', '__imatmul__', '__ifloordiv__',
                   '__imod__', '__iand__', '__ior__', '__ixor__'}
SKIP_DUNDERS = {'__class__', '__init_subclass__', '__subclasshook__', '__new__', '__reduce__', '__reduce_ex__',
                '__setattr__', '__delattr__', '__getattribute__', '__dir__', '__sizeof__', '__format__', '__class_getitem__',
                '__getstate__', '__setstate__', '__weakref__', '__dict__', '__doc__', '__module__', '__slots__',
                '__abstractmethods__', '__hash__', '__init__'}
RANDOM_NAMES = ('rand',)


def snap(o, memo=None, depth=0):
    """a value that is equal before and after iff the object is bit-for-bit unchanged"""
    if memo is None:
        memo = {}
    if o is None or isinstance(o, (bool, int, str, bytes)):
        return (type(o).__name__, o)
    if isinstance(o, float):
        return ('float', o.hex())
    if isinstance(o, complex):
        return ('complex', o.real.hex(), o.imag.hex())
    if isinstance(o, np.ndarray):
        if o.dtype == object:
            return ('ndO', o.shape, tuple(snap(x, memo, depth + 1) for x in o.flat))
        return ('nd', o.dtype.str, o.shape, o.tobytes())
    if isinstance(o, np.generic):
        return ('npg', o.dtype.str, o.tobytes())
    if id(o) in memo:
        return ('cycle',)
    if depth > 12:
        return ('deep',)
    memo[id(o)] = True
    try:
        if isinstance(o, (list, tuple)):
            return (type(o).__name__, tuple(snap(x, memo, depth + 1) for x in o))
        if isinstance(o, dict):
            return ('dict', tuple(sorted(((repr(k), snap(v, memo, depth + 1)) for k, v in o.items()), key=lambda t: t[0])))
        if isinstance(o, (set, frozenset)):
            return ('set', tuple(sorted(repr(x) for x in o)))
        if isinstance(o, (types.FunctionType, types.BuiltinFunctionType, types.MethodType, type, types.ModuleType)):
            return ('ref', getattr(o, '__qualname__', getattr(o, '__name__', '?')))
        if hasattr(o, '__dict__'):
            return ('obj', type(o).__qualname__, snap(vars(o), memo, depth + 1))
        try:
            return ('pickle', pickle.dumps(o))
        except Exception:
            return ('repr', repr(o))
    finally:
        del memo[id(o)]


def diff(a, b, path=''):
    """first difference between two snapshots, as text"""
    if a == b:
        return None
    if isinstance(a, tuple) and isinstance(b, tuple) and a and b and a[0] == b[0]:
        k = a[0]
        if k in ('list', 'tuple') and len(a[1]) != len(b[1]):
            return f"{path}: {k} of length {len(a[1])} -> length {len(b[1])}"
        if k in ('list', 'tuple') and len(a[1]) == len(b[1]):
            for i, (x, y) in enumerate(zip(a[1], b[1])):
                d = diff(x, y, f"{path}[{i}]")
                if d:
                    return d
        if k == 'obj' and a[1] == b[1]:
            return diff(a[2], b[2], path)
        if k == 'dict':
            ka, kb = dict(a[1]), dict(b[1])
            for key in sorted(set(ka) | set(kb)):
                if key not in ka:
                    return f"{path}.{key.strip(chr(39))}: attribute/key added"
                if key not in kb:
                    return f"{path}.{key.strip(chr(39))}: attribute/key removed"
                d = diff(ka[key], kb[key], f"{path}.{key.strip(chr(39))}")
                if d:
                    return d
        if k == 'nd' and a[1:3] == b[1:3]:
            x, y = np.frombuffer(a[3], dtype=a[1]), np.frombuffer(b[3], dtype=b[1])
            i = next((j for j in range(len(x)) if x[j:j + 1].tobytes() != y[j:j + 1].tobytes()), 0)
            return f"{path}: array element {i} changed {x[i]!r} -> {y[i]!r}"
    return f"{path}: {str(a)[:80]} -> {str(b)[:80]}"


def reach_ids(o, acc=None, depth=0):
    if acc is None:
        acc = set()
    if id(o) in acc or depth > 8 or o is None or isinstance(o, (bool, int, float, str, bytes, complex, np.generic, type,
                                                                 types.FunctionType, types.ModuleType)):
        return acc
    acc.add(id(o))
    if isinstance(o, np.ndarray):
        b = o
        while isinstance(b, np.ndarray) and b.base is not None:
            b = b.base
            acc.add(id(b))
    elif isinstance(o, (list, tuple)):
        for x in o:
            reach_ids(x, acc, depth + 1)
    elif isinstance(o, dict):
        for x in o.values():
            reach_ids(x, acc, depth + 1)
    elif hasattr(o, '__dict__'):
        reach_ids(vars(o), acc, depth + 1)
    return acc


def regular_now(P):
    return P


class Pools:
    """factories of arguments in every accepted container form"""
    def __init__(self, rng):
        import spatialmath as sm
        from spatialmath import base
        from spatialmath.DualQuaternion import DualQuaternion, UnitDualQuaternion
        self.rng, self.sm, self.base = rng, sm, base
        r = rng
        ang = lambda: float(r.choice([0.3, -1.2, 0.0, 2.5, math.pi / 2, 1e-3, r.uniform(-3, 3)]))

        def vec(n):
            def f():
                v = r.normal(size=n)
                form = int(r.integers(0, 5))
                return [list(map(float, v)), tuple(map(float, v)), v.copy(), v.reshape(n, 1).copy(), v.reshape(1, n).copy()][form]
            return f

        def rot3():
            return base.rpy2r(ang(), ang(), ang())

        def se3():
            return base.rt2tr(rot3(), r.normal(size=3))

        def se2():
            return base.trot2(ang(), t=list(r.normal(size=2)))
        P = {}
        P['S'] = lambda: float(r.choice([0.3, -1.2, 0.0, 1.0, 2.0, 0.5, r.uniform(-2, 2)]))
        P['I'] = lambda: int(r.choice([0, 1, 2, 3, -1, 5]))
        P['B'] = lambda: bool(r.integers(0, 2))
        P['N'] = lambda: None
        P['STR_unit'] = lambda: str(r.choice(['deg', 'rad']))
        P['STR_order'] = lambda: str(r.choice(['zyx', 'xyz', 'yxz', 'arm', 'vehicle', 'camera']))
        P['STR_misc'] = lambda: str(r.choice(['x', 'y', 'z', 'rpy/zyx', 'rpy/xyz', 'eul', 'angvec', 'row', 'col', 'array',
                                             'sequence', 'list', 'theta', '{:.3g}', 'label', 'R', 'T']))
        for n in (1, 2, 3, 4, 6):
            P[f'V{n}'] = vec(n)
        P['V4u'] = lambda: (lambda v: v / np.linalg.norm(v))(r.normal(size=4))
        P['V3u'] = lambda: (lambda v: list(v / np.linalg.norm(v)))(r.normal(size=3))
        P['M22'] = lambda: base.rot2(ang())
        P['M33'] = rot3
        P['M33se2'] = se2
        P['M44'] = se3
        P['M33skew'] = lambda: base.skew(r.normal(size=3))
        P['M22skew'] = lambda: base.skew(float(r.normal()))
        P['M44aug'] = lambda: base.skewa(r.normal(size=6))
        P['M33aug'] = lambda: base.skewa(r.normal(size=3))
        P['M66'] = lambda: r.normal(size=(6, 6))
        P['M33sym'] = lambda: (lambda a: a @ a.T + np.eye(3))(r.normal(size=(3, 3)))
        P['M3N'] = lambda: r.normal(size=(3, int(r.integers(1, 5))))
        P['M2N'] = lambda: r.normal(size=(2, int(r.integers(1, 5))))
        P['M4N'] = lambda: r.normal(size=(4, int(r.integers(1, 5))))
        P['MN3'] = lambda: r.normal(size=(int(r.integers(2, 5)), 3))
        P['MN4'] = lambda: r.normal(size=(int(r.integers(2, 5)), 4))
        P['MN6'] = lambda: r.normal(size=(int(r.integers(2, 5)), 6))
        P['LM44'] = lambda: [se3() for _ in range(int(r.integers(1, 4)))]
        P['LM33'] = lambda: [rot3() for _ in range(int(r.integers(1, 4)))]
        P['LM22'] = lambda: [base.rot2(ang()) for _ in range(int(r.integers(1, 4)))]
        P['LM33se2'] = lambda: tuple(se2() for _ in range(int(r.integers(1, 4))))
        P['LV'] = lambda: [r.normal(size=3) for _ in range(3)]
        P['LS'] = lambda: [float(x) for x in r.normal(size=int(r.integers(1, 5)))]
        P['M44n'] = lambda: se3() + np.pad(r.normal(size=(3, 3)) * 1e-3, ((0, 1), (0, 1)))      # not quite orthonormal
        P['M33n'] = lambda: rot3() + r.normal(size=(3, 3)) * 1e-3
        P['F2'] = lambda: (lambda x, y: x @ y) if r.random() < 0.5 else (lambda x, y: x + y)
        P['F1'] = lambda: (lambda x: -x) if r.random() < 0.5 else (lambda x: x.T)
        P['SHAPE'] = lambda: [(3, 3), (4, 4), (2, 2), (None, None), (3, None), (None, 3), (6, 6)][int(r.integers(0, 7))]
        P['P33'] = lambda: r.normal(size=(3, 3))

        def multi(f, cls):
            def g():
                k = int(r.integers(2, 4))
                return cls([f().A for _ in range(k)])
            return g
        O = {}
        O['SO2'] = lambda: sm.SO2(ang())
        O['SE2'] = lambda: sm.SE2(float(r.normal()), float(r.normal()), ang())
        O['SO3'] = lambda: sm.SO3(rot3())
        O['SE3'] = lambda: sm.SE3(se3())
        O['Quaternion'] = lambda: sm.Quaternion(r.normal(size=4))
        O['UnitQuaternion'] = lambda: sm.UnitQuaternion(rot3())
        O['Twist3'] = lambda: sm.Twist3(r.normal(size=6))
        O['Twist2'] = lambda: sm.Twist2(r.normal(size=3))
        O['Plucker'] = lambda: sm.Plucker.PQ(r.normal(size=3), r.normal(size=3))
        O['SpatialVelocity'] = lambda: sm.SpatialVelocity(r.normal(size=6))
        O['SpatialAcceleration'] = lambda: sm.SpatialAcceleration(r.normal(size=6))
        O['SpatialForce'] = lambda: sm.SpatialForce(r.normal(size=6))
        O['SpatialMomentum'] = lambda: sm.SpatialMomentum(r.normal(size=6))
        O['SpatialInertia'] = lambda: sm.SpatialInertia(m=float(r.uniform(0.5, 3)), r=r.normal(size=3), I=P['M33sym']())
        for k in list(O):
            if k != 'SpatialInertia':
                P[k] = O[k]
                P[k + '*'] = multi(O[k], getattr(sm, k))
        P['SpatialInertia'] = O['SpatialInertia']
        P['Plane'] = lambda: sm.Plane(r.normal(size=4))
        P['DualQuaternion'] = lambda: DualQuaternion(sm.Quaternion(r.normal(size=4)), sm.Quaternion(r.normal(size=4)))
        P['UnitDualQuaternion'] = lambda: UnitDualQuaternion(sm.SE3(se3()))
        # ---- SPECIAL VALUES (exact 0 / pi/2 / pi rotations about coordinate and generic axes, identity, pure translation /
        # pure rotation, singular RPY / Euler configurations, zero and unit vectors, antipodal / negative-scalar quaternions,
        # s in {0, 0.3, 1}, views of a caller-owned array): the branches of the library are selected by such inputs
        pi = math.pi

        def rot_pi(a=None):
            a = r.normal(size=3) if a is None else np.asarray(a, float)
            a = a / np.linalg.norm(a)
            return 2.0 * np.outer(a, a) - np.eye(3)
        t3 = lambda: r.normal(size=3)
        SP = {}
        SP['S'] = [lambda: 0.0, lambda: 0.3, lambda: 1.0, lambda: pi, lambda: pi / 2, lambda: -pi, lambda: 0.5, lambda: 2 * pi]
        SP['I'] = [lambda: 0, lambda: 1, lambda: -1, lambda: 2]
        SP['M33'] = [lambda: np.eye(3), lambda: base.rotx(pi), lambda: base.roty(pi), lambda: base.rotz(pi), rot_pi,
                     lambda: rot_pi([1, 1, 0]), lambda: base.rotx(pi / 2), lambda: base.rotz(-pi / 2),
                     lambda: base.rpy2r(0.3, pi / 2, 0.2), lambda: base.rpy2r(0.3, -pi / 2, 0.2), lambda: base.eul2r(0.3, 0, 0.2),
                     lambda: base.eul2r(0.3, pi, 0.2),
                     lambda: base.rt2tr(rot_pi(), t3())[:3, :3],                    # a view of a caller-owned 4x4
                     lambda: np.ascontiguousarray(rot_pi()).T,                      # a transpose view
                     lambda: base.rt2tr(base.rpy2r(0.3, 0.2, 0.1), t3())[:3, :3]]
        SP['M44'] = [lambda: np.eye(4), lambda: base.transl(1.0, 2.0, 3.0), lambda: base.trotx(pi), lambda: base.troty(pi),
                     lambda: base.trotz(pi), lambda: base.rt2tr(rot_pi(), t3()), lambda: base.rt2tr(rot_pi(), np.zeros(3)),
                     lambda: base.rt2tr(base.rpy2r(0.3, pi / 2, 0.2), t3()), lambda: base.rt2tr(base.rotx(pi / 2), np.zeros(3)),
                     lambda: base.rt2tr(base.eul2r(0.3, 0, 0.2), t3()), lambda: np.ascontiguousarray(base.rt2tr(rot_pi(), t3()).T).T]
        SP['M22'] = [lambda: base.rot2(0), lambda: base.rot2(pi), lambda: base.rot2(pi / 2), lambda: base.rot2(-pi / 2),
                     lambda: base.trot2(pi, t=[1, 2])[:2, :2]]
        SP['M33se2'] = [lambda: np.eye(3), lambda: base.transl2(1.0, 2.0), lambda: base.trot2(pi), lambda: base.trot2(pi, t=[1, 2]),
                        lambda: base.trot2(pi / 2, t=[0, 0])]
        SP['V2'] = [lambda: [0.0, 0.0], lambda: np.array([1.0, 0.0]), lambda: np.zeros((2, 1))]
        SP['V3'] = [lambda: [0.0, 0.0, 0.0], lambda: np.zeros(3), lambda: np.array([1.0, 0.0, 0.0]), lambda: (0.0, 0.0, 1.0),
                    lambda: np.array([pi, 0.0, 0.0]), lambda: np.zeros((3, 1)), lambda: [0.3, pi / 2, 0.2], lambda: [0.3, 0.0, 0.2]]
        SP['V3u'] = [lambda: [1.0, 0.0, 0.0], lambda: np.array([0.0, 0.0, 1.0]), lambda: [0.0, -1.0, 0.0]]
        SP['V4'] = [lambda: np.array([1.0, 0, 0, 0]), lambda: [-1.0, 0.0, 0.0, 0.0], lambda: np.array([0.0, 1.0, 0, 0]), lambda: np.zeros(4),
                    lambda: (lambda v: -np.abs(v[0]) * np.r_[1, 0, 0, 0] + np.r_[0, v[1:]])(P['V4u']())]
        SP['V4u'] = [lambda: np.array([1.0, 0, 0, 0]), lambda: np.array([-1.0, 0, 0, 0]), lambda: np.array([0.0, 1.0, 0, 0]),
                     lambda: (lambda v: np.r_[-abs(v[0]), v[1:]])((lambda v: v / np.linalg.norm(v))(r.normal(size=4)))]
        SP['V6'] = [lambda: np.zeros(6), lambda: [0.0, 0, 0, 0, 0, 1.0], lambda: np.array([1.0, 0, 0, 0, 0, 0]),
                    lambda: np.array([0.0, 0, 0, pi, 0, 0]), lambda: [1.0, 2.0, 3.0, 0, 0, 0]]
        SP['SO3'] = [(lambda f=f: sm.SO3(f())) for f in SP['M33'][:12]] + [lambda: sm.SO3(rot_pi()).inv(), lambda: sm.SO3()]
        SP['SE3'] = [(lambda f=f: sm.SE3(f())) for f in SP['M44'][:10]] + [lambda: sm.SE3(base.rt2tr(rot_pi(), t3())).inv(), lambda: sm.SE3()]
        SP['SO2'] = [lambda: sm.SO2(0), lambda: sm.SO2(pi), lambda: sm.SO2(pi / 2), lambda: sm.SO2()]
        SP['SE2'] = [lambda: sm.SE2(), lambda: sm.SE2(1, 2, pi), lambda: sm.SE2(0, 0, pi / 2), lambda: sm.SE2(1, 2, 0)]
        SP['UnitQuaternion'] = [lambda: sm.UnitQuaternion(), lambda: sm.UnitQuaternion(base.rotx(pi)), lambda: sm.UnitQuaternion(rot_pi()),
                                lambda: sm.UnitQuaternion(-sm.UnitQuaternion(rot3()).vec), lambda: sm.UnitQuaternion([0.0, 1.0, 0, 0]),
                                lambda: sm.UnitQuaternion([-1.0, 0, 0, 0]), lambda: sm.UnitQuaternion(SP['V4u'][3]()),
                                lambda: sm.UnitQuaternion(base.rpy2r(0.3, pi / 2, 0.2))]
        SP['Quaternion'] = [lambda: sm.Quaternion([0.0, 0, 0, 0]), lambda: sm.Quaternion([1.0, 0, 0, 0]), lambda: sm.Quaternion([-1.0, 2, 3, 4]),
                            lambda: sm.Quaternion([0.0, 1, 0, 0])]
        SP['Twist3'] = [(lambda f=f: sm.Twist3(np.asarray(f(), float).flatten())) for f in SP['V6']]
        SP['Twist2'] = [lambda: sm.Twist2([0.0, 0, 0]), lambda: sm.Twist2([0.0, 0, 1.0]), lambda: sm.Twist2([1.0, 0, 0])]
        SP['Plucker'] = [lambda: sm.Plucker.PQ([0, 0, 0], [1, 0, 0]), lambda: sm.Plucker.PQ([0, 0, 1], [1, 0, 1])]
        SP['LM33'] = [lambda: [base.rotx(pi), np.eye(3), rot_pi()]]
        SP['LM44'] = [lambda: [base.trotx(pi), np.eye(4), base.rt2tr(rot_pi(), t3())]]
        for k in ('SO3', 'SE3', 'SO2', 'SE2', 'UnitQuaternion', 'Quaternion', 'Twist3', 'Twist2'):
            SP[k + '*'] = [(lambda k=k: getattr(sm, k)([SP[k][int(r.integers(0, len(SP[k])))]().A for _ in range(3)]))]
        SP['M44n'], SP['M33n'] = SP['M44'], SP['M33']
        # tiny magnitudes (1e-17 .. 1e-13), negative zero and exact zeros in the float positions of array arguments:
        # thresholds such as |x| <= 100 eps select "suppress small values" branches (printing, removesmall, iszerovec ..)
        TINY = [0.0, -0.0, 1e-17, -1e-17, 3e-16, -2e-15, 1e-14, 2e-14, -1e-13]

        def tiny_of(c, base_factory):
            def f():
                v = base_factory()
                form = type(v)
                a = np.array(v, dtype=float) if not isinstance(v, np.ndarray) else v
                if a.dtype.kind != 'f' or a.size == 0:
                    return v
                k = int(r.integers(1, min(3, a.size) + 1))
                if a.shape == (4, 4) or a.shape == (3, 3) and c in ('M33se2',):
                    n_ = a.shape[0] - 1                        # a homogeneous transform: the translation column
                    for j in r.choice(n_, size=min(k, n_), replace=False):
                        a[j, n_] = TINY[int(r.integers(0, len(TINY)))]
                else:
                    flat = a.reshape(-1) if a.flags.c_contiguous else None
                    if flat is None:
                        return v
                    for j in r.choice(a.size, size=k, replace=False):
                        flat[j] = TINY[int(r.integers(0, len(TINY)))]
                if form in (list, tuple):
                    return form(a.tolist())
                return a
            return f
        for c in ('V1', 'V2', 'V3', 'V4', 'V6', 'M44', 'M33se2', 'M3N', 'M2N', 'M4N', 'MN3', 'MN6', 'M66', 'M33skew', 'M44aug', 'LS'):
            if c in regular_now(P):
                SP.setdefault(c, [])
                SP[c] = SP[c] + [tiny_of(c, P[c]), tiny_of(c, P[c])]
        SP['SE3'] = SP['SE3'] + [lambda: sm.SE3(SP['M44'][-1](), check=False), lambda: sm.SE3(SP['M44'][-2](), check=False)]
        SP['SE2'] = SP['SE2'] + [lambda: sm.SE2(SP['M33se2'][-1](), check=False)]
        SP['Twist3'] = SP['Twist3'] + [lambda: sm.Twist3(np.asarray(SP['V6'][-1](), float).flatten())]
        SP['SpatialVelocity'] = [lambda: sm.SpatialVelocity(np.asarray(SP['V6'][-1](), float).flatten()), lambda: sm.SpatialVelocity(np.zeros(6))]
        SP['Quaternion'] = SP['Quaternion'] + [lambda: sm.Quaternion(np.asarray(SP['V4'][-1](), float).flatten())]
        self.SP = SP
        self.psp = 0.25                      # probability that a factory hands out a special value
        regular = dict(P)
        self.regular = regular

        def mixed(c):
            def f():
                if c in SP and r.random() < self.psp:
                    return self.special(c)
                return regular[c]()
            return f
        for c in list(P):
            P[c] = mixed(c)
        self.P = P
        self.cats = sorted(P)
        self.classes = {k: getattr(sm, k) for k in O}
        self.classes.update({'Plane': sm.Plane, 'DualQuaternion': DualQuaternion, 'UnitDualQuaternion': UnitDualQuaternion})

    HINTS = {
        'S': ['theta', 'angle', 'phi', 'psi', 'alpha', 'beta', 'gamma', 's', 'k', 'tol', 'sx', 'scale', 'x', 'y', 'z', 'roll',
              'pitch', 'yaw', 'm', 'lam', 'a', 'b', 'value', 'left', 'right', 'other', 'arg', 'q', 'n', 't', 'd', 'w', 'v'],
        'I': ['n', 'dim', 'power', 'i', 'start', 'stop', 'k', 'N', 'nrows', 'ncols', 'index'],
        'B': ['check', 'norm', 'flip', 'unitq', 'shortest', 'representation', 'full', 'inverse', 'symbolic', 'real', 'same'],
        'STR_unit': ['unit', 'units'],
        'STR_order': ['order', 'seq'],
        'STR_misc': ['orient', 'out', 'fmt', 'label', 'axis', 'name', 'style', 'representation'],
        'V1': ['v', 'arg', 'theta'],
        'V2': ['v', 't', 'p', 'arg', 'x', 'point', 'a', 'b', 'q', 'w', 'C', 'P', 'Q'],
        'V3': ['v', 't', 'p', 'arg', 'x', 'y', 'point', 'o', 'a', 'b', 'n', 'w', 'r', 'rpy', 'eul', 'angles', 'gamma', 'd', 'P', 'Q',
               'roll', 'angle', 'v1', 'v2', 'vec', 'axis', 'xyt', 'S', 'tw', 'twist', 'other', 'right', 'left', 'uw', 'C', 'phi', 'arg'],
        'V3u': ['v', 'axis', 'w', 'n', 'o', 'a', 'vec', 'uw'],
        'V4': ['q', 'q1', 'q2', 'q0', 'qq', 'v', 's', 'p', 'c', 'arg', 'other', 'right', 'left'],
        'V4u': ['q', 'q1', 'q2', 'q0', 'qq', 's', 'arg'],
        'V6': ['v', 'S', 'tw', 'twist', 'delta', 'd', 'arg', 'value', 'x', 'other', 'right', 'left', 'twist'],
        'M22': ['R', 'T', 'arg', 'x', 'M'], 'M33': ['R', 'T', 'arg', 'x', 'M', 'A', 'I', 'other', 'right', 'left', 'T0', 'T1'],
        'M33se2': ['T', 'arg', 'x', 'M', 'T0', 'T1', 'other', 'right', 'left'], 'M44': ['T', 'arg', 'x', 'M', 'T0', 'T1', 'other', 'right', 'left', 'S'],
        'M33skew': ['S', 'T', 'arg', 'M', 'v', 'x'], 'M22skew': ['S', 'T', 'M'], 'M44aug': ['S', 'T', 'arg', 'M', 'x'], 'M33aug': ['S', 'T', 'arg', 'M'],
        'M66': ['x', 'arg', 'I', 'M'], 'M33sym': ['I', 'M'], 'M3N': ['v', 'p', 'points', 'right', 'other', 'x', 'arg', 'P'],
        'M2N': ['v', 'p', 'points', 'right', 'other', 'x'], 'M4N': ['v', 'right', 'other', 'q'],
        'MN3': ['arg', 'v', 'x', 'rpy', 'angles'], 'MN4': ['arg', 's', 'q'], 'MN6': ['arg', 'value', 'x'],
        'LM44': ['arg', 'x', 'T'], 'LM33': ['arg', 'x', 'R', 'T'], 'LM22': ['arg', 'R'], 'LM33se2': ['arg', 'x', 'T'],
        'LV': ['arg', 'v', 'x'], 'LS': ['s', 'theta', 'angle', 'arg', 'x', 'lam', 'q', 'angles'],
        'N': [], 'F2': ['op', 'op2'], 'F1': ['op', 'op2'], 'SHAPE': ['shape'], 'P33': ['p', 'points', 'P'],
        'Plane': ['pi1', 'pi2', 'plane', 'pi'], 'Plucker': ['l2', 'line', 'other', 'x', 'right', 'left'],
    }
    for _k, _v in (('V3', ['omega', 'dir', 'pitch_axis', 'point', 'dir', 'bounds']), ('S', ['pitch', 'omega', 'dt']), ('V6', ['bounds']),
                   ('M3N', ['p', 'P']), ('M44', ['T']), ('M44n', ['T', 'R', 'x', 'arg']), ('M33n', ['T', 'R', 'x', 'arg']), ('V4u', ['q']), ('SE3', ['T', 'x', 'other']), ('SE2', ['T', 'x']),
                   ('SO3', ['R', 'x', 'other']), ('Twist3', ['S', 'x']), ('UnitQuaternion', ['q', 'x', 'other', 'end'])):
        HINTS[_k] = HINTS[_k] + _v if _k in HINTS else _v

    def special(self, c):
        """a special value of category c (falls back to a regular one)"""
        lst = self.SP.get(c)
        if not lst:
            return self.regular[c]()
        for _ in range(4):
            try:
                with np.errstate(all='ignore'):
                    return lst[int(self.rng.integers(0, len(lst)))]()
            except Exception:
                continue
        return self.regular[c]()

    def related(self, o):
        """an argument correlated with o: the antipode / negation, an equal copy, the inverse"""
        r = self.rng
        k = int(r.integers(0, 3))
        try:
            if isinstance(o, np.ndarray):
                return [-o, o.copy(), o.T.copy()][k]
            if isinstance(o, (list, tuple)) and o and all(isinstance(x, (int, float)) for x in o):
                return [type(o)(-x for x in o), type(o)(o), type(o)(o)][k]
            if type(o).__name__ in ('UnitQuaternion', 'Quaternion') and k < 2:
                return type(o)([-x for x in o.data]) if len(o) > 1 else type(o)(-o.vec)
            if hasattr(o, 'inv') and k == 0:
                return o.inv()
            return copy.deepcopy(o)
        except Exception:
            return copy.deepcopy(o)

    def candidates(self, pname, owner):
        """categories to try for a parameter name (owner: name of the receiver's class or None)"""
        c = [k for k, names in self.HINTS.items() if pname in names]
        if pname in ('other', 'right', 'left', 'item', 'value', 'x', 'arg', 'iterable', 'y', 'T', 'v', 'q', 'end', 'start', 'S', 'plane',
                     'l2', 'line', 'X', 'obj', 'a', 'b', 'dest', 'q2', 'T1', 'T0', 'target', 'to', 'frm', 'second', 'first'):
            if owner and owner in self.P:
                c += [owner, owner, owner + '*'] if owner + '*' in self.P else [owner, owner]
            c += [k for k in self.classes if k in self.P and self.rng.random() < 0.25]
        return c


def public_callables(pools):
    """(kind, owner, name, object) for every public callable of spatialmath.base and every public attribute /
    operator of every class, enumerated by reflection"""
    base, sm = pools.base, pools.sm
    out = []
    for n in sorted(dir(base)):
        o = getattr(base, n)
        if n.startswith('_') or not callable(o) or isinstance(o, type):
            continue
        if not getattr(o, '__module__', '').startswith('spatialmath'):
            continue
        if any(s in n.lower() for s in EXCLUDED_FN):
            continue
        out.append(('func', None, n, o))
    for cname, cls in sorted(pools.classes.items()):
        out.append(('ctor', cname, '__call__', cls))
        for n in sorted(dir(cls)):
            if n in SKIP_DUNDERS or (n.startswith('_') and not n.startswith('__')):
                continue
            if any(s in n.lower() for s in EXCLUDED_FN):
                continue
            owner = next((k for k in cls.__mro__ if n in vars(k)), None)
            if owner is None or not (owner.__module__.startswith('spatialmath') or owner.__module__ == 'collections'):
                continue
            raw = vars(owner)[n]
            if isinstance(raw, property):
                out.append(('prop', cname, n, raw))
            elif isinstance(raw, (classmethod, staticmethod)):
                out.append(('cmeth', cname, n, getattr(cls, n)))
            elif callable(raw):
                out.append(('meth', cname, n, raw))
    return out


def signature_params(o):
    try:
        sig = inspect.signature(o)
    except (TypeError, ValueError):
        return None
    req, opt = [], []
    for p in sig.parameters.values():
        if p.kind == p.VAR_KEYWORD and 'print' in getattr(o, '__name__', ''):
            # printline(**kwargs) forwards to trprint / trprint2: their options are this function's options
            opt += [inspect.Parameter('orient', p.KEYWORD_ONLY, default='rpy/zyx'), inspect.Parameter('unit', p.KEYWORD_ONLY, default='deg'),
                    inspect.Parameter('fmt', p.KEYWORD_ONLY, default='{:8.2g}'), inspect.Parameter('label', p.KEYWORD_ONLY, default=None)]
        if p.kind in (p.VAR_POSITIONAL, p.VAR_KEYWORD):
            continue
        (req if p.default is p.empty and p.kind != p.KEYWORD_ONLY else opt).append(p)
    return req, opt


class Harness:
    def __init__(self, ctx, static_rejected):
        self.ctx = ctx
        self.pools = Pools(ctx.rng)
        self.static_rejected = static_rejected
        self.executed = set()
        self.good = {}        # callable key -> list of category tuples that gave a successful call
        self.success = {}
        self.attempts = {}
        self.nmut = 0
        self.registry = {}
        self.ndet = 0
        self.module_arrays = module_level_arrays()
        self.probes = self.make_probes()
        self.cur_key = None
        self.reached = {}

    # ------------------------------------------------------------ probes: a fixed sample of other calls with known outputs
    def make_probes(self):
        base, sm = self.pools.base, self.pools.sm
        w = [0.1, -0.2, 0.3]
        T = base.rt2tr(base.rpy2r(0.1, 0.2, 0.3), [1.0, 2.0, 3.0])
        cand = [('base.trexp([0.1,-0.2,0.3])', lambda: base.trexp(w)), ('base.trexp([0,0,0])', lambda: base.trexp([0.0, 0, 0])),
                ('base.rodrigues([0,0,0])', lambda: base.rodrigues([0.0, 0, 0])), ('base.trexp2(0.0)', lambda: base.trexp2(0.0)),
                ('base.trexp2(0.4)', lambda: base.trexp2(0.4)), ('base.rotx(0.3)', lambda: base.rotx(0.3)), ('base.trnorm(T)', lambda: base.trnorm(T.copy())),
                ('base.trinv(T)', lambda: base.trinv(T.copy())), ('base.angvec2r(0.0,[1,0,0])', lambda: base.angvec2r(0.0, [1, 0, 0])),
                ('SE3.Rx(0.3).A', lambda: sm.SE3.Rx(0.3).A), ('SO3.Exp([0,0,0]).A', lambda: sm.SO3.Exp([0.0, 0, 0]).A),
                ('SE3(T).inv().A', lambda: sm.SE3(T.copy()).inv().A), ('UnitQuaternion.Rx(0.3).vec', lambda: sm.UnitQuaternion.Rx(0.3).vec),
                ('Twist3([1,2,3,.1,.2,.3]).exp().A', lambda: sm.Twist3([1, 2, 3, 0.1, 0.2, 0.3]).exp().A), ('base.q2r([1,0,0,0])', lambda: base.q2r([1.0, 0, 0, 0])),
                ('Plucker.PQ([0,0,0],[1,2,3]).uw', lambda: sm.Plucker.PQ([0, 0, 0], [1, 2, 3]).uw)]
        out = []
        for nm, f in cand:
            ok, v = self.guarded(f, [], {})
            if ok:
                out.append((nm, f, copy.deepcopy(v)))
        return out

    def run_probe(self):
        """one probe; returns (name, value) when it no longer returns its reference value"""
        if not self.probes:
            return None
        nm, f, ref = self.probes[int(self.ctx.rng.integers(0, len(self.probes)))]
        ok, v = self.guarded(f, [], {})
        self.ctx.count('probe_calls')
        if not ok or not same_value(ref, v):
            return nm, srepr(v, 200)
        return None

    # ------------------------------------------------------------ one call under snapshots
    def guarded(self, f, args, kwargs):
        buf = io.StringIO()
        if getattr(self, 'tracer', None) is not None and sys.gettrace() is not self.tracer:
            sys.settrace(self.tracer)            # sympy.simplify & co. switch tracing off
        try:
            with contextlib.redirect_stdout(buf), contextlib.redirect_stderr(buf), np.errstate(all='ignore'):
                return True, f(*args, **kwargs)
        except BaseException as e:                     # noqa: BLE001  (an exception is a legitimate outcome)
            if isinstance(e, (KeyboardInterrupt, SystemExit, MemoryError)):
                raise
            return False, e

    def call(self, kind, owner, name, f, roles, args, kwargs, check_det=True, config=''):
        """roles: one label per positional arg ('receiver' / parameter name)"""
        ctx = self.ctx
        key = f"{owner + '.' if owner else ''}{name}"
        self.cur_key = key
        all_objs = list(args) + [kwargs[k] for k in sorted(kwargs)]
        all_roles = list(roles) + [f"arg:{k}" for k in sorted(kwargs)]
        before = [snap(a) for a in all_objs]
        twin = None
        try:
            twin = copy.deepcopy((list(args), dict(kwargs)))          # the inputs as they were: determinism re-run and replay
        except Exception:
            twin = None
        self.last_inputs = twin
        check_det = check_det and not any(s in name.lower() for s in RANDOM_NAMES)
        ok, res = self.guarded(f, args, kwargs)
        after = [snap(a) for a in all_objs]
        sig = (key, tuple(type(a).__name__ + _shape(a) for a in all_objs), ok)
        ctx.case(sig, nontrivial=ok)
        ctx.corr['cases'] += 1
        may = (name in DOCUMENTED_MUTATORS or name in LEFT_MAY_CHANGE) and roles and roles[0] == 'receiver'
        rec_ids = reach_ids(args[0]) - {id(x) for x in _arrays_of(args[0])} if may else set()
        for role, a, b, obj in zip(all_roles, before, after, all_objs):
            if a == b:
                continue
            if role == 'receiver' and may:
                continue
            if may and (obj is args[0] or (reach_ids(obj) - {id(x) for x in _arrays_of(obj)}) & rec_ids):
                continue          # the argument IS (or shares its list with) the receiver of a documented mutator: X.append(X)
            d = diff(a, b) or ''
            self.report_mutation(key, role, d, kind, owner, name, args, kwargs, config, ok, res)
        if ok and twin is not None and check_det:
            # "the same call twice on equal inputs returns equal outputs" -- also when the caller has meanwhile
            # overwritten the arrays the first call returned (every second re-run): a result that aliases persistent
            # state (a module-level / cached array) poisons the later call
            self.ndet += 1
            arrays = [a for a in _arrays_of(res) if a.dtype.kind == 'f' and a.flags.writeable and a.size] if self.ndet % 2 == 0 else []
            first_snap, first_copy, saved = snap(res), None, []
            ins = _arrays_of(all_objs)
            for a in _arrays_of(res):
                for nm, g in self.module_arrays:
                    if a is g or np.shares_memory(a, g):
                        ctx.fail(f"alias:result-shares-module-level-array:{key}",
                                 f"{key} returns an array that shares memory with the module-level / class-level object {nm}",
                                 {'history': [f"r = {key}({', '.join(srepr(x, 120) for x in twin[0])}{', ' if twin[1] else ''}{', '.join(k_ + '=' + srepr(v, 60) for k_, v in twin[1].items())})",
                                              f"np.shares_memory(r, {nm})  -> True"], 'shared_with': nm})
            if arrays:
                try:
                    first_copy = copy.deepcopy(res)
                    for a in arrays:
                        saved.append((a, a.copy()))
                    for a in arrays:
                        a.fill(np.nan)
                    ctx.count('poisoned_results')
                except Exception:
                    for a, c in saved:
                        a[...] = c
                    saved, first_copy = [], None
            ok2, res2 = self.guarded(f, copy.deepcopy(twin[0]), copy.deepcopy(twin[1]))
            probe = self.run_probe() if saved else None
            for a, c in saved:                                   # undo the poisoning
                a[...] = c
            ctx.count('determinism_checks')
            ref = first_copy if first_copy is not None else res
            same = ok2 and (first_snap == snap(res2) or same_value(ref, res2))
            if ok2 and same and first_snap != snap(res2):
                ctx.count('determinism_equal_up_to_rounding_only')
            hist = [f"r1 = {key}({', '.join(srepr(x, 120) for x in twin[0])}{', ' if twin[1] else ''}{', '.join(k_ + '=' + srepr(v, 60) for k_, v in twin[1].items())})"]
            if saved:
                hist.append("for every float ndarray a reachable from r1:  a.fill(nan)      # the caller overwrites ITS result in place")
            hist.append("r2 = the same call on fresh, equal inputs")
            if not same and ok2:
                k_ = f"poison:{key}" if saved else f"determinism:{key}"
                ctx.fail(k_, f"{key}: the same call on equal inputs returned different outputs" +
                         (" after the arrays returned by the first call were overwritten in place (the result aliases persistent state)" if saved else ''),
                         {'callable': key, 'history': hist + ['r2 != r1 (as first returned)'], 'first': srepr(ref, 400), 'second': srepr(res2, 400),
                          'inputs_pickle_hex': _try_pickle(twin)})
            elif not ok2:
                k_ = f"poison:{key}:raises-second-time" if saved else f"determinism:{key}:raises-second-time"
                ctx.fail(k_, f"{key}: succeeds once, raises {type(res2).__name__} on equal inputs" + (" after its first result was overwritten in place" if saved else ''),
                         {'callable': key, 'history': hist + [f"raises {srepr(res2, 200)}"], 'inputs_pickle_hex': _try_pickle(twin)})
            if probe is not None:
                ctx.fail(f"poison:{key}:corrupts:{probe[0]}", f"overwriting the result of {key} in place changes what {probe[0]} returns afterwards",
                         {'history': hist[:2] + [f"{probe[0]}  now returns {probe[1]}"], 'inputs_pickle_hex': _try_pickle(twin)})
            if ok2:
                r2 = _arrays_of(res2)
                if any(a is b or np.shares_memory(a, b) for a in _arrays_of(res) for b in r2):
                    ctx.fail(f"alias:independent-results-share-memory:{key}",
                             f"{key}: the results of two independent calls (disjoint, equal inputs) share memory",
                             {'callable': key, 'history': hist[:1] + ['r2 = the same call on fresh, equal inputs', 'np.shares_memory(r1, r2)  -> True'],
                              'inputs_pickle_hex': _try_pickle(twin)})
        self.attempts[key] = self.attempts.get(key, 0) + 1
        if ok:
            self.success[key] = self.success.get(key, 0) + 1
        return ok, res

    def report_mutation(self, key, role, d, kind, owner, name, args, kwargs, config, ok, res):
        ctx = self.ctx
        self.nmut += 1
        if role == 'receiver' and 'attribute/key added' in d and '.data' not in d:
            attr = d.split(':')[0].strip('.').split('.')[-1]
            k = f"mutation:receiver-attribute:{attr}"
        else:
            k = f"mutation:{key}:{role if role == 'receiver' else 'argument'}"
        ctx.corr['disagreements'] += 0 if self.static_rejected else 1
        ctx.fail(k, f"{key} modified its {role}: {d}" + (f" [configuration {config}]" if config else ''),
                 {'callable': key, 'kind': kind, 'role': role, 'difference': d, 'configuration': config,
                  'inputs_before_call': ([srepr(a, 400) for a in self.last_inputs[0]] + [f"{k_}={srepr(v, 200)}" for k_, v in self.last_inputs[1].items()])
                  if getattr(self, 'last_inputs', None) else None,
                  'inputs_before_call_pickle_hex': _try_pickle(self.last_inputs) if getattr(self, 'last_inputs', None) else None,
                  'args_after_call': [srepr(a, 400) for a in args], 'kwargs_after_call': {k_: srepr(v, 200) for k_, v in kwargs.items()},
                  'outcome': 'returned' if ok else f'raised {type(res).__name__}',
                  'analyser': ('accepted every function it saw: translator gap (correspondence failure)' if not self.static_rejected
                               else 'rejected: ' + ', '.join(sorted(self.static_rejected)))})

    # ------------------------------------------------------------ argument search
    def draw(self, params, owner, key, live=None):
        P = self.pools
        r = self.ctx.rng
        g = self.good.get(key)
        if g and r.random() < 0.6:
            cats = list(g[int(r.integers(0, len(g)))])
        else:
            cats = []
            for p in params:
                c = P.candidates(p.name, owner)
                if c and r.random() < 0.8:
                    cats.append(c[int(r.integers(0, len(c)))])
                else:
                    cats.append(P.cats[int(r.integers(0, len(P.cats)))])
        vals = []
        for c in cats:
            v = None
            if live is not None and r.random() < 0.6:
                pool = live.get(c)
                if pool:
                    v = pool[int(r.integers(0, len(pool)))]
            vals.append(v if v is not None else P.P[c]())
        return cats, vals

    ENUMS = [('rad', 'deg'), ('zyx', 'xyz', 'yxz', 'arm', 'vehicle', 'camera'), ('rpy/zyx', 'rpy/xyz', 'eul', 'angvec'),
             ('array', 'row', 'col', 'sequence', 'list')]

    def option_values(self, p):
        """alternative values of an optional parameter, discovered from its default: bool -> both, enum-like str ->
        the other members, None / number -> values suggested by the parameter name (None when nothing is known)"""
        d = p.default
        if isinstance(d, bool):
            return 'bool', [True, False]
        if isinstance(d, str):
            for e in self.ENUMS:
                if d in e:
                    return 'enum', list(e)
            return 'str', None
        return 'soft', None

    def opt_kwargs(self, opt, owner, p_toggle=0.35, p_soft=0.4, p_special=0.3):
        r = self.ctx.rng
        P = self.pools
        kw = {}
        for p in opt:
            if p.name in ('file',):
                kw[p.name] = None
                continue
            kind, vals = self.option_values(p)
            if kind in ('bool', 'enum'):
                if r.random() < p_toggle:
                    kw[p.name] = vals[int(r.integers(0, len(vals)))]
            elif r.random() < p_soft:
                c = P.candidates(p.name, owner)
                if c:
                    cat = c[int(r.integers(0, len(c)))]
                    kw[p.name] = P.special(cat) if r.random() < p_special else P.P[cat]()
        return kw

    def exercise(self, kind, owner, name, o, budget, want, config='', directed=None):
        P = self.pools
        key = f"{owner + '.' if owner else ''}{name}"
        self.registry[key] = (kind, owner, name, o)
        if kind == 'prop':
            for variant in (owner, owner + '*'):
                if variant not in P.P:
                    continue
                for i in range(2 + (directed or 0) // 4):
                    rec = P.special(variant) if i % 2 else P.P[variant]()
                    self.call(kind, owner, name, lambda s: o.fget(s), ['receiver'], [rec], {}, config=config)
            if directed and not config:
                self.ownership_sweep(kind, owner, name, o, 2)
            return
        target = o
        sp = signature_params(target)
        if sp is None:
            return
        req, opt = sp
        takes_self = kind == 'meth'
        if takes_self:
            if not req:
                return
            req = req[1:]
        got = 0
        for it in range(budget):
            cats, vals = self.draw(req, owner, key)
            kw = self.opt_kwargs(opt, owner)
            if takes_self:
                variant = owner + '*' if (owner + '*' in P.P and self.ctx.rng.random() < 0.4) else owner
                rec = P.P[variant]()
                ok, _ = self.call(kind, owner, name, target, ['receiver'] + [f"arg:{p.name}" for p in req], [rec] + vals, kw, config=config)
            else:
                ok, _ = self.call(kind, owner, name, target, [f"arg:{p.name}" for p in req], vals, kw, config=config)
            if ok:
                got += 1
                self.good.setdefault(key, []).append(tuple(cats))
                # stop after `want` successes that cover at least 3 different argument-type tuples (when there are arguments)
                if got >= want and (not req or len(set(self.good[key])) >= 3 or got >= 3 * want):
                    break
        if directed and (got or not req):
            self.directed(kind, owner, name, target, req, opt, takes_self, directed, config)
            if not config:
                self.ownership_sweep(kind, owner, name, o, 3)

    def directed(self, kind, owner, name, target, req, opt, takes_self, n, config='', intense=False):
        """special values x option keywords x receiver forms x correlated arguments, on the argument-type tuples that
        are known to work: first every option value singly and all boolean options jointly, then a sample of the product"""
        P, r = self.pools, self.ctx.rng
        key = f"{owner + '.' if owner else ''}{name}"
        good = sorted(set(self.good.get(key, []))) or ([()] if not req else [])
        if not good:
            good = [tuple(self.draw(req, owner, key)[0]) for _ in range(3)]
        roles = (['receiver'] if takes_self else []) + [f"arg:{p.name}" for p in req]
        opts = [(p, *self.option_values(p)) for p in opt if p.name != 'file']
        filekw = {'file': None} if any(p.name == 'file' for p in opt) else {}
        plans = []
        for p, kind_, vals in opts:                      # every boolean / enum option value singly
            if vals:
                plans += [{p.name: v} for v in vals]
        bools = [p.name for p, k_, v in opts if k_ == 'bool']
        if len(bools) > 1:
            plans += [{b: True for b in bools}, {b: False for b in bools}]
        for i in range(n):
            cats = good[int(r.integers(0, len(good)))]
            if i < len(plans):
                kw, psp = dict(plans[i]), 0.3
            else:
                kw, psp = {}, 0.55
                for p, kind_, vals in opts:
                    if vals and r.random() < 0.7:
                        kw[p.name] = vals[int(r.integers(0, len(vals)))]
            for p, kind_, vals in opts:                  # None / numeric defaults: fill from the name hints
                if not vals and p.name not in kw and r.random() < (0.75 if intense or i >= len(plans) else 0.4):
                    c = P.candidates(p.name, owner)
                    if c:
                        cat = c[int(r.integers(0, len(c)))]
                        kw[p.name] = P.special(cat) if r.random() < 0.5 else P.P[cat]()
            vals_ = [(P.special(c) if r.random() < psp else P.regular[c]()) for c in cats]
            if takes_self:
                u = r.random()
                variant = owner + '*' if (owner + '*' in P.P and u < 0.25) else owner
                rec = P.special(variant) if r.random() < psp + 0.15 else P.regular[variant]()
                vals_ = [rec] + vals_
            # correlated arguments: one slot becomes the antipode / copy / inverse of another slot of the same type
            slots = [('pos', j) for j in range(len(vals_))] + [('kw', k_) for k_ in kw if k_ not in filekw]
            if len(slots) > 1 and r.random() < 0.35:
                get = lambda sl: vals_[sl[1]] if sl[0] == 'pos' else kw[sl[1]]
                a = slots[int(r.integers(0, len(slots)))]
                same = [b for b in slots if b != a and type(get(b)) is type(get(a)) and not isinstance(get(a), (bool, str, int, float, type(None)))]
                if same:
                    b = same[int(r.integers(0, len(same)))]
                    v = P.related(get(a))
                    if b[0] == 'pos' and not (takes_self and b[1] == 0):
                        vals_[b[1]] = v
                    elif b[0] == 'kw':
                        kw[b[1]] = v
            kw.update(filekw)
            self.ctx.count('directed_calls')
            self.call(kind, owner, name, target, roles, vals_, kw, config=config, check_det=(i % 3 == 0))

    # ------------------------------------------------------------ ownership: two-step histories
    MUTATORS = ('append', 'extend', 'insert', 'pop', 'reverse', 'clear', '__setitem__')
    RESULT_OPS = ('del [0]', 'op *= same', 'op *= 2', 'op += same', 'op -= same', 'op /= same', 'op * same', 'op + same', 'op ** 2', 'op **= 2',
                  'op == same', '[0]', '[:]', 'iterate')

    @staticmethod
    def is_listobj(x):
        return isinstance(getattr(x, 'data', None), list) and type(x).__module__.startswith('spatialmath')

    @staticmethod
    def family(x):
        """the root class of the library the object belongs to (findings are keyed by root cause, not by subclass)"""
        fam = type(x).__name__
        for k in type(x).__mro__:
            if k.__module__.startswith('spatialmath') and k.__name__ != 'SMUserList':
                fam = k.__name__
        return fam

    def valued(self, x, before=False):
        if before:
            return self._valued_before
        if isinstance(x, list):
            return 'python-list'
        if isinstance(x, (np.ndarray, tuple)):
            return type(x).__name__
        try:
            return 'multi-valued' if len(x) > 1 else 'single-valued'
        except Exception:
            return 'object'

    def mutate(self, x, m):
        """apply the documented list mutator m to x (an object of the library holding a list, or a Python list)"""
        if isinstance(x, list):
            e = copy.deepcopy(x[0]) if x else 0.0
            f = {'append': lambda: x.append(e), 'extend': lambda: x.extend([e]), 'insert': lambda: x.insert(0, e), 'pop': lambda: x.pop(),
                 'reverse': lambda: x.reverse(), 'clear': lambda: x.clear(), '__setitem__': lambda: x.__setitem__(0, e)}[m]
        else:
            cn = type(x).__name__
            try:
                e = self.pools.regular[cn]() if cn in self.pools.regular else copy.deepcopy(x)[0]
            except Exception:
                e = copy.deepcopy(x)
            f = {'append': lambda: x.append(e), 'extend': lambda: x.extend(copy.deepcopy(x)), 'insert': lambda: x.insert(0, e), 'pop': lambda: x.pop(),
                 'reverse': lambda: x.reverse(), 'clear': lambda: x.clear(), '__setitem__': lambda: x.__setitem__(0, e),
                 # operators and in-place operators with the object as left operand (they are specified to build new objects)
                 'op *= same': lambda: operator.imul(x, copy.deepcopy(x)), 'op *= 2': lambda: operator.imul(x, 2.0),
                 'op += same': lambda: operator.iadd(x, copy.deepcopy(x)), 'op -= same': lambda: operator.isub(x, copy.deepcopy(x)),
                 'op /= same': lambda: operator.itruediv(x, copy.deepcopy(x)), 'op * same': lambda: operator.mul(x, copy.deepcopy(x)),
                 'op + same': lambda: operator.add(x, copy.deepcopy(x)), 'op ** 2': lambda: operator.pow(x, 2),
                 'op **= 2': lambda: operator.ipow(x, 2), 'op == same': lambda: operator.eq(x, copy.deepcopy(x)),
                 '[0]': lambda: x[0], '[:]': lambda: x[:], 'iterate': lambda: [y for y in x], 'del [0]': lambda: x.__delitem__(0)}[m]
        return self.guarded(lambda: f(), [], {})[0]

    def ownership(self, key, f, pristine, roles):
        """after a constructor / conversion: apply each documented mutator to the RESULT and check that every ARGUMENT is
        byte-identical; then the other way round (mutate an argument afterwards, check the result).  Also reports (as a
        statistic, not a finding) results whose arrays are the caller's arrays."""
        ctx = self.ctx
        args, kw = copy.deepcopy(pristine)
        ok, res = self.guarded(f, args, kw)
        if not ok or not self.is_listobj(res):          # a Python list handed out by an accessor (X.A) is the caller's to change
            return False
        objs = list(args) + [kw[k] for k in sorted(kw)]
        rl = list(roles) + [f"arg:{k}" for k in sorted(kw)]
        # arguments that are mutable containers or arrays: another object, a list (of arrays), an ndarray, a tuple of arrays
        container = lambda x: self.is_listobj(x) or (isinstance(x, (list, tuple)) and len(x) > 0 and _arrays_of(x)) or \
            (isinstance(x, list) and len(x) > 0) or (isinstance(x, np.ndarray) and x.size > 0)
        targets = [i for i, x in enumerate(objs) if container(x) and x is not res]
        # the reverse direction applies LIST mutators to the argument, so it needs an argument that holds a list.  In-place
        # writes into an ndarray argument afterwards are excluded: constructors keep the caller's arrays by reference
        # (SE3(T).A is T) -- no library call writes through such a reference; counted as a statistic below
        targets_b = [i for i in targets if self.is_listobj(objs[i]) or isinstance(objs[i], list)]
        if not targets:
            return False
        if any(a is b for a in _arrays_of(res) for i in targets for b in _arrays_of(objs[i])):
            ctx.count('results_holding_the_arguments_arrays_by_reference')
        pristine_objs = list(pristine[0]) + [pristine[1][k] for k in sorted(pristine[1])]
        call_txt = f"r = {key.replace('.__call__', '')}(" + ', '.join([srepr(x, 100) for x in pristine[0]] +
                                                                       [k + '=' + srepr(v, 100) for k, v in pristine[1].items()]) + ')'
        for m in self.MUTATORS + self.RESULT_OPS:
            # (a) mutate the result (documented mutators, operators, in-place operators), look at the arguments
            args, kw = copy.deepcopy(pristine)
            ok, res = self.guarded(f, args, kw)
            if not ok:
                return True
            objs = list(args) + [kw[k] for k in sorted(kw)]
            before = [snap(objs[i]) for i in targets]
            self.mutate(res, m)
            ctx.count('ownership_steps')
            ctx.case(('ownership', key, m, 'result'))
            for i, b in zip(targets, before):
                a = snap(objs[i])
                if a != b and objs[i] is not res:
                    ctx.fail(f"ownership-history:{self.family(res)}:{self.valued(pristine_objs[i])}-argument:mutating-the-result-changes-the-argument",
                             f"{key}: r.{m}(..) on the RESULT changes the {rl[i]} that was passed in (it was captured by reference): {diff(b, a)}",
                             {'history': [call_txt, f"r.{m}(..)" if not m.startswith(('op', '[', 'it', 'del')) else f"r {m}", f"the {rl[i]} of the first call is no longer what it was: {diff(b, a)}"],
                              'inputs_pickle_hex': _try_pickle(pristine)})
            # (b) mutate an argument afterwards, look at the result
            for i in (targets_b if m in self.MUTATORS else []):
                args, kw = copy.deepcopy(pristine)
                ok, res = self.guarded(f, args, kw)
                if not ok:
                    break
                objs = list(args) + [kw[k] for k in sorted(kw)]
                if objs[i] is res:
                    continue
                b = snap(res)
                self._valued_before = self.valued(objs[i])
                self.mutate(objs[i], m)
                ctx.count('ownership_steps')
                a = snap(res)
                if a != b:
                    ctx.fail(f"ownership-history:{self.family(res)}:{self.valued(objs[i], True)}-argument:mutating-the-argument-changes-the-result",
                             f"{key}: {m}(..) on the {rl[i]} AFTER the call changes the result obtained earlier (the list is shared): {diff(b, a)}",
                             {'history': [call_txt, f"<{rl[i]}>.{m}(..)", f"r is no longer what it was: {diff(b, a)}"],
                              'inputs_pickle_hex': _try_pickle(pristine)})
        return True

    def ownership_sweep(self, kind, owner, name, o, tries):
        P, r = self.pools, self.ctx.rng
        key = f"{owner + '.' if owner else ''}{name}"
        if name in DOCUMENTED_MUTATORS or name in LEFT_MAY_CHANGE:
            return
        if kind == 'prop':
            f, req, opt, takes_self = (lambda s_: o.fget(s_)), [], [], True
        else:
            sp = signature_params(o)
            if sp is None:
                return
            req, opt = sp
            f, takes_self = o, kind == 'meth'
            if takes_self:
                if not req:
                    return
                req = req[1:]
        good = sorted(set(self.good.get(key, []))) or ([()] if not req else [])
        if not good:
            return
        roles = (['receiver'] if takes_self else []) + [f"arg:{p.name}" for p in req]
        for t in range(tries):
            cats = good[int(r.integers(0, len(good)))]
            vals = [P.regular[c]() for c in cats]
            # prefer arguments that hold a list: an object of the owner's class (single / multi valued)
            for j, p in enumerate(req):
                if owner and t % 2 == 0 and p.name in ('value', 'arg', 'x', 'other', 'right', 'item', 'iterable', 'v', 's', 'T', 'q', 'S', 'twist', 'line'):
                    for cand in (owner + '*', owner):
                        if cand in P.regular and r.random() < 0.7:
                            vals[j] = P.regular[cand]()
                            break
            if takes_self:
                variant = owner + '*' if (owner + '*' in P.regular and r.random() < 0.6) else owner
                vals = [P.regular[variant]()] + vals
            # every boolean / enum option of the callable, singly (check=False, norm=False, unit='deg', ..), besides the defaults
            plans = [{}]
            for p in opt:
                k_, vs = self.option_values(p)
                if vs and p.name != 'file':
                    plans += [{p.name: v} for v in vs if v != p.default][:2]
            plans = plans[:1 + (6 if t == 0 else 2)]
            # parameters with a None / numeric default (x=None, arg=None, dest=None, value=None ..) are where constructors
            # and converters receive their containers: an object of the owner's class (single / multi valued), lists and
            # tuples of arrays, arrays -- each crossed with the option plans above
            soft = [p for p in opt if self.option_values(p)[1] is None and p.name != 'file']
            cplans = []
            if t == 0:
                for p in soft[:2]:
                    cs = []
                    for c in P.candidates(p.name, owner):
                        if c not in cs and c in P.regular and (c[0] in 'LMV' or c.rstrip('*') in P.classes):
                            cs.append(c)
                    # lists / tuples of arrays and objects first (they hold a list), then matrices, then vectors
                    rank = lambda c: 0 if (c[0] == 'L' or c.rstrip('*') in P.classes) else (1 if c[0] == 'M' else 2)
                    cs.sort(key=rank)
                    for c in cs[:14]:
                        cplans.append((p.name, c))
            qualified = False
            for plan in plans:
                args_ = copy.deepcopy(vals)
                if self.ownership(key, f, (args_, dict(plan)), roles):
                    qualified = True
                elif not plan and not cplans:
                    break
            for pname, c in cplans:
                first = True
                for plan in plans:
                    if pname in plan:
                        continue
                    kw_ = dict(plan)
                    try:
                        kw_[pname] = P.regular[c]()
                    except Exception:
                        break
                    okq = self.ownership(key, f, (copy.deepcopy(vals), kw_), roles)
                    qualified = qualified or okq
                    if first and not okq:
                        break                     # this container form is not accepted here (or gives no list-holding result)
                    first = False
            if not qualified and t >= 1:
                break

    def intensify(self, rejected_fullnames, reached, total):
        """the static analyser rejects a function that is not a known finding: look hard for a concrete failing call
        among the public callables that were seen to execute it"""
        keys = []
        for fn in rejected_fullnames:
            ks = sorted(reached.get(fn, ()))
            if not ks:
                short = fn.split(':')[-1].split('.')[0:2]
                ks = [k for k in self.registry if k.split('.')[-1] in short or fn.split(':')[-1] == k]
            keys += [k for k in ks if k in self.registry and k not in keys]
        self.ctx.stats['intensified_callables'] = keys[:60]
        if not keys:
            return
        per = max(40, total // len(keys))
        n0 = self.nmut
        old = self.pools.psp
        self.pools.psp = 0.5
        try:
            for k in keys[:60]:
                kind, owner, name, o = self.registry[k]
                self.ownership_sweep(kind, owner, name, o, 12)
                if kind == 'prop':
                    self.exercise(kind, owner, name, o, 0, 0, directed=per)
                    continue
                sp = signature_params(o)
                if sp is None:
                    continue
                req, opt = sp
                takes_self = kind == 'meth'
                if takes_self:
                    if not req:
                        continue
                    req = req[1:]
                self.directed(kind, owner, name, o, req, opt, takes_self, per, intense=True)
        finally:
            self.pools.psp = old
        self.ctx.stats['intensified_mutations_found'] = self.nmut - n0

    # ------------------------------------------------------------ operators (both operands, augmented forms)
    def operators(self, n):
        P, r = self.pools, self.ctx.rng
        ops = [('*', operator.mul), ('+', operator.add), ('-', operator.sub), ('/', operator.truediv), ('**', operator.pow),
               ('==', operator.eq), ('!=', operator.ne), ('@', operator.matmul), ('|', operator.or_), ('^', operator.xor),
               ('*=', operator.imul), ('+=', operator.iadd), ('-=', operator.isub), ('/=', operator.itruediv), ('**=', operator.ipow)]
        objs = [k for k in P.P if k.rstrip('*') in P.classes]
        others = objs + ['S', 'I', 'V3', 'V2', 'V4', 'V6', 'M3N', 'M2N', 'M33', 'M44', 'M22', 'M33se2', 'LV', 'M66']
        for _ in range(n):
            a = objs[int(r.integers(0, len(objs)))]
            b = others[int(r.integers(0, len(others)))] if r.random() < 0.6 else (a if r.random() < 0.7 else a.rstrip('*'))
            sym, f = ops[int(r.integers(0, len(ops)))]
            x, y = P.P[a](), P.P[b]()
            if r.random() < 0.25 and not sym.endswith('='):
                x, y = y, x
                a, b = b, a
            aug = sym in ('*=', '+=', '-=', '/=', '**=')
            roles = ['receiver' if aug else 'arg:left', 'arg:right']
            name = {'*=': '__imul__', '+=': '__iadd__', '-=': '__isub__', '/=': '__itruediv__', '**=': '__ipow__'}.get(sym, 'operator' + sym)
            own = a.rstrip('*') if a.rstrip('*') in P.classes else b.rstrip('*')
            ok, res = self.call('op', own, name, f, roles, [x, y], {})
            if ok and res is not None and not isinstance(res, (bool, np.bool_)) and not aug:
                if res is x or res is y:
                    if isinstance(res, (np.ndarray, list)) or hasattr(res, '__dict__'):
                        self.ctx.fail(f"alias:operator{sym}:{type(x).__name__}:{type(y).__name__}",
                                      f"{type(x).__name__} {sym} {type(y).__name__} returns one of its operands (storage reused)",
                                      {'left': srepr(x, 300), 'right': srepr(y, 300)})

    # ------------------------------------------------------------ histories: results are passed on
    def category_of(self, o):
        P = self.pools
        if isinstance(o, np.ndarray) and o.dtype != object:
            sh = o.shape
            m = {(2, 2): 'M22', (3, 3): 'M33', (4, 4): 'M44', (6, 6): 'M66', (2,): 'V2', (3,): 'V3', (4,): 'V4', (6,): 'V6', (1,): 'V1'}
            if sh in m:
                return [m[sh]] + (['M33se2'] if sh == (3, 3) else [])
            if len(sh) == 2 and sh[0] in (2, 3, 4):
                return [f"M{sh[0]}N"]
            return []
        for k, c in P.classes.items():
            if type(o) is c:
                return [k if len(o) == 1 or not hasattr(o, 'data') else k + '*'] if hasattr(o, '__len__') else [k]
        if isinstance(o, float):
            return ['S']
        if isinstance(o, list) and o and all(isinstance(x, np.ndarray) for x in o):
            sh = o[0].shape
            return {(4, 4): ['LM44'], (3, 3): ['LM33'], (2, 2): ['LM22']}.get(sh, [])
        return []

    def histories(self, nhist, length, callables):
        ctx, r, P = self.ctx, self.ctx.rng, self.pools
        by_owner = {}
        for c in callables:
            by_owner.setdefault(c[1], []).append(c)
        funcs = by_owner.get(None, [])
        for h in range(nhist):
            live = []        # [obj, snapshot, origin]
            index = {}       # category -> objects

            def add(o, origin):
                if o is None or isinstance(o, (bool, int, str, np.bool_)):
                    return
                if isinstance(o, tuple):
                    for x in o:
                        add(x, origin)
                    return
                cats = self.category_of(o)
                if not cats:
                    return
                live.append([o, snap(o), origin])
                for c in cats:
                    index.setdefault(c, []).append(o)
            for c in ('SE3', 'SO3', 'M44', 'M33', 'V3', 'UnitQuaternion', 'Twist3', 'SE2', 'SE3*', 'V4', 'Quaternion', 'M33se2', 'V6'):
                if r.random() < 0.7:
                    add(P.P[c](), 'input ' + c)
            trace = []
            for step in range(length):
                # pick a callable: a method of a live object, or a base function
                cand = [x for x in live if any(c.rstrip('*') in P.classes for c in self.category_of(x[0]))]
                if cand and r.random() < 0.6:
                    rec = cand[int(r.integers(0, len(cand)))][0]
                    owner = self.category_of(rec)[0].rstrip('*')
                    lst = [c for c in by_owner.get(owner, []) if c[0] in ('meth', 'prop')]
                    kind, _, name, o = lst[int(r.integers(0, len(lst)))]
                    if kind == 'prop':
                        f, args, roles, kw = (lambda s, o=o: o.fget(s)), [rec], ['receiver'], {}
                    else:
                        sp = signature_params(o)
                        if sp is None or not sp[0]:
                            continue
                        cats, vals = self.draw(sp[0][1:], owner, f"{owner}.{name}", live=index)
                        f, args, roles, kw = o, [rec] + vals, ['receiver'] + [f"arg:{p.name}" for p in sp[0][1:]], {}
                else:
                    kind, owner, name, o = funcs[int(r.integers(0, len(funcs)))]
                    sp = signature_params(o)
                    if sp is None:
                        continue
                    cats, vals = self.draw(sp[0], None, name, live=index)
                    f, args, roles, kw = o, vals, [f"arg:{p.name}" for p in sp[0]], {}
                    if any(p.name == 'file' for p in sp[1]):
                        kw = {'file': None}
                allowed = set()
                if name in DOCUMENTED_MUTATORS or name in LEFT_MAY_CHANGE:
                    allowed = reach_ids(args[0])
                ok, res = self.call(kind, owner, name, f, roles, args, kw, check_det=False)
                trace.append(f"{owner + '.' if owner else ''}{name}({', '.join(type(a).__name__ for a in args)}) -> {'ok ' + type(res).__name__ if ok else type(res).__name__}")
                ctx.count('history_steps')
                # every object seen so far must be unchanged (earlier results and inputs re-checked)
                for entry in live:
                    o_, s_, origin = entry
                    now = snap(o_)
                    if now != s_:
                        if allowed and (reach_ids(o_) & allowed):
                            entry[1] = now                          # the receiver of a documented mutator (or an alias of it)
                            continue
                        if any(o_ is a for a in args):
                            entry[1] = now                          # already reported by the single-call check
                            continue
                        d = diff(s_, now) or ''
                        ctx.fail(f"history:{owner + '.' if owner else ''}{name}:earlier-object-changed",
                                 f"an object that is not an argument of {name} ({origin}) changed during the call: {d}",
                                 {'trace': trace, 'object_origin': origin, 'difference': d})
                        entry[1] = now
                if ok:
                    add(res, f"result of step {step} {name}")
            ctx.count('histories')
            if h == 0:
                ctx.sample({'kind': 'history', 'trace': trace[:12]})


def srepr(o, n=300):
    try:
        with np.errstate(all='ignore'):
            return repr(o)[:n]
    except Exception as e:                                  # a __repr__ of the library that raises
        try:
            return f"<{type(o).__name__} (repr raises {type(e).__name__}) data={getattr(o, 'data', None)!r}>"[:n]
        except Exception:
            return f"<{type(o).__name__}>"


def _arrays_of(o, acc=None, depth=0):
    """the ndarrays (and their bases) reachable from o"""
    if acc is None:
        acc = []
    if depth > 8:
        return acc
    if isinstance(o, np.ndarray):
        acc.append(o)
        b = o.base
        while isinstance(b, np.ndarray):
            acc.append(b)
            b = b.base
    elif isinstance(o, (list, tuple)):
        for x in o:
            _arrays_of(x, acc, depth + 1)
    elif isinstance(o, dict):
        for x in o.values():
            _arrays_of(x, acc, depth + 1)
    elif hasattr(o, '__dict__') and not isinstance(o, (type, types.ModuleType, types.FunctionType)):
        _arrays_of(vars(o), acc, depth + 1)
    return acc


def same_value(a, b, depth=0):
    """equal outputs: exact for everything but floating-point payloads, which may differ by rounding noise of the
    third-party linear algebra (scipy expm / logm, BLAS are not bit-reproducible across buffer alignments); a hidden
    state in the library would give O(1) differences"""
    if depth > 10:
        return True
    if type(a) is not type(b):
        return False
    if isinstance(a, np.ndarray):
        if a.shape != b.shape or a.dtype != b.dtype:
            return False
        if a.dtype.kind in 'fc':
            with np.errstate(all='ignore'):
                return bool(np.allclose(a, b, rtol=1e-9, atol=1e-12, equal_nan=True))
        if a.dtype == object:
            return all(same_value(x, y, depth + 1) for x, y in zip(a.flat, b.flat))
        return bool(np.array_equal(a, b))
    if isinstance(a, (float, np.floating)):
        return (a != a and b != b) or abs(a - b) <= 1e-12 + 1e-9 * abs(b)
    if isinstance(a, (complex, np.complexfloating)):
        return (a != a and b != b) or abs(a - b) <= 1e-12 + 1e-9 * abs(b)
    if isinstance(a, (list, tuple)):
        return len(a) == len(b) and all(same_value(x, y, depth + 1) for x, y in zip(a, b))
    if isinstance(a, dict):
        return set(a) == set(b) and all(same_value(a[k], b[k], depth + 1) for k in a)
    if hasattr(a, '__dict__') and not isinstance(a, (type, types.ModuleType, types.FunctionType)):
        return same_value(vars(a), vars(b), depth + 1)
    try:
        return snap(a) == snap(b)
    except Exception:
        return False


def _shape(a):
    if isinstance(a, np.ndarray):
        return str(a.shape)
    if isinstance(a, (list, tuple)):
        return f"[{len(a)}]"
    try:
        return f"[{len(a)}]" if hasattr(a, '__len__') and not isinstance(a, str) else ''
    except Exception:
        return ''


def _try_pickle(o):
    try:
        return pickle.dumps(o).hex()[:20000]
    except Exception:
        return None


def validate_fresh_table(ctx, tr):
    """the trusted table of allocating external callables, validated on the implementation: the result of every
    table entry the translator relied on must not share memory with (or be) an argument"""
    A = np.arange(9.0).reshape(3, 3) + np.eye(3)
    v = np.array([1.0, 2.0, 3.0])
    trials = [(A,), (A, A), (v,), (v, v), (A, v), ([A, A],), ((A, A),), ([v, v],), (A, 1), (v, 1), (A, 0, 0), (v, 0), (A, ((0, 1), (0, 1))),
              (3,), ((3, 3),), (2.0,), (v, 2.0), (A, [0]), ([v, v], 0)]
    n = 0
    for name, f in sorted(tr.used_fresh.items()):
        if not name.startswith(('numpy', 'scipy', 'copy')):
            continue
        for t in trials:
            if isinstance(f, np.ufunc) and len(t) > f.nin:
                continue          # a further positional argument of a ufunc is `out=`: returning it is the caller's explicit request, not aliasing
            args = copy.deepcopy(t)
            try:
                with np.errstate(all='ignore'):
                    res = f(*args)
            except Exception:
                continue
            n += 1
            # the claim is about the returned object itself (a shallow copy of a list shares its elements, by design);
            # tuples of arrays returned by numpy / scipy (eig, svd, ..) are checked element by element
            outs = list(res) if isinstance(res, tuple) and name.startswith(('numpy', 'scipy')) else [res]
            ins = _arrays_of(list(args))
            for o in outs:
                if any(o is a for a in args if isinstance(a, (list, np.ndarray, dict))) or \
                        (isinstance(o, np.ndarray) and any(o is a or np.shares_memory(o, a) for a in ins)):
                    ctx.fail(f"table:fresh:{name}", f"{name} is in the table of allocating callables but its result shares memory with an argument",
                             {'callable': name, 'argument_types': [type(a).__name__ for a in t]})
    ctx.stats['fresh_table_entries_used'] = sorted(tr.used_fresh)
    ctx.stats['fresh_table_validation_calls'] = n


def module_level_arrays():
    """(name, ndarray) for every array held at module level or class level of the library (directly or in a dict / list / tuple)"""
    out = []

    def add(nm, v, depth=0):
        if isinstance(v, np.ndarray):
            out.append((nm, v))
        elif isinstance(v, dict) and depth < 2:
            for k, x in list(v.items())[:200]:
                add(f"{nm}[{k!r}]", x, depth + 1)
        elif isinstance(v, (list, tuple)) and depth < 2:
            for i, x in enumerate(v[:200]):
                add(f"{nm}[{i}]", x, depth + 1)
    for mname, mod in sorted(sys.modules.items()):
        if mname.startswith('spatialmath') and mod is not None:
            for n, v in list(vars(mod).items()):
                if not n.startswith('__'):
                    add(f"{mname}.{n}", v)
                if isinstance(v, type) and v.__module__.startswith('spatialmath'):
                    for n2, v2 in list(vars(v).items()):
                        if not n2.startswith('__'):
                            add(f"{mname}.{n}.{n2}", v2)
    seen, res = set(), []
    for nm, a in out:
        if id(a) not in seen:
            seen.add(id(a))
            res.append((nm, a))
    return res


def class_state(pools):
    """class-level and module-level plain data (configuration, constants): must be the same after the whole sweep"""
    st = {}
    for k, c in pools.classes.items():
        for kk in c.__mro__:
            if kk.__module__.startswith('spatialmath'):
                for n, v in vars(kk).items():
                    if not callable(v) and not isinstance(v, (property, classmethod, staticmethod)) and not n.startswith('__'):
                        st[f"{kk.__qualname__}.{n}"] = snap(v)
    for mname, mod in sorted(sys.modules.items()):
        if mname.startswith('spatialmath') and mod is not None:
            for n, v in vars(mod).items():
                if isinstance(v, (int, float, str, tuple, list, dict, np.ndarray)) and not n.startswith('__'):
                    st[f"{mname}.{n}"] = snap(v)
    return st


# ======================================================================================================
# translator self-test: in-place idioms must be rejected, the library's idioms accepted
# ======================================================================================================
SELFTEST_SRC = '''
import numpy as np, math, copy, operator
from spatialmath import base
from spatialmath import SE3

def ok_builder(T):
    R = np.zeros((3, 3)); R[:2, :2] = T[:2, :2]; R[2, 2] = 1
    return R
def ok_freshcall(T):
    X = base.r2t(base.rotx(0.3)); X[:3, 3] = T[:3, 3]
    return X
def ok_local_list(v):
    out = []
    for x in v:
        out.append(x * 2)
    out.sort()
    return out
def ok_copy_then_write(T):
    Tn = np.array(T); Tn[:3, :3] = np.eye(3)
    U = T.copy(); U[0, 0] = 1
    W = copy.copy(T); W[0] = 1
    return Tn
def ok_rebinding(T, unit='deg'):
    T = T * 2
    unit += 'x'
    s = 0
    s += T[0, 0]
    return T
def ok_kwargs(T, **kw):
    kw.pop('x', None); kw['y'] = 1
    return kw
def ok_getvector_out(v):
    return base.getvector(v, out='col')
def ok_new_object(T):
    X = SE3(T); X.append(SE3())
    return X
def ok_refined(v, n):
    p = [0, 0, 0]
    p[n] = v[0]
    p = v
    return p

def bad_param_store(T):
    T[:3, 3] = 0
    return T
def bad_param_aug(q):
    q *= -1
    return q
def bad_view(T):
    o = T[:3, 1]
    o /= np.linalg.norm(o)
    return T
def bad_alias(T):
    x = T
    x[0, 0] = 1
def bad_maybe_alias(T, c):
    x = T if c else np.zeros((4, 4))
    x[0, 0] = 1
def bad_asarray(v):
    x = np.asarray(v); x[0] = 1
def bad_nocopy(v):
    x = np.array(v, copy=False); x[0] = 1
def bad_reshape(v):
    x = v.reshape(-1); x[0] = 1
def bad_transl_view(T):
    t = base.transl(T); t[0] = 5
def bad_out(v, n):
    return np.divide(v, n, out=v)
def bad_out_view(q):
    np.negative(q[1:], out=q[1:])
def bad_positional_out(a, b):
    np.add(a, b, a)
def bad_copyto(a, b):
    np.copyto(a, b)
def bad_method(v):
    v.sort()
def bad_fill(T):
    T.fill(0)
def bad_shape(v):
    v.shape = (3,)
def bad_setattr(x):
    setattr(x, 'a', 1)
def bad_dunder(x, s):
    x.__imul__(s)
def bad_unbound(T):
    np.ndarray.__setitem__(T, 0, 1)
def bad_operator(T):
    operator.setitem(T, 0, 1)
def bad_operator2(T, s):
    operator.imul(T, s)
def bad_shuffle(T):
    np.random.shuffle(T)
def bad_loop(lst):
    for x in lst:
        x[0] = 0
def bad_comprehension(lst):
    [x.append(1) for x in lst]
def bad_depth2(x):
    x.A[0, 0] = 1
def bad_data_elem(x):
    x.data[0][0, 0] = 1
def bad_owned_on_param(x, a):
    x.data[0] = a
def bad_flat(T):
    T.flat[0] = 1
def bad_global(T):
    global _state
    _state = T
_cache = {}
def bad_module_cache(k, v):
    _cache[k] = v
def bad_default_cache(k, v, memo={}):
    memo[k] = v
def bad_class_attr(x):
    SE3._n = 1
def bad_class_attr2(x):
    type(x)._n = 1
def bad_dict(x):
    x.__dict__['a'] = 1
def bad_escape(lst):
    f = lst.append
    f(1)
def bad_getattr(x, name):
    getattr(x, name)(1)
def bad_closure(T):
    def inner():
        T[0, 0] = 1
    inner()
def bad_lambda(lst):
    return (lambda: lst.append(1))()
def bad_mutator_on_param(X, Y):
    X.append(Y)
def bad_del(v):
    del v[0]
def bad_slice_assign(v):
    v[:] = [1, 2, 3]
def bad_tuple_target(T, a):
    T[0, 0], a = 1, 2
def bad_nonfresh_ctor_data(x, lst):
    y = SE3(); y.data = lst
def bad_refined_lost(v, n, c):
    p = [0, 0, 0]
    if c:
        p = v
    p[n] = 1
def bad_loop_carried(v, n):
    p = [0, 0, 0]
    for i in range(n):
        p[i] = 1
        p = v
'''


def selftest(ctx, tr, progs, FS_lib):
    """the translator + checker on a fixed list of idioms; `ok_*` must be accepted, `bad_*` rejected"""
    import warnings
    with warnings.catch_warnings():
        warnings.simplefilter('ignore')
        tree = ast.parse(SELFTEST_SRC)
    mod = types.ModuleType('c17_selftest')
    exec(compile('import numpy as np, math, copy, operator\nfrom spatialmath import base\nfrom spatialmath import SE3\n_cache = {}\n',
                 '<c17_selftest>', 'exec'), mod.__dict__)
    n0 = len(tr.fns)
    tr.modules['c17_selftest'] = mod
    saved = dict(tr.stats), list(tr.sites), dict(tr.top_reasons), list(tr.assumed_str)
    try:
        tr._collect_body('c17_selftest', tree.body, '', None, None)
        for i, f in enumerate(tr.fns):
            f.id = i
        allprogs = dict(progs)
        for f in tr.fns[n0:]:
            allprogs[f.id] = tr.translate(f).stmts
        FS = fresh_set(allprogs, tr.fns)
        v = py_check(allprogs, tr.fns, FS)
        outer = {}
        for f in tr.fns[n0:]:
            top = f.qual.split('.')[0]
            outer[top] = outer.get(top, True) and v[f.id]
        for name, ok in sorted(outer.items()):
            want = name.startswith('ok_')
            ctx.count('translator_selftest_cases')
            if ok != want:
                ctx.fail(f"translator-selftest:{name}", f"the translator/checker {'rejects' if want else 'accepts'} the idiom {name}",
                         {'idiom': name, 'effect_programs': {f.qual: [list(map(str, s_)) for s_ in allprogs[f.id]] for f in tr.fns[n0:] if f.qual.split('.')[0] == name}},
                         no_input=True)
    finally:
        del tr.fns[n0:]
        tr.by_key = {k: f for k, f in tr.by_key.items() if f.module != 'c17_selftest'}
        del tr.modules['c17_selftest']
        tr.stats, tr.sites, tr.top_reasons, tr.assumed_str = saved[0], saved[1], saved[2], saved[3]


# ======================================================================================================
# the check
# ======================================================================================================
COQ_HEADER = ("From Coq Require Import List String.\nImport ListNotations.\nFrom SM Require Import Model.C17_Effects.\n"
              "From SMgen Require Import EffProgs_C17.\n")


def explain_rejection(tr, f, st, FS):
    np_ = len(f.params)
    out = []

    def freshonly(x):
        return x >= np_ and all(rhs_fresh(d[2], FS) for d in st if d[0] == 'Def' and d[1] == x)
    names = {v: k for k, v in []}
    for s in st:
        if s[0] in ('Write', 'MutCall') and not (freshonly(s[1]) or (f.selfwriter and s[1] == 0)):
            out.append(f"{s[0]} on variable {s[1]}" + (' (a parameter)' if s[1] < np_ else ' (a local with a non-fresh definition, or an unclassifiable root)'))
    sites = [x for x in tr.sites if x.startswith(f.fullname + ':')]
    return out, sites, tr.top_reasons.get(f.fullname, [])


def run(ctx):
    ctx.rule = ("obligations: theorems of theories/Props/C17.v (checker soundness with the call rule; the verified checker "
                "evaluated by vm_compute on the effect programs regenerated from the source; _refuted/_partial pairs); "
                "evaluations: calls of the implementation made under byte-level snapshots (every public callable of "
                "spatialmath.base, every public method / property / operator of every class, operators, histories in which "
                "results are passed on, determinism re-runs); a case is distinct by (callable, argument types and shapes, outcome)")
    ctx.trusted_extra = [
        "T-eff translator props/C17.py (fail-closed ast pass; name resolution through the live modules); the by-name kind "
        "assignment (constructors / documented mutators are the only self-writers) and the tables of allocating / mutating "
        "NumPy and builtin callables are trusted and validated by the snapshot harness",
        "views vs copies inside NumPy, third-party code called with a caller's array: covered by the snapshots only"]
    # ---------------------------------------------------------------- 1. regenerate
    with ctx.timed('regenerate'):
        tr, progs, FS = translate_all(REPO)
        path = ctx.write_gen('EffProgs_C17.v', coq_text(tr.fns, progs, FS))
    ctx.stats.update({'functions_analysed': len(tr.fns), 'fresh_set': len(FS), **{'translator:' + k: v for k, v in tr.stats.items()}})
    ctx.stats['str_parameter_assumptions'] = [f"{a}:{b}@{c}" for a, b, c in tr.assumed_str]
    ctx.stats['classname_getattr_sites'] = [f"{a}@{b}" for a, b in tr.classname_getattr]
    rc, out, err, dt = ctx.coqc(path)
    if rc != 0:
        ctx.fail('gen:compile', 'generated effect programs do not compile: ' + err[-800:], no_input=True)
        return
    # the verdict of the verified checker, per function
    with ctx.timed('checker'):
        val = ctx.coq_eval(COQ_HEADER, ['verdicts prog_C17 fresh_C17'])[0]
    verdict = [x.strip() == 'true' for x in val.strip().strip('[]').split(';')]
    if len(verdict) != len(tr.fns):
        raise RuntimeError('verdict list does not match the program list')
    pyv = py_check(progs, tr.fns, FS)
    rejected = set()
    for f, v in zip(tr.fns, verdict):
        if v != pyv[f.id]:
            ctx.fail('harness:checker-mismatch', f"the Python copy of the checker disagrees with Coq on {f.fullname}", no_input=True)
        if not v:
            rejected.add(f.fullname)
            why, sites, top = explain_rejection(tr, f, progs[f.id], FS)
            ctx.fail('static:write-root-rejected:' + f.fullname,
                     f"the verified write-root checker rejects {f.fullname}: " + '; '.join(why + top)[:400],
                     {'function': f.fullname, 'file': os.path.relpath(tr.modules[f.module].__file__, REPO), 'line': f.node.lineno,
                      'effect_program': [list(map(str, s)) for s in progs[f.id]], 'write_sites': sites, 'unclassifiable': top,
                      'meaning': 'for EVERY input that reaches the statement, an object that is not created by the call may be written'},
                     no_input=True)
    ctx.stats['functions_accepted'] = sum(verdict)
    ctx.stats['functions_rejected'] = sorted(rejected)
    with ctx.timed('selftest'):
        selftest(ctx, tr, progs, FS)
    # ---------------------------------------------------------------- 2. prove
    ctx.prove('theories/Props/C17.v')
    # ---------------------------------------------------------------- 3/4. snapshots on the implementation
    with ctx.timed('harness'):
        validate_fresh_table(ctx, tr)
        oracle(ctx, tr, rejected)


def oracle(ctx, tr, rejected):
    H = Harness(ctx, rejected)
    P = H.pools
    calls = public_callables(P)
    ctx.stats['public_callables'] = len(calls)
    state0 = class_state(P)
    lines = {}
    for f in tr.fns:
        fp = os.path.realpath(tr.modules[f.module].__file__)
        lo = min([f.node.lineno] + [d.lineno for d in getattr(f.node, 'decorator_list', [])])
        lines[(fp, lo)] = f.fullname
        lines[(fp, f.node.lineno)] = f.fullname
    executed = set()
    pkg = os.path.realpath(tr.pkg)

    cache = {}

    def tracer(frame, event, arg):
        co = frame.f_code
        fn = cache.get(co, 0)
        if fn == 0:
            fn = None
            if 'spatialmath' in co.co_filename:
                fn = lines.get((os.path.realpath(co.co_filename), co.co_firstlineno))
            cache[co] = fn
        if fn is not None:
            executed.add(fn)
            if H.cur_key is not None:
                H.reached.setdefault(fn, set()).add(H.cur_key)
        return None
    # trprint & co. capture sys.stdout in a default argument at import time: silence the file descriptor itself
    sys.stdout.flush()
    saved_fd = os.dup(1)
    devnull = os.open(os.devnull, os.O_WRONLY)
    os.dup2(devnull, 1)
    H.tracer = tracer
    sys.settrace(tracer)
    try:
        with ctx.timed('harness:single-calls'):
            for kind, owner, name, o in calls:
                H.exercise(kind, owner, name, o, ctx.n(40, 250), ctx.n(4, 16), directed=ctx.n(24, 120))
        with ctx.timed('harness:operators'):
            H.operators(ctx.n(2500, 40000))
        with ctx.timed('harness:histories'):
            H.histories(ctx.n(120, 2500), ctx.n(14, 25), calls)
        # a function newly rejected by the analyser: directed, intensified search for a concrete failing call
        from lib.core import load_known
        known = load_known(ctx.prop)
        fresh_rej = sorted(f for f in rejected if ('static:write-root-rejected:' + f) not in known)
        if fresh_rej:
            with ctx.timed('harness:intensified'):
                H.intensify(fresh_rej, H.reached, ctx.n(12000, 60000))
        # other configurations of the display options (class attributes of SMPose)
        from spatialmath.super_pose import SMPose
        with ctx.timed('harness:configurations'):
            for attr, value in (('_ansimatrix', True), ('_color', not SMPose._color), ('_suppress_small', False)):
                old = SMPose.__dict__[attr]
                setattr(SMPose, attr, value)
                try:
                    for kind, owner, name, o in calls:
                        if owner in ('SO2', 'SE2', 'SO3', 'SE3') and kind in ('meth', 'prop') and \
                                (name in ('__str__', '__repr__', 'printline', 'strline', '_repr_pretty_') or ctx.thorough):
                            H.exercise(kind, owner, name, o, ctx.n(6, 12), ctx.n(2, 4), config=f"SMPose.{attr}={value}")
                finally:
                    setattr(SMPose, attr, old)
    finally:
        sys.settrace(None)
        sys.stdout.flush()
        os.dup2(saved_fd, 1)
        os.close(saved_fd)
        os.close(devnull)
    state1 = class_state(P)
    for k in sorted(set(state0) | set(state1)):
        if state0.get(k) != state1.get(k):
            ctx.fail(f"global-state:{k}", f"class / module level state {k} changed during the sweep (calls are not independent)",
                     {'name': k, 'before': str(state0.get(k))[:200], 'after': str(state1.get(k))[:200]})
    never = sorted(k for k in H.attempts if not H.success.get(k))
    ctx.stats['callables_with_a_successful_call'] = sum(1 for k in H.attempts if H.success.get(k))
    ctx.stats['callables_attempted'] = len(H.attempts)
    ctx.stats['callables_never_successful'] = never
    ctx.stats['analysed_functions_executed_under_snapshots'] = f"{len(executed)}/{len(tr.fns)}"
    ctx.stats['analysed_functions_never_executed'] = sorted(set(f.fullname for f in tr.fns) - executed)[:400]
    ctx.stats['mutations_observed'] = H.nmut
    ctx.corr['functions'] = len(executed)
