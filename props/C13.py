"""C13 -- Lie-algebra maps, adjoint and differential motion are consistent."""
import inspect
import math
import numpy as np
import scipy.linalg
import sympy
from lib import concolic
from lib.symtrace import Gen, sym_input, input_pattern, coq_expr
from lib.corr import sym_num
from lib.gens import log_uniform, rand_unit, rand_rot, rand_trans, rand_se3, signed_mag

concolic.install()
from spatialmath import base, SE3, Twist3  # noqa: E402

MOD = 'Traces_C13'
EXC_KINDS = ['NameError', 'ValueError', 'TypeError', 'AttributeError', 'IndexError',
             'AssertionError', 'ZeroDivisionError', 'OtherError']


def exc_kind(ex):
    """canonical exception kind: UnboundLocalError is a subclass of NameError and both mean the same defect (a name
    used that was never bound), so renaming a local must not change the kind"""
    if isinstance(ex, NameError):
        return 'NameError'
    k = type(ex).__name__
    return k if k in EXC_KINDS else 'OtherError'


def hexl(a):
    return [float(x).hex() for x in np.asarray(a, float).flatten()]


def first(r):
    return np.asarray(r, dtype=object).flatten()[0]


def pose(X):
    return SE3(X, check=False)


# ------------------------------------------------------------------------------------------------ samplers
def s_se3(rng, thi=1e3):
    return rand_se3(rng, 1e-3, thi)


def s_twist(rng):
    """twist with rotation magnitude in (1e-3, pi) and a translation part of magnitude 1e-3..1e2"""
    th = rng.uniform(1e-3, math.pi - 1e-3)
    return np.r_[rng.normal(size=3) * log_uniform(rng, 1e-3, 1e2), rand_unit(rng) * th]


def s_delta(rng):
    """differential motion of magnitude 1e-9 .. 1e-2 (sometimes up to 1), some with zero parts"""
    d = rand_unit(rng, 6) * (log_uniform(rng, 1e-9, 1e-2) if rng.random() < 0.8 else log_uniform(rng, 1e-2, 1.0))
    r = rng.random()
    if r < 0.1:
        d[:3] = 0
    elif r < 0.2:
        d[3:] = 0
    return d


# ------------------------------------------------------------------------------------------------ traces
def concolic_trace(g, name, inputs, fn, point, **kw):
    """run fn on symbols with comparisons decided at the float point `point` (list of arrays, one per input);
    returns (trace, path) where path is the list of (relational, truth) recorded"""
    def wrapped(*vals):
        concolic.VAL.clear()
        for (an, sh), v, p in zip(inputs, vals, point):
            _, syms = sym_input(an, sh)
            for s_, x in zip(syms, np.asarray(p, float).flatten()):
                concolic.VAL[s_] = float(x)
        concolic.PATH.clear()
        with concolic.object_alloc():
            return fn(*vals)
    t = g.trace(name, inputs, wrapped, num_fn=fn, **kw)
    path = list(concolic.PATH)
    concolic.VAL.clear()
    return t, path


def build(ctx):
    g = Gen('C13')
    # ---- vector <-> matrix maps of so(2), so(3), se(2), se(3)
    g.trace('tr_skew1', [('a', 'S')], base.skew)
    g.trace('tr_skew3', [('v', 'V3')], base.skew)
    g.trace('tr_vex2', [('S', 'M22')], base.vex, post=first, num_fn=lambda S: base.vex(S)[0])
    g.trace('tr_vex3', [('S', 'M33')], base.vex)
    g.trace('tr_skewa3', [('v', 'V3')], base.skewa)
    g.trace('tr_skewa6', [('v', 'V6')], base.skewa)
    g.trace('tr_vexa3', [('S', 'M33')], base.vexa)
    g.trace('tr_vexa4', [('S', 'M44')], base.vexa)
    # ---- vector helpers
    g.trace('tr_cross', [('u', 'V3'), ('v', 'V3')], base.cross)
    g.trace('tr_norm3', [('v', 'V3')], base.norm)
    g.trace('tr_normsq3', [('v', 'V3')], base.normsq)
    g.trace('tr_norm6', [('v', 'V6')], base.norm)
    g.trace('tr_normsq6', [('v', 'V6')], base.normsq)
    g.trace('tr_norm1', [('a', 'S')], lambda a: base.norm([a]))
    # ---- adjoint, Jacobian, differential motion (base layer)
    g.trace('tr_adjoint', [('X', 'M44')], base.adjoint)
    g.trace('tr_adjoint3', [('X', 'M33')], base.adjoint, sampler=lambda rng: [rand_rot(rng)])
    g.trace('tr_tr2jac', [('X', 'M44')], base.tr2jac)
    g.trace('tr_tr2jac_sb', [('X', 'M44')], lambda X: base.tr2jac(X, samebody=True))
    g.trace('tr_delta2tr', [('d', 'V6')], base.delta2tr)
    g.trace('tr_tr2delta', [('X', 'M44')], base.tr2delta)
    g.trace('tr_tr2delta2', [('X', 'M44'), ('Y', 'M44')], base.tr2delta)
    g.trace('tr_trinv', [('X', 'M44')], base.trinv)
    # ---- class layer
    g.trace('tr_SE3_Ad', [('X', 'M44')], lambda X: pose(X).Ad())
    g.trace('tr_SE3_jacob', [('X', 'M44')], lambda X: pose(X).jacob())
    g.trace('tr_SE3_delta', [('X', 'M44'), ('Y', 'M44')], lambda X, Y: pose(X).delta(pose(Y)))
    g.trace('tr_SE3_mul', [('X', 'M44'), ('Y', 'M44')], lambda X, Y: (pose(X) * pose(Y)).A)
    g.trace('tr_SE3_inv', [('X', 'M44')], lambda X: pose(X).inv().A)
    g.trace('tr_Tw_ad', [('s', 'V6')], lambda s: Twist3(s).ad())
    g.trace('tr_Tw_se3', [('s', 'V6')], lambda s: Twist3(s).se3())
    # ---- the exponential of a general twist (rotation part not zero): concolic trace of base.trexp at a generic point;
    #      the comparisons it decided are emitted as the path condition pc_trexp6 (see gen_text)
    t, path = concolic_trace(g, 'tr_trexp6', [('s', 'V6')], base.trexp, [np.array([0.3, -0.2, 0.5, 0.4, 0.1, -0.7])],
                             sampler=lambda rng: [s_twist(rng)], tol=1e-9)
    g.paths = {'pc_trexp6': ([('s', 'V6')], path)}
    # ---- what SE3.Delta hands to the constructor since 03e6d35: trnorm(delta2tr(d)) (concolic: unitvec compares norms)
    t, path = concolic_trace(g, 'tr_Delta', [('d', 'V6')], lambda d: base.trnorm(base.delta2tr(d)),
                             [np.array([0.1, -0.2, 0.3, 0.02, -0.03, 0.05])], sampler=lambda rng: [s_delta(rng)])
    g.paths['pc_Delta'] = ([('d', 'V6')], path)
    # ---- one-parameter form base.trexp(S, theta) for a unit twist (|w| = 1): the curve theta -> exp(theta [S])
    w_ = np.array([0.6, 0.0, 0.8])
    t, path = concolic_trace(g, 'tr_trexp_unit', [('s', 'V6'), ('th', 'S')], lambda s, th: base.trexp(s, th),
                             [np.r_[0.3, -0.2, 0.5, w_], np.array(0.7)], tol=1e-9,
                             sampler=lambda rng: [np.r_[rng.normal(size=3) * log_uniform(rng, 1e-3, 1e2), rand_unit(rng)],
                                                  float(rng.uniform(-math.pi, math.pi))])
    g.paths['pc_trexp_unit'] = ([('s', 'V6'), ('th', 'S')], path)
    # ---- the other twist kinds of base.trexp: prismatic (w literally zero) and zero twist
    t, path = concolic_trace(g, 'tr_trexp6_pris', [('v', 'V3')], lambda v: base.trexp(np.r_[v, 0, 0, 0]),
                             [np.array([0.1, -0.2, 0.3])], sampler=lambda rng: [rng.normal(size=3) * log_uniform(rng, 1e-6, 1e3)])
    g.paths['pc_trexp6_pris'] = ([('v', 'V3')], path)
    t, path = concolic_trace(g, 'tr_trexp6_zero', [('s', 'V6')], base.trexp, [np.zeros(6)],
                             sampler=lambda rng: [np.zeros(6)])
    g.paths['pc_trexp6_zero'] = ([('s', 'V6')], path)
    return g


def rel_term(rel):
    """a recorded SymPy relational as a boolean Gallina term over the ops record (fail-closed)"""
    ops = {sympy.StrictLessThan: ('ltb', False), sympy.LessThan: ('leb', False),
           sympy.StrictGreaterThan: ('ltb', True), sympy.GreaterThan: ('leb', True)}
    for cls, (fn, swap) in ops.items():
        if isinstance(rel, cls):
            l, r = (rel.rhs, rel.lhs) if swap else (rel.lhs, rel.rhs)
            return f"{fn} O {coq_expr(l)} {coq_expr(r)}"
    raise RuntimeError(f"unsupported relational in a path condition: {rel}")


# ------------------------------------------------------------------------------------------------ extra generated text
def gen_text(ctx, g):
    """generated Coq text: the traces, plus (a) the path conditions of the concolic traces; (b) the tolerance the
    rotation-validity test of the SE3 constructor uses, read from the code; (c) colvec (no arithmetic)."""
    txt = [g.coq_text()]
    # path conditions of the concolic traces: conjunction of the recorded comparisons, as a boolean over the ops record
    for name, (inputs, path) in getattr(g, 'paths', {}).items():
        binders = " ".join(f"({an} : {'T' if sh == 'S' else sh + ' T'})" for an, sh in inputs)
        lets = "".join(f"  let '{input_pattern(an, sh)} := {an} in\n" for an, sh in inputs if sh != 'S')
        atoms = []
        for rel, truth in path:
            a = rel_term(rel)
            a = f"({a})" if truth else f"negb ({a})"
            if a not in atoms:
                atoms.append(a)
        txt.append("Section GenPC.\nContext {T : Type} (O : ops T).\n"
                   'Local Infix "+" := (add O). Local Infix "-" := (sub O). Local Infix "*" := (mul O). Local Infix "/" := (div O).\n'
                   f"Definition {name} {binders} : bool :=\n{lets}  " + "\n  && ".join(f"({a})" for a in atoms) + ".\n"
                   f"End GenPC.\nArguments {name} {{T}} O.\n")
        ctx.stats['path:' + name] = [f"{rel} is {truth}" for rel, truth in path]
    # (b) tolerance of the validity test applied by the SE3 constructor (isvalid -> ishom(check=True, tol) -> isR(R, tol))
    tol = inspect.signature(base.ishom).parameters['tol'].default
    if not (isinstance(tol, (int, float)) and float(tol) == int(tol) and tol > 0):
        raise RuntimeError(f"ishom default tolerance is not a positive integer: {tol!r}")
    txt.append(f"Definition isR_tol : Z := {int(tol)}%Z.\n")
    ctx.isR_tol = TOL[0] = int(tol)
    # (c) colvec performs no arithmetic (no ops argument)
    v = sym_input('v', 'V3')[0]
    cv = np.asarray(base.colvec(v), dtype=object)
    if cv.shape != (3, 1):
        raise RuntimeError(f"colvec of a 3-vector has shape {cv.shape}")
    txt.append("Definition tr_colvec3 {T} (v : V3 T) : V3 T :=\n  let '(v0,v1,v2) := v in (" + ",".join(str(x) for x in cv.flatten()) + ").\n")
    return "".join(txt)


# ------------------------------------------------------------------------------------------------ hand model tie
TOL = [100]       # tolerance the SE3 constructor passes to isR (set by gen_text from the code)


def s_isR(rng):
    """inputs for the validity test, never inside the factor-4 band around its threshold sqrt(2)|w|^2 = tol*eps:
    I + skew(w) (what delta2tr produces) below and above the threshold, exact and noisy rotations, reflections"""
    tol = float(TOL[0])
    w0 = math.sqrt(tol * 2.0 ** -52 / math.sqrt(2))        # |w| at the threshold (1.25e-7 for tol = 100)
    r = rng.random()
    if r < 0.45:
        wn = log_uniform(rng, w0 * 1e-3, w0 / 2) if rng.random() < 0.5 else log_uniform(rng, w0 * 2, 1e-1)
        return [tol, np.eye(3) + base_skew(rand_unit(rng) * wn)]
    if r < 0.65:
        return [tol, rand_rot(rng)]
    if r < 0.85:
        return [tol, rand_rot(rng) + rng.normal(size=(3, 3)) * log_uniform(rng, 1e-11, 1e-3) * rng.choice([1.0, tol / 100])]
    return [tol, rand_rot(rng) @ np.diag([1.0, 1.0, -1.0])]


def ctor_accepts(tol, Rm):
    """the validity test the SE3 constructor applies, on the rotation block (the tolerance argument is the
    model's; the implementation uses its own, which is what the correspondence checks)"""
    T = np.eye(4)
    T[:3, :3] = Rm
    return bool(SE3.isvalid(T, check=True))


def base_skew(w):
    return np.array([[0, -w[2], w[1]], [w[2], 0, -w[0]], [-w[1], w[0], 0]], float)


def add_models(g):
    g.model('m_isR', [('tol', 'S'), ('R', 'M33')], 'B', coq='SM.Model.C13_valid.isR_model', module='Model.C13_valid',
            num_fn=ctor_accepts, sampler=s_isR)


# ------------------------------------------------------------------------------------------------ oracle
def blkdiag(A, B):
    Z = np.zeros((3, 3))
    return np.block([[A, Z], [Z, B]])


def ref_Ad(T):
    R, t = T[:3, :3], T[:3, 3]
    return np.block([[R, base_skew(t) @ R], [np.zeros((3, 3)), R]])


def ref_hat(s):
    M = np.zeros((4, 4))
    M[:3, :3] = base_skew(s[3:])
    M[:3, 3] = s[:3]
    return M


def ref_ad(s):
    return np.block([[base_skew(s[3:]), base_skew(s[:3])], [np.zeros((3, 3)), base_skew(s[3:])]])


def ref_inv(T):
    Ti = np.eye(4)
    Ti[:3, :3] = T[:3, :3].T
    Ti[:3, 3] = -T[:3, :3].T @ T[:3, 3]
    return Ti


def ref_trnorm(T):
    """independent reference for trnorm: columns n = o x a, a x n, a normalised; translation kept"""
    o, a = T[:3, 1], T[:3, 2]
    n = np.cross(o, a)
    o2 = np.cross(a, n)
    Rn = np.stack((n / np.linalg.norm(n), o2 / np.linalg.norm(o2), a / np.linalg.norm(a)), axis=1)
    out = np.eye(4)
    out[:3, :3] = Rn
    out[:3, 3] = T[:3, 3]
    return out


def ref_tr2delta(T):
    Rm = T[:3, :3]
    return np.r_[T[:3, 3], (Rm[2, 1] - Rm[1, 2]) / 2, (Rm[0, 2] - Rm[2, 0]) / 2, (Rm[1, 0] - Rm[0, 1]) / 2]


def mp_expm(M, dps=50):
    import mpmath
    with mpmath.workdps(dps):
        E = mpmath.expm(mpmath.matrix(M.tolist()), method='taylor')
        return np.array([[float(E[i, j]) for j in range(E.cols)] for i in range(E.rows)])


def oracle(ctx):
    """measure every identity on the implementation (search for a failing input; tolerance of the property)"""
    rng = ctx.rng
    N = ctx.n(1000, 40000)
    NMP = ctx.n(100, 3000)

    def section_failed(name, ex, i):
        import traceback
        where = traceback.extract_tb(ex.__traceback__)[-1]
        ctx.fail(f'oracle:section-{name}:raises:{exc_kind(ex)}',
                 f"the {name} measurements could not be evaluated: {type(ex).__name__}: {ex} (at {where.filename}:{where.lineno} {where.name})",
                 {'section': name, 'iteration': i, 'seed': ctx.seed})

    def chk(key, lhs, rhs, scale, inputs, tol=1e-9):
        try:
            lhs = lhs() if callable(lhs) else lhs
            rhs = rhs() if callable(rhs) else rhs
        except Exception as ex:  # noqa
            ctx.count(f'oracle:{key}:raises')
            ctx.fail(f'oracle:{key}:raises:{exc_kind(ex)}', f"evaluating {key} raises {type(ex).__name__}: {ex}",
                     {'identity': key, 'inputs_hex': hexl(inputs)})
            return
        try:
            lhs, rhs = np.asarray(lhs, float), np.asarray(rhs, float)
        except Exception as ex:  # noqa
            ctx.fail(f'oracle:{key}:bad-value', f"{key}: result is not a numeric array ({type(ex).__name__})", {'inputs_hex': hexl(inputs)})
            return
        ctx.case((key, tuple(np.asarray(inputs, float).flatten()[:12])))
        ctx.count('oracle:' + key)
        if lhs.shape != rhs.shape:
            ctx.fail(f'oracle:{key}:shape', f"{key}: shape {lhs.shape} instead of {rhs.shape}", {'inputs_hex': hexl(inputs)})
            return
        err = float(np.max(np.abs(lhs - rhs))) if lhs.size else 0.0
        w = err / scale if np.isfinite(err) and scale > 0 else float('inf')
        ctx.stats['worst:' + key] = max(ctx.stats.get('worst:' + key, 0.0), w)
        if not err <= tol * scale:
            ctx.fail('oracle:' + key, f"identity {key} fails on the implementation: |lhs-rhs|={err:g} scale={scale:g} tol={tol:g}",
                     {'identity': key, 'inputs_hex': hexl(inputs), 'lhs': lhs.tolist(), 'rhs': rhs.tolist()})

    def guard(key, fn, inputs):
        """call an entry point; an exception is a finding keyed by entry point and exception kind"""
        try:
            return fn()
        except Exception as ex:  # noqa
            ctx.count(f'oracle:{key}:raises')
            ctx.fail(f'oracle:{key}:raises:{exc_kind(ex)}', f"{key} raises {type(ex).__name__}: {ex}",
                     {'call': key, 'inputs_hex': hexl(inputs)})
            return None

    TRUE_SPELLINGS = [True, np.bool_(True), np.True_, 1, np.int64(1), 1.0, 'yes']
    FALSE_SPELLINGS = [False, np.bool_(False), 0, np.int64(0), 0.0, None, '']

    def pure(key, fn, *args):
        """call fn(*args) twice: every array argument must be byte-identical afterwards and the second call must
        return the same value (no in-place write on the caller's data, no hidden state); returns the first value"""
        before = [np.array(a_, copy=True) if isinstance(a_, np.ndarray) else a_ for a_ in args]
        try:
            r1 = fn(*args)
            mutated = [k_ for k_, (b_, a_) in enumerate(zip(before, args))
                       if isinstance(a_, np.ndarray) and not (b_.shape == a_.shape and b_.tobytes() == a_.tobytes())]
            r2 = fn(*args)
        except Exception as ex:  # noqa
            ctx.fail(f'oracle:{key}:raises:{exc_kind(ex)}', f"{key} raises {type(ex).__name__}: {ex}", {'call': key, 'inputs_hex': [hexl(b_) for b_ in before if isinstance(b_, np.ndarray)]})
            return None
        ctx.case(('pure', key, tuple(np.asarray(before[0], float).flatten()[:12])))
        ctx.count('oracle:pure:' + key)
        if mutated:
            ctx.fail(f'oracle:{key}:argument-modified', f"{key} modifies its argument #{mutated[0]} in place: "
                     f"before {np.asarray(before[mutated[0]]).tolist()} after {np.asarray(args[mutated[0]]).tolist()}",
                     {'call': key, 'inputs_hex': [hexl(b_) for b_ in before if isinstance(b_, np.ndarray)]})
            for b_, a_ in zip(before, args):        # restore, so that later measurements see the intended input
                if isinstance(a_, np.ndarray):
                    a_[...] = b_
        a1, a2 = np.asarray(r1, float), np.asarray(r2, float)
        if not (a1.shape == a2.shape and np.array_equal(a1, a2, equal_nan=True)):
            ctx.fail(f'oracle:{key}:not-repeatable', f"{key}: a second identical call returns a different value",
                     {'call': key, 'inputs_hex': [hexl(b_) for b_ in before if isinstance(b_, np.ndarray)], 'first': a1.tolist(), 'second': a2.tolist()})
        return r1

    def spellings(key, call, truthy_ref, falsy_ref, inputs, scale=1.0, tol=1e-9):
        """an option that is documented as a flag must behave the same for every truthy / falsy spelling"""
        for k_, sp in enumerate(TRUE_SPELLINGS):
            chk(f'{key}:truthy-spelling', lambda: (call(sp)), truthy_ref, scale, np.r_[k_, np.asarray(inputs, float).flatten()], tol=tol)
        for k_, sp in enumerate(FALSE_SPELLINGS):
            chk(f'{key}:falsy-spelling', lambda: (call(sp)), falsy_ref, scale, np.r_[k_, np.asarray(inputs, float).flatten()], tol=tol)

    for i in range(N):
        # ---------------- vectors of length 1, 3, 6 at magnitudes 1e-6 .. 1e6
        try:
            m = log_uniform(rng, 1e-6, 1e6)
            a = float(rng.normal() * m)
            u, v = rng.normal(size=3) * m, rng.normal(size=3) * log_uniform(rng, 1e-6, 1e6)
            s6 = np.r_[rng.normal(size=3) * log_uniform(rng, 1e-6, 1e6), rng.normal(size=3) * m]
            nu, nv = np.linalg.norm(u), np.linalg.norm(v)
            chk('vex-skew-so3', lambda: (base.vex(base.skew(u))), lambda: (u), nu, u)
            chk('vex-skew-so2', lambda: (base.vex(base.skew(a))), lambda: ([a]), abs(a), [a])
            chk('vexa-skewa-se3', lambda: (base.vexa(base.skewa(s6))), lambda: (s6), np.linalg.norm(s6), s6)
            chk('vexa-skewa-se2', lambda: (base.vexa(base.skewa(u))), lambda: (u), nu, u)
            chk('skew-vex-so3', lambda: (base.skew(base.vex(base_skew(u)))), lambda: (base_skew(u)), nu, u)
            chk('skewa-vexa-se3', lambda: (base.skewa(base.vexa(ref_hat(s6)))), lambda: (ref_hat(s6)), np.linalg.norm(s6), s6)
            chk('skew-so3-shape', lambda: (base.skew(u)), lambda: (base_skew(u)), nu, u)
            chk('skewa-se3-shape', lambda: (base.skewa(s6)), lambda: (ref_hat(s6)), np.linalg.norm(s6), s6)
            chk('skewa-se2-shape', lambda: (base.skewa(u)), lambda: (np.array([[0, -u[2], u[0]], [u[2], 0, u[1]], [0, 0, 0]])), nu, u)
            chk('skew-so2-shape', lambda: (base.skew(a)), lambda: (np.array([[0, -a], [a, 0]])), abs(a), [a])
            chk('skew-cross', lambda: (base.skew(u) @ v), lambda: (np.cross(u, v)), nu * nv, np.r_[u, v])
            chk('cross', lambda: (base.cross(u, v)), lambda: (np.cross(u, v)), nu * nv, np.r_[u, v])
            k1, k2 = rng.normal(size=2)
            chk('skew-linear', lambda: (base.skew(k1 * u + k2 * v)), lambda: (k1 * base.skew(u) + k2 * base.skew(v)), abs(k1) * nu + abs(k2) * nv, np.r_[k1, k2, u, v])
            r6 = rng.normal(size=6) * m
            chk('skewa-linear', lambda: (base.skewa(k1 * s6 + k2 * r6)), lambda: (k1 * base.skewa(s6) + k2 * base.skewa(r6)),
                abs(k1) * np.linalg.norm(s6) + abs(k2) * np.linalg.norm(r6), np.r_[k1, k2, s6, r6])
            A, B = rng.normal(size=(3, 3)) * m, rng.normal(size=(3, 3)) * m
            chk('vex-linear', lambda: (base.vex(k1 * A + k2 * B)), lambda: (k1 * base.vex(A) + k2 * base.vex(B)), (abs(k1) + abs(k2)) * m * 3, np.r_[k1, k2, A.flatten()])
            chk('norm', lambda: (base.norm(u)), lambda: (math.sqrt(math.fsum(x * x for x in u))), nu, u)
            chk('norm6', lambda: (base.norm(s6)), lambda: (math.sqrt(math.fsum(x * x for x in s6))), np.linalg.norm(s6), s6)
            chk('norm1', lambda: (base.norm([a])), lambda: (abs(a)), abs(a), [a])
            chk('normsq', lambda: (base.normsq(u)), lambda: (math.fsum(x * x for x in u)), nu * nu, u)
            if i % 10 == 0:
                # argument forms (27fbc71, 961176d: norm / normsq / cross go through getvector): list, tuple, row, column
                forms = [lambda x: list(x), lambda x: tuple(x), lambda x: np.asarray(x).reshape(1, -1), lambda x: np.asarray(x).reshape(-1, 1)]
                for k_, fm in enumerate(forms):
                    chk('norm:argument-form', lambda: (base.norm(fm(u))), lambda: (nu), nu, np.r_[k_, u])
                    chk('normsq:argument-form', lambda: (base.normsq(fm(s6))), lambda: (math.fsum(x * x for x in s6)), float(s6 @ s6), np.r_[k_, s6])
                    chk('cross:argument-form', lambda: (base.cross(fm(u), forms[(k_ + 1) % 4](v))), lambda: (np.cross(u, v)), nu * nv, np.r_[k_, u, v])
                for bad in (s6, u[:2]):
                    ctx.case(('cross-rejects', len(bad), tuple(u)))
                    ctx.count('oracle:cross:rejects-non-3-vector')
                    try:
                        r_ = base.cross(bad, v)
                        ctx.fail('oracle:cross:accepts-non-3-vector', f"cross of a {len(bad)}-vector with a 3-vector returns {np.asarray(r_).tolist()} instead of raising ValueError",
                                 {'u_hex': hexl(bad), 'v_hex': hexl(v)})
                    except ValueError:
                        pass
                    except Exception as ex:  # noqa
                        ctx.fail(f'oracle:cross:non-3-vector:raises:{exc_kind(ex)}', f"cross of a {len(bad)}-vector raises {type(ex).__name__}: {ex}", {'u_hex': hexl(bad)})
            cv = base.colvec(u)
            chk('colvec', lambda: (cv), lambda: (np.asarray(u).reshape(3, 1)), nu, u)

        except Exception as ex:  # noqa
            section_failed('maps', ex, i)
        # ---------------- adjoint over the whole group, translations up to 1e3
        try:
            T1, T2 = rand_se3(rng, 1e-6, 1e3), rand_se3(rng, 1e-6, 1e3)
            t1, t2 = np.linalg.norm(T1[:3, 3]), np.linalg.norm(T2[:3, 3])
            sc1, sc12 = max(1.0, t1), max(1.0, t1 + t2)
            X1, X2 = SE3(T1, check=False), SE3(T2, check=False)
            inp = np.r_[T1.flatten(), T2.flatten()]
            chk('Ad-value', lambda: (base.adjoint(T1)), lambda: (ref_Ad(T1)), sc1, T1)
            chk('Ad-class', lambda: (X1.Ad()), lambda: (ref_Ad(T1)), sc1, T1)
            chk('Ad-hom', lambda: ((X1 * X2).Ad()), lambda: (X1.Ad() @ X2.Ad()), sc12 * max(1.0, t2), inp)
            chk('Ad-hom-base', lambda: (base.adjoint(T1 @ T2)), lambda: (base.adjoint(T1) @ base.adjoint(T2)), sc12 * max(1.0, t2), inp)
            chk('Ad-inv', lambda: (X1.inv().Ad() @ X1.Ad()), lambda: (np.eye(6)), sc1, T1)
            chk('Ad-inv-r', lambda: (base.adjoint(T1) @ base.adjoint(base.trinv(T1))), lambda: (np.eye(6)), sc1, T1)
            chk('Ad-inv-linalg', lambda: (base.adjoint(base.trinv(T1))), lambda: (np.linalg.inv(ref_Ad(T1))), sc1, T1, tol=1e-9 * sc1)
            S = np.r_[rng.normal(size=3) * log_uniform(rng, 1e-3, 1e3), rng.normal(size=3) * log_uniform(rng, 1e-3, 1e1)]
            nS = np.linalg.norm(S)
            chk('Ad-intertwine', lambda: (base.adjoint(T1) @ S), lambda: (base.vexa(T1 @ base.skewa(S) @ base.trinv(T1))), sc1 * sc1 * nS, np.r_[T1.flatten(), S])
            chk('Ad-intertwine-ref', lambda: (base.adjoint(T1) @ S), lambda: (base.vexa(T1 @ ref_hat(S) @ ref_inv(T1))), sc1 * sc1 * nS, np.r_[T1.flatten(), S])
            chk('tr2jac', lambda: (base.tr2jac(T1)), lambda: (blkdiag(T1[:3, :3].T, T1[:3, :3].T)), 1.0, T1)
            chk('tr2jac-samebody', lambda: (base.tr2jac(T1, samebody=True)), lambda: (ref_Ad(ref_inv(T1))), sc1, T1)
            if i % 10 == 0:
                # option spellings, keyword and positional, against the independent references
                JS, JN = ref_Ad(ref_inv(T1)), blkdiag(T1[:3, :3].T, T1[:3, :3].T)
                spellings('tr2jac(samebody=)', lambda sp: base.tr2jac(T1, samebody=sp), lambda: (JS), lambda: (JN), T1, sc1)
                spellings('tr2jac(positional)', lambda sp: base.tr2jac(T1, sp), lambda: (JS), lambda: (JN), T1, sc1)
                Sk, Sa = base_skew(S[3:]), ref_hat(S)
                spellings('vex(check=)', lambda sp: base.vex(Sk, check=sp), lambda: (S[3:]), lambda: (S[3:]), S, nS)
                spellings('vex(positional)', lambda sp: base.vex(Sk, sp), lambda: (S[3:]), lambda: (S[3:]), S, nS)
                spellings('vexa(check=)', lambda sp: base.vexa(Sa, check=sp), lambda: (S), lambda: (S), S, nS)
                spellings('vexa(positional)', lambda sp: base.vexa(Sa, sp), lambda: (S), lambda: (S), S, nS)
                NS3 = Sk + np.diag([nS, 0.0, 0.0]) + 1e-3 * nS          # not skew: a truthy check must reject it
                for k_, sp in enumerate(TRUE_SPELLINGS):
                    ctx.case(('vex-check-rejects', k_, tuple(S)))
                    ctx.count('oracle:vex(check):rejects-non-skew')
                    try:
                        base.vex(NS3, check=sp)
                        ctx.fail('oracle:vex(check=):truthy-spelling-not-checked', f"vex(S, check={sp!r}) accepts a matrix that is not skew-symmetric",
                                 {'S_hex': hexl(NS3), 'spelling': repr(sp)})
                    except ValueError:
                        pass
                for k_, sp in enumerate(FALSE_SPELLINGS):
                    chk('vex(check=):falsy-spelling-non-skew', lambda: (base.vex(NS3, check=sp)),
                        lambda: (np.r_[NS3[2, 1] - NS3[1, 2], NS3[0, 2] - NS3[2, 0], NS3[1, 0] - NS3[0, 1]] / 2), nS, np.r_[k_, S])
            # every argument unchanged after the call, second identical call gives the same value
            pure('skew', base.skew, S[3:].copy()); pure('skewa', base.skewa, S.copy())
            pure('vex', base.vex, base_skew(S[3:])); pure('vexa', base.vexa, ref_hat(S))
            pure('cross', base.cross, S[:3].copy(), S[3:].copy()); pure('norm', base.norm, S.copy()); pure('normsq', base.normsq, S.copy())
            pure('adjoint', base.adjoint, T1.copy()); pure('adjoint(3x3)', base.adjoint, T1[:3, :3].copy())
            pure('tr2jac', base.tr2jac, T1.copy()); pure('tr2jac(samebody)', lambda T: base.tr2jac(T, samebody=True), T1.copy())
            pure('trinv', base.trinv, T1.copy()); pure('tr2delta', base.tr2delta, T1.copy()); pure('tr2delta(2)', base.tr2delta, T1.copy(), T2.copy())
            pure('delta2tr', base.delta2tr, S.copy())
            Xa, Xb = SE3(T1.copy(), check=False), SE3(T2.copy(), check=False)
            pure('SE3.Ad', lambda A_, B_: Xa.Ad(), Xa.A, Xb.A); pure('SE3.jacob', lambda A_, B_: Xa.jacob(), Xa.A, Xb.A)
            pure('SE3.delta', lambda A_, B_: Xa.delta(Xb), Xa.A, Xb.A)
            tw = Twist3(S.copy())
            pure('Twist3.ad', lambda v_: tw.ad(), tw.S); pure('Twist3.se3', lambda v_: tw.se3(), tw.S)
            chk('ad-value', lambda: (Twist3(S).ad()), lambda: (ref_ad(S)), nS, S)
            chk('ad-bracket', lambda: (Twist3(S).ad() @ r6), lambda: (base.vexa(ref_hat(S) @ ref_hat(r6) - ref_hat(r6) @ ref_hat(S))),
                nS * np.linalg.norm(r6), np.r_[S, r6])

        except Exception as ex:  # noqa
            section_failed('adjoint', ex, i)
        # ---------------- differential motion, |d| in 1e-9 .. 1e-2
        try:
            dm = log_uniform(rng, 1e-9, 1e-2)
            d = rand_unit(rng, 6) * dm
            if i % 5 == 0:
                d[:3] = 0
            if i % 7 == 0:
                d[3:] = 0
            D = base.delta2tr(d)
            chk('delta2tr', lambda: (D), lambda: (np.eye(4) + ref_hat(d)), dm, d)
            chk('tr2delta-delta2tr', lambda: (base.tr2delta(D)), lambda: (d), dm, d)
            T1d = T1 @ D
            chk('tr2delta-two-arg', lambda: (base.tr2delta(T1, T1d)), lambda: (base.tr2delta(ref_inv(T1) @ T1d)), sc1, np.r_[T1.flatten(), d])
            chk('tr2delta-two-arg-trinv', lambda: (base.tr2delta(T1, T2)), lambda: (base.tr2delta(base.trinv(T1) @ T2)), sc12, inp)
            chk('SE3.delta', lambda: (X1.delta(X2)), lambda: (base.tr2delta(ref_inv(T1) @ T2)), sc12, inp)
            chk('delta-recovers', lambda: (X1.delta(SE3(T1d, check=False))), lambda: (d), sc1, np.r_[T1.flatten(), d])
            # first-order agreement with the logarithm: T = exp([d]) (independent scipy expm), log T = d
            E = scipy.linalg.expm(ref_hat(d))
            ctx.case(('first-order', tuple(d)))
            ctx.count('oracle:first-order-log')
            # ... and against the library's own logarithm (trlog is accurate at every angle since 84bd1d7)
            Ec = E.copy()
            lg = pure('trlog(twist=True)', lambda M: base.trlog(M, check=False, twist=True), Ec)
            if lg is not None:
                chk('first-order-vs-trlog', lambda: (base.tr2delta(E)), lambda: (lg), max(dm * dm, 1e-300), d, tol=1.0 + 1e-9 / max(dm, 1e-300))
                chk('trlog-of-exp', lambda: (lg), lambda: (d), dm, d)
                if i % 10 == 0:
                    spellings('trlog(twist=)', lambda sp: np.asarray(base.trlog(E, check=False, twist=sp), float).flatten(),
                              lambda: (np.asarray(lg, float).flatten()), lambda: (ref_hat(np.asarray(lg, float)).flatten()), d, dm)
            err = float(np.linalg.norm(base.tr2delta(E) - d))
            ctx.stats['worst:first-order-log/|d|^2'] = max(ctx.stats.get('worst:first-order-log/|d|^2', 0.0), err / dm ** 2)
            if not err <= 1.0 * dm ** 2 + 1e-9 * dm:
                ctx.fail('oracle:first-order-log', f"tr2delta(exp(d)) differs from d = log(exp(d)) by {err:g} > |d|^2 = {dm**2:g}",
                         {'d_hex': hexl(d), 'err': err})
            # SE3.Delta(d) = SE3(trnorm(delta2tr(d))) since 03e6d35: accepted for every d, value = independent
            # Gram-Schmidt reference, in SE(3), translation kept, tr2delta(Delta(d)) - d second order (theorem: 2|w|^2)
            wn2 = float(d[3:] @ d[3:])
            XD = guard('SE3.Delta()', lambda: SE3.Delta(d), d)          # (new key: the old one is a fixed entry)
            if XD is not None:
                ctx.count('oracle:SE3.Delta:accepted')
                AD = XD.A
                chk('SE3.Delta()-value', lambda: (AD), lambda: (ref_trnorm(np.eye(4) + ref_hat(d))), 1.0, d, tol=1e-12)
                chk('SE3.Delta()-orthonormal', lambda: (AD[:3, :3] @ AD[:3, :3].T), lambda: (np.eye(3)), 1.0, d, tol=1e-14)
                chk('SE3.Delta()-det', lambda: (np.linalg.det(AD[:3, :3])), lambda: (1.0), 1.0, d, tol=1e-14)
                chk('SE3.Delta()-translation', lambda: (AD[:3, 3]), lambda: (d[:3]), 1.0, d, tol=0.0)
                rt = np.asarray(base.tr2delta(AD), float) - d
                ctx.case(('Delta-roundtrip', tuple(d)))
                ctx.count('oracle:SE3.Delta()-roundtrip')
                e_rot = float(np.max(np.abs(rt[3:])))
                if wn2 > 0:
                    ctx.stats['worst:SE3.Delta()-roundtrip/|w|^2'] = max(ctx.stats.get('worst:SE3.Delta()-roundtrip/|w|^2', 0.0), e_rot / wn2)
                ctx.stats['worst:SE3.Delta()-roundtrip-abs'] = max(ctx.stats.get('worst:SE3.Delta()-roundtrip-abs', 0.0), e_rot)
                if e_rot > 1e-9:
                    ctx.count('info:SE3.Delta()-roundtrip-above-1e-9')
                if not (e_rot <= 2.0 * wn2 + 4e-16 and float(np.max(np.abs(rt[:3]))) == 0.0):
                    ctx.fail('oracle:SE3.Delta()-roundtrip', f"tr2delta(SE3.Delta(d)) - d = {rt.tolist()} exceeds the proved bound 2|w|^2 = {2*wn2:g} (or the translation changed)",
                             {'d_hex': hexl(d), 'diff': rt.tolist()})
                # ... and Delta(d) agrees with exp([d]) to second order as well
                chk('SE3.Delta()-vs-exp', lambda: (AD), lambda: (E), max(dm * dm, 1e-300), d, tol=2.0 + 1e-15 / max(dm * dm, 1e-300))
        except Exception as ex:  # noqa
            section_failed('delta', ex, i)
        # ---------------- exp(ad S) = Ad(exp S)  (1e-7; reference exponentials: scipy Pade, mpmath 50 digits for a subset)
        try:
            th = log_uniform(rng, 1e-6, math.pi) if i % 2 else rng.uniform(0.1, math.pi)
            Sx = np.r_[rng.normal(size=3) * log_uniform(rng, 1e-3, 1e2), rand_unit(rng) * th]
            if i < NMP:
                eS, eadS = mp_expm(ref_hat(Sx)), mp_expm(ref_ad(Sx))
                ctx.count('oracle:mpmath-references')
            else:
                eS, eadS = scipy.linalg.expm(ref_hat(Sx)), scipy.linalg.expm(ref_ad(Sx))
            sct = max(1.0, float(np.linalg.norm(eS[:3, 3])))
            chk('exp-ad=Ad-exp:reference', lambda: (ref_Ad(eS)), lambda: (eadS), sct, Sx, tol=1e-7)          # sanity of the references themselves
            r = guard('Twist3.Ad', lambda: Twist3(Sx).Ad(), Sx)
            if r is not None:
                chk('exp-ad=Ad-exp:Twist3.Ad', lambda: (r), lambda: (eadS), sct, Sx, tol=1e-7)
            r = guard('SE3.Exp.Ad', lambda: SE3.Exp(Sx).Ad(), Sx)
            if r is not None:
                chk('exp-ad=Ad-exp:SE3.Exp', lambda: (r), lambda: (eadS), sct, Sx, tol=1e-7)
            r = guard('expm(Twist3.ad)', lambda: scipy.linalg.expm(Twist3(Sx).ad()), Sx)
            if r is not None:
                chk('exp-ad=Ad-exp:adjoint(trexp)', lambda: (base.adjoint(base.trexp(Sx))), lambda: (r), sct, Sx, tol=1e-7)

        except Exception as ex:  # noqa
            section_failed('exp-ad', ex, i)
    # ---------------- class-level entry points per twist / pose KIND, single- and multi-valued, against the
    #                  stateless base-level references (the statements of C13_kinds.v / C13_log.v / C13_adjoint.v)
    def twist_of_kind(kind):
        v = rng.normal(size=3) * log_uniform(rng, 1e-3, 1e2)
        w = rand_unit(rng) * rng.uniform(1e-3, math.pi - 1e-3)
        if kind == 'zero':
            return np.zeros(6)
        if kind == 'prismatic':
            return np.r_[v, 0, 0, 0]
        if kind == 'prismatic-unit':
            return np.r_[rand_unit(rng), 0, 0, 0]
        if kind == 'revolute':                      # unit rotation axis through a point, zero pitch
            a = rand_unit(rng)
            return np.r_[-np.cross(a, v), a]
        if kind == 'revolute-origin':
            return np.r_[0, 0, 0, w]
        return np.r_[v, w]                          # general screw

    def ref_exp(S):
        """independent exponential of [S]: closed form for w = 0, scipy otherwise"""
        if not np.any(S[3:]):
            E_ = np.eye(4)
            E_[:3, 3] = S[:3]
            return E_
        return scipy.linalg.expm(ref_hat(S))

    def pose_of_kind(kind):
        T = np.eye(4)
        if kind in ('rotation', 'general'):
            T[:3, :3] = rand_rot(rng)
        if kind in ('translation', 'general'):
            T[:3, 3] = rand_trans(rng, 1e-3, 1e3) + (1e-3 if kind == 'translation' else 0)
        return T

    TW_KINDS = ['zero', 'prismatic', 'prismatic-unit', 'revolute', 'revolute-origin', 'general']
    POSE_KINDS = ['identity', 'rotation', 'translation', 'general']

    def per_element(key, got, refs, scale, inp, tol=1e-9):
        """a multi-valued receiver: the method may refuse (raise) but must never return anything other than the
        per-element values"""
        try:
            got = got()
        except Exception as ex:  # noqa
            ctx.count(f'info:multi-valued:{key}:raises:{exc_kind(ex)}')
            return
        seq = list(got) if isinstance(got, (list, tuple)) or (isinstance(got, np.ndarray) and got.ndim == 3) else None
        if seq is None or len(seq) != len(refs):
            ctx.fail(f'oracle:multi-valued:{key}:shape', f"{key} of a {len(refs)}-valued object returns {type(got).__name__} of shape {np.shape(got)}",
                     {'inputs_hex': hexl(inp)})
            return
        for g_, r_ in zip(seq, refs):
            chk(f'multi-valued:{key}', lambda: (g_), lambda: (r_), scale, inp, tol=tol)

    for k in range(ctx.n(40, 1200)):
        for kind in TW_KINDS:
            S = twist_of_kind(kind)
            nS = max(np.linalg.norm(S), 1e-300)
            eS = ref_exp(S)
            AdS = ref_Ad(eS)
            sct = max(1.0, float(np.linalg.norm(eS[:3, 3])), float(np.linalg.norm(S[:3])))
            inp = np.r_[TW_KINDS.index(kind), S]
            tw = Twist3(S.copy())
            K = 'kind=' + kind
            chk(f'Twist3.Ad:{K}', lambda: (tw.Ad()), lambda: (AdS), sct, inp, tol=1e-7)
            chk(f'Twist3.ad:{K}', lambda: (tw.ad()), lambda: (ref_ad(S)), nS, inp)
            chk(f'Twist3.se3:{K}', lambda: (tw.se3()), lambda: (ref_hat(S)), nS, inp)
            chk(f'skewa:{K}', lambda: (base.skewa(S)), lambda: (ref_hat(S)), nS, inp)
            chk(f'Twist3.SE3:{K}', lambda: (tw.SE3().A), lambda: (eS), sct, inp, tol=1e-7)
            chk(f'Twist3.exp:{K}', lambda: (tw.exp().A), lambda: (eS), sct, inp, tol=1e-7)
            chk(f'SE3.Exp.Ad:{K}', lambda: (SE3.Exp(S).Ad()), lambda: (AdS), sct, inp, tol=1e-7)
            chk(f'adjoint(trexp):{K}', lambda: (base.adjoint(base.trexp(S))), lambda: (AdS), sct, inp, tol=1e-7)
            # exp(ad S) by its series for the nilpotent kinds, by expm otherwise
            eadS = np.eye(6) + ref_ad(S) if not np.any(S[3:]) else scipy.linalg.expm(ref_ad(S))
            chk(f'exp-ad=Ad-exp:{K}', lambda: (tw.Ad()), lambda: (eadS), sct, inp, tol=1e-7)
            chk(f'Ad-exp-fixes-S:{K}', lambda: (tw.Ad() @ S), lambda: (S), sct * nS, inp, tol=1e-7)
            chk(f'Ad-exp-commutes-ad:{K}', lambda: (tw.Ad() @ tw.ad()), lambda: (tw.ad() @ tw.Ad()), sct * sct * nS, inp, tol=1e-7)
        for kind in POSE_KINDS:
            T, T2k = pose_of_kind(kind), pose_of_kind('general')
            sc = max(1.0, float(np.linalg.norm(T[:3, 3])))
            sc2 = max(1.0, float(np.linalg.norm(T[:3, 3]) + np.linalg.norm(T2k[:3, 3])))
            inp = np.r_[POSE_KINDS.index(kind), T.flatten()]
            X, Y = SE3(T.copy(), check=False), SE3(T2k.copy(), check=False)
            K = 'kind=' + kind
            chk(f'SE3.Ad:{K}', lambda: (X.Ad()), lambda: (ref_Ad(T)), sc, inp)
            chk(f'SE3.jacob:{K}', lambda: (X.jacob()), lambda: (blkdiag(T[:3, :3].T, T[:3, :3].T)), 1.0, inp)
            chk(f'SE3.inv.Ad:{K}', lambda: (X.inv().Ad()), lambda: (ref_Ad(ref_inv(T))), sc, inp)
            chk(f'SE3.delta:{K}', lambda: (X.delta(Y)), lambda: (ref_tr2delta(ref_inv(T) @ T2k)), sc2, np.r_[inp, T2k.flatten()])
            chk(f'SE3.delta-self:{K}', lambda: (X.delta(X)), lambda: (np.zeros(6)), sc, inp)
            chk(f'SE3.Ad-hom:{K}', lambda: ((X * Y).Ad()), lambda: (ref_Ad(T) @ ref_Ad(T2k)), sc2 * sc2, np.r_[inp, T2k.flatten()])
        for kind in ['zero', 'translation-only', 'rotation-only', 'general']:
            d = rand_unit(rng, 6) * log_uniform(rng, 1e-9, 1e-2)
            if kind == 'zero':
                d = np.zeros(6)
            elif kind == 'translation-only':
                d[3:] = 0
            elif kind == 'rotation-only':
                d[:3] = 0
            inp = d
            chk(f'SE3.Delta:kind={kind}', lambda: (SE3.Delta(d).A), lambda: (ref_trnorm(np.eye(4) + ref_hat(d))), 1.0, inp, tol=1e-12)
            chk(f'delta2tr:kind={kind}', lambda: (base.delta2tr(d)), lambda: (np.eye(4) + ref_hat(d)), 1.0, inp, tol=0.0)
        # multi-valued receivers (a mixture of kinds)
        Ss = [twist_of_kind(kd) for kd in TW_KINDS]
        twm = Twist3([x.copy() for x in Ss])
        allS = np.concatenate(Ss)
        per_element('Twist3.se3', lambda: twm.se3(), [ref_hat(x) for x in Ss], 1e2, allS)
        per_element('Twist3.ad', lambda: twm.ad(), [ref_ad(x) for x in Ss], 1e2, allS)
        per_element('Twist3.Ad', lambda: twm.Ad(), [ref_Ad(ref_exp(x)) for x in Ss], 1e2, allS, tol=1e-7)
        per_element('Twist3.SE3', lambda: [x.A for x in twm.SE3()], [ref_exp(x) for x in Ss], 1e2, allS, tol=1e-7)
        per_element('Twist3.exp', lambda: [x.A for x in twm.exp()], [ref_exp(x) for x in Ss], 1e2, allS, tol=1e-7)
        Ts = [pose_of_kind(kd) for kd in POSE_KINDS]
        Xm = SE3([x.copy() for x in Ts], check=False)
        allT = np.concatenate([x.flatten() for x in Ts])
        per_element('SE3.Ad', lambda: Xm.Ad(), [ref_Ad(x) for x in Ts], 1e3, allT)
        per_element('SE3.jacob', lambda: Xm.jacob(), [blkdiag(x[:3, :3].T, x[:3, :3].T) for x in Ts], 1.0, allT)
        per_element('SE3.delta', lambda: Xm.delta(Xm), [np.zeros(6) for x in Ts], 1e3, allT)
        per_element('SE3.inv', lambda: [x.A for x in Xm.inv()], [ref_inv(x) for x in Ts], 1e3, allT)

    # ---------------- history and aliasing: call, scribble on the returned array, call again; change the receiver through
    #                  the list interface / in place, call again -- always compared with the stateless reference on the
    #                  receiver's CURRENT value
    def history(key, make, call, ref, values):
        """make(value) -> object; call(obj) -> array; ref(value) -> array.  values: two distinct values"""
        va, vb = values
        inp = np.r_[np.asarray(va, float).flatten(), np.asarray(vb, float).flatten()]
        try:
            obj = make(va.copy())
            r1 = np.asarray(call(obj), float)
            keep = r1.copy()
            try:
                np.asarray(call(obj))[...] = 12345.0          # the caller scribbles on what it got back
            except (ValueError, TypeError):
                pass
            chk(f'{key}:after-writing-into-the-result', lambda: (call(obj)), lambda: (ref(va)), max(1.0, np.max(np.abs(keep))), inp, tol=1e-7)
            chk(f'{key}:receiver-after-writing-into-the-result', lambda: (value_of(obj)), lambda: (va), 1.0, inp, tol=0.0)
            obj[0] = make(vb.copy())                           # replace the element through the list interface
            chk(f'{key}:after-setitem', lambda: (call(obj)), lambda: (ref(vb)), max(1.0, np.max(np.abs(ref(vb)))), inp, tol=1e-7)
            obj2 = make(va.copy())
            call(obj2)
            value_of(obj2)[...] = vb                           # edit the stored value in place (.A / .S is the stored array)
            chk(f'{key}:after-in-place-edit', lambda: (call(obj2)), lambda: (ref(vb)), max(1.0, np.max(np.abs(ref(vb)))), inp, tol=1e-7)
            obj3 = make(va.copy())
            call(obj3)
            obj3.append(make(vb.copy()))
            obj3.pop(0)                                        # now single-valued again, holding vb
            chk(f'{key}:after-append-pop', lambda: (call(obj3)), lambda: (ref(vb)), max(1.0, np.max(np.abs(ref(vb)))), inp, tol=1e-7)
            obj4 = make(va.copy())
            c1 = call(obj4)
            c2 = call(obj4)
            ctx.case(('alias', key, tuple(inp[:12])))
            ctx.count(f'oracle:{key}:fresh-result')
            if isinstance(c1, np.ndarray) and isinstance(c2, np.ndarray) and np.shares_memory(c1, c2):
                ctx.fail(f'oracle:{key}:result-aliased', f"{key}: two calls return arrays that share memory (writing into one result changes the other)",
                         {'inputs_hex': hexl(inp)})
        except Exception as ex:  # noqa
            ctx.fail(f'oracle:{key}:history:raises:{exc_kind(ex)}', f"{key} history check raises {type(ex).__name__}: {ex}", {'inputs_hex': hexl(inp)})

    def value_of(obj):
        return obj.A if isinstance(obj, SE3) else obj.S

    mkX = lambda T: SE3(T, check=False)
    for k in range(ctx.n(10, 200)):
        Ta, Tb = rand_se3(rng, 1e-3, 1e2), rand_se3(rng, 1e-3, 1e2)
        Tc = rand_se3(rng, 1e-3, 1e2)
        history('SE3.Ad', mkX, lambda X: X.Ad(), ref_Ad, (Ta, Tb))
        history('SE3.jacob', mkX, lambda X: X.jacob(), lambda T: blkdiag(T[:3, :3].T, T[:3, :3].T), (Ta, Tb))
        history('SE3.inv', mkX, lambda X: X.inv().A, ref_inv, (Ta, Tb))
        history('SE3.delta', mkX, lambda X: X.delta(SE3(Tc, check=False)), lambda T: ref_tr2delta(ref_inv(T) @ Tc), (Ta, Tb))
        Sa, Sb = twist_of_kind('general'), twist_of_kind('prismatic' if k % 2 else 'revolute')
        history('Twist3.ad', lambda S: Twist3(S), lambda t_: t_.ad(), ref_ad, (Sa, Sb))
        history('Twist3.Ad', lambda S: Twist3(S), lambda t_: t_.Ad(), lambda S: ref_Ad(ref_exp(S)), (Sa, Sb))
        history('Twist3.se3', lambda S: Twist3(S), lambda t_: t_.se3(), ref_hat, (Sa, Sb))
        history('Twist3.SE3', lambda S: Twist3(S), lambda t_: t_.SE3().A, ref_exp, (Sa, Sb))

    # ---------------- adjoint of a rotation, SE3.jacob (repaired in /repo: a raise or a wrong value is a violation again)
    for k in range(ctx.n(5, 50)):
        Rm, T = rand_rot(rng), rand_se3(rng, 1e-3, 1e3)
        r = guard('adjoint-of-rotation', lambda: base.adjoint(Rm), Rm)        # (new key: the old one is a fixed entry)
        if r is not None:
            chk('adjoint-of-rotation-value', lambda: (r), lambda: (blkdiag(Rm, Rm)), 1.0, Rm)
        r = guard('SE3.jacob()', lambda: SE3(T, check=False).jacob(), T)
        if r is not None:
            chk('SE3.jacob()-value', lambda: (r), lambda: (blkdiag(T[:3, :3].T, T[:3, :3].T)), 1.0, T)
    try:
        ctx.sample({'kind': 'oracle', 'identity': 'Ad-hom', 'T1': T1.tolist(), 'T2': T2.tolist()})
        ctx.sample({'kind': 'oracle', 'identity': 'exp-ad=Ad-exp', 'S': Sx.tolist()})
    except NameError:
        pass


def run(ctx):
    ctx.rule = ("obligations: theorems of theories/Props/C13_*.v over the traces regenerated from /repo; evaluations: Sym==Num "
                "cases (generated model and hand model isR vs implementation) + oracle evaluations of each identity on the "
                "implementation (vectors 1e-6..1e6, translations up to 1e3, |d| 1e-9..1e-2, twists up to a half turn); "
                "a case is distinct by its (identity, input) signature")
    ctx.trusted_extra = ["hand model theories/Model/C13_valid.v (isR) tied by numeric correspondence m_isR away from the threshold band",
                         "exp(ad S) = Ad(exp S) and first-order agreement with log are measured against scipy/mpmath expm, not proved"]
    ctx.isR_tol = 100
    try:
        with ctx.timed('regenerate'):
            g = build(ctx)
            text = gen_text(ctx, g)
            p = ctx.write_gen(MOD + '.v', text)
        rc, out, err, dt = ctx.coqc(p)
        if rc != 0:
            raise RuntimeError('generated traces do not compile: ' + err[-800:])
    except Exception as ex:  # noqa
        # an entry point no longer runs on symbols (or the text does not compile): no model, so nothing is proved;
        # the oracle still searches for a failing input on the implementation
        import traceback
        ctx.fail('gen:trace', f"the model could not be regenerated from the code: {type(ex).__name__}: {ex}",
                 {'traceback': traceback.format_exc()[-1500:]}, no_input=True)
        with ctx.timed('oracle'):
            oracle(ctx)
        return
    files = ['C13_maps.v', 'C13_adjoint.v', 'C13_delta.v', 'C13_log.v', 'C13_kinds.v', 'C13_ode.v', 'C13_Delta.v']
    if ctx.thorough:
        files.append('C13_extra.v')
    for f in files:
        ctx.prove('theories/Props/' + f)
    with ctx.timed('correspond'):
        add_models(g)
        sym_num(ctx, g, MOD, ctx.n(25, 400))
    with ctx.timed('oracle'):
        oracle(ctx)
