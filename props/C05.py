"""C05 -- angle-set and axis-angle extraction is a right inverse of construction.

Pipeline (docs/C05.md):
  1. T-const : fail-closed AST pass over tr2rpy / tr2eul / tr2xyt -> coq/gen/Consts_C05.v (the `k` of every `k * _eps`
               test, checked against the branch skeleton the hand model was written for)
  2. T-sym   : the constructors rpy2r (3 orders + aliases, rad/deg, scalar/vector form), eul2r, rot2, xyt2tr, angvec2r and
               the class constructors executed on symbols -> coq/gen/Traces_C05.v; the file also instantiates the hand
               models of theories/Model/C05_Angles.v with the regenerated thresholds (m_* definitions)
  3. prove   : theories/Props/C05_a.v (constructors), C05_b.v (extraction) -- fixed statements
  4. T-num   : m_* (extracted, OCaml floats) vs base.tr2rpy / tr2eul / tr2xyt / SO2.theta at and around every singular
               value and exactly at / one ulp around every threshold, all orders, units, flip, SO(3)/SE(3) inputs
  5. oracle  : the property on the implementation: rebuild from extracted angles (1e-6), ranges, deg vs rad, base
               functions and SO3/SE3/UnitQuaternion/SE2/SO2 methods, tr2angvec.
"""
import ast
import math
import os
import warnings
import numpy as np
import sympy
from lib import concolic
from lib.core import REPO
from lib.symtrace import Gen
from lib.corr import sym_num
from lib.gens import log_uniform, rand_unit, rot_from_axis_angle

concolic.install()
from spatialmath import base, SO3, SE3, SO2, SE2, UnitQuaternion  # noqa: E402

warnings.simplefilter('ignore')
MOD = 'Traces_C05'
EPS = float(np.finfo(np.float64).eps)
PI = math.pi
ORDERS = {'zyx': 'vehicle', 'xyz': 'arm', 'yxz': 'camera'}
SING_ENTRY = {'zyx': (2, 0), 'xyz': (0, 2), 'yxz': (1, 2)}
OFFSETS = [0.0] + [s * 10.0 ** -k for k in range(12, 0, -1) for s in (1.0, -1.0)]


# ------------------------------------------------------------------------------------------------------------
# 1. T-const
# ------------------------------------------------------------------------------------------------------------
class TConstError(Exception):
    pass


# if-tests of the modelled functions in source order; names assigned inside the function -> `_`, the literal factor of
# `_eps` -> K.  This is the skeleton theories/Model/C05_Angles.v mirrors.
EXPECTED_SKELETON = {
    'tr2rpy': [
        'if base.ismatrix(T, (4, 4))', 'if not isrot(_, check=check)',
        "if order == 'xyz' or order == 'arm'", 'if abs(abs(_[0, 2]) - 1) < K * _eps', 'if _[0, 2] > 0',
        'if _ == 0', 'if _ == 1', 'if _ == 2', 'if _ == 3',
        "if order == 'zyx' or order == 'vehicle'", 'if abs(abs(_[2, 0]) - 1) < K * _eps', 'if _[2, 0] < 0',
        'if _ == 0', 'if _ == 1', 'if _ == 2', 'if _ == 3',
        "if order == 'yxz' or order == 'camera'", 'if abs(abs(_[1, 2]) - 1) < K * _eps', 'if _[1, 2] < 0',
        'if _ == 0', 'if _ == 1', 'if _ == 2', 'if _ == 3',
        "if unit == 'deg'"],
    'tr2eul': [
        'if base.ismatrix(T, (4, 4))', 'if not isrot(_, check=check)',
        'if abs(_[0, 2]) < K * _eps and abs(_[1, 2]) < K * _eps', 'if flip', "if unit == 'deg'"],
    'tr2xyt': ["if unit == 'deg'"],
}
# order in which the K's appear in the source -> name of the constant
CONST_NAMES = {'tr2rpy': ['c_tr2rpy_xyz', 'c_tr2rpy_zyx', 'c_tr2rpy_yxz'], 'tr2eul': ['c_tr2eul_1', 'c_tr2eul_2'], 'tr2xyt': []}
FILES = {'tr2rpy': 'spatialmath/base/transforms3d.py', 'tr2eul': 'spatialmath/base/transforms3d.py',
         'tr2xyt': 'spatialmath/base/transforms2d.py'}


def _skeleton(fn):
    local = {n.id for n in ast.walk(fn) if isinstance(n, ast.Name) and isinstance(n.ctx, ast.Store)}
    consts = []

    class Ren(ast.NodeTransformer):
        def visit_Name(self, n):
            return ast.copy_location(ast.Name(id='_' if n.id in local else n.id, ctx=n.ctx), n)

        def visit_BinOp(self, n):
            self.generic_visit(n)
            if isinstance(n.op, ast.Mult) and isinstance(n.right, ast.Name) and n.right.id == '_eps':
                if not (isinstance(n.left, ast.Constant) and isinstance(n.left.value, int) and not isinstance(n.left.value, bool)):
                    raise TConstError(f"{fn.name}: threshold factor `{ast.unparse(n.left)}` is not an integer literal")
                consts.append(n.left.value)
                n.left = ast.Name(id='K', ctx=ast.Load())
            return n
    out = []
    for s in ast.walk(fn):
        pass
    # source order: walk statements recursively
    def walk(body):
        for s in body:
            if isinstance(s, ast.If):
                out.append('if ' + ast.unparse(Ren().visit(ast.parse(ast.unparse(s.test), mode='eval').body)))
                walk(s.body)
                walk(s.orelse)
            elif isinstance(s, (ast.For, ast.While, ast.With, ast.Try)):
                raise TConstError(f"{fn.name}: unexpected compound statement {type(s).__name__}")
    walk(fn.body)
    # a threshold written without _eps inside a test (e.g. `< 1e-3`) shows up as a skeleton difference
    return out, consts


def tconst(ctx):
    vals = {}
    for fname, rel in FILES.items():
        src = open(os.path.join(REPO, rel)).read()
        tree = ast.parse(src)
        fns = [n for n in tree.body if isinstance(n, ast.FunctionDef) and n.name == fname]
        if len(fns) != 1:
            raise TConstError(f"{fname}: not found exactly once in {rel}")
        if rel.endswith('transforms3d.py'):
            if not any(isinstance(n, ast.Assign) and ast.unparse(n) == '_eps = np.finfo(np.float64).eps' for n in tree.body):
                raise TConstError("transforms3d._eps is no longer np.finfo(np.float64).eps")
        sk, consts = _skeleton(fns[0])
        if sk != EXPECTED_SKELETON[fname]:
            diff = [(i, a, b) for i, (a, b) in enumerate(zip(sk + ['<end>'] * 40, EXPECTED_SKELETON[fname] + ['<end>'] * 40)) if a != b][:3]
            raise TConstError(f"{fname}: branch skeleton differs from the one the model mirrors (index, source, model): {diff}")
        if len(consts) != len(CONST_NAMES[fname]):
            raise TConstError(f"{fname}: expected {len(CONST_NAMES[fname])} thresholds k*_eps, found {len(consts)}")
        for nm, k in zip(CONST_NAMES[fname], consts):
            vals[nm] = k
    return vals


# ------------------------------------------------------------------------------------------------------------
# 2. T-sym traces + model instances
# ------------------------------------------------------------------------------------------------------------
def r2t(R, t=(0.3, -0.2, 0.5)):
    T = np.eye(4)
    T[:3, :3] = R
    T[:3, 3] = t
    return T


def flush_matrix(order, s, delta):
    """a 3x3 (not exactly orthogonal) whose singular entry is s*(1 - delta): drives the threshold test exactly"""
    i, j = SING_ENTRY[order]
    R = base.rpy2r(0.3, s * PI / 2, -0.4, order=order)
    R = np.array(R, float)
    R[i, j] = math.copysign(1.0, R[i, j]) * (1.0 - delta)
    return R


def directed_rpy(order):
    """deterministic inputs for tr2rpy: singular +-90 deg with offsets; threshold hit exactly and one ulp either side;
    |entry| = 1 + ulp (asin domain); each argmax index"""
    out = []
    for s in (1.0, -1.0):
        for o in OFFSETS:
            for (r, y) in ((0.3, -0.4), (2.5, 1.9), (-1.2, 3.0)):
                out.append(np.array(base.rpy2r(r, s * PI / 2 + o, y, order=order), float))
        for k in (5, 9, 10, 11, 20):
            for du in (-1, 0, 1):
                out.append(flush_matrix(order, s, k * EPS + du * EPS / 2))
        out.append(flush_matrix(order, s, -EPS))        # |entry| = 1 + 2^-52
        out.append(flush_matrix(order, s, -4 * EPS))
    for (r, p, y) in ((0.1, 0.2, 0.3), (1.5, 0.2, 0.1), (0.1, 0.2, 1.5), (3.0, -1.0, 0.05), (0.05, 1.2, 3.0), (1.6, 1.0, 1.55), (-1.5, -1.3, 2.9)):
        out.append(np.array(base.rpy2r(r, p, y, order=order), float))
    return out


def directed_eul():
    out = []
    for b0 in (0.0, PI, -PI):
        for o in OFFSETS + [3e-15, -3e-15, 1e-15, 2e-15, 2.3e-15, 1e-14]:
            for (a, c) in ((0.3, -0.4), (2.5, 1.9)):
                out.append(np.array(base.eul2r(a, b0 + o, c), float))
    # threshold exactly / around: set entries by hand
    for v in (10 * EPS, 10 * EPS * (1 - EPS), 10 * EPS * (1 + EPS), 5 * EPS, 20 * EPS, 0.0):
        for w in (0.0, 10 * EPS, 9 * EPS, 11 * EPS):
            for sg in (1.0, -1.0):
                R = np.array(base.eul2r(0.3, 0.0 if sg > 0 else PI, -0.4), float)
                R[0, 2], R[1, 2] = sg * v, -sg * w
                out.append(R)
    for (a, b, c) in ((0.1, 0.2, 0.3), (-2.0, 1.5, 3.0), (3.1, 2.9, -3.0), (0.5, -0.7, 0.2)):
        out.append(np.array(base.eul2r(a, b, c), float))
    return out


class Cycle:
    """sampler: first the directed list, then random rotations (angles drawn with the singular value favoured)"""
    def __init__(self, directed, rand, se3=False):
        self.d, self.rand, self.i, self.se3 = directed, rand, 0, se3

    def __call__(self, rng):
        if self.i < len(self.d):
            R = self.d[self.i]
        else:
            R = self.rand(rng)
        self.i += 1
        if self.se3:
            return [r2t(R, rng.normal(size=3) * log_uniform(rng, 1e-3, 1e3))]
        return [R]


def rand_rpy_matrix(order):
    def f(rng):
        u = rng.random()
        if u < 0.3:
            p = float(rng.choice([PI / 2, -PI / 2])) + float(rng.choice([1, -1])) * log_uniform(rng, 1e-12, 1e-1)
        elif u < 0.4:
            return rng.uniform(-1, 1, size=(3, 3))          # not a rotation: the kernels are compared on arbitrary input
        else:
            p = rng.uniform(-PI, PI)
        return np.array(base.rpy2r(rng.uniform(-PI, PI), p, rng.uniform(-PI, PI), order=order), float)
    return f


def rand_eul_matrix(rng):
    u = rng.random()
    if u < 0.3:
        b = float(rng.choice([0, PI, -PI])) + float(rng.choice([1, -1])) * log_uniform(rng, 1e-16, 1e-1)
    elif u < 0.4:
        return rng.uniform(-1, 1, size=(3, 3))
    else:
        b = rng.uniform(-PI, PI)
    return np.array(base.eul2r(rng.uniform(-PI, PI), b, rng.uniform(-PI, PI)), float)


def set_val(pairs):
    concolic.VAL.clear()
    for k, v in pairs.items():
        concolic.VAL[sympy.Symbol(k, real=True)] = v


def build(ctx, consts):
    g = Gen('C05')
    S3 = [('r', 'S'), ('p', 'S'), ('y', 'S')]
    for o, alias in ORDERS.items():
        g.trace(f'tr_rpy2r_{o}', S3, (lambda o: lambda r, p, y: base.rpy2r(r, p, y, order=o))(o))
        g.trace(f'tr_rpy2r_{alias}', S3, (lambda o: lambda r, p, y: base.rpy2r(r, p, y, order=o))(alias))
        g.trace(f'tr_rpy2r_v_{o}', [('a', 'V3')], (lambda o: lambda a: base.rpy2r(a, order=o))(o))
        g.trace(f'tr_rpy2r_deg_{o}', S3, (lambda o: lambda r, p, y: base.rpy2r(r, p, y, order=o, unit='deg'))(o))
        g.trace(f'tr_rpy2tr_{o}', S3, (lambda o: lambda r, p, y: base.rpy2tr(r, p, y, order=o))(o))
        g.trace(f'tr_SO3_RPY_{o}', [('a', 'V3')], (lambda o: lambda a: SO3.RPY(a, order=o).A)(o))
        g.trace(f'tr_SE3_RPY_{o}', [('a', 'V3')], (lambda o: lambda a: SE3.RPY(a, order=o).A)(o))
    g.trace('tr_rpy2r_default', S3, lambda r, p, y: base.rpy2r(r, p, y))
    E3 = [('f', 'S'), ('t', 'S'), ('s', 'S')]
    g.trace('tr_eul2r', E3, lambda f, t, s: base.eul2r(f, t, s))
    g.trace('tr_eul2r_v', [('a', 'V3')], lambda a: base.eul2r(a))
    g.trace('tr_eul2r_deg', E3, lambda f, t, s: base.eul2r(f, t, s, unit='deg'))
    g.trace('tr_eul2tr', E3, lambda f, t, s: base.eul2tr(f, t, s))
    g.trace('tr_SO3_Eul', [('a', 'V3')], lambda a: SO3.Eul(a).A)
    g.trace('tr_SE3_Eul', [('a', 'V3')], lambda a: SE3.Eul(a).A)
    g.trace('tr_rot2', [('t', 'S')], lambda t: base.rot2(t))
    g.trace('tr_rot2_deg', [('t', 'S')], lambda t: base.rot2(t, unit='deg'))
    g.trace('tr_xyt2tr', [('a', 'V3')], lambda a: base.xyt2tr(a))
    g.trace('tr_xyt2tr_deg', [('a', 'V3')], lambda a: base.xyt2tr(a, unit='deg'))
    g.trace('tr_SE2_xyt', [('a', 'V3')], lambda a: SE2(a[0], a[1], a[2]).A)
    # axis-angle: Rodrigues about the normalised axis (path: |v| >= 10 eps; the norm test is decided concolically)
    set_val({'v0': 0.3, 'v1': -0.5, 'v2': 0.8, 'th': 0.7})
    with concolic.object_alloc():
        concolic.PATH.clear()
        g.trace('tr_angvec2r', [('th', 'S'), ('v', 'V3')], lambda th, v: base.angvec2r(th, v),
                sampler=lambda rng: [float(rng.uniform(-PI, PI)), rand_unit(rng) * log_uniform(rng, 1e-3, 1e3)], tol=1e-9)
        ctx.stats['angvec2r_path'] = [f"{str(r)} -> {v}" for r, v in concolic.PATH]

    # ---- hand models instantiated with the regenerated thresholds (defined at the end of the generated file)
    defs = []
    if consts is None:          # the skeleton no longer matches: no model instance, Props/C05_b.v is reported as not shown
        return g, ""

    def model(name, body, inputs, out, num_fn, sampler):
        binders = " ".join(f"({an} : {'T' if sh == 'S' else sh + ' T'})" for an, sh in inputs)
        defs.append(f"Definition {name} {{T}} (O : ops T) {binders} := {body}.\n")
        g.model(name, inputs, out, coq=name, module='Model.C05_Angles', num_fn=num_fn, sampler=sampler)

    for o, alias in ORDERS.items():
        c = f"(of_Z O c_tr2rpy_{o})"
        for deg in (False, True):
            u = 'deg' if deg else 'rad'
            b = 'true' if deg else 'false'
            model(f'm_tr2rpy_{o}_{u}', f"tr2rpy_{o}_u O {c} {b} R", [('R', 'M33')], 'V3',
                  (lambda o, u: lambda R: base.tr2rpy(R, order=o, unit=u))(o, u), Cycle(directed_rpy(o), rand_rpy_matrix(o)))
            model(f'm_tr2rpy_{alias}_{u}_se3', f"tr2rpy_{o}_u4 O {c} {b} A", [('A', 'M44')], 'V3',
                  (lambda o, u: lambda A: base.tr2rpy(A, order=o, unit=u))(alias, u), Cycle(directed_rpy(o), rand_rpy_matrix(o), se3=True))
    ce = "(of_Z O c_tr2eul_1) (of_Z O c_tr2eul_2)"
    for flip in (False, True):
        for deg in (False, True):
            u = 'deg' if deg else 'rad'
            nm = f"m_tr2eul_{'flip' if flip else 'noflip'}_{u}"
            fb, db = ('true' if flip else 'false'), ('true' if deg else 'false')
            model(nm, f"tr2eul_u O {ce} {fb} {db} R", [('R', 'M33')], 'V3',
                  (lambda flip, u: lambda R: base.tr2eul(R, flip=flip, unit=u))(flip, u), Cycle(directed_eul(), rand_eul_matrix))
            model(nm + '_se3', f"tr2eul_u4 O {ce} {fb} {db} A", [('A', 'M44')], 'V3',
                  (lambda flip, u: lambda A: base.tr2eul(A, flip=flip, unit=u))(flip, u), Cycle(directed_eul(), rand_eul_matrix, se3=True))

    def se2s(rng):
        th = float(rng.choice([0, PI / 2, -PI / 2, PI, -PI, rng.uniform(-PI, PI)])) + float(rng.choice([0, 1, -1])) * log_uniform(rng, 1e-12, 1e-1)
        return [np.array(base.xyt2tr([rng.normal(), rng.normal(), th]), float)]
    for deg in (False, True):
        u = 'deg' if deg else 'rad'
        model(f'm_tr2xyt_{u}', f"tr2xyt O {'true' if deg else 'false'} A", [('A', 'M33')], 'V3',
              (lambda u: lambda A: base.tr2xyt(A, unit=u))(u), se2s)
        model(f'm_theta2_{u}', f"theta2 O {'true' if deg else 'false'} A", [('A', 'M22')], 'S',
              (lambda u: lambda A: SO2(A, check=False).theta(unit=u))(u), lambda rng: [se2s(rng)[0][:2, :2]])
        model(f'm_SE2_xyt_theta_{u}', f"theta2 O {'true' if deg else 'false'} (t2r2 A)", [('A', 'M33')], 'S',
              (lambda u: lambda A: SE2(A, check=False).theta(unit=u))(u), se2s)
    return g, "".join(defs)


def gen_text(g, defs, consts):
    txt = g.coq_text()
    txt = txt.replace("From SM Require Import Base.Ops.\n",
                      "From SM Require Import Base.Ops Base.Lin Model.C05_Angles.\nFrom SMgen Require Import Consts_C05.\n", 1)
    txt += "\n(* hand models of theories/Model/C05_Angles.v instantiated with the thresholds regenerated from the source *)\n" + defs
    return txt


def consts_text(consts):
    lines = ["(* GENERATED on every run by /verif/props/C05.py from the AST of /repo's tr2rpy / tr2eul: the factor k of every\n"
             "   `k * _eps` test, in source order.  Do not edit. *)\nFrom Coq Require Import ZArith.\n"]
    for k, v in consts.items():
        lines.append(f"Definition {k} : Z := ({v})%Z.\n")
    return "".join(lines)


# ------------------------------------------------------------------------------------------------------------
# 5. oracle
# ------------------------------------------------------------------------------------------------------------
def hexl(a):
    return [float(x).hex() for x in np.asarray(a, float).flatten()]


BAND_OFFSETS = [s * v for v in (2e-8, 5e-8, 6.5e-8, 6.7e-8, 7e-8, 2e-7) for s in (1.0, -1.0)]


def angle_grid(rng, sing, n_rand):
    """middle-angle values: every singular value, +-offsets 1e-12..1e-1 (and the edges of the 10*eps band, |cos| = sqrt(20 eps)
    = 6.7e-8), full-range random"""
    for s in sing:
        for o in OFFSETS + BAND_OFFSETS:
            yield s + o, (s, o)
    for _ in range(n_rand):
        yield float(rng.uniform(-PI, PI)), (None, None)


def oracle_rpy(ctx):
    rng = ctx.rng
    nr = ctx.n(300, 6000)
    reps = ctx.n(4, 10)
    for order, alias in ORDERS.items():
        for p, (s, o) in angle_grid(rng, [PI / 2, -PI / 2], nr):
            for _ in range(reps):
                r, y = rng.uniform(-PI, PI, 2)
                if rng.random() < 0.15:
                    r = float(rng.choice([0, PI / 2, -PI / 2, PI]))
                if rng.random() < 0.15:
                    y = float(rng.choice([0, PI / 2, -PI / 2, PI]))
                R0 = np.array(base.rpy2r(r, p, y, order=order), float)
                Q = np.array(base.rpy2r(*rng.uniform(-PI, PI, 3)), float)
                inputs = {
                    'base33': (R0, lambda R, od, u: base.tr2rpy(R, order=od, unit=u)),
                    'base44': (R0, lambda R, od, u: base.tr2rpy(r2t(R), order=od, unit=u)),
                    'SO3': (R0, lambda R, od, u: SO3(R, check=False).rpy(order=od, unit=u)),
                    'SE3': (R0, lambda R, od, u: SE3(r2t(R), check=False).rpy(order=od, unit=u)),
                    'UQ': (None, None),
                    'composed': (Q.T @ (Q @ R0), lambda R, od, u: base.tr2rpy(R, order=od, unit=u)),
                }
                q = UnitQuaternion.RPY([r, p, y], order=order)
                inputs['UQ'] = (np.array(q.R, float), lambda R, od, u, q=q: q.rpy(order=od, unit=u))
                for site, (R, f) in inputs.items():
                    od = alias if rng.random() < 0.3 else order
                    sig = ('rpy', site, order, s, o)
                    ctx.case(sig + (r, y))
                    ctx.count(f'oracle:rpy:{site}')
                    rep = {'site': site, 'order': od, 'angles_in': [r, p, y], 'R_hex': hexl(R), 'singular_value': s, 'offset': o}
                    try:
                        a = np.asarray(f(R, od, 'rad'), float)
                        d = np.asarray(f(R, od, 'deg'), float)
                    except ValueError as ex:
                        i, j = SING_ENTRY[order]
                        if 'math domain error' in str(ex) and abs(R[i, j]) > 1 and abs(abs(R[i, j]) - 1) < 10 * EPS:
                            # repaired by /repo dd68bbe (asin argument clipped); reported again if it comes back
                            ctx.fail('oracle:rpy:singular:asin-domain-error',
                                     f"tr2rpy (via {site}) raises ValueError(math domain error): |R[{i},{j}]| = 1 + {abs(R[i, j]) - 1:g} "
                                     f"is inside the 10*eps singular band and math.asin is applied unclipped", rep)
                        else:
                            ctx.fail(f'oracle:rpy:{site}:raises:ValueError', f"tr2rpy via {site} raises {ex}", rep)
                        continue
                    except Exception as ex:
                        ctx.fail(f'oracle:rpy:{site}:raises:{type(ex).__name__}', f"tr2rpy via {site} raises {type(ex).__name__}: {ex}", rep)
                        continue
                    rep['angles_out'] = a.tolist()
                    err = float(np.max(np.abs(np.array(base.rpy2r(a, order=order), float) - R))) if np.all(np.isfinite(a)) else float('inf')
                    ctx.stats['worst:rpy:rebuild'] = max(ctx.stats.get('worst:rpy:rebuild', 0.0), err)
                    if not err <= 1e-6:
                        ctx.fail(f'oracle:rpy:{site}:rebuild', f"rpy2r(tr2rpy(R)) differs from R by {err:g} (order {od}, via {site})", rep)
                    if not (np.all(np.abs(a) <= PI) and abs(a[1]) <= PI / 2):
                        ctx.fail(f'oracle:rpy:{site}:range', f"extracted angles {a} outside [-pi,pi] / pitch outside [-pi/2,pi/2]", rep)
                    if not np.all(np.abs(d - a * 180 / PI) <= 1e-9 * 180):
                        ctx.fail(f'oracle:rpy:{site}:deg', f"degrees {d} != radians*180/pi {a * 180 / PI}", rep)
                    errd = float(np.max(np.abs(np.array(base.rpy2r(d, order=order, unit='deg'), float) - R)))
                    if not errd <= 1e-6:
                        ctx.fail(f'oracle:rpy:{site}:rebuild-deg', f"rpy2r(tr2rpy(R,'deg'),'deg') differs from R by {errd:g}", rep)
    ctx.sample({'kind': 'oracle', 'what': 'rpy rebuild', 'last': rep})


def oracle_eul(ctx):
    rng = ctx.rng
    nr = ctx.n(300, 6000)
    reps = ctx.n(3, 8)
    offs = OFFSETS + [s * 10.0 ** -k for k in (13, 14, 15, 16) for s in (1, -1)] + [2.2e-15, 2.3e-15, 3e-15]
    sing = [0.0, PI, -PI]
    grid = [(s + o, (s, o)) for s in sing for o in offs] + [(float(rng.uniform(-PI, PI)), (None, None)) for _ in range(nr)]
    for b, (s, o) in grid:
        for _ in range(reps):
            a0, c0 = rng.uniform(-PI, PI, 2)
            R0 = np.array(base.eul2r(a0, b, c0), float)
            Q = np.array(base.rpy2r(*rng.uniform(-PI, PI, 3)), float)
            q = UnitQuaternion.Eul([a0, b, c0])
            sites = {
                'base33': (R0, lambda R, fl, u: base.tr2eul(R, flip=fl, unit=u)),
                'base44': (R0, lambda R, fl, u: base.tr2eul(r2t(R), flip=fl, unit=u)),
                'SO3': (R0, lambda R, fl, u: SO3(R, check=False).eul(flip=fl, unit=u)),
                'SE3': (R0, lambda R, fl, u: SE3(r2t(R), check=False).eul(flip=fl, unit=u)),
                'UQ': (np.array(q.R, float), lambda R, fl, u, q=q: q.eul(unit=u)),
                'composed': (Q.T @ (Q @ R0), lambda R, fl, u: base.tr2eul(R, flip=fl, unit=u)),
            }
            for site, (R, f) in sites.items():
                for fl in (False, True):
                    ctx.case(('eul', site, fl, s, o, a0, c0))
                    ctx.count(f'oracle:eul:{site}')
                    rep = {'site': site, 'flip': fl, 'angles_in': [a0, b, c0], 'R_hex': hexl(R), 'singular_value': s, 'offset': o}
                    try:
                        e = np.asarray(f(R, fl, 'rad'), float)
                        d = np.asarray(f(R, fl, 'deg'), float)
                    except Exception as ex:
                        ctx.fail(f'oracle:eul:{site}:raises:{type(ex).__name__}', f"tr2eul via {site} raises {type(ex).__name__}: {ex}", rep)
                        continue
                    rep['angles_out'] = e.tolist()
                    err = float(np.max(np.abs(np.array(base.eul2r(e), float) - R))) if np.all(np.isfinite(e)) else float('inf')
                    ctx.stats['worst:eul:rebuild'] = max(ctx.stats.get('worst:eul:rebuild', 0.0), err)
                    if not err <= 1e-6:
                        ctx.fail(f'oracle:eul:{site}:rebuild', f"eul2r(tr2eul(R, flip={fl})) differs from R by {err:g} (via {site})", rep)
                    if not np.all(np.abs(e) <= PI):
                        ctx.fail(f'oracle:eul:{site}:range', f"Euler angles {e} outside [-pi, pi]", rep)
                    if not np.all(np.abs(d - e * 180 / PI) <= 1e-9 * 180):
                        ctx.fail(f'oracle:eul:{site}:deg', f"degrees {d} != radians*180/pi {e * 180 / PI}", rep)
                    errd = float(np.max(np.abs(np.array(base.eul2r(d, unit='deg'), float) - R))) if np.all(np.isfinite(d)) else float('inf')
                    if not errd <= 1e-6:
                        ctx.fail(f'oracle:eul:{site}:rebuild-deg', f"eul2r(tr2eul(R,'deg'),'deg') differs from R by {errd:g}", rep)


def oracle_angvec(ctx):
    rng = ctx.rng
    nr = ctx.n(1000, 20000)
    reps = ctx.n(4, 10)
    offs = OFFSETS + [s * 10.0 ** -k for k in (13, 14, 15) for s in (1, -1)] + [3e-8, 5e-8, 2e-7, 3e-4]
    grid = [(s + o, (s, o)) for s in (0.0, PI) for o in offs] + [(float(rng.uniform(-PI, PI)), (None, None)) for _ in range(nr)]
    for th, (s, o) in grid:
        for _ in range(reps):
            v = rand_unit(rng) if rng.random() < 0.8 else np.eye(3)[rng.integers(3)] * rng.choice([-1.0, 1.0])
            R = np.array(base.angvec2r(th, v * log_uniform(rng, 1e-2, 1e2)), float)
            Rref = rot_from_axis_angle(v, th)
            if np.max(np.abs(R - Rref)) > 1e-9:
                ctx.fail('oracle:angvec2r:not-rodrigues', f"angvec2r differs from rotation by theta about the normalised axis: {np.max(np.abs(R - Rref)):g}",
                         {'theta': th, 'v_hex': hexl(v)})
            th_true = abs(math.remainder(th, 2 * PI))       # rotation angle in [0, pi]
            q = UnitQuaternion(SO3(R, check=False))
            sites = {
                'base': lambda u: base.tr2angvec(R, unit=u),
                'base44': lambda u: base.tr2angvec(r2t(R), unit=u),
                'SO3': lambda u: SO3(R, check=False).angvec(unit=u),
                'SE3': lambda u: SE3(r2t(R), check=False).angvec(unit=u),
                'UQ': lambda u: q.angvec(unit=u),
            }
            for site, f in sites.items():
                ctx.case(('angvec', site, s, o, tuple(v)))
                ctx.count(f'oracle:angvec:{site}')
                rep = {'site': site, 'theta_in': th, 'axis_in_hex': hexl(v), 'R_hex': hexl(R), 'singular_value': s, 'offset': o}
                Rin = np.array(q.R, float) if site == 'UQ' else R
                try:
                    with np.errstate(all='ignore'):
                        t, ax = f('rad')
                        td, axd = f('deg')
                    ok_val = ax is not None and np.isfinite(t) and np.all(np.isfinite(np.asarray(ax, float)))
                    Rb = np.array(base.angvec2r(float(t), np.asarray(ax, float)), float) if ok_val else None
                except Exception as ex:
                    ctx.fail(f'oracle:angvec:{site}:raises:{type(ex).__name__}', f"tr2angvec via {site} raises {type(ex).__name__}: {ex}", rep)
                    continue
                rep['out'] = [None if not np.isfinite(t) else float(t), None if ax is None else np.asarray(ax, float).tolist()]
                if not ok_val:
                    if th_true < 1e-7:
                        ctx.fail('oracle:angvec:small-angle:undefined',
                                 f"tr2angvec returns (theta={t}, axis={ax}) for a rotation by {th_true:g} rad: trlog divides by sin(acos(1-)) = 0", rep)
                    else:
                        ctx.fail(f'oracle:angvec:{site}:undefined', f"tr2angvec returns (theta={t}, axis={ax})", rep)
                    continue
                ax = np.asarray(ax, float)
                err = float(np.max(np.abs(Rb - Rin)))
                if th_true > 1e-3 and PI - th_true > 1e-3:
                    ctx.stats['worst:angvec:rebuild:generic'] = max(ctx.stats.get('worst:angvec:rebuild:generic', 0.0), err)
                if not err <= 1e-6:
                    if 1e-7 < PI - th_true < 2e-4:
                        ctx.fail('oracle:angvec:near-pi:inaccurate',
                                 f"angvec2r(tr2angvec(R)) differs from R by {err:g} for rotation angle pi - {PI - th_true:g}: "
                                 f"trlog's general branch (R - R')/2/sin(theta) loses the axis near pi", rep)
                    else:
                        ctx.fail(f'oracle:angvec:{site}:rebuild', f"angvec2r(tr2angvec(R)) differs from R by {err:g} (rotation angle {th_true:g})", rep)
                if not (0 <= t <= PI + 1e-12):
                    if t > PI and 1e-7 < PI - th_true < 2e-4:
                        ctx.fail('oracle:angvec:near-pi:angle-exceeds-pi',
                                 f"tr2angvec returns the angle {t!r} > pi for a rotation by pi - {PI - th_true:g} (same loss of accuracy of "
                                 f"trlog's general branch near pi: |vex(log R)| overshoots)", rep)
                    else:
                        ctx.fail(f'oracle:angvec:{site}:range', f"rotation angle {t} outside [0, pi]", rep)
                n = float(np.linalg.norm(ax))
                if not (abs(n - 1) <= 1e-9 or (n == 0 and t == 0)):
                    ctx.fail(f'oracle:angvec:{site}:axis', f"axis {ax} is neither unit nor (zero with zero angle); theta={t}", rep)
                if not (abs(td - t * 180 / PI) <= 1e-9 * 180 and np.allclose(np.asarray(axd, float), ax, atol=1e-12)):
                    ctx.fail(f'oracle:angvec:{site}:deg', f"degrees {td} != radians*180/pi {t * 180 / PI}", rep)


def oracle_planar(ctx):
    rng = ctx.rng
    nr = ctx.n(2000, 50000)
    grid = [s + o for s in (0.0, PI / 2, -PI / 2, PI, -PI) for o in OFFSETS] + [float(rng.uniform(-PI, PI)) for _ in range(nr)]
    for th in grid:
        x, y = rng.normal(size=2) * log_uniform(rng, 1e-3, 1e3)
        T = np.array(base.xyt2tr([x, y, th]), float)
        rep = {'xyt_in': [x, y, th], 'T_hex': hexl(T)}
        ctx.case(('planar', th, x, y))
        ctx.count('oracle:planar')
        try:
            a = np.asarray(base.tr2xyt(T), float)
            ad = np.asarray(base.tr2xyt(T, unit='deg'), float)
            b = np.asarray(SE2(T, check=False).xyt(), float)
            t1, t1d = SE2(T, check=False).theta(), SE2(T, check=False).theta(unit='deg')
            t2, t2d = SO2(T[:2, :2], check=False).theta(), SO2(T[:2, :2], check=False).theta(unit='deg')
        except Exception as ex:
            ctx.fail(f'oracle:planar:raises:{type(ex).__name__}', f"planar extraction raises {type(ex).__name__}: {ex}", rep)
            continue
        for nm, v in (('tr2xyt', a), ('SE2.xyt', b)):
            err = float(np.max(np.abs(np.array(base.xyt2tr(v), float) - T)))
            if not err <= 1e-6 * max(1, abs(x), abs(y)):
                ctx.fail(f'oracle:planar:{nm}:rebuild', f"xyt2tr({nm}(T)) differs from T by {err:g}", rep)
            if not abs(v[2]) <= PI:
                ctx.fail(f'oracle:planar:{nm}:range', f"theta {v[2]} outside [-pi, pi]", rep)
        for nm, t in (('SE2.theta', t1), ('SO2.theta', t2)):
            if not np.max(np.abs(np.array(base.rot2(t), float) - T[:2, :2])) <= 1e-6:
                ctx.fail(f'oracle:planar:{nm}:rebuild', f"rot2({nm}) differs from the rotation block", rep)
        for nm, r_, d_ in (('SE2.theta', t1, t1d), ('SO2.theta', t2, t2d)):
            if not abs(d_ - r_ * 180 / PI) <= 1e-9 * 180:
                ctx.fail(f'oracle:planar:{nm}:deg', f"{nm}('deg') = {d_} != radians*180/pi = {r_ * 180 / PI}", rep)
        if abs(a[2]) > 1e-9 and not abs(ad[2] - a[2] * 180 / PI) <= 1e-9 * 180:
            rep['out_rad'], rep['out_deg'] = a.tolist(), ad.tolist()
            if ad[2] == a[2]:
                ctx.fail('oracle:planar:tr2xyt:deg:unit-ignored',
                         f"tr2xyt(T, unit='deg') returns theta = {ad[2]} (radians): the documented unit argument is ignored", rep)
            else:
                ctx.fail('oracle:planar:tr2xyt:deg', f"tr2xyt(T, unit='deg') theta {ad[2]} != {a[2] * 180 / PI}", rep)


def run(ctx):
    ctx.rule = ("obligations: theorems of theories/Props/C05_a.v, C05_b.v over the constructor traces and threshold constants regenerated from "
                "/repo (+ the fixed lemma library Model/C05_Proofs.v they instantiate); evaluations: T-num cases (hand model vs "
                "tr2rpy/tr2eul/tr2xyt/theta at and around every singular value and threshold) + oracle evaluations (rebuild, range, "
                "deg/rad) on base functions and class methods; a case is distinct by (site, order/flip, singular value, offset, angles)")
    ctx.trusted_extra = ["AST pass props/C05.py:tconst (thresholds k*_eps and if-skeleton of tr2rpy/tr2eul/tr2xyt)",
                         "hand models theories/Model/C05_Angles.v, tied by the float correspondence T-num on every run"]
    with ctx.timed('regenerate'):
        try:
            consts = tconst(ctx)
        except TConstError as ex:
            ctx.fail('tconst:model-no-longer-corresponds', f"the hand model of the extraction kernels no longer mirrors the source: {ex}",
                     {'detail': str(ex)}, no_input=True)
            consts = None
        g, defs = build(ctx, consts)
        ctx.stats['thresholds'] = consts
        cpath = ctx.write_gen('Consts_C05.v', consts_text(consts or {}))
        tpath = ctx.write_gen(MOD + '.v', gen_text(g, defs, consts))
    rc, out, err, dt = ctx.coqc(cpath)
    if rc == 0:
        rc, out, err, dt = ctx.coqc(tpath)
    if rc != 0:
        ctx.fail('gen:compile', 'generated definitions do not compile: ' + err[-800:], no_input=True)
    else:
        ctx.prove('theories/Props/C05_a.v')       # constructors: axis orders, aliases, call forms, degrees
        ctx.prove('theories/Props/C05_b.v')       # extraction: right inverse, singular case, ranges, degrees (needs the thresholds)
        with ctx.timed('correspond'):
            sym_num(ctx, g, MOD, ctx.n(260, 1500))
    with ctx.timed('oracle'):
        oracle_rpy(ctx)
        oracle_eul(ctx)
        oracle_angvec(ctx)
        oracle_planar(ctx)
