"""C05 -- angle-set and axis-angle extraction is a right inverse of construction.

Pipeline (docs/C05.md):
  1. T-const : fail-closed AST pass over tr2rpy / tr2eul / tr2xyt -> coq/gen/Consts_C05.v (the `k` of every `k * _eps`;
               the ordering comparisons of each function, after inlining single-assignment locals, must be the ones the
               hand model mirrors; a merely restructured function only escalates its float correspondence)
  2. T-sym   : the constructors rpy2r (3 orders + aliases, rad/deg, scalar/vector form), eul2r, rot2, xyt2tr, angvec2r and
               the class constructors executed on symbols -> coq/gen/Traces_C05.v; the file also instantiates the hand
               models of theories/Model/C05_Angles.v with the regenerated thresholds (m_* definitions)
  3. prove   : theories/Props/C05_a.v (constructors), C05_b.v (extraction) -- fixed statements
  4. T-num   : m_* (extracted, OCaml floats) vs base.tr2rpy / tr2eul / tr2xyt / SO2.theta at and around every singular
               value and exactly at / one ulp around every threshold, all orders, units, flip, SO(3)/SE(3) inputs
  5. oracle  : the property on the implementation: rebuild from extracted angles (1e-6), ranges, deg vs rad, base
               functions and SO3/SE3/UnitQuaternion/SE2/SO2 methods, tr2angvec.
"""
import ast
import math
import os
import warnings
import numpy as np
import sympy
from lib import concolic
from lib.core import REPO
from lib.symtrace import Gen
from lib.corr import sym_num
from lib.gens import log_uniform, rand_unit, rot_from_axis_angle

concolic.install()
from spatialmath import base, SO3, SE3, SO2, SE2, UnitQuaternion  # noqa: E402

warnings.simplefilter('ignore')
MOD = 'Traces_C05'
EPS = float(np.finfo(np.float64).eps)
PI = math.pi
ORDERS = {'zyx': 'vehicle', 'xyz': 'arm', 'yxz': 'camera'}
SING_ENTRY = {'zyx': (2, 0), 'xyz': (0, 2), 'yxz': (1, 2)}
OFFSETS = [0.0] + [s * 10.0 ** -k for k in range(12, 0, -1) for s in (1.0, -1.0)]


# ------------------------------------------------------------------------------------------------------------
# 1. T-const
# ------------------------------------------------------------------------------------------------------------
class TConstError(Exception):
    pass


# Normalised semantic summary of the modelled functions (what theories/Model/C05_Angles.v mirrors), robust to refactoring:
# every ORDERING comparison (< > <= >=) of the function, taken as the whole boolean expression it is part of, in source
# order, AFTER inlining locals that are assigned exactly once (so `singular = a < 10*_eps and b < 10*_eps; if singular:`
# equals the inline form, and `tol = 10*_eps` hoisted into a local equals the literal form), locals that are assigned
# several times alpha-renamed to `_`, the integer factor of `_eps` replaced by K (its value goes to Consts_C05.v).
# Where statements sit, equality dispatch (`order == ..`, `k == n`, `unit == 'deg'`) and assignments are NOT part of the
# hard summary: those are covered by the float correspondence, which is escalated to its thorough size for a function
# whose normalised AST hash differs from the recorded one (noted in the evidence, not a violation).
EXPECTED_SUMMARY = {
    'tr2rpy': ['abs(abs(_[0, 2]) - 1) < K * _eps', '_[0, 2] > 0',
               'abs(abs(_[2, 0]) - 1) < K * _eps', '_[2, 0] < 0',
               'abs(abs(_[1, 2]) - 1) < K * _eps', '_[1, 2] < 0'],
    'tr2eul': ['abs(_[0, 2]) < K * _eps and abs(_[1, 2]) < K * _eps'],
    'tr2xyt': [],
}
# order in which the K's appear in the summary -> name of the constant
CONST_NAMES = {'tr2rpy': ['c_tr2rpy_xyz', 'c_tr2rpy_zyx', 'c_tr2rpy_yxz'], 'tr2eul': ['c_tr2eul_1', 'c_tr2eul_2'], 'tr2xyt': []}
FILES = {'tr2rpy': 'spatialmath/base/transforms3d.py', 'tr2eul': 'spatialmath/base/transforms3d.py',
         'tr2xyt': 'spatialmath/base/transforms2d.py'}
# normalised-AST hash of each modelled function on the tree the model was last aligned with (/repo 40af48b);
# a different hash only escalates the correspondence of that function (see run())
EXPECTED_HASH = {'tr2rpy': 'ce33480a8309', 'tr2eul': 'c50b8695f2d5', 'tr2xyt': 'b3104c0fe31e'}
ORDERING = (ast.Lt, ast.LtE, ast.Gt, ast.GtE)
MODEL_PREFIX = {'tr2rpy': ['m_tr2rpy_'], 'tr2eul': ['m_tr2eul_'], 'tr2xyt': ['m_tr2xyt_']}


def _strip_doc(fn):
    body = fn.body
    if body and isinstance(body[0], ast.Expr) and isinstance(getattr(body[0], 'value', None), ast.Constant) and isinstance(body[0].value.value, str):
        body = body[1:]
    return body


def fn_hash(fn):
    """hash of the function body with the docstring removed and local names numbered by first appearance"""
    import copy
    import hashlib
    f = copy.deepcopy(fn)
    f.body = _strip_doc(f)
    local = {n.id for n in ast.walk(f) if isinstance(n, ast.Name) and isinstance(n.ctx, ast.Store)}
    num = {}

    class Ren(ast.NodeTransformer):
        def visit_Name(self, n):
            if n.id in local:
                num.setdefault(n.id, f"v{len(num)}")
                return ast.copy_location(ast.Name(id=num[n.id], ctx=n.ctx), n)
            return n
    return hashlib.md5(ast.dump(ast.Module(body=Ren().visit(f).body, type_ignores=[])).encode()).hexdigest()[:12]


def _summary(fn):
    """(list of normalised ordering-comparison expressions, list of the integer factors of _eps in them)"""
    import copy
    body = _strip_doc(fn)
    stores = {}
    simple = {}
    for n in ast.walk(ast.Module(body=body, type_ignores=[])):
        if isinstance(n, ast.Name) and isinstance(n.ctx, ast.Store):
            stores[n.id] = stores.get(n.id, 0) + 1
        if isinstance(n, ast.Assign) and len(n.targets) == 1 and isinstance(n.targets[0], ast.Name):
            simple.setdefault(n.targets[0].id, []).append(n)
        if isinstance(n, (ast.For, ast.While, ast.With, ast.Try)):
            raise TConstError(f"{fn.name}: unexpected compound statement {type(n).__name__}")
    params = {a.arg for a in fn.args.args + fn.args.kwonlyargs}
    single = {k: v[0].value for k, v in simple.items() if stores.get(k) == 1 and len(v) == 1 and k not in params}
    multi = {k for k in stores if k not in single}

    def inline(e, depth=0):
        if depth > 8:
            raise TConstError(f"{fn.name}: local definitions too deep to inline")

        class In(ast.NodeTransformer):
            def visit_Name(self, n):
                if isinstance(n.ctx, ast.Load) and n.id in single:
                    return inline(copy.deepcopy(single[n.id]), depth + 1)
                if n.id in multi:
                    return ast.copy_location(ast.Name(id='_', ctx=n.ctx), n)
                return n
        return In().visit(e)

    out, consts = [], []

    def has_ordering(e):
        return any(isinstance(c, ast.Compare) and any(isinstance(o, ORDERING) for o in c.ops) for c in ast.walk(e))

    def record(e):
        class K(ast.NodeTransformer):
            def visit_BinOp(self, n):
                self.generic_visit(n)
                if isinstance(n.op, ast.Mult) and isinstance(n.right, ast.Name) and n.right.id == '_eps':
                    if not (isinstance(n.left, ast.Constant) and isinstance(n.left.value, int) and not isinstance(n.left.value, bool)):
                        raise TConstError(f"{fn.name}: threshold factor `{ast.unparse(n.left)}` of _eps is not an integer literal")
                    consts.append(n.left.value)
                    n.left = ast.Name(id='K', ctx=ast.Load())
                return n
        out.append(ast.unparse(K().visit(e)))

    def scan(e, in_bool=False):
        """record every maximal boolean expression (BoolOp / Compare / not) that contains an ordering comparison"""
        is_bool = isinstance(e, (ast.BoolOp, ast.Compare)) or (isinstance(e, ast.UnaryOp) and isinstance(e.op, ast.Not))
        if is_bool and not in_bool and has_ordering(e):
            record(e)
            return
        for c in ast.iter_child_nodes(e):
            if isinstance(c, ast.expr):
                scan(c, in_bool or is_bool)

    neps = [0]

    def walk(stmts):
        for s in stmts:
            if isinstance(s, ast.Assign) and len(s.targets) == 1 and isinstance(s.targets[0], ast.Name) and s.targets[0].id in single:
                continue                      # inlined at its uses
            if isinstance(s, ast.If):
                t = inline(copy.deepcopy(s.test))
                neps[0] += sum(1 for n in ast.walk(t) if isinstance(n, ast.Name) and n.id == '_eps')
                scan(t)
                walk(s.body)
                walk(s.orelse)
            else:
                for c in ast.iter_child_nodes(s):
                    if isinstance(c, ast.expr):
                        t = inline(copy.deepcopy(c))
                        neps[0] += sum(1 for n in ast.walk(t) if isinstance(n, ast.Name) and n.id == '_eps')
                        scan(t)
    walk(body)
    if neps[0] != len(consts):
        raise TConstError(f"{fn.name}: _eps is used {neps[0]} times but only {len(consts)} times as `k * _eps` inside an ordering comparison")
    return out, consts


TSOFT = [('spatialmath/base/transforms3d.py', 'tr2rpy'), ('spatialmath/base/transforms3d.py', 'tr2eul'), ('spatialmath/base/transforms2d.py', 'tr2xyt')]
_TSOFT_STOP = {'tr2rpy', 'tr2eul', 'tr2xyt'}


def _tsoft_consts(fname, rel):
    """None unless the threshold multiset of fname + helper closure is the recorded one AND all its k*_eps thresholds share one integer factor
    (then that factor; 0 when the function has no threshold)"""
    import re
    from lib import tsoft
    ok, found, base = tsoft.same_thresholds(REPO, 'C05', rel, fname, _TSOFT_STOP - {fname})
    if not ok:
        return None
    ks = {int(m.group(1)) for m in (re.fullmatch(r'cmp Lt (\d+)\*eps', t) for t in found) if m}
    n = sum(1 for t in found if t.startswith('cmp '))
    if (n == 0) != (len(CONST_NAMES[fname]) == 0) or len(ks) > 1 or (n and not ks):
        return None
    return ks.pop() if ks else 0


def tconst(ctx):
    """returns ({constant name: k}, {function: True if its normalised AST differs from the recorded one})"""
    vals, changed = {}, {}
    for fname, rel in FILES.items():
        src = open(os.path.join(REPO, rel)).read()
        tree = ast.parse(src)
        fns = [n for n in tree.body if isinstance(n, ast.FunctionDef) and n.name == fname]
        if len(fns) != 1:
            raise TConstError(f"{fname}: not found exactly once in {rel}")
        if rel.endswith('transforms3d.py'):
            if not any(isinstance(n, ast.Assign) and ast.unparse(n) == '_eps = np.finfo(np.float64).eps' for n in tree.body):
                raise TConstError("transforms3d._eps is no longer np.finfo(np.float64).eps")
        try:
            sm, consts = _summary(fns[0])
        except TConstError:
            if _tsoft_consts(fname, rel) is None:
                raise
            sm, consts = None, None
        if sm != EXPECTED_SUMMARY[fname]:
            soft = _tsoft_consts(fname, rel)
            if soft is not None:
                # restructured (helpers extracted, elements bound to locals, ...): every numeric threshold of the function and of the same-module
                # helpers it calls is the recorded one, and they all share one value, so each named constant has that value; not a broken tie by
                # itself -- the float correspondence of the model instances of this function is escalated (see run())
                for nm in CONST_NAMES[fname]:
                    vals[nm] = soft
                changed[fname] = True
                ctx.stats[f'ast_hash:{fname}'] = 'restructured; thresholds unchanged (lib/tsoft.py)'
                continue
            diff = [(i, a, b) for i, (a, b) in enumerate(zip(sm + ['<end>'] * 40, EXPECTED_SUMMARY[fname] + ['<end>'] * 40)) if a != b][:3]
            raise TConstError(f"{fname}: the ordering comparisons differ from the ones the model mirrors (index, source, model): {diff}")
        if len(consts) != len(CONST_NAMES[fname]):
            raise TConstError(f"{fname}: expected {len(CONST_NAMES[fname])} thresholds k*_eps, found {len(consts)}")
        for nm, k in zip(CONST_NAMES[fname], consts):
            vals[nm] = k
        changed[fname] = fn_hash(fns[0]) != EXPECTED_HASH[fname]
        ctx.stats[f'ast_hash:{fname}'] = fn_hash(fns[0])
    return vals, changed


# ------------------------------------------------------------------------------------------------------------
# 2. T-sym traces + model instances
# ------------------------------------------------------------------------------------------------------------
def r2t(R, t=(0.3, -0.2, 0.5)):
    T = np.eye(4)
    T[:3, :3] = R
    T[:3, 3] = t
    return T


def flush_matrix(order, s, delta):
    """a 3x3 (not exactly orthogonal) whose singular entry is s*(1 - delta): drives the threshold test exactly"""
    i, j = SING_ENTRY[order]
    R = base.rpy2r(0.3, s * PI / 2, -0.4, order=order)
    R = np.array(R, float)
    R[i, j] = math.copysign(1.0, R[i, j]) * (1.0 - delta)
    return R


def directed_rpy(order):
    """deterministic inputs for tr2rpy: singular +-90 deg with offsets; threshold hit exactly and one ulp either side;
    |entry| = 1 + ulp (asin domain); each argmax index"""
    out = []
    for s in (1.0, -1.0):
        for o in OFFSETS:
            for (r, y) in ((0.3, -0.4), (2.5, 1.9), (-1.2, 3.0)):
                out.append(np.array(base.rpy2r(r, s * PI / 2 + o, y, order=order), float))
        for k in (5, 9, 10, 11, 20):
            for du in (-1, 0, 1):
                out.append(flush_matrix(order, s, k * EPS + du * EPS / 2))
        out.append(flush_matrix(order, s, -EPS))        # |entry| = 1 + 2^-52
        out.append(flush_matrix(order, s, -4 * EPS))
    for (r, p, y) in ((0.1, 0.2, 0.3), (1.5, 0.2, 0.1), (0.1, 0.2, 1.5), (3.0, -1.0, 0.05), (0.05, 1.2, 3.0), (1.6, 1.0, 1.55), (-1.5, -1.3, 2.9)):
        out.append(np.array(base.rpy2r(r, p, y, order=order), float))
    return out


def directed_eul():
    out = []
    for b0 in (0.0, PI, -PI):
        for o in OFFSETS + [3e-15, -3e-15, 1e-15, 2e-15, 2.3e-15, 1e-14]:
            for (a, c) in ((0.3, -0.4), (2.5, 1.9)):
                out.append(np.array(base.eul2r(a, b0 + o, c), float))
    # threshold exactly / around: set entries by hand
    for v in (10 * EPS, 10 * EPS * (1 - EPS), 10 * EPS * (1 + EPS), 5 * EPS, 20 * EPS, 0.0):
        for w in (0.0, 10 * EPS, 9 * EPS, 11 * EPS):
            for sg in (1.0, -1.0):
                R = np.array(base.eul2r(0.3, 0.0 if sg > 0 else PI, -0.4), float)
                R[0, 2], R[1, 2] = sg * v, -sg * w
                out.append(R)
    for (a, b, c) in ((0.1, 0.2, 0.3), (-2.0, 1.5, 3.0), (3.1, 2.9, -3.0), (0.5, -0.7, 0.2)):
        out.append(np.array(base.eul2r(a, b, c), float))
    return out


class Cycle:
    """sampler: first the directed list, then random rotations (angles drawn with the singular value favoured)"""
    def __init__(self, directed, rand, se3=False):
        self.d, self.rand, self.i, self.se3 = directed, rand, 0, se3

    def __call__(self, rng):
        if self.i < len(self.d):
            R = self.d[self.i]
        else:
            R = self.rand(rng)
        self.i += 1
        if self.se3:
            return [r2t(R, rng.normal(size=3) * log_uniform(rng, 1e-3, 1e3))]
        return [R]


def rand_rpy_matrix(order):
    def f(rng):
        u = rng.random()
        if u < 0.3:
            p = float(rng.choice([PI / 2, -PI / 2])) + float(rng.choice([1, -1])) * log_uniform(rng, 1e-12, 1e-1)
        elif u < 0.4:
            return rng.uniform(-1, 1, size=(3, 3))          # not a rotation: the kernels are compared on arbitrary input
        else:
            p = rng.uniform(-PI, PI)
        return np.array(base.rpy2r(rng.uniform(-PI, PI), p, rng.uniform(-PI, PI), order=order), float)
    return f


def rand_eul_matrix(rng):
    u = rng.random()
    if u < 0.3:
        b = float(rng.choice([0, PI, -PI])) + float(rng.choice([1, -1])) * log_uniform(rng, 1e-16, 1e-1)
    elif u < 0.4:
        return rng.uniform(-1, 1, size=(3, 3))
    else:
        b = rng.uniform(-PI, PI)
    return np.array(base.eul2r(rng.uniform(-PI, PI), b, rng.uniform(-PI, PI)), float)


def set_val(pairs):
    concolic.VAL.clear()
    for k, v in pairs.items():
        concolic.VAL[sympy.Symbol(k, real=True)] = v


def build(ctx, consts):
    g = Gen('C05')
    _trace = g.trace

    def soft_trace(name, *a, **k):
        """fail-soft: a constructor the tracer can no longer execute on symbols is a finding (the theorems that mention its
        trace are then reported as not shown), the rest of the check goes on"""
        k['optional'] = True
        try:
            t = _trace(name, *a, **k)
        except Exception as ex:                       # printer / shape errors are raised even for optional traces
            g.failed.append((name, f"{type(ex).__name__}: {ex}"))
            t = None
        if t is None:
            why = [r for n_, r in g.failed if n_ == name][-1:] or ['?']
            ctx.fail(f'tsym:{name}:cannot-trace', f"the library call behind trace {name} can no longer be executed on symbols: {why[0]}"[:600],
                     {'trace': name, 'reason': why[0][:1500]}, no_input=True)
        return t
    g.trace = soft_trace
    S3 = [('r', 'S'), ('p', 'S'), ('y', 'S')]
    for o, alias in ORDERS.items():
        g.trace(f'tr_rpy2r_{o}', S3, (lambda o: lambda r, p, y: base.rpy2r(r, p, y, order=o))(o))
        g.trace(f'tr_rpy2r_{alias}', S3, (lambda o: lambda r, p, y: base.rpy2r(r, p, y, order=o))(alias))
        g.trace(f'tr_rpy2r_v_{o}', [('a', 'V3')], (lambda o: lambda a: base.rpy2r(a, order=o))(o))
        g.trace(f'tr_rpy2r_deg_{o}', S3, (lambda o: lambda r, p, y: base.rpy2r(r, p, y, order=o, unit='deg'))(o))
        g.trace(f'tr_rpy2tr_{o}', S3, (lambda o: lambda r, p, y: base.rpy2tr(r, p, y, order=o))(o))
        g.trace(f'tr_SO3_RPY_{o}', [('a', 'V3')], (lambda o: lambda a: SO3.RPY(a, order=o).A)(o))
        g.trace(f'tr_SE3_RPY_{o}', [('a', 'V3')], (lambda o: lambda a: SE3.RPY(a, order=o).A)(o))
    g.trace('tr_rpy2r_default', S3, lambda r, p, y: base.rpy2r(r, p, y))
    E3 = [('f', 'S'), ('t', 'S'), ('s', 'S')]
    g.trace('tr_eul2r', E3, lambda f, t, s: base.eul2r(f, t, s))
    g.trace('tr_eul2r_v', [('a', 'V3')], lambda a: base.eul2r(a))
    g.trace('tr_eul2r_deg', E3, lambda f, t, s: base.eul2r(f, t, s, unit='deg'))
    g.trace('tr_eul2tr', E3, lambda f, t, s: base.eul2tr(f, t, s))
    g.trace('tr_SO3_Eul', [('a', 'V3')], lambda a: SO3.Eul(a).A)
    g.trace('tr_SE3_Eul', [('a', 'V3')], lambda a: SE3.Eul(a).A)
    g.trace('tr_rot2', [('t', 'S')], lambda t: base.rot2(t))
    g.trace('tr_rot2_deg', [('t', 'S')], lambda t: base.rot2(t, unit='deg'))
    g.trace('tr_xyt2tr', [('a', 'V3')], lambda a: base.xyt2tr(a))
    g.trace('tr_xyt2tr_deg', [('a', 'V3')], lambda a: base.xyt2tr(a, unit='deg'))
    g.trace('tr_SE2_xyt', [('a', 'V3')], lambda a: SE2(a[0], a[1], a[2]).A)
    # ---- UnitQuaternion constructors.  RPY / Eul hand base.r2q ONE matrix: the real constructor is executed on symbols with
    # base.r2q replaced (in this process) by a recorder, the trace is the matrix it was given (per order / alias / unit);
    # r2q itself is the model C04_R2q.r2q_100 (q2r (r2q A) = A proved for every rotation, Model/C04_R2qProofs.v), tied below.
    import spatialmath.base.quaternions as _bq

    def r2q_argument(call):
        rec = []
        saved = (base.r2q, _bq.r2q)

        def recorder(R, *a, **k):
            rec.append(R)
            return np.array([1.0, 0.0, 0.0, 0.0])
        base.r2q = _bq.r2q = recorder
        try:
            call()
        finally:
            base.r2q, _bq.r2q = saved
        if len(rec) != 1:
            raise RuntimeError(f"the constructor called base.r2q {len(rec)} times (expected once, on the rotation matrix)")
        return rec[0]
    for o, alias in ORDERS.items():
        for nm_, od_ in ((o, o), (alias, alias)):
            g.trace(f'tr_UQ_RPY_arg_{nm_}', S3, (lambda od_: lambda r, p, y: r2q_argument(lambda: UnitQuaternion.RPY([r, p, y], order=od_)))(od_),
                    num_fn=(lambda od_: lambda r, p, y: UnitQuaternion.RPY([r, p, y], order=od_).R)(od_), tol=1e-9)
        g.trace(f'tr_UQ_RPY_arg_deg_{o}', S3, (lambda o: lambda r, p, y: r2q_argument(lambda: UnitQuaternion.RPY([r, p, y], order=o, unit='deg')))(o),
                num_fn=(lambda o: lambda r, p, y: UnitQuaternion.RPY([r, p, y], order=o, unit='deg').R)(o), tol=1e-9)
    g.trace('tr_UQ_RPY_arg_default', S3, lambda r, p, y: r2q_argument(lambda: UnitQuaternion.RPY([r, p, y])),
            num_fn=lambda r, p, y: UnitQuaternion.RPY([r, p, y]).R, tol=1e-9)
    g.trace('tr_UQ_Eul_arg', E3, lambda f, t, s: r2q_argument(lambda: UnitQuaternion.Eul([f, t, s])),
            num_fn=lambda f, t, s: UnitQuaternion.Eul([f, t, s]).R, tol=1e-9)
    g.trace('tr_UQ_Eul_arg_deg', E3, lambda f, t, s: r2q_argument(lambda: UnitQuaternion.Eul([f, t, s], unit='deg')),
            num_fn=lambda f, t, s: UnitQuaternion.Eul([f, t, s], unit='deg').R, tol=1e-9)
    # elementary rotations and axis-angle: the quaternion itself is traced (no r2q on these paths)
    set_val({'a': 0.4})
    for ax_ in 'xyz':
        g.trace(f'tr_UQ_R{ax_}', [('a', 'S')], (lambda ax_: lambda a: getattr(UnitQuaternion, 'R' + ax_)(a).vec)(ax_))
        g.trace(f'tr_UQ_R{ax_}_deg', [('a', 'S')], (lambda ax_: lambda a: getattr(UnitQuaternion, 'R' + ax_)(a, 'deg').vec)(ax_))
    set_val({'v0': 0.3, 'v1': -0.5, 'v2': 0.8, 'th': 0.7})
    with concolic.object_alloc():
        g.trace('tr_UQ_AngVec', [('th', 'S'), ('v', 'V3')], lambda th, v: UnitQuaternion.AngVec(th, v).vec,
                sampler=lambda rng: [float(rng.uniform(-PI, PI)), rand_unit(rng) * log_uniform(rng, 1e-3, 1e3)], tol=1e-9)
    # quaternion route of the UnitQuaternion accessors (rpy/eul/angvec all go through .R): both representatives give one matrix
    g.trace('tr_q2r', [('q', 'V4')], lambda q: base.q2r(q))
    def uq_R(q):
        x = UnitQuaternion()
        x.data = [q]              # the constructor cannot take symbols; the accessor .R is executed on the symbolic value
        return x.R
    g.trace('tr_UQ_R', [('q', 'V4')], uq_R, num_fn=lambda q: UnitQuaternion(q, norm=False, check=False).R,
            sampler=lambda rng: [rand_unit(rng, 4)])      # unit quaternions of either sign of the scalar part
    # axis-angle: Rodrigues about the normalised axis (path: |v| >= 10 eps; the norm test is decided concolically)
    set_val({'v0': 0.3, 'v1': -0.5, 'v2': 0.8, 'th': 0.7})
    with concolic.object_alloc():
        concolic.PATH.clear()
        g.trace('tr_angvec2r', [('th', 'S'), ('v', 'V3')], lambda th, v: base.angvec2r(th, v),
                sampler=lambda rng: [float(rng.uniform(-PI, PI)), rand_unit(rng) * log_uniform(rng, 1e-3, 1e3)], tol=1e-9)
        ctx.stats['angvec2r_path'] = [f"{str(r)} -> {v}" for r, v in concolic.PATH]

    # ---- hand models instantiated with the regenerated thresholds (defined at the end of the generated file)
    defs = []

    def av_sampler(rng):
        th = 10 ** float(rng.uniform(-6, 0.49)) if rng.random() < 0.5 else PI - 10 ** float(rng.uniform(-6, 0))
        return [np.array(rot_from_axis_angle(rand_unit(rng), min(th, PI - 1e-6)), float)]

    def av_num(R):
        t, v = base.tr2angvec(R)
        return np.r_[t, v]
    def r2q_sampler(rng):
        u = rng.random()
        th = PI - log_uniform(rng, 1e-9, 1e-1) if u < 0.25 else (log_uniform(rng, 1e-9, 1e-1) if u < 0.4 else rng.uniform(0, PI))
        ax = np.eye(3)[rng.integers(3)] * rng.choice([-1.0, 1.0]) if rng.random() < 0.3 else rand_unit(rng)
        return [np.array(rot_from_axis_angle(ax, th), float)]
    defs.append("Definition m_r2q {T} (O : ops T) (R : M33 T) := SM.Model.C04_R2q.r2q_100 O R.\n")
    g.model('m_r2q', [('R', 'M33')], 'V4', coq='m_r2q', module='Model.C04_R2q', num_fn=lambda R: base.r2q(R), sampler=r2q_sampler, tol=1e-7,
            note='r2q model of Model/C04_R2q.v (owned by C04), tied here because Props/C05_d.v relies on its round-trip theorem')
    defs.append("Definition m_tr2angvec_general {T} (O : ops T) (R : M33 T) := angvec_general O R.\n")
    g.model('m_tr2angvec_general', [('R', 'M33')], 'V4', coq='m_tr2angvec_general', module='Model.C05_Angvec', num_fn=av_num,
            sampler=av_sampler, tol=1e-9)
    if consts is None:          # the skeleton no longer matches: no model instance, Props/C05_b.v is reported as not shown
        return g, "".join(defs)

    def model(name, body, inputs, out, num_fn, sampler):
        binders = " ".join(f"({an} : {'T' if sh == 'S' else sh + ' T'})" for an, sh in inputs)
        defs.append(f"Definition {name} {{T}} (O : ops T) {binders} := {body}.\n")
        g.model(name, inputs, out, coq=name, module='Model.C05_Angles', num_fn=num_fn, sampler=sampler)

    for o, alias in ORDERS.items():
        c = f"(of_Z O c_tr2rpy_{o})"
        for deg in (False, True):
            u = 'deg' if deg else 'rad'
            b = 'true' if deg else 'false'
            model(f'm_tr2rpy_{o}_{u}', f"tr2rpy_{o}_u O {c} {b} R", [('R', 'M33')], 'V3',
                  (lambda o, u: lambda R: base.tr2rpy(R, order=o, unit=u))(o, u), Cycle(directed_rpy(o), rand_rpy_matrix(o)))
            model(f'm_tr2rpy_{alias}_{u}_se3', f"tr2rpy_{o}_u4 O {c} {b} A", [('A', 'M44')], 'V3',
                  (lambda o, u: lambda A: base.tr2rpy(A, order=o, unit=u))(alias, u), Cycle(directed_rpy(o), rand_rpy_matrix(o), se3=True))
    ce = "(of_Z O c_tr2eul_1) (of_Z O c_tr2eul_2)"
    for flip in (False, True):
        for deg in (False, True):
            u = 'deg' if deg else 'rad'
            nm = f"m_tr2eul_{'flip' if flip else 'noflip'}_{u}"
            fb, db = ('true' if flip else 'false'), ('true' if deg else 'false')
            model(nm, f"tr2eul_u O {ce} {fb} {db} R", [('R', 'M33')], 'V3',
                  (lambda flip, u: lambda R: base.tr2eul(R, flip=flip, unit=u))(flip, u), Cycle(directed_eul(), rand_eul_matrix))
            model(nm + '_se3', f"tr2eul_u4 O {ce} {fb} {db} A", [('A', 'M44')], 'V3',
                  (lambda flip, u: lambda A: base.tr2eul(A, flip=flip, unit=u))(flip, u), Cycle(directed_eul(), rand_eul_matrix, se3=True))

    def se2s(rng):
        th = float(rng.choice([0, PI / 2, -PI / 2, PI, -PI, rng.uniform(-PI, PI)])) + float(rng.choice([0, 1, -1])) * log_uniform(rng, 1e-12, 1e-1)
        return [np.array(base.xyt2tr([rng.normal(), rng.normal(), th]), float)]
    for deg in (False, True):
        u = 'deg' if deg else 'rad'
        model(f'm_tr2xyt_{u}', f"tr2xyt O {'true' if deg else 'false'} A", [('A', 'M33')], 'V3',
              (lambda u: lambda A: base.tr2xyt(A, unit=u))(u), se2s)
        model(f'm_theta2_{u}', f"theta2 O {'true' if deg else 'false'} A", [('A', 'M22')], 'S',
              (lambda u: lambda A: SO2(A, check=False).theta(unit=u))(u), lambda rng: [se2s(rng)[0][:2, :2]])
        model(f'm_SE2_xyt_theta_{u}', f"theta2 O {'true' if deg else 'false'} (t2r2 A)", [('A', 'M33')], 'S',
              (lambda u: lambda A: SE2(A, check=False).theta(unit=u))(u), se2s)
    return g, "".join(defs)


def gen_text(g, defs, consts):
    txt = g.coq_text()
    txt = txt.replace("From SM Require Import Base.Ops.\n",
                      "From SM Require Import Base.Ops Base.Lin Model.C05_Angles Model.C05_Angvec Model.C04_R2q.\nFrom SMgen Require Import Consts_C05.\n", 1)
    txt += "\n(* hand models of theories/Model/C05_Angles.v instantiated with the thresholds regenerated from the source *)\n" + defs
    return txt


def consts_text(consts):
    lines = ["(* GENERATED on every run by /verif/props/C05.py from the AST of /repo's tr2rpy / tr2eul: the factor k of every\n"
             "   `k * _eps` test, in source order.  Do not edit. *)\nFrom Coq Require Import ZArith.\n"]
    for k, v in consts.items():
        lines.append(f"Definition {k} : Z := ({v})%Z.\n")
    return "".join(lines)


# ------------------------------------------------------------------------------------------------------------
# 5. oracle
# ------------------------------------------------------------------------------------------------------------
def hexl(a):
    return [float(x).hex() for x in np.asarray(a, float).flatten()]


BAND_OFFSETS = [s * v for v in (2e-8, 5e-8, 6.5e-8, 6.7e-8, 7e-8, 2e-7) for s in (1.0, -1.0)]


def angle_grid(rng, sing, n_rand):
    """middle-angle values: every singular value, +-offsets 1e-12..1e-1 (and the edges of the 10*eps band, |cos| = sqrt(20 eps)
    = 6.7e-8), full-range random"""
    for s in sing:
        for o in OFFSETS + BAND_OFFSETS:
            yield s + o, (s, o)
    for _ in range(n_rand):
        yield float(rng.uniform(-PI, PI)), (None, None)


def uq_variants(rng, q):
    """both double-cover representatives of a unit quaternion and a product form (sign of the scalar part arbitrary):
    every UnitQuaternion extraction is fed all three"""
    a = UnitQuaternion(SO3(np.array(base.rpy2r(*rng.uniform(-PI, PI, 3)), float), check=False))
    qs = {'UQ': q, 'UQneg': UnitQuaternion(-np.asarray(q.vec, float), norm=False, check=False), 'UQprod': a * (a.inv() * q)}
    s0 = float(qs['UQ'].vec[0])
    if s0 != 0 and not (np.sign(qs['UQneg'].vec[0]) == -np.sign(s0)):
        raise RuntimeError('harness: could not build the opposite double-cover representative')
    return qs


def oracle_rpy(ctx):
    rng = ctx.rng
    nr = ctx.n(300, 3500)
    reps = ctx.n(4, 10)
    for order, alias in ORDERS.items():
        for p, (s, o) in angle_grid(rng, [PI / 2, -PI / 2], nr):
            for _ in range(reps):
                r, y = rng.uniform(-PI, PI, 2)
                if rng.random() < 0.15:
                    r = float(rng.choice([0, PI / 2, -PI / 2, PI]))
                if rng.random() < 0.15:
                    y = float(rng.choice([0, PI / 2, -PI / 2, PI]))
                R0 = np.array(base.rpy2r(r, p, y, order=order), float)
                Q = np.array(base.rpy2r(*rng.uniform(-PI, PI, 3)), float)
                inputs = {
                    'base33': (R0, lambda R, od, u: base.tr2rpy(R, order=od, unit=u)),
                    'base44': (R0, lambda R, od, u: base.tr2rpy(r2t(R), order=od, unit=u)),
                    'SO3': (R0, lambda R, od, u: SO3(R, check=False).rpy(order=od, unit=u)),
                    'SE3': (R0, lambda R, od, u: SE3(r2t(R), check=False).rpy(order=od, unit=u)),
                    'UQ': (None, None),
                    'composed': (Q.T @ (Q @ R0), lambda R, od, u: base.tr2rpy(R, order=od, unit=u)),
                }
                del inputs['UQ']
                for nm_, q in uq_variants(rng, UnitQuaternion.RPY([r, p, y], order=order)).items():
                    inputs[nm_] = (np.array(q.R, float), lambda R, od, u, q=q: q.rpy(order=od, unit=u))
                for site, (R, f) in inputs.items():
                    od = alias if rng.random() < 0.3 else order
                    sig = ('rpy', site, order, s, o)
                    ctx.case(sig + (r, y))
                    ctx.count(f'oracle:rpy:{site}')
                    rep = {'site': site, 'order': od, 'angles_in': [r, p, y], 'R_hex': hexl(R), 'singular_value': s, 'offset': o}
                    try:
                        a = np.asarray(f(R, od, 'rad'), float)
                        d = np.asarray(f(R, od, 'deg'), float)
                    except Exception as ex:
                        ctx.fail(f'oracle:rpy:{site}:raises:{type(ex).__name__}', f"tr2rpy via {site} raises {type(ex).__name__}: {ex}", rep)
                        continue
                    rep['angles_out'] = a.tolist()
                    if site.startswith('UQ') and not np.allclose(a, np.asarray(base.tr2rpy(R, order=od), float), rtol=0, atol=1e-12):
                        ctx.fail(f'oracle:rpy:{site}:differs-from-base', f"UnitQuaternion.rpy gives {a}, base.tr2rpy on its rotation matrix {base.tr2rpy(R, order=od)}", rep)
                    err = float(np.max(np.abs(np.array(base.rpy2r(a, order=order), float) - R))) if np.all(np.isfinite(a)) else float('inf')
                    ctx.stats['worst:rpy:rebuild'] = max(ctx.stats.get('worst:rpy:rebuild', 0.0), err)
                    if not err <= 1e-6:
                        ctx.fail(f'oracle:rpy:{site}:rebuild', f"rpy2r(tr2rpy(R)) differs from R by {err:g} (order {od}, via {site})", rep)
                    if not (np.all(np.abs(a) <= PI) and abs(a[1]) <= PI / 2):
                        ctx.fail(f'oracle:rpy:{site}:range', f"extracted angles {a} outside [-pi,pi] / pitch outside [-pi/2,pi/2]", rep)
                    if not np.all(np.abs(d - a * 180 / PI) <= 1e-9 * 180):
                        ctx.fail(f'oracle:rpy:{site}:deg', f"degrees {d} != radians*180/pi {a * 180 / PI}", rep)
                    errd = float(np.max(np.abs(np.array(base.rpy2r(d, order=order, unit='deg'), float) - R)))
                    if not errd <= 1e-6:
                        ctx.fail(f'oracle:rpy:{site}:rebuild-deg', f"rpy2r(tr2rpy(R,'deg'),'deg') differs from R by {errd:g}", rep)
    ctx.sample({'kind': 'oracle', 'what': 'rpy rebuild', 'last': rep})


def oracle_eul(ctx):
    rng = ctx.rng
    nr = ctx.n(300, 4000)
    reps = ctx.n(3, 8)
    offs = OFFSETS + [s * 10.0 ** -k for k in (13, 14, 15, 16) for s in (1, -1)] + [2.2e-15, 2.3e-15, 3e-15]
    sing = [0.0, PI, -PI]
    grid = [(s + o, (s, o)) for s in sing for o in offs] + [(float(rng.uniform(-PI, PI)), (None, None)) for _ in range(nr)]
    for b, (s, o) in grid:
        for _ in range(reps):
            a0, c0 = rng.uniform(-PI, PI, 2)
            R0 = np.array(base.eul2r(a0, b, c0), float)
            Q = np.array(base.rpy2r(*rng.uniform(-PI, PI, 3)), float)
            q = UnitQuaternion.Eul([a0, b, c0])
            sites = {
                'base33': (R0, lambda R, fl, u: base.tr2eul(R, flip=fl, unit=u)),
                'base44': (R0, lambda R, fl, u: base.tr2eul(r2t(R), flip=fl, unit=u)),
                'SO3': (R0, lambda R, fl, u: SO3(R, check=False).eul(flip=fl, unit=u)),
                'SE3': (R0, lambda R, fl, u: SE3(r2t(R), check=False).eul(flip=fl, unit=u)),
                'composed': (Q.T @ (Q @ R0), lambda R, fl, u: base.tr2eul(R, flip=fl, unit=u)),
            }
            for nm_, qv in uq_variants(rng, q).items():
                sites[nm_] = (np.array(qv.R, float), lambda R, fl, u, q=qv: q.eul(unit=u))
            for site, (R, f) in sites.items():
                for fl in (False, True):
                    ctx.case(('eul', site, fl, s, o, a0, c0))
                    ctx.count(f'oracle:eul:{site}')
                    rep = {'site': site, 'flip': fl, 'angles_in': [a0, b, c0], 'R_hex': hexl(R), 'singular_value': s, 'offset': o}
                    try:
                        e = np.asarray(f(R, fl, 'rad'), float)
                        d = np.asarray(f(R, fl, 'deg'), float)
                    except Exception as ex:
                        ctx.fail(f'oracle:eul:{site}:raises:{type(ex).__name__}', f"tr2eul via {site} raises {type(ex).__name__}: {ex}", rep)
                        continue
                    rep['angles_out'] = e.tolist()
                    if site.startswith('UQ') and not np.allclose(e, np.asarray(base.tr2eul(R), float), rtol=0, atol=1e-12):
                        ctx.fail(f'oracle:eul:{site}:differs-from-base', f"UnitQuaternion.eul gives {e}, base.tr2eul on its rotation matrix {base.tr2eul(R)}", rep)
                    err = float(np.max(np.abs(np.array(base.eul2r(e), float) - R))) if np.all(np.isfinite(e)) else float('inf')
                    ctx.stats['worst:eul:rebuild'] = max(ctx.stats.get('worst:eul:rebuild', 0.0), err)
                    if not err <= 1e-6:
                        ctx.fail(f'oracle:eul:{site}:rebuild', f"eul2r(tr2eul(R, flip={fl})) differs from R by {err:g} (via {site})", rep)
                    if not np.all(np.abs(e) <= PI):
                        ctx.fail(f'oracle:eul:{site}:range', f"Euler angles {e} outside [-pi, pi]", rep)
                    if not np.all(np.abs(d - e * 180 / PI) <= 1e-9 * 180):
                        ctx.fail(f'oracle:eul:{site}:deg', f"degrees {d} != radians*180/pi {e * 180 / PI}", rep)
                    errd = float(np.max(np.abs(np.array(base.eul2r(d, unit='deg'), float) - R))) if np.all(np.isfinite(d)) else float('inf')
                    if not errd <= 1e-6:
                        ctx.fail(f'oracle:eul:{site}:rebuild-deg', f"eul2r(tr2eul(R,'deg'),'deg') differs from R by {errd:g}", rep)


def oracle_angvec(ctx):
    rng = ctx.rng
    nr = ctx.n(1000, 10000)
    reps = ctx.n(4, 10)
    offs = OFFSETS + [s * 10.0 ** -k for k in (13, 14, 15, 16) for s in (1, -1)] + [3e-8, 5e-8, 2e-7, 3e-4, 3e-6, 3e-5, 1.5e-7, 3e-15, 5e-15, 2.1e-14, 2.3e-14]
    grid = [(s + o, (s, o)) for s in (0.0, PI) for o in offs] + [(10 ** float(rng.uniform(-12, 0.497)), (None, None)) for _ in range(ctx.n(300, 2500))] + [(PI - 10 ** float(rng.uniform(-16, -1)), (None, None)) for _ in range(ctx.n(300, 2500))] + [(float(rng.uniform(-PI, PI)), (None, None)) for _ in range(nr)]
    for th, (s, o) in grid:
        for _ in range(reps):
            v = rand_unit(rng) if rng.random() < 0.8 else np.eye(3)[rng.integers(3)] * rng.choice([-1.0, 1.0])
            R = np.array(base.angvec2r(th, v * log_uniform(rng, 1e-2, 1e2)), float)
            Rref = rot_from_axis_angle(v, th)
            if np.max(np.abs(R - Rref)) > 1e-9:
                ctx.fail('oracle:angvec2r:not-rodrigues', f"angvec2r differs from rotation by theta about the normalised axis: {np.max(np.abs(R - Rref)):g}",
                         {'theta': th, 'v_hex': hexl(v)})
                R = Rref          # the extraction checks go on with the independent Rodrigues matrix
            th_true = abs(math.remainder(th, 2 * PI))       # rotation angle in [0, pi]
            q = UnitQuaternion(SO3(R, check=False))
            sites = {
                'base': lambda u: base.tr2angvec(R, unit=u),
                'base44': lambda u: base.tr2angvec(r2t(R), unit=u),
                'SO3': lambda u: SO3(R, check=False).angvec(unit=u),
                'SE3': lambda u: SE3(r2t(R), check=False).angvec(unit=u),
            }
            uqs = uq_variants(rng, q)
            for nm_, qv in uqs.items():
                sites[nm_] = (lambda u, q=qv: q.angvec(unit=u))
            for site, f in sites.items():
                ctx.case(('angvec', site, s, o, tuple(v)))
                ctx.count(f'oracle:angvec:{site}')
                rep = {'site': site, 'theta_in': th, 'axis_in_hex': hexl(v), 'R_hex': hexl(R), 'singular_value': s, 'offset': o}
                Rin = np.array(uqs[site].R, float) if site in uqs else R
                try:
                    with np.errstate(all='ignore'):
                        t, ax = f('rad')
                        td, axd = f('deg')
                    ok_val = ax is not None and np.isfinite(t) and np.all(np.isfinite(np.asarray(ax, float)))
                    Rb = np.array(base.angvec2r(float(t), np.asarray(ax, float)), float) if ok_val else None
                except Exception as ex:
                    ctx.fail(f'oracle:angvec:{site}:raises:{type(ex).__name__}', f"tr2angvec via {site} raises {type(ex).__name__}: {ex}", rep)
                    continue
                rep['out'] = [None if not np.isfinite(t) else float(t), None if ax is None else np.asarray(ax, float).tolist()]
                if not ok_val:
                    # (theta, None) for angles in (10 eps, 100 eps) was repaired by /repo 7d9131b + d900630; generic key
                    ctx.fail(f'oracle:angvec:{site}:undefined', f"tr2angvec returns (theta={t!r}, axis={ax}) for a rotation by {th_true:g} rad", rep)
                    continue
                ax = np.asarray(ax, float)
                err = float(np.max(np.abs(Rb - Rin)))
                if th_true > 1e-3 and PI - th_true > 1e-3:
                    ctx.stats['worst:angvec:rebuild:generic'] = max(ctx.stats.get('worst:angvec:rebuild:generic', 0.0), err)
                if site in uqs:
                    tb_, axb_ = base.tr2angvec(Rin)
                    if not (abs(t - tb_) <= 1e-12 and np.allclose(ax, np.asarray(axb_, float), rtol=0, atol=1e-12)):
                        ctx.fail(f'oracle:angvec:{site}:differs-from-base', f"UnitQuaternion.angvec gives ({t!r}, {ax}) for q = {uqs[site].vec}, "
                                 f"base.tr2angvec on its rotation matrix ({tb_!r}, {axb_})", dict(rep, q=np.asarray(uqs[site].vec, float).tolist()))
                ctx.stats['worst:angvec:rebuild'] = max(ctx.stats.get('worst:angvec:rebuild', 0.0), err)
                if not err <= 1e-6:
                    ctx.fail(f'oracle:angvec:{site}:rebuild', f"angvec2r(tr2angvec(R)) differs from R by {err:g} (rotation angle {th_true:g})", rep)
                ctx.stats['worst:angvec:angle-over-pi'] = max(ctx.stats.get('worst:angvec:angle-over-pi', 0.0), float(t) - PI)
                if not (0 <= t <= PI * (1 + 2 * EPS)):
                    ctx.fail(f'oracle:angvec:{site}:range', f"rotation angle {t!r} outside [0, pi]", rep)
                if abs(t - th_true) > 1e-6 and not (PI - th_true < 1e-6):
                    ctx.fail(f'oracle:angvec:{site}:angle', f"extracted angle {t!r} differs from the rotation angle {th_true!r}", rep)
                n = float(np.linalg.norm(ax))
                if not (abs(n - 1) <= 1e-9 or (n == 0 and t == 0)):
                    ctx.fail(f'oracle:angvec:{site}:axis', f"axis {ax} is neither unit nor (zero with zero angle); theta={t}", rep)
                if not (abs(td - t * 180 / PI) <= 1e-9 * 180 and np.allclose(np.asarray(axd, float), ax, atol=1e-12)):
                    ctx.fail(f'oracle:angvec:{site}:deg', f"degrees {td} != radians*180/pi {t * 180 / PI}", rep)


def oracle_planar(ctx):
    rng = ctx.rng
    nr = ctx.n(2000, 50000)
    grid = [s + o for s in (0.0, PI / 2, -PI / 2, PI, -PI) for o in OFFSETS] + [float(rng.uniform(-PI, PI)) for _ in range(nr)]
    for th in grid:
        x, y = rng.normal(size=2) * log_uniform(rng, 1e-3, 1e3)
        T = np.array(base.xyt2tr([x, y, th]), float)
        rep = {'xyt_in': [x, y, th], 'T_hex': hexl(T)}
        ctx.case(('planar', th, x, y))
        ctx.count('oracle:planar')
        try:
            a = np.asarray(base.tr2xyt(T), float)
            ad = np.asarray(base.tr2xyt(T, unit='deg'), float)
            b = np.asarray(SE2(T, check=False).xyt(), float)
            t1, t1d = SE2(T, check=False).theta(), SE2(T, check=False).theta(unit='deg')
            t2, t2d = SO2(T[:2, :2], check=False).theta(), SO2(T[:2, :2], check=False).theta(unit='deg')
        except Exception as ex:
            ctx.fail(f'oracle:planar:raises:{type(ex).__name__}', f"planar extraction raises {type(ex).__name__}: {ex}", rep)
            continue
        for nm, v in (('tr2xyt', a), ('SE2.xyt', b)):
            err = float(np.max(np.abs(np.array(base.xyt2tr(v), float) - T)))
            if not err <= 1e-6 * max(1, abs(x), abs(y)):
                ctx.fail(f'oracle:planar:{nm}:rebuild', f"xyt2tr({nm}(T)) differs from T by {err:g}", rep)
            if not abs(v[2]) <= PI:
                ctx.fail(f'oracle:planar:{nm}:range', f"theta {v[2]} outside [-pi, pi]", rep)
        for nm, t in (('SE2.theta', t1), ('SO2.theta', t2)):
            if not np.max(np.abs(np.array(base.rot2(t), float) - T[:2, :2])) <= 1e-6:
                ctx.fail(f'oracle:planar:{nm}:rebuild', f"rot2({nm}) differs from the rotation block", rep)
        for nm, r_, d_ in (('SE2.theta', t1, t1d), ('SO2.theta', t2, t2d)):
            if not abs(d_ - r_ * 180 / PI) <= 1e-9 * 180:
                ctx.fail(f'oracle:planar:{nm}:deg', f"{nm}('deg') = {d_} != radians*180/pi = {r_ * 180 / PI}", rep)
        if abs(a[2]) > 1e-9 and not abs(ad[2] - a[2] * 180 / PI) <= 1e-9 * 180:
            rep['out_rad'], rep['out_deg'] = a.tolist(), ad.tolist()
            ctx.fail('oracle:planar:tr2xyt:deg', f"tr2xyt(T, unit='deg') theta {ad[2]} != {a[2] * 180 / PI}", rep)


def oracle_multi(ctx):
    """class accessors on MULTI-valued receivers (2..4 elements): element by element against the base function on that
    element, and every element rebuilt.  Layout as the code has it: SO3/SE3 return one COLUMN per element, UnitQuaternion
    one ROW per element."""
    rng = ctx.rng
    n_obj = ctx.n(60, 1500)
    for it in range(n_obj):
        n = int(rng.integers(2, 5))
        Rs = []
        for _ in range(n):
            u = rng.random()
            if u < 0.3:
                od0 = str(rng.choice(list(ORDERS)))
                Rs.append(np.array(base.rpy2r(rng.uniform(-PI, PI), float(rng.choice([PI / 2, -PI / 2])) + float(rng.choice(OFFSETS)),
                                              rng.uniform(-PI, PI), order=od0), float))
            elif u < 0.5:
                Rs.append(np.array(base.eul2r(rng.uniform(-PI, PI), float(rng.choice([0, PI])) + float(rng.choice(OFFSETS)), rng.uniform(-PI, PI)), float))
            else:
                Rs.append(np.array(base.rpy2r(*rng.uniform(-PI, PI, 3)), float))
        objs = {'SO3': SO3(Rs, check=False), 'SE3': SE3([r2t(R, rng.normal(size=3)) for R in Rs], check=False),
                'UQ': UnitQuaternion([(-1.0 if (i == it % n or rng.random() < 0.5) else 1.0) * np.asarray(base.r2q(R), float) for i, R in enumerate(Rs)],
                                      norm=False, check=False)}
        for site, X in objs.items():
            elem = (lambda a, i: np.asarray(a, float)[i]) if site == 'UQ' else (lambda a, i: np.asarray(a, float)[:, i])
            Rel = [np.array(x.R, float) for x in X] if site == 'UQ' else Rs
            rep0 = {'site': site + '[multi]', 'n': n, 'R_hex': [hexl(R) for R in Rs]}
            for order, alias in ORDERS.items():
                for od in (order, alias):
                    for u in ('rad', 'deg'):
                        ctx.case(('multi-rpy', site, od, u, it))
                        ctx.count(f'oracle:multi:rpy:{site}')
                        rep = dict(rep0, order=od, unit=u)
                        try:
                            A = X.rpy(order=od, unit=u)
                            if np.asarray(A).shape != ((n, 3) if site == 'UQ' else (3, n)):
                                ctx.fail(f'oracle:multi:rpy:{site}:shape', f"{site}.rpy on {n} elements returns shape {np.asarray(A).shape}", rep)
                                continue
                            for i in range(n):
                                a = elem(A, i)
                                ref = np.asarray(base.tr2rpy(Rel[i], order=od, unit=u), float)
                                err = float(np.max(np.abs(np.array(base.rpy2r(a, order=order, unit=u), float) - Rel[i])))
                                if not np.allclose(a, ref, rtol=0, atol=1e-12 * (180 if u == 'deg' else 1)) or not err <= 1e-6:
                                    ctx.fail(f'oracle:multi:rpy:{site}:element', f"{site}.rpy(order={od!r}, unit={u!r}) on a {n}-element object: element {i} "
                                             f"is {a}, base.tr2rpy on that element gives {ref}; rebuild error {err:g}", dict(rep, element=i, got=a.tolist(), base=ref.tolist()))
                        except Exception as ex:
                            ctx.fail(f'oracle:multi:rpy:{site}:raises:{type(ex).__name__}', f"{site}.rpy on a {n}-element object raises {type(ex).__name__}: {ex}", rep)
            for fl in ((False,) if site == 'UQ' else (False, True)):
                for u in ('rad', 'deg'):
                    ctx.case(('multi-eul', site, fl, u, it))
                    ctx.count(f'oracle:multi:eul:{site}')
                    rep = dict(rep0, flip=fl, unit=u)
                    try:
                        A = X.eul(unit=u) if site == 'UQ' else X.eul(unit=u, flip=fl)
                        if np.asarray(A).shape != ((n, 3) if site == 'UQ' else (3, n)):
                            ctx.fail(f'oracle:multi:eul:{site}:shape', f"{site}.eul on {n} elements returns shape {np.asarray(A).shape}", rep)
                            continue
                        for i in range(n):
                            a = elem(A, i)
                            err = float(np.max(np.abs(np.array(base.eul2r(a, unit=u), float) - Rel[i])))
                            lim = 180.0 if u == 'deg' else PI
                            if not err <= 1e-6 or not np.all(np.abs(a) <= lim * (1 + 1e-12)):
                                ctx.fail(f'oracle:multi:eul:{site}:element', f"{site}.eul(unit={u!r}, flip={fl}) on a {n}-element object: element {i} = {a}, "
                                         f"rebuild error {err:g}", dict(rep, element=i, got=a.tolist()))
                    except Exception as ex:
                        ctx.fail(f'oracle:multi:eul:{site}:raises:{type(ex).__name__}', f"{site}.eul on a {n}-element object raises {type(ex).__name__}: {ex}", rep)
            for u in ('rad', 'deg'):
                ctx.case(('multi-angvec', site, u, it))
                ctx.count(f'oracle:multi:angvec:{site}')
                rep = dict(rep0, unit=u)
                try:
                    with np.errstate(all='ignore'):
                        res = X.angvec(unit=u)
                    # one (angle, axis) pair per value (since /repo 3803e60; before, the N x 3 x 3 stack went to tr2angvec: ValueError)
                    if not (isinstance(res, (list, tuple)) and len(res) == n and all(isinstance(p_, (list, tuple)) and len(p_) == 2 for p_ in res)):
                        ctx.fail(f'oracle:multi:angvec:{site}:layout', f"{site}.angvec on a {n}-element object does not return {n} (angle, axis) pairs: {res!r}"[:400], rep)
                        continue
                    lim = 180.0 if u == 'deg' else PI
                    for i in range(n):
                        t, ax = float(res[i][0]), (None if res[i][1] is None else np.asarray(res[i][1], float))
                        tb, axb = base.tr2angvec(Rel[i], unit=u)
                        if ax is None or not np.isfinite(t) or not np.all(np.isfinite(ax)):
                            ctx.fail(f'oracle:multi:angvec:{site}:element', f"{site}.angvec on a {n}-element object: element {i} = ({t}, {ax})", dict(rep, element=i))
                            continue
                        err = float(np.max(np.abs(np.array(base.angvec2r(t, ax, unit=u), float) - Rel[i])))
                        nax = float(np.linalg.norm(ax))
                        if (not (abs(t - tb) <= 1e-9 * 180 and np.allclose(ax, axb, atol=1e-9)) or not err <= 1e-6
                                or not (0 <= t <= lim * (1 + 2 * EPS)) or not (abs(nax - 1) <= 1e-9 or (nax == 0 and t == 0))):
                            ctx.fail(f'oracle:multi:angvec:{site}:element', f"{site}.angvec(unit={u!r}) on a {n}-element object: element {i} = ({t}, {ax}), base gives "
                                     f"({tb}, {axb}); rebuild error {err:g}", dict(rep, element=i))
                except Exception as ex:
                    ctx.fail(f'oracle:multi:angvec:{site}:raises:{type(ex).__name__}', f"{site}.angvec on a {n}-element object raises {type(ex).__name__}: {ex}", rep)


def oracle_multi_planar(ctx):
    """SO2 / SE2 holding 2..4 values: theta(unit) and xyt() element by element against the single-valued call, each rebuilt"""
    rng = ctx.rng
    for it in range(ctx.n(60, 1500)):
        n = int(rng.integers(2, 5))
        ths = [float(rng.choice([0, PI / 2, -PI / 2, PI, rng.uniform(-PI, PI)])) + float(rng.choice([0, 1, -1])) * log_uniform(rng, 1e-12, 1e-1) for _ in range(n)]
        Ts = [np.array(base.xyt2tr([rng.normal(), rng.normal(), t]), float) for t in ths]
        rep = {'site': 'SE2/SO2[multi]', 'n': n, 'T_hex': [hexl(T) for T in Ts]}
        ctx.case(('multi-planar', it))
        ctx.count('oracle:multi:planar')
        try:
            X, Y = SE2(Ts, check=False), SO2([T[:2, :2] for T in Ts], check=False)
            for u in ('rad', 'deg'):
                for nm, obj in (('SE2', X), ('SO2', Y)):
                    got = np.asarray(obj.theta(unit=u), float)
                    ref = np.array([type(obj)(x.A, check=False).theta(unit=u) for x in obj], float)
                    if got.shape != (n,) or not np.allclose(got, ref, rtol=0, atol=1e-12 * 180):
                        ctx.fail(f'oracle:multi:planar:{nm}.theta', f"{nm}.theta(unit={u!r}) on {n} values gives {got}, element-wise {ref}", rep)
                    for i in range(n if got.shape == (n,) else 0):
                        if not np.max(np.abs(np.array(base.rot2(got[i], unit=u), float) - Ts[i][:2, :2])) <= 1e-6:
                            ctx.fail(f'oracle:multi:planar:{nm}.theta:rebuild', f"rot2({nm}.theta()[{i}]) differs from the rotation block", dict(rep, element=i))
            xs = X.xyt()
            for i in range(n):
                if len(xs) != n or not np.max(np.abs(np.array(base.xyt2tr(np.asarray(xs[i], float)), float) - Ts[i])) <= 1e-6 * max(1, np.max(np.abs(Ts[i]))):
                    ctx.fail('oracle:multi:planar:SE2.xyt:rebuild', f"xyt2tr(SE2.xyt()[{i}]) differs from element {i}", dict(rep, element=i))
        except Exception as ex:
            ctx.fail(f'oracle:multi:planar:raises:{type(ex).__name__}', f"planar accessor on a {n}-valued object raises {type(ex).__name__}: {ex}", rep)


def _elem(axis, a):
    return rot_from_axis_angle(np.eye(3)['xyz'.index(axis)], a)


DOC_PRODUCT = {'zyx': lambda r, p, y: _elem('z', y) @ _elem('y', p) @ _elem('x', r),
               'xyz': lambda r, p, y: _elem('x', y) @ _elem('y', p) @ _elem('z', r),
               'yxz': lambda r, p, y: _elem('y', y) @ _elem('x', p) @ _elem('z', r)}


def oracle_uq_constructors(ctx):
    """constructor side for the quaternion class, per option: UnitQuaternion.RPY (every order + alias + default), Eul, AngVec,
    EulerVec, Rx/Ry/Rz; single value and N-valued forms; rad/deg -- against the documented axis-order product built from
    independent elementary rotations, and against the matrix constructors"""
    rng = ctx.rng

    def ang():
        u = rng.random()
        if u < 0.35:
            return float(rng.choice([0, PI / 2, -PI / 2, PI, -PI, PI / 3, 2 * PI / 3])) + float(rng.choice([0, 1, -1])) * log_uniform(rng, 1e-12, 1e-1)
        return float(rng.uniform(-PI, PI))

    def chk(key, q, Rdoc, rep):
        ctx.case((key, tuple(np.round(Rdoc.flatten(), 12))))
        ctx.count('oracle:uqctor:' + key.split(':')[0])
        v = np.asarray(q.vec, float)
        Rq = np.array(q.R, float)
        err = float(np.max(np.abs(Rq - Rdoc)))
        ctx.stats['worst:uqctor'] = max(ctx.stats.get('worst:uqctor', 0.0), err)
        if not err <= 1e-9 or not abs(float(v @ v) - 1) <= 1e-9:
            ctx.fail(f'oracle:uqctor:{key}', f"UnitQuaternion.{key}: rotation matrix of the result differs from the documented product by {err:g} "
                     f"(|q|^2 - 1 = {float(v @ v) - 1:g})", dict(rep, q=v.tolist(), documented_hex=hexl(Rdoc)))

    for it in range(ctx.n(150, 1000)):
        r, p, y = ang(), ang(), ang()
        n = int(rng.integers(2, 5))
        rows = np.array([[ang(), ang(), ang()] for _ in range(n)])
        for u, k in (('rad', 1.0), ('deg', 180 / PI)):
            try:
                for order, alias in ORDERS.items():
                    for od in (order, alias):
                        rep = {'ctor': 'RPY', 'order': od, 'unit': u, 'angles': [r * k, p * k, y * k]}
                        chk(f'RPY:{od}:{u}', UnitQuaternion.RPY([r * k, p * k, y * k], order=od, unit=u), DOC_PRODUCT[order](r, p, y), rep)
                        Q = UnitQuaternion.RPY(rows * k, order=od, unit=u)
                        if len(Q) != n:
                            ctx.fail(f'oracle:uqctor:RPY:{od}:{u}:multi-length', f"UnitQuaternion.RPY of {n} rows holds {len(Q)} values", dict(rep, rows=(rows * k).tolist()))
                        else:
                            for i in range(n):
                                chk(f'RPY:{od}:{u}:multi', Q[i], DOC_PRODUCT[order](*rows[i]), dict(rep, rows=(rows * k).tolist(), element=i))
                        Rm = np.array(base.rpy2r(r * k, p * k, y * k, order=od, unit=u), float)
                        if not np.max(np.abs(Rm - DOC_PRODUCT[order](r, p, y))) <= 1e-9:
                            ctx.fail(f'oracle:ctor:rpy2r:{od}:{u}', "base.rpy2r differs from the documented product", rep)
                        Rs3 = np.array(SO3.RPY([r * k, p * k, y * k], order=od, unit=u).A, float)
                        if not np.max(np.abs(Rs3 - DOC_PRODUCT[order](r, p, y))) <= 1e-9:
                            ctx.fail(f'oracle:ctor:SO3.RPY:{od}:{u}', "SO3.RPY differs from the documented product", rep)
                rep = {'ctor': 'RPY', 'order': 'default', 'unit': u, 'angles': [r * k, p * k, y * k]}
                chk(f'RPY:default:{u}', UnitQuaternion.RPY([r * k, p * k, y * k], unit=u), DOC_PRODUCT['zyx'](r, p, y), rep)
                Rdoc = _elem('z', r) @ _elem('y', p) @ _elem('z', y)
                rep = {'ctor': 'Eul', 'unit': u, 'angles': [r * k, p * k, y * k]}
                chk(f'Eul:{u}', UnitQuaternion.Eul([r * k, p * k, y * k], unit=u), Rdoc, rep)
                Q = UnitQuaternion.Eul(rows * k, unit=u)
                for i in range(min(n, len(Q))):
                    chk(f'Eul:{u}:multi', Q[i], _elem('z', rows[i][0]) @ _elem('y', rows[i][1]) @ _elem('z', rows[i][2]), dict(rep, rows=(rows * k).tolist(), element=i))
                if len(Q) != n:
                    ctx.fail(f'oracle:uqctor:Eul:{u}:multi-length', f"UnitQuaternion.Eul of {n} rows holds {len(Q)} values", rep)
                for axn in 'xyz':
                    rep = {'ctor': 'R' + axn, 'unit': u, 'angle': r * k}
                    chk(f'R{axn}:{u}', getattr(UnitQuaternion, 'R' + axn)(r * k, u), _elem(axn, r), rep)
                    Q = getattr(UnitQuaternion, 'R' + axn)(rows[:, 0] * k, u)
                    for i in range(min(n, len(Q))):
                        chk(f'R{axn}:{u}:multi', Q[i], _elem(axn, rows[i, 0]), dict(rep, angles=(rows[:, 0] * k).tolist(), element=i))
                v = rand_unit(rng) * log_uniform(rng, 1e-2, 1e2)
                rep = {'ctor': 'AngVec', 'unit': u, 'theta': r * k, 'v': v.tolist()}
                chk(f'AngVec:{u}', UnitQuaternion.AngVec(r * k, v, unit=u), rot_from_axis_angle(v, r), rep)
            except Exception as ex:
                ctx.fail(f'oracle:uqctor:raises:{type(ex).__name__}', f"a UnitQuaternion constructor raises {type(ex).__name__}: {ex}"[:400],
                         {'angles': [r, p, y], 'unit': u})
        try:
            w = rand_unit(rng) * (abs(r) if abs(r) > 1e-9 else 0.5)
            chk('EulerVec', UnitQuaternion.EulerVec(w), rot_from_axis_angle(w, float(np.linalg.norm(w))), {'ctor': 'EulerVec', 'w': w.tolist()})
        except Exception as ex:
            ctx.fail(f'oracle:uqctor:EulerVec:raises:{type(ex).__name__}', f"UnitQuaternion.EulerVec raises {type(ex).__name__}: {ex}"[:400], {'w': w.tolist()})


def run(ctx):
    ctx.rule = ("obligations: theorems of theories/Props/C05_a.v, C05_b.v over the constructor traces and threshold constants regenerated from "
                "/repo (+ the fixed lemma library Model/C05_Proofs.v they instantiate); evaluations: T-num cases (hand model vs "
                "tr2rpy/tr2eul/tr2xyt/theta at and around every singular value and threshold) + oracle evaluations (rebuild, range, "
                "deg/rad) on base functions and class methods; a case is distinct by (site, order/flip, singular value, offset, angles)")
    ctx.trusted_extra = ["AST pass props/C05.py:tconst (thresholds k*_eps and if-skeleton of tr2rpy/tr2eul/tr2xyt)",
                         "hand models theories/Model/C05_Angles.v, tied by the float correspondence T-num on every run"]
    with ctx.timed('regenerate'):
        changed = {}
        try:
            consts, changed = tconst(ctx)
        except TConstError as ex:
            ctx.fail('tconst:model-no-longer-corresponds', f"the hand model of the extraction kernels no longer mirrors the source: {ex}",
                     {'detail': str(ex)}, no_input=True)
            consts = None
        g, defs = build(ctx, consts)
        ctx.stats['thresholds'] = consts
        cpath = ctx.write_gen('Consts_C05.v', consts_text(consts or {}))
        tpath = ctx.write_gen(MOD + '.v', gen_text(g, defs, consts))
    rc, out, err, dt = ctx.coqc(cpath)
    if rc == 0:
        rc, out, err, dt = ctx.coqc(tpath)
    if rc != 0:
        ctx.fail('gen:compile', 'generated definitions do not compile: ' + err[-800:], no_input=True)
    else:
        ctx.prove('theories/Props/C05_a.v')       # constructors: axis orders, aliases, call forms, degrees
        ctx.prove('theories/Props/C05_d.v')       # UnitQuaternion constructors: documented axis orders per order / alias / unit
        ctx.prove('theories/Props/C05_c.v')       # axis-angle: general path of tr2angvec is a right inverse of angvec2r
        ctx.prove('theories/Props/C05_b.v')       # extraction: right inverse, singular case, ranges, degrees (needs the thresholds)
        with ctx.timed('correspond'):
            sym_num(ctx, g, MOD, ctx.n(260, 1500))
            # a modelled function whose statements were restructured (same comparisons, different normalised AST):
            # not a violation; its model instances get the thorough number of correspondence cases
            esc = [f for f, c in changed.items() if c]
            if esc and not ctx.thorough:
                import copy
                sub = copy.copy(g)
                sub.traces = [t for t in g.traces if any(t.name.startswith(pref) for f in esc for pref in MODEL_PREFIX[f])]
                ctx.notes.append(f"normalised AST of {esc} differs from the recorded one (comparisons and thresholds unchanged): "
                                 f"correspondence of {len(sub.traces)} model instances escalated to 1500 cases each")
                ctx.stats['escalated'] = esc
                if sub.traces:
                    sym_num(ctx, sub, MOD, 1500)
    with ctx.timed('oracle'):
        import traceback
        for orc in (oracle_rpy, oracle_eul, oracle_angvec, oracle_planar, oracle_multi, oracle_multi_planar, oracle_uq_constructors):
            try:                                  # fail-soft: an oracle group that cannot go on is a finding, the others still run
                orc(ctx)
            except Exception as ex:
                tb = traceback.format_exc()
                ctx.fail(f'oracle:{orc.__name__}:aborted:{type(ex).__name__}',
                         f"{orc.__name__} could not go on (inputs it builds with the library are rejected or a call raised): {type(ex).__name__}: {ex}"[:600],
                         {'traceback': tb[-2500:]}, no_input=True)
