"""C18 -- unit twists encode screw geometry (Twist3 / Twist2: Revolute, Prismatic, exp, accessors)."""
import math
import numpy as np
import sympy
from lib import concolic
from lib.symtrace import Gen, coq_expr, coq_type, input_pattern, SHAPES
from lib.corr import sym_num
from lib.gens import log_uniform, rand_unit, rot_from_axis_angle

concolic.install()
from spatialmath import base, Twist3, Twist2, SE3, SE2  # noqa: E402
from spatialmath.geom3d import Plucker  # noqa: E402

MOD = 'Traces_C18'
PI = math.pi


# ------------------------------------------------------------------------------------------------
# concolic traces with path conditions (helper on top of lib.symtrace.Gen; lib/* is not edited)
# ------------------------------------------------------------------------------------------------
def uses_ops(term):
    """does a printed Gallina term depend on the ops record (explicitly or through the infix notations)?"""
    import re
    return bool(re.search(r'\bO\b| [-+*/] ', term))


def rel_to_coq(rel, truth):
    """recorded (Relational, truth value) -> Gallina bool term over the generic ops record"""
    l, r = rel.args
    if isinstance(rel, sympy.StrictLessThan):
        t = f"(ltb O {coq_expr(l)} {coq_expr(r)})"
    elif isinstance(rel, sympy.StrictGreaterThan):
        t = f"(ltb O {coq_expr(r)} {coq_expr(l)})"
    elif isinstance(rel, sympy.LessThan):
        t = f"(leb O {coq_expr(l)} {coq_expr(r)})"
    elif isinstance(rel, sympy.GreaterThan):
        t = f"(leb O {coq_expr(r)} {coq_expr(l)})"
    else:
        raise ValueError(f"unsupported relational {rel}")
    return t if truth else f"(negb {t})"


class PGen(Gen):
    """Gen + path conditions: `pc_<trace>` (bool, conjunction of the branch decisions recorded while the
    library ran on symbols under the shadow valuation) and boolean-valued traces `bt_<name>`."""

    def __init__(self, prop):
        super().__init__(prop)
        self.extra = []       # (name, inputs, type, term)
        self.paths = {}       # trace name -> list of (relational string, truth)

    def _setval(self, inputs, values):
        concolic.VAL.clear()
        for (an, sh), v in zip(inputs, values):
            if sh == 'S':
                concolic.VAL[sympy.Symbol(an, real=True)] = float(v)
            else:
                shape = SHAPES[sh]
                flat = np.asarray(v, float).flatten()
                for i, x in enumerate(flat):
                    nm = f"{an}{i}" if len(shape) == 1 else f"{an}{i // shape[1]}{i % shape[1]}"
                    concolic.VAL[sympy.Symbol(nm, real=True)] = float(x)

    def trace(self, name, inputs, fn, **kw):
        # an entry point that does not run on symbols is reported (run(): gen:trace:<name>) instead of aborting the
        # whole check: the theorems that need it break, everything else -- in particular the oracle -- still runs
        kw['optional'] = True
        return super().trace(name, inputs, fn, **kw)

    def ptrace(self, name, inputs, fn, at, **kw):
        """trace fn on symbols along the path taken at the concrete point `at` (list of values per input)"""
        self._setval(inputs, at)
        concolic.PATH.clear()

        def wrapped(*a):
            with concolic.object_alloc():
                return fn(*a)
        t = self.trace(name, inputs, wrapped, num_fn=kw.pop('num_fn', None) or fn, **kw)
        if t is None:
            concolic.PATH.clear()
            concolic.VAL.clear()
            return None
        atoms, seen = [], set()
        for rel, truth in concolic.PATH:
            k = (str(rel), truth)
            if k not in seen:
                seen.add(k)
                atoms.append((rel, truth))
        self.paths[name] = [(str(r), v) for r, v in atoms]
        term = "true"
        for rel, truth in reversed(atoms):
            term = f"(andb {rel_to_coq(rel, truth)} {term})"
        if atoms:      # a straight-line trace has no path condition (and would not mention the ops record)
            self.extra.append(('pc_' + name, inputs, 'bool', term))
        concolic.PATH.clear()
        concolic.VAL.clear()
        return t

    def btrace(self, name, inputs, fn):
        """boolean-valued library result that comes back as an undecided SymPy relational"""
        vals = []
        from lib.symtrace import sym_input
        for an, sh in inputs:
            vals.append(sym_input(an, sh)[0])
        rel = fn(*vals)
        self.extra.append((name, inputs, 'bool', rel_to_coq(rel, True)))

    def coq_text(self):
        txt = super().coq_text()
        head, tail = txt.split("End Gen.\n")
        out = [head]
        for name, inputs, ty, term in self.extra:
            binders = " ".join(f"({an} : {coq_type(sh)})" for an, sh in inputs)
            lets = "".join(f"  let '{input_pattern(an, sh)} := {an} in\n" for an, sh in inputs if sh != 'S')
            out.append(f"Definition {name} {binders} : {ty} :=\n{lets}  {term}.\n\n")
        out.append("End Gen.\n")
        out.append(tail)
        for name, *_ in self.extra:
            out.append(f"Arguments {name} {{T}} O.\n#[export] Hint Unfold {name} : smgen.\n")
        txt = "".join(out)
        # a definition that does no arithmetic does not depend on the ops record (Coq drops the section variable):
        # keep the file compilable, so that the change is attributed to the theorem that uses the definition
        for t in self.traces:
            if t.term is not None and not uses_ops(t.term):
                txt = txt.replace(f"Arguments {t.name} {{T}} O.\n", f"Arguments {t.name} {{T}}.\n")
        return txt


# ------------------------------------------------------------------------------------------------
# input generators (the property's domain)
# ------------------------------------------------------------------------------------------------
SPECIAL_THETA = [0.0, PI / 2, -PI / 2, PI, -PI, 3 * PI / 2, -3 * PI / 2, 2 * PI, -2 * PI]


def gen_axis(rng, n=3):
    """axis direction, length log-uniform in [1e-3, 1e6]; coordinate axes and near-coordinate axes included"""
    r = rng.random()
    if r < 0.2:
        d = np.zeros(n)
        d[rng.integers(n)] = rng.choice([-1.0, 1.0])
    elif r < 0.3:
        d = np.zeros(n)
        d[rng.integers(n)] = 1.0
        d = d + rng.normal(size=n) * 1e-9
    else:
        d = rand_unit(rng, n)
    return d * log_uniform(rng, 1e-3, 1e6)


def gen_point(rng, n=3):
    r = rng.random()
    if r < 0.1:
        return np.zeros(n)
    if r < 0.3:
        return np.round(rng.uniform(-5, 5, size=n))
    return rng.uniform(-1, 1, size=n) * log_uniform(rng, 1e-3, 1e3)


def gen_theta(rng):
    r = rng.random()
    if r < 0.35:
        return float(rng.choice(SPECIAL_THETA))
    if r < 0.5:
        return float(np.clip(float(rng.choice(SPECIAL_THETA)) + rng.choice([-1, 1]) * log_uniform(rng, 1e-12, 1e-2), -2 * PI, 2 * PI))
    if r < 0.6:
        return float(rng.choice([-1, 1]) * log_uniform(rng, 1e-17, 1e-3))
    return float(rng.uniform(-2 * PI, 2 * PI))


def unit_rev6(rng, big=False):
    w = rand_unit(rng)
    q = gen_point(rng) if big else rng.normal(size=3)
    return np.r_[-np.cross(w, q), w]


# ------------------------------------------------------------------------------------------------
# traces
# ------------------------------------------------------------------------------------------------
def T3(S):
    return Twist3(S)


def T2(S):
    return Twist2(S)


def build(ctx):
    g = PGen('C18')
    a3, q3 = [1.0, 2.0, 3.0], [0.4, -0.5, 0.6]
    S6 = [0.4, -0.5, 0.6, 0.1, 0.2, 0.3]
    S6p = [0.4, -0.5, 0.6, 0.0, 0.0, 0.0]
    rev = lambda rng: unit_rev6(rng, big=rng.random() < 0.5)
    th_main = lambda rng: float(rng.choice([-1, 1]) * rng.uniform(1e-3, 2 * PI))
    # ---- constructors (normalisation a/|a| included: unitvec's branch is the path condition)
    g.ptrace('tr_T3_Revolute', [('a', 'V3'), ('q', 'V3')], lambda a, q: Twist3.Revolute(a, q).S, [a3, q3],
             sampler=lambda rng: [gen_axis(rng), gen_point(rng)], tol=1e-11)
    g.ptrace('tr_T3_Prismatic', [('a', 'V3')], lambda a: Twist3.Prismatic(a).S, [a3],
             sampler=lambda rng: [gen_axis(rng)])
    # ---- accessors on a general twist
    g.trace('tr_T3_pitch', [('S', 'V6')], lambda S: T3(S).pitch())
    g.trace('tr_T3_theta', [('S', 'V6')], lambda S: T3(S).theta())
    g.trace('tr_T3_pole', [('S', 'V6')], lambda S: T3(S).pole())
    g.trace('tr_T3_line', [('S', 'V6')], lambda S: T3(S).line().vec)
    g.trace('tr_T3_se3', [('S', 'V6')], lambda S: T3(S).se3())
    g.trace('tr_T3_inv', [('S', 'V6')], lambda S: T3(S).inv().S)
    g.trace('tr_T3_smul', [('S', 'V6'), ('k', 'S')], lambda S, k: (T3(S) * k).S)
    g.trace('tr_T3_rsmul', [('S', 'V6'), ('k', 'S')], lambda S, k: (k * T3(S)).S)      # scalar on the left (__rmul__)
    g.trace('tr_vexa4', [('X', 'M44')], lambda X: base.vexa(X))
    g.trace('tr_getunit_deg', [('th', 'S')], lambda th: base.getunit(th, 'deg'))
    g.btrace('bt_T3_isprismatic', [('S', 'V6')], lambda S: T3(S).isprismatic)
    g.model('bt_T3_isprismatic', [('S', 'V6')], 'B', coq='bt_T3_isprismatic', module=None,
            num_fn=lambda S: bool(T3(S).isprismatic),
            sampler=lambda rng: [np.r_[rng.normal(size=3), rng.normal(size=3) * float(rng.choice([0.0, 1e-30, 1e-3, 1.0]))]])
    # Plucker line through a point with a direction, in the library's own convention
    g.trace('tr_Plucker_PointDir', [('p', 'V3'), ('d', 'V3')], lambda p, d: Plucker.PointDir(p, d).vec)
    g.trace('tr_Plucker_pp', [('L', 'V6')], lambda L: Plucker(L).pp)
    # ---- exp.  Twist3.exp wraps base.trexp(self.S * theta) in SE3(...), whose validity check needs
    #      np.linalg.det (not defined on symbols): the symbolic side runs the same statement
    #      base.trexp(Twist3(S).S * theta); the numeric side of the correspondence is Twist3(S).exp(theta).A itself.
    ex = lambda S, th: base.trexp(T3(S).S * th)
    exn = lambda S, th: T3(S).exp(th).A
    g.ptrace('tr_T3_exp_rev', [('S', 'V6'), ('th', 'S')], ex, [S6, 0.7], num_fn=exn,
             sampler=lambda rng: [rev(rng), th_main(rng)], tol=1e-10)
    g.ptrace('tr_T3_exp_zero', [('S', 'V6'), ('th', 'S')], ex, [S6, 0.0], num_fn=exn,
             sampler=lambda rng: [rev(rng), float(rng.choice([0.0, 1e-20, -1e-19]))])
    g.ptrace('tr_T3_exp_pris', [('S', 'V6'), ('th', 'S')], ex, [S6p, 0.7], num_fn=exn,
             sampler=lambda rng: [np.r_[rand_unit(rng), 0, 0, 0], th_main(rng)])
    # (S*k).exp()  and  S.inv().exp(theta), same statement
    g.ptrace('tr_T3_smulexp_rev', [('S', 'V6'), ('k', 'S')], lambda S, k: base.trexp((T3(S) * k).S * 1), [S6, 0.7],
             num_fn=lambda S, k: (T3(S) * k).exp().A, sampler=lambda rng: [rev(rng), th_main(rng)], tol=1e-10)
    g.ptrace('tr_T3_smulexp_pris', [('S', 'V6'), ('k', 'S')], lambda S, k: base.trexp((T3(S) * k).S * 1), [S6p, 0.7],
             num_fn=lambda S, k: (T3(S) * k).exp().A, sampler=lambda rng: [np.r_[rand_unit(rng), 0, 0, 0], th_main(rng)])
    g.ptrace('tr_T3_smulexp_zero', [('S', 'V6'), ('k', 'S')], lambda S, k: base.trexp((T3(S) * k).S * 1), [S6, 0.0],
             num_fn=lambda S, k: (T3(S) * k).exp().A, sampler=lambda rng: [rev(rng), float(rng.choice([0.0, 1e-20, -1e-19]))])
    g.ptrace('tr_T3_rsmulexp_rev', [('S', 'V6'), ('k', 'S')], lambda S, k: base.trexp((k * T3(S)).S * 1), [S6, 0.7],
             num_fn=lambda S, k: (k * T3(S)).exp().A, sampler=lambda rng: [rev(rng), th_main(rng)], tol=1e-10)
    g.ptrace('tr_T3_invexp_rev', [('S', 'V6'), ('th', 'S')], lambda S, th: base.trexp(T3(S).inv().S * th), [S6, 0.7],
             num_fn=lambda S, th: T3(S).inv().exp(th).A, sampler=lambda rng: [rev(rng), th_main(rng)], tol=1e-10)
    # exp of the se(3) matrix form
    g.ptrace('tr_trexp_se3_rev', [('S', 'V6')], lambda S: base.trexp(T3(S).se3()), [S6],
             num_fn=lambda S: base.trexp(T3(S).se3()), sampler=lambda rng: [rev(rng) * th_main(rng)], tol=1e-10, optional=True)

    # ---- named-axis constructors with a scalar angle (both units) and their exponential
    a_main = lambda rng: [float(rng.choice([-1, 1]) * rng.uniform(1e-3, 2 * PI))]
    for nm in ('Rx', 'Ry', 'Rz'):
        f = getattr(Twist3, nm)
        g.trace(f'tr_T3_{nm}', [('a', 'S')], (lambda f: lambda a: f(a).S)(f), sampler=a_main)
        g.trace(f'tr_T3_{nm}_deg', [('a', 'S')], (lambda f: lambda a: f(a, 'deg').S)(f),
                sampler=lambda rng: [float(rng.uniform(-360, 360))])
        g.ptrace(f'tr_T3_{nm}_exp', [('a', 'S')], (lambda f: lambda a: base.trexp(f(a).S * 1))(f), [0.7],
                 num_fn=(lambda f: lambda a: f(a).exp().A)(f), sampler=a_main, tol=1e-10)
    # ---- planar
    a2, q2 = [1.0, 2.0], [0.4, -0.5]
    S3 = [0.4, -0.5, 0.6]
    S3p = [0.4, -0.5, 0.0]
    rev2 = lambda rng: np.r_[(lambda q: [q[1], -q[0]])(gen_point(rng, 2) if rng.random() < 0.5 else rng.normal(size=2)), 1.0]
    g.ptrace('tr_T2_Revolute', [('q', 'V2')], lambda q: Twist2.Revolute(q).S, [q2], sampler=lambda rng: [gen_point(rng, 2)])
    g.ptrace('tr_T2_Prismatic', [('a', 'V2')], lambda a: Twist2.Prismatic(a).S, [a2], sampler=lambda rng: [gen_axis(rng, 2)])
    g.trace('tr_T2_se2', [('S', 'V3')], lambda S: T2(S).se2())
    g.trace('tr_T2_inv', [('S', 'V3')], lambda S: T2(S).inv().S)
    g.trace('tr_T2_smul', [('S', 'V3'), ('k', 'S')], lambda S, k: (T2(S) * k).S)
    g.trace('tr_T2_rsmul', [('S', 'V3'), ('k', 'S')], lambda S, k: (k * T2(S)).S)
    g.trace('tr_vexa3', [('X', 'M33')], lambda X: base.vexa(X))
    g.btrace('bt_T2_isprismatic', [('S', 'V3')], lambda S: T2(S).isprismatic)
    g.model('bt_T2_isprismatic', [('S', 'V3')], 'B', coq='bt_T2_isprismatic', module=None,
            num_fn=lambda S: bool(T2(S).isprismatic),
            sampler=lambda rng: [np.r_[rng.normal(size=2), rng.normal() * float(rng.choice([0.0, 1e-30, 1e-3, 1.0]))]])
    ex2 = lambda S, th: base.trexp2(T2(S).S * th)
    exn2 = lambda S, th: T2(S).exp(th).A
    g.ptrace('tr_T2_exp_rev', [('S', 'V3'), ('th', 'S')], ex2, [S3, 0.7], num_fn=exn2,
             sampler=lambda rng: [rev2(rng), th_main(rng)], tol=1e-10)
    g.ptrace('tr_T2_exp_zero', [('S', 'V3'), ('th', 'S')], ex2, [S3, 0.0], num_fn=exn2,
             sampler=lambda rng: [rev2(rng), float(rng.choice([0.0, 1e-20, -1e-19]))])
    g.ptrace('tr_T2_exp_pris', [('S', 'V3'), ('th', 'S')], ex2, [S3p, 0.7], num_fn=exn2,
             sampler=lambda rng: [np.r_[rand_unit(rng, 2), 0], th_main(rng)])
    g.ptrace('tr_T2_smulexp_rev', [('S', 'V3'), ('k', 'S')], lambda S, k: base.trexp2((T2(S) * k).S * 1), [S3, 0.7],
             num_fn=lambda S, k: (T2(S) * k).exp().A, sampler=lambda rng: [rev2(rng), th_main(rng)], tol=1e-10)
    g.ptrace('tr_T2_rsmulexp_rev', [('S', 'V3'), ('k', 'S')], lambda S, k: base.trexp2((k * T2(S)).S * 1), [S3, 0.7],
             num_fn=lambda S, k: (k * T2(S)).exp().A, sampler=lambda rng: [rev2(rng), th_main(rng)], tol=1e-10)
    g.ptrace('tr_T2_invexp_rev', [('S', 'V3'), ('th', 'S')], lambda S, th: base.trexp2(T2(S).inv().S * th), [S3, 0.7],
             num_fn=lambda S, th: T2(S).inv().exp(th).A, sampler=lambda rng: [rev2(rng), th_main(rng)], tol=1e-10)
    g.ptrace('tr_trexp2_se2_rev', [('S', 'V3')], lambda S: base.trexp2(T2(S).se2()), [S3],
             num_fn=lambda S: base.trexp2(T2(S).se2()), sampler=lambda rng: [rev2(rng) * th_main(rng)], tol=1e-10)
    return g




# ------------------------------------------------------------------------------------------------
# oracle on the implementation (search for a failing input; measurement of the float tolerance)
# ------------------------------------------------------------------------------------------------
TOL = 1e-9


def hx(v):
    return [float(x).hex() for x in np.asarray(v, float).flatten()]


def skew(w):
    return np.array([[0, -w[2], w[1]], [w[2], 0, -w[0]], [-w[1], w[0], 0]])


def rot2(th):
    return np.array([[math.cos(th), -math.sin(th)], [math.sin(th), math.cos(th)]])


class Chk:
    """one oracle case: residual checks with stable keys oracle:<law>:<site>:<outcome>"""

    def __init__(self, ctx, site, inputs):
        self.ctx, self.site, self.inputs = ctx, site, inputs

    def near(self, law, got, want, scale=1.0, tol=TOL):
        ctx = self.ctx
        key = f"oracle:{law}:{self.site}"
        ctx.count(key)
        try:
            got, want = np.asarray(got, float), np.asarray(want, float)
            err = float(np.max(np.abs(got - want))) if got.shape == want.shape else float('inf')
        except Exception as ex:     # noqa
            err = float('inf')
        rel = err / scale if np.isfinite(err) else float('inf')
        ctx.stats['worst:' + key] = max(ctx.stats.get('worst:' + key, 0.0), rel)
        if not rel <= tol:
            ctx.fail(key + ':value', f"{law} fails on the implementation at {self.site}: residual {err:g} (scale {scale:g})",
                     dict(self.inputs, law=law, site=self.site, got=np.asarray(got).tolist(), want=np.asarray(want).tolist()))

    def true(self, law, cond, detail=''):
        key = f"oracle:{law}:{self.site}"
        self.ctx.count(key)
        if not cond:
            self.ctx.fail(key + ':value', f"{law} fails on the implementation at {self.site}: {detail}",
                          dict(self.inputs, law=law, site=self.site, detail=str(detail)))

    def call(self, law, f):
        """run a library call; an exception is a finding keyed by its type"""
        try:
            return f()
        except Exception as ex:     # noqa
            key = f"oracle:{law}:{self.site}:raises:{type(ex).__name__}"
            self.ctx.count(key)
            self.ctx.fail(key, f"{law} at {self.site} raises {type(ex).__name__}: {ex}", dict(self.inputs, law=law, site=self.site))
            return None


def as_theta(theta, unit):
    return math.degrees(theta) if unit == 'deg' else theta


def case3(ctx, a, q, theta, unit, form, lams):
    """Twist3.Revolute(a, q) / Twist3.Prismatic(a) at one (axis, point, theta, unit, theta-form)"""
    from scipy.linalg import expm
    a, q = np.asarray(a, float), np.asarray(q, float)
    w = a / np.linalg.norm(a)
    inp = {'dim': 3, 'a_hex': hx(a), 'q_hex': hx(q), 'theta_hex': hx([theta]), 'unit': unit, 'form': form, 'lams_hex': hx(lams)}
    ctx.case(('case3', tuple(a), tuple(q), theta, unit, form))
    sq = max(1.0, float(np.linalg.norm(q)))
    c = Chk(ctx, 'Twist3.Revolute', inp)
    S = c.call('construct', lambda: Twist3.Revolute(a, q))
    if S is None:
        return
    c.near('w-is-unit-axis', S.w, w)
    c.near('v-is-minus-w-cross-q', S.v, -np.cross(w, q), sq)
    # ---- exp
    th_arg = as_theta(theta, unit)

    def do_exp(tw, c):
        if form == 'scalar':
            E = c.call('exp', lambda: tw.exp(th_arg, unit))
            return None if E is None else E.A
        other = 0.37 if unit == 'rad' else 21.0
        arg = [th_arg, other] if form == 'list' else np.array([th_arg, other])
        E = c.call('exp-vector-theta', lambda: tw.exp(arg, unit))
        if E is None:
            return None
        c.true('exp-vector-theta-length', len(E) == 2, f"len={len(E)}")
        E1 = c.call('exp', lambda: tw.exp(other, unit))
        if E1 is not None and len(E) == 2:
            c.near('exp-vector-theta-elementwise', E[1].A, E1.A, sq)
        return E[0].A
    T = do_exp(S, c)
    if T is not None:
        Rref = rot_from_axis_angle(a, theta)
        c.near('rotation-is-rodrigues', T[:3, :3], Rref)
        c.true('last-row-exact', np.array_equal(T[3, :], [0, 0, 0, 1]), T[3, :])
        for lam in lams:
            p = q + lam * w
            c.near('axis-point-fixed', T @ np.r_[p, 1], np.r_[p, 1], max(1.0, float(np.linalg.norm(p))))
        # a generic off-axis point moves as q + R (p - q)
        p = q + np.array([0.3, -1.1, 0.7])
        c.near('off-axis-point', (T @ np.r_[p, 1])[:3], q + Rref @ (p - q), sq)
        if theta == 0:
            c.true('theta0-identity', np.array_equal(T, np.eye(4)), T)
        # se(3) matrix form: independent matrix exponential
        M = c.call('se3', lambda: S.se3())
        if M is not None:
            c.near('se3-form', M, np.block([[skew(w), (-np.cross(w, q)).reshape(3, 1)], [np.zeros((1, 4))]]), sq)
            c.near('exp-vs-expm-of-se3', T, expm(theta * np.asarray(M, float)), sq * max(1.0, abs(theta)))
        # inverse
        Si = c.call('inv', lambda: S.inv())
        if Si is not None:
            c.near('inv-is-negation', Si.S, -S.S, sq)
            Ti = do_exp(Si, Chk(ctx, 'Twist3.Revolute.inv', inp))
            if Ti is not None:
                c.near('exp-inv-times-exp', Ti @ T, np.eye(4), sq)
        # scalar multiple: (S*k).exp() == S.exp(k)
        Sk = c.call('smul', lambda: S * theta)
        if Sk is not None:
            c.near('smul-value', Sk.S, S.S * theta, sq * max(1.0, abs(theta)))
            Tk = c.call('exp', lambda: Sk.exp())
            if Tk is not None:
                c.near('exp-of-smul', Tk.A, T, sq)
            if abs(theta) > 1e-6:      # the unit twist of k S is sign(k) S (fix ca82070)
                U = c.call('unit-of-smul', lambda: Sk.unit)
                if U is not None:
                    c.near('unit-of-smul', U.S, S.S * np.sign(theta), sq)
        # scalar on the left: k*S == S*k, exp(k*S) == S.exp(k)   (float and int factors)
        c3 = Chk(ctx, 'Twist3', inp)
        Sr = c3.call('left-scalar', lambda: theta * S)
        if Sr is not None:
            c3.near('left-scalar', Sr.S if len(Sr) == 1 else np.nan, S.S * theta, sq * max(1.0, abs(theta)))
            Tr = c3.call('exp-of-left-scalar', lambda: Sr.exp())
            if Tr is not None and len(Sr) == 1:
                c3.near('exp-of-left-scalar', Tr.A, T, sq)
        Sr = c3.call('left-scalar-int', lambda: 2 * S)
        if Sr is not None:
            c3.near('left-scalar-int', Sr.S if len(Sr) == 1 else np.nan, S.S * 2, sq)
    # ---- accessors
    c.near('pitch-zero', c.call('pitch', lambda: S.pitch()), 0.0, sq)
    c.near('theta-is-one', c.call('theta', lambda: S.theta()), 1.0)
    pole = c.call('pole', lambda: S.pole())
    if pole is not None:
        c.near('pole-on-axis', np.cross(pole - q, w), np.zeros(3), sq)
    L = c.call('line', lambda: S.line())
    if L is not None:
        c.near('line-direction', L.w, w)
        c.near('line-moment', L.v, np.cross(w, q), sq)
        c.near('line-point-on-axis', np.cross(L.pp - q, w), np.zeros(3), sq)
        c.near('line-is-PointDir', L.vec, Plucker.PointDir(q, w).vec, sq)
    c.true('revolute-not-prismatic', not bool(S.isprismatic), S.isprismatic)
    # ---- prismatic (theta is a distance: radians form only)
    if unit == 'rad':
        c = Chk(ctx, 'Twist3.Prismatic', inp)
        P = c.call('construct', lambda: Twist3.Prismatic(a))
        if P is not None:
            c.near('v-is-unit-axis', P.v, w)
            c.near('w-is-zero', P.w, np.zeros(3))
            c.true('prismatic-is-prismatic', bool(P.isprismatic), P.isprismatic)
            T = do_exp(P, c)
            if T is not None:
                c.near('prismatic-no-rotation', T[:3, :3], np.eye(3))
                c.near('prismatic-translation', T[:3, 3], theta * w, max(1.0, abs(theta)))
                c.near('exp-vs-expm-of-se3', T, expm(theta * np.asarray(P.se3(), float)), max(1.0, abs(theta)))
                Pk = c.call('smul', lambda: P * theta)
                if Pk is not None:
                    Tk = c.call('exp', lambda: Pk.exp())
                    if Tk is not None:
                        c.near('exp-of-smul', Tk.A, T, max(1.0, abs(theta)))
                Pi = c.call('inv', lambda: P.inv())
                if Pi is not None:
                    Ti = do_exp(Pi, Chk(ctx, 'Twist3.Prismatic.inv', inp))
                    if Ti is not None:
                        c.near('exp-inv-times-exp', Ti @ T, np.eye(4), max(1.0, abs(theta)))


def case2(ctx, a, q, theta, unit, form):
    """Twist2.Revolute(q) / Twist2.Prismatic(a)"""
    from scipy.linalg import expm
    a, q = np.asarray(a, float), np.asarray(q, float)
    d = a / np.linalg.norm(a)
    inp = {'dim': 2, 'a_hex': hx(a), 'q_hex': hx(q), 'theta_hex': hx([theta]), 'unit': unit, 'form': form}
    ctx.case(('case2', tuple(a), tuple(q), theta, unit, form))
    sq = max(1.0, float(np.linalg.norm(q)))
    th_arg = as_theta(theta, unit)

    def do_exp(tw, c):
        if form == 'scalar':
            E = c.call('exp', lambda: tw.exp(th_arg, unit))
            return None if E is None else E.A
        other = 0.37 if unit == 'rad' else 21.0
        arg = [th_arg, other] if form == 'list' else np.array([th_arg, other])
        E = c.call('exp-vector-theta', lambda: tw.exp(arg, unit))
        if E is None:
            return None
        c.true('exp-vector-theta-length', len(E) == 2, f"len={len(E)}")
        E1 = c.call('exp', lambda: tw.exp(other, unit))
        if E1 is not None and len(E) == 2:
            c.near('exp-vector-theta-elementwise', E[1].A, E1.A, sq)
        return E[0].A
    c = Chk(ctx, 'Twist2.Revolute', inp)
    S = c.call('construct', lambda: Twist2.Revolute(q))
    if S is not None:
        c.near('twist-vector', S.S, np.r_[q[1], -q[0], 1.0], sq)
        c.true('revolute-not-prismatic', not bool(S.isprismatic), S.isprismatic)
        T = do_exp(S, c)
        if T is not None:
            c.near('rotation-is-rot2', T[:2, :2], rot2(theta))
            c.true('last-row-exact', np.array_equal(T[2, :], [0, 0, 1]), T[2, :])
            c.near('pole-fixed', T @ np.r_[q, 1], np.r_[q, 1], sq)
            p = q + np.array([0.3, -1.1])
            c.near('off-pole-point', (T @ np.r_[p, 1])[:2], q + rot2(theta) @ (p - q), sq)
            if theta == 0:
                c.true('theta0-identity', np.array_equal(T, np.eye(3)), T)
            M = c.call('se2', lambda: S.se2())
            if M is not None:
                c.near('se2-form', M, np.array([[0, -1, q[1]], [1, 0, -q[0]], [0, 0, 0]]), sq)
                c.near('exp-vs-expm-of-se2', T, expm(theta * np.asarray(M, float)), sq * max(1.0, abs(theta)))
            Si = c.call('inv', lambda: S.inv())
            if Si is not None:
                c.near('inv-is-negation', Si.S, -S.S, sq)
                Ti = do_exp(Si, Chk(ctx, 'Twist2.Revolute.inv', inp))
                if Ti is not None:
                    c.near('exp-inv-times-exp', Ti @ T, np.eye(3), sq)
            Sk = c.call('smul', lambda: S * theta)
            if Sk is not None:
                c.near('smul-value', Sk.S, S.S * theta, sq * max(1.0, abs(theta)))
                Tk = c.call('exp', lambda: Sk.exp())
                if Tk is not None:
                    c.near('exp-of-smul', Tk.A, T, sq)
            # scalar on the left: a float factor and an int factor
            c2 = Chk(ctx, 'Twist2', inp)
            Sr = c2.call('left-scalar', lambda: theta * S)
            if Sr is not None:
                c2.near('left-scalar', Sr.S if len(Sr) == 1 else np.nan, S.S * theta, sq * max(1.0, abs(theta)))
                Tr = c2.call('exp-of-left-scalar', lambda: Sr.exp())
                if Tr is not None and len(Sr) == 1:
                    c2.near('exp-of-left-scalar', Tr.A, T, sq)
            Sr = c2.call('left-scalar-int', lambda: 2 * S)
            if Sr is not None:
                c2.near('left-scalar-int', Sr.S if len(Sr) == 1 else np.nan, S.S * 2, sq)
    if unit == 'rad':
        c = Chk(ctx, 'Twist2.Prismatic', inp)
        P = c.call('construct', lambda: Twist2.Prismatic(a))
        if P is not None:
            c.near('twist-vector', P.S, np.r_[d, 0.0])
            c.true('prismatic-is-prismatic', bool(P.isprismatic), P.isprismatic)
            T = do_exp(P, c)
            if T is not None:
                c.near('prismatic-no-rotation', T[:2, :2], np.eye(2))
                c.near('prismatic-translation', T[:2, 2], theta * d, max(1.0, abs(theta)))
                Pk = c.call('smul', lambda: P * theta)
                if Pk is not None:
                    Tk = c.call('exp', lambda: Pk.exp())
                    if Tk is not None:
                        c.near('exp-of-smul', Tk.A, T, max(1.0, abs(theta)))


def named_axis(ctx):
    """Twist3.Rx/Ry/Rz(theta): theta times the unit revolute twist about a coordinate axis through the origin, for scalar,
    list and ndarray theta in both units; exp() of it is the elementary rotation"""
    for nm, ax in (('Rx', [1, 0, 0]), ('Ry', [0, 1, 0]), ('Rz', [0, 0, 1])):
        f = getattr(Twist3, nm)
        ref = Twist3.Revolute(ax, [0, 0, 0]).S
        for th, unit, form in ((0.3, 'rad', 'scalar'), (30.0, 'deg', 'scalar'), (-2.0, 'rad', 'scalar'), (0.0, 'rad', 'scalar'),
                               (90, 'deg', 'scalar'), (np.float64(0.3), 'rad', 'scalar'),
                               ([0.3, -0.4], 'rad', 'list'), ([30.0, 45.0], 'deg', 'list'),
                               (np.array([0.3, -0.4]), 'rad', 'array'), (np.array([30.0, 45.0]), 'deg', 'array')):
            inp = {'constructor': nm, 'theta': np.asarray(th).tolist(), 'unit': unit, 'form': form}
            c = Chk(ctx, f"Twist3.{nm}:{form}-theta", inp)
            ctx.case(('named', nm, str(th), unit))
            X = c.call('coordinate-axis-twist', lambda: f(th, unit))
            if X is None:
                continue
            ths = np.atleast_1d(np.asarray(th, float)) * (PI / 180 if unit == 'deg' else 1.0)
            c.true('coordinate-axis-twist-length', len(X) == len(ths), f"len={len(X)}")
            got = np.array([x for x in X.data])
            c.near('coordinate-axis-twist', got, np.array([ref * t for t in ths]))
            if len(X) == 1:
                E = c.call('coordinate-axis-exp', lambda: X.exp())
                if E is not None:
                    T = np.eye(4)
                    T[:3, :3] = rot_from_axis_angle(ax, ths[0])
                    c.near('coordinate-axis-exp', E.A, T)


def multi_scalar(ctx):
    """scalar * multi-valued twist and multi-valued twist * scalar scale every element"""
    rng = ctx.rng
    for k in (2, -3, 0.5, 0.0):
        for cls, n in ((Twist3, 6), (Twist2, 3)):
            for M in (2, 3):
                data = [rng.normal(size=n) for _ in range(M)]
                inp = {'class': cls.__name__, 'k': k, 'data': [d.tolist() for d in data]}
                c = Chk(ctx, f"{cls.__name__}:multi", inp)
                ctx.case(('multi', cls.__name__, k, M, tuple(data[0])))
                X = c.call('construct', lambda: cls(data))
                if X is None:
                    continue
                for law, fn in (('left-scalar-multi', lambda: k * X), ('right-scalar-multi', lambda: X * k)):
                    Y = c.call(law, fn)
                    if Y is None:
                        continue
                    c.true(law + '-type-length', type(Y) is cls and len(Y) == M, f"{type(Y).__name__} len={len(Y)}")
                    if len(Y) == M:
                        c.near(law, np.array(Y.data), np.array(data) * k)


def multi_twist(ctx):
    """an object holding a revolute and a prismatic unit twist: isprismatic per element, exp(theta_i) per element"""
    for cls, rev_, pris_ in ((Twist3, lambda: Twist3.Revolute([0, 3, 4], [1, 2, 3]), lambda: Twist3.Prismatic([2, 0, 0])),
                             (Twist2, lambda: Twist2.Revolute([1, 2]), lambda: Twist2.Prismatic([0, 5]))):
        inp = {'class': cls.__name__}
        c = Chk(ctx, f"{cls.__name__}:sequence", inp)
        ctx.case(('multi-twist', cls.__name__))
        r, p = rev_(), pris_()
        X = c.call('construct', lambda: cls([r.S, p.S]))
        if X is None:
            continue
        ip = c.call('isprismatic-sequence', lambda: X.isprismatic)
        if ip is not None:
            c.true('isprismatic-sequence', [bool(b) for b in ip] == [False, True], ip)
        # per-twist theta (list / ndarray) and one scalar theta for all twists, both classes
        for ths in ([0.3, -0.7], np.array([PI / 2, 2.0]), 0.4):
            E = c.call('exp-sequence', lambda: X.exp(ths))
            if E is not None:
                t0, t1 = (ths, ths) if np.isscalar(ths) else (float(ths[0]), float(ths[1]))
                c.true('exp-sequence-length', len(E) == 2, f"len={len(E)}")
                if len(E) == 2:
                    c.near('exp-sequence', E[0].A, r.exp(t0).A, 4.0)
                    c.near('exp-sequence', E[1].A, p.exp(t1).A, 4.0)
        # accessors per twist (fixes 77cb365, a77df5a)
        n = 3 if cls is Twist3 else 2
        c.near('v-sequence', c.call('v-sequence', lambda: X.v), np.array([r.S[:n], p.S[:n]]), 4.0)
        c.near('w-sequence', c.call('w-sequence', lambda: X.w), np.array([r.S[n:], p.S[n:]]) if cls is Twist3 else np.array([r.S[2], p.S[2]]), 4.0)
        if cls is Twist3:
            r2 = Twist3.Revolute([1, 0, 0], [0, 1, 0])
            Y = c.call('construct', lambda: cls([r.S, r2.S]))
            if Y is not None:
                c.near('theta-sequence', c.call('theta-sequence', lambda: Y.theta()), [1.0, 1.0])
                c.near('pitch-sequence', c.call('pitch-sequence', lambda: Y.pitch()), [0.0, 0.0], 4.0)
                c.near('pole-sequence', c.call('pole-sequence', lambda: Y.pole()), np.array([r.pole(), r2.pole()]), 4.0)


# ------------------------------------------------------------------------------------------------
# accessors over every kind of twist (revolute, prismatic, general screw, zero, non-unit multiples), single and multi-valued
# ------------------------------------------------------------------------------------------------
def twist_kinds(rng):
    """(kind, 6-vector, expected) for one random axis / point / pitch / factor; expected values are computed independently"""
    w = rand_unit(rng)
    q = gen_point(rng)
    q = q if np.linalg.norm(q) < 50 else q / np.linalg.norm(q) * 50
    d = rand_unit(rng)
    h = float(rng.choice([-1, 1]) * rng.uniform(0.1, 3))
    k = float(rng.choice([-1, 1]) * rng.uniform(0.2, 5))
    v_rev = -np.cross(w, q)
    kinds = [
        ('revolute', np.r_[v_rev, w], dict(theta=1.0, pitch=0.0, unit=True, w=w, q=q, pris=False)),
        ('prismatic', np.r_[d, 0, 0, 0], dict(theta=0.0, pitch=0.0, unit=False, w=None, q=None, pris=True)),
        ('screw', np.r_[v_rev + h * w, w], dict(theta=1.0, pitch=h, unit=True, w=w, q=q, pris=False)),
        ('zero', np.zeros(6), dict(theta=0.0, pitch=0.0, unit=False, w=None, q=None, pris=True)),
        ('revolute-multiple', np.r_[v_rev, w] * k, dict(theta=abs(k), pitch=0.0, unit=False, w=None, q=None, pris=False)),
        ('screw-multiple', np.r_[v_rev + h * w, w] * k, dict(theta=abs(k), pitch=None, unit=False, w=None, q=None, pris=False)),
        ('prismatic-multiple', np.r_[d, 0, 0, 0] * k, dict(theta=0.0, pitch=0.0, unit=False, w=None, q=None, pris=True)),
    ]
    return kinds, dict(h=h, k=k)


def accessor_kinds(ctx):
    """theta / pitch / pole / line / v / w / isprismatic (and the rotation magnitude of exp) for every kind of twist,
    as a single value and as one element of an object holding all kinds"""
    rng = ctx.rng
    for rep in range(ctx.n(6, 200)):
        kinds, par = twist_kinds(rng)
        vecs = [x for _, x, _ in kinds]
        for multi in (False, True):
            if multi:
                inp0 = {'twists_hex': [hx(x) for x in vecs], 'form': 'multi'}
                c0 = Chk(ctx, 'Twist3:all-kinds-sequence', inp0)
                X = c0.call('construct', lambda: Twist3([x.copy() for x in vecs]))
                if X is None:
                    continue
                th_all = c0.call('theta', lambda: np.asarray(X.theta(), float))
                pi_all = c0.call('pitch', lambda: np.asarray(X.pitch(), float))
                v_all = c0.call('v', lambda: np.asarray(X.v, float))
                w_all = c0.call('w', lambda: np.asarray(X.w, float))
                with np.errstate(all='ignore'):
                    po_all = c0.call('pole', lambda: np.asarray(X.pole(), float))
                ip_all = c0.call('isprismatic', lambda: [bool(b) for b in X.isprismatic])
                li_all = c0.call('line', lambda: X.line())
            for i, (kind, x, e) in enumerate(kinds):
                inp = {'kind': kind, 'twist_hex': hx(x), 'form': 'multi' if multi else 'single', **{n: float(v) for n, v in par.items()}}
                c = Chk(ctx, f"Twist3:{kind}" + (':in-sequence' if multi else ''), inp)
                ctx.case(('kinds', kind, multi, tuple(x)))
                sc = max(1.0, float(np.linalg.norm(x)))
                if multi:
                    pick = lambda arr: None if arr is None or len(arr) != len(kinds) else arr[i]
                    th, pi_, v, w, po, ip = pick(th_all), pick(pi_all), pick(v_all), pick(w_all), pick(po_all), pick(ip_all)
                    L = None if li_all is None or len(li_all) != len(kinds) else li_all[i]
                    for nm, val in (('theta', th), ('pitch', pi_), ('v', v), ('w', w), ('isprismatic', ip)):
                        c.true(nm + '-per-twist', val is not None, 'no per-twist value')
                else:
                    S = c.call('construct', lambda: Twist3(x.copy()))
                    if S is None:
                        continue
                    th = c.call('theta', lambda: S.theta())
                    pi_ = c.call('pitch', lambda: S.pitch())
                    v, w = c.call('v', lambda: np.array(S.v)), c.call('w', lambda: np.array(S.w))
                    ip = c.call('isprismatic', lambda: bool(S.isprismatic))
                    c.true('theta-is-rotation-magnitude', th is not None, 'theta() returned None')
                    c.true('pitch', pi_ is not None, 'pitch() returned None')
                    po = L = None
                    if e['unit']:
                        po = c.call('pole', lambda: S.pole())
                        L = c.call('line', lambda: S.line())
                if th is not None:
                    c.near('theta-is-rotation-magnitude', th, e['theta'])
                if pi_ is not None and e['pitch'] is not None:
                    c.near('pitch', pi_, e['pitch'], sc * sc)
                if v is not None:
                    c.near('v', v, x[:3], sc)
                if w is not None:
                    c.near('w', w, x[3:], sc)
                if ip is not None:
                    c.true('isprismatic', ip == e['pris'], ip)
                if e['unit']:
                    if po is not None:
                        c.near('pole-on-axis', np.cross(np.asarray(po, float) - e['q'], e['w']), np.zeros(3), sc)
                    if L is not None:
                        c.near('line-direction', L.w, e['w'])
                        c.near('line-point-on-axis', np.cross(L.pp - e['q'], e['w']), np.zeros(3), sc)
                        # the Pluecker coordinates themselves (moment w x q, orthogonal to w; repaired for non-zero pitch
                        # by fix 2c38430); single-valued and in-sequence forms of a screw share one site
                        cl = c if kind != 'screw' else Chk(ctx, 'Twist3.line:screw-axis', inp)
                        cl.near('line-equals-PointDir', L.vec, Plucker.PointDir(e['q'], e['w']).vec, sc)
                        cl.near('line-pluecker-constraint', float(np.dot(L.v, L.w)), 0.0, sc)
                # the rotation magnitude of the generated motion is theta() (x |t|), in particular none for prismatic / zero
                if not multi:
                    t = float(rng.uniform(0.1, 1.0))
                    E = c.call('exp', lambda: S.exp(t))
                    if E is not None:
                        R = E.A[:3, :3]
                        ang = math.acos(max(-1.0, min(1.0, (np.trace(R) - 1) / 2)))
                        want = e['theta'] * t
                        want = abs((want + PI) % (2 * PI) - PI)
                        c.near('exp-rotation-angle-is-theta', ang, want, 1.0, 1e-7)
                        if kind == 'screw':     # axis points slide along the axis by pitch * t
                            p = e['q'] + 0.7 * e['w']
                            c.near('screw-axis-point-slides', (E.A @ np.r_[p, 1])[:3], p + par['h'] * t * e['w'], sc)
    # planar: Twist2 has v / w / isprismatic only
    for rep in range(ctx.n(4, 100)):
        q2, d2, k = gen_point(rng, 2), rand_unit(rng, 2), float(rng.choice([-1, 1]) * rng.uniform(0.2, 5))
        kinds2 = [('revolute', np.r_[q2[1], -q2[0], 1.0], False), ('prismatic', np.r_[d2, 0.0], True), ('zero', np.zeros(3), True),
                  ('revolute-multiple', np.r_[q2[1], -q2[0], 1.0] * k, False), ('prismatic-multiple', np.r_[d2, 0.0] * k, True)]
        X = Twist2([x.copy() for _, x, _ in kinds2])
        for i, (kind, x, pris) in enumerate(kinds2):
            inp = {'kind': kind, 'twist_hex': hx(x)}
            ctx.case(('kinds2', kind, tuple(x)))
            sc = max(1.0, float(np.linalg.norm(x)))
            c = Chk(ctx, f"Twist2:{kind}", inp)
            S = c.call('construct', lambda: Twist2(x.copy()))
            if S is not None:
                c.near('v', c.call('v', lambda: np.array(S.v)), x[:2], sc)
                c.near('w', c.call('w', lambda: float(S.w)), x[2], sc)
                c.true('isprismatic', bool(S.isprismatic) == pris, S.isprismatic)
            c = Chk(ctx, f"Twist2:{kind}:in-sequence", inp)
            c.near('v', c.call('v', lambda: np.asarray(X.v)[i]), x[:2], sc)
            c.near('w', c.call('w', lambda: np.asarray(X.w)[i]), x[2], sc)
            c.true('isprismatic', c.call('isprismatic', lambda: bool(X.isprismatic[i])) == pris, kind)


# ------------------------------------------------------------------------------------------------
# result ownership: a returned value belongs to the caller.  Histories  call -> scribble over the result -> call again
# (same receiver, other receiver), compared with the stateless reference; results must not share memory with each other,
# with the receiver's data, with the arguments, or (hence) with module-level state
# ------------------------------------------------------------------------------------------------
def _arrays(x):
    """every ndarray reachable from a result (ndarray, SMUserList object, list / tuple of those)"""
    if isinstance(x, np.ndarray):
        return [x]
    if hasattr(x, 'data') and isinstance(getattr(x, 'data'), list):
        return [a for y in x.data for a in _arrays(y)]
    if isinstance(x, (list, tuple)):
        return [a for y in x for a in _arrays(y)]
    return []


def _values(x):
    return [np.array(a, dtype=float, copy=True) for a in _arrays(x)] if _arrays(x) else [np.array(x, dtype=float)]


def _same(u, v, tol=1e-12):
    if len(u) != len(v):
        return False
    for a, b in zip(u, v):
        if a.shape != b.shape or not np.allclose(a, b, rtol=tol, atol=tol, equal_nan=True):
            return False
    return True


def _rot_about(a, q, th):
    T = np.eye(4)
    T[:3, :3] = rot_from_axis_angle(a, th)
    T[:3, 3] = np.asarray(q, float) - T[:3, :3] @ np.asarray(q, float)
    return T


def ownership(ctx):
    aA, qA = np.array([1.0, 2.0, 3.0]) * 50, np.array([400.0, -500.0, 600.0])
    aB, qB = np.array([0.0, -1.0, 0.5]), np.array([1.0, 2.0, 3.0])
    recv3 = {'A': lambda: Twist3.Revolute(aA, qA), 'B': lambda: Twist3.Revolute(aB, qB), 'P': lambda: Twist3.Prismatic([0.0, 3.0, 4.0])}
    recv2 = {'A': lambda: Twist2.Revolute([4.0, -5.0]), 'B': lambda: Twist2.Revolute([1.0, 2.0]), 'P': lambda: Twist2.Prismatic([3.0, 4.0])}
    entries = []      # (name, receivers, fn(receiver) -> result, view accessor?, independent reference fn(receiver name) or None)

    def exp_ref3(th_list):
        def ref(rn):
            out = []
            for th in th_list:
                if rn == 'P':
                    T = np.eye(4)
                    T[:3, 3] = th * np.array([0.0, 0.6, 0.8])
                else:
                    T = _rot_about(aA if rn == 'A' else aB, qA if rn == 'A' else qB, th)
                out.append(T)
            return out
        return ref
    for nm, arg, ths in (('exp(0)', 0, [0.0]), ('exp(0.0)', 0.0, [0.0]), ('exp(np.float64(0))', np.float64(0.0), [0.0]),
                         ('exp(1e-17)', 1e-17, [0.0]), ('exp(0.3)', 0.3, [0.3]), ('exp(-pi/2)', -PI / 2, [-PI / 2]),
                         ('exp([0,0.3])', [0, 0.3], [0.0, 0.3]), ('exp([0,0])', [0.0, 0.0], [0.0, 0.0]),
                         ('exp(array([0,0,0.3]))', np.array([0.0, 0.0, 0.3]), [0.0, 0.0, 0.3])):
        entries.append(('Twist3.' + nm, recv3, (lambda arg: lambda S: S.exp(arg))(arg), False, exp_ref3(ths)))
    entries += [
        ('Twist3.exp(0,deg)', recv3, lambda S: S.exp(0, 'deg'), False, exp_ref3([0.0])),
        ('Twist3.(S*0).exp()', recv3, lambda S: (S * 0).exp(), False, exp_ref3([0.0])),
        ('Twist3.(0*S).exp()', recv3, lambda S: (0 * S).exp(), False, exp_ref3([0.0])),
        ('Twist3.(S*0.3).exp()', recv3, lambda S: (S * 0.3).exp(), False, exp_ref3([0.3])),
        ('Twist3.(S*0).SE3()', recv3, lambda S: (S * 0).SE3(), False, exp_ref3([0.0])),
        ('Twist3.SE3()', recv3, lambda S: S.SE3(), False, exp_ref3([1.0])),
        ('base.trexp(S*0)', recv3, lambda S: base.trexp(S.S * 0), False, exp_ref3([0.0])),
        ('base.trexp(S,0)', recv3, lambda S: base.trexp(S.S, 0), False, exp_ref3([0.0])),
        ('base.trexp(S,0.3)', recv3, lambda S: base.trexp(S.S, 0.3), False, exp_ref3([0.3])),
        ('base.trexp(se3*0)', recv3, lambda S: base.trexp(S.se3() * 0), False, exp_ref3([0.0])),
        ('SE3.Exp(S*0)', recv3, lambda S: SE3.Exp(S.S * 0), False, exp_ref3([0.0])),
        ('Twist3.sequence.exp(0)', {'A': lambda: Twist3([Twist3.Revolute(aA, qA).S, Twist3.Revolute(aB, qB).S]),
                                    'B': lambda: Twist3([Twist3.Revolute(aB, qB).S, Twist3.Revolute(aB, qB).S])},
         lambda X: X.exp(0), False, lambda rn: [np.eye(4), np.eye(4)]),
        ('Twist3.line()', recv3, lambda S: S.line(), False, None),
        ('Twist3.pole()', {k: recv3[k] for k in 'AB'}, lambda S: S.pole(), False, None),
        ('Twist3.se3()', recv3, lambda S: S.se3(), False, None),
        ('Twist3.inv()', recv3, lambda S: S.inv(), False, None),
        ('Twist3.unit', recv3, lambda S: S.unit, False, None),
        ('Twist3.S*2', recv3, lambda S: S * 2, False, None),
        ('Twist3.2*S', recv3, lambda S: 2 * S, False, None),
        ('Twist3.S*1', recv3, lambda S: S * 1, False, None),
        ('Twist3.Ad()', recv3, lambda S: S.Ad(), False, None),
        ('Twist3.ad()', recv3, lambda S: S.ad(), False, None),
        ('Twist3.v', recv3, lambda S: S.v, True, None),
        ('Twist3.w', recv3, lambda S: S.w, True, None),
        ('Twist3.S', recv3, lambda S: S.S, True, None),
        ('Twist3.sequence.v', {'A': lambda: Twist3([Twist3.Revolute(aA, qA).S, Twist3.Revolute(aB, qB).S]),
                               'B': lambda: Twist3([Twist3.Revolute(aB, qB).S, Twist3.Revolute(aB, qB).S])}, lambda X: X.v, False, None),
        ('Twist3.sequence.w', {'A': lambda: Twist3([Twist3.Revolute(aA, qA).S, Twist3.Revolute(aB, qB).S]),
                               'B': lambda: Twist3([Twist3.Revolute(aB, qB).S, Twist3.Revolute(aB, qB).S])}, lambda X: X.w, False, None),
        ('Twist3.Rx(0)', {'A': lambda: 0.0, 'B': lambda: 0.3}, lambda t: Twist3.Rx(t), False, None),
        ('Twist3.Rx(0).exp()', {'A': lambda: 0.0, 'B': lambda: 0.0}, lambda t: Twist3.Rx(t).exp(), False, lambda rn: [np.eye(4)]),
    ]

    def exp_ref2(th_list):
        def ref(rn):
            out = []
            for th in th_list:
                T = np.eye(3)
                if rn == 'P':
                    T[:2, 2] = th * np.array([0.6, 0.8])
                else:
                    q = np.array([4.0, -5.0]) if rn == 'A' else np.array([1.0, 2.0])
                    T[:2, :2] = rot2(th)
                    T[:2, 2] = q - rot2(th) @ q
                out.append(T)
            return out
        return ref
    for nm, arg, ths in (('exp(0)', 0, [0.0]), ('exp(0.0)', 0.0, [0.0]), ('exp(1e-17)', 1e-17, [0.0]), ('exp(0.3)', 0.3, [0.3]),
                         ('exp([0,0.3])', [0, 0.3], [0.0, 0.3]), ('exp([0,0])', [0.0, 0.0], [0.0, 0.0])):
        entries.append(('Twist2.' + nm, recv2, (lambda arg: lambda S: S.exp(arg))(arg), False, exp_ref2(ths)))
    entries += [
        ('Twist2.(S*0).exp()', recv2, lambda S: (S * 0).exp(), False, exp_ref2([0.0])),
        ('Twist2.(0*S).exp()', recv2, lambda S: (0 * S).exp(), False, exp_ref2([0.0])),
        ('Twist2.(S*0).SE2()', recv2, lambda S: (S * 0).SE2(), False, exp_ref2([0.0])),
        ('Twist2.SE2()', recv2, lambda S: S.SE2(), False, exp_ref2([1.0])),
        ('base.trexp2(S*0)', recv2, lambda S: base.trexp2(S.S * 0), False, exp_ref2([0.0])),
        ('base.trexp2(S,0.3)', recv2, lambda S: base.trexp2(S.S, 0.3), False, exp_ref2([0.3])),
        ('Twist2.se2()', recv2, lambda S: S.se2(), False, None),
        ('Twist2.inv()', recv2, lambda S: S.inv(), False, None),
        ('Twist2.unit', recv2, lambda S: S.unit, False, None),
        ('Twist2.S*2', recv2, lambda S: S * 2, False, None),
        ('Twist2.2*S', recv2, lambda S: 2 * S, False, None),
        ('Twist2.v', recv2, lambda S: S.v, True, None),
        ('Twist2.S', recv2, lambda S: S.S, True, None),
    ]
    # constructors: the result must not alias the caller's argument arrays
    ctor = [('Twist3.Revolute(a,q)', lambda a, q: Twist3.Revolute(a, q), [np.array([0.0, 0.0, 1.0]), np.array([1.0, 2.0, 3.0])]),
            ('Twist3.Prismatic(a)', lambda a: Twist3.Prismatic(a), [np.array([0.0, 0.0, 1.0])]),
            ('Twist2.Revolute(q)', lambda q: Twist2.Revolute(q), [np.array([1.0, 2.0])]),
            ('Twist2.Prismatic(a)', lambda a: Twist2.Prismatic(a), [np.array([1.0, 0.0])])]
    for name, f, args in ctor:
        c = Chk(ctx, name, {'entry': name})
        ctx.case(('ownership-ctor', name))
        R = c.call('ownership', lambda: f(*args))
        if R is None:
            continue
        before = _values(R)
        c.true('ownership:result-shares-memory-with-argument', not any(np.shares_memory(b, a) for b in _arrays(R) for a in args), name)
        for a in args:
            a[...] = 77.5
        c.true('ownership:result-changed-by-editing-the-argument', _same(_values(R), before), name)

    SCRIBBLE = 1234.5
    for name, recvs, fn, is_view, ref in entries:
        inp = {'entry': name}
        c = Chk(ctx, name, inp)
        ctx.case(('ownership', name))
        names = list(recvs)
        # stateless references first (before anything is scribbled for this entry)
        refs = {}
        ok = True
        for rn in names:
            r = c.call('ownership', lambda: fn(recvs[rn]()))
            if r is None:
                ok = False
                break
            refs[rn] = _values(r)
            if ref is not None:
                c.true('ownership:first-call-value', _same(refs[rn], [np.asarray(x, float) for x in ref(rn)], 1e-9 * 1e3), f"receiver {rn}")
                refs[rn] = [np.asarray(x, float) for x in ref(rn)]
        if not ok:
            continue
        rA = recvs[names[0]]()
        own = [np.array(a, copy=True) for a in _arrays(rA)]
        r1 = c.call('ownership', lambda: fn(rA))
        r2 = c.call('ownership', lambda: fn(rA))
        if r1 is None or r2 is None:
            continue
        b1, b2 = _arrays(r1), _arrays(r2)
        if not is_view:      # (a view accessor returns the receiver's own storage each time, by design)
            c.true('ownership:two-results-share-memory',
                   not any(np.shares_memory(x, y) for x in b1 for y in b2), 'two calls return overlapping arrays')
        else:
            other = recvs[names[1]]()
            c.true('ownership:view-shares-memory-with-another-object',
                   not any(np.shares_memory(x, y) for x in b1 for y in _arrays(fn(other)) + _arrays(other)), name)
        c.true('ownership:elements-of-one-result-share-memory',
               not any(np.shares_memory(x, y) for i, x in enumerate(b1) for y in b1[i + 1:]), 'one result holds overlapping arrays')
        shares_recv = any(np.shares_memory(x, y) for x in b1 for y in _arrays(rA))
        if not is_view:
            c.true('ownership:result-shares-memory-with-receiver', not shares_recv, 'result overlaps the receiver data')
        # scribble over the first result
        for x in b1:
            if x.flags.writeable:
                x[...] = SCRIBBLE
        if not is_view:
            c.true('ownership:receiver-changed-by-editing-the-result', _same([np.array(a) for a in _arrays(rA)], own), name)
            c.true('ownership:earlier-result-changed-by-editing-another', _same(_values(r2), refs[names[0]], 1e-9 * 1e3), name)
            r3 = c.call('ownership', lambda: fn(rA))
            if r3 is not None:
                c.true('ownership:later-call-same-receiver-changed', _same(_values(r3), refs[names[0]], 1e-9 * 1e3),
                       'after editing an earlier result in place the same call returns another value')
        # a fresh receiver of the same twist, and different receivers, are never affected (also for view accessors)
        for rn in names:
            r4 = c.call('ownership', lambda: fn(recvs[rn]()))
            if r4 is not None:
                c.true('ownership:later-call-fresh-receiver-changed', _same(_values(r4), refs[rn], 1e-9 * 1e3),
                       f"after editing an earlier result in place, a fresh receiver {rn} returns another value")


def oracle(ctx):
    rng = ctx.rng
    N = ctx.n(500, 40000)
    forms = ['scalar', 'scalar', 'list', 'array']
    # deterministic part: every special theta x both units x every theta form, a skew axis off the origin
    det = []
    for th in SPECIAL_THETA + [PI / 4, -3 * PI / 4, 1e-16, -1e-15, 3e-15, 1e-9]:
        for unit in ('rad', 'deg'):
            for form in ('scalar', 'list', 'array'):
                det.append(([2.0, -1.0, 0.5], [1.0, 2.0, 3.0], th, unit, form))
    det.append(([0, 0, 1e-3], [1e3, -1e3, 1e3], PI / 2, 'rad', 'scalar'))
    det.append(([1e6, 0, 0], [0, 0, 0], -PI, 'deg', 'scalar'))
    det.append(([0, 0, 1.0], [1e3, 1e3, 0], 1e-15, 'rad', 'scalar'))     # inside the threshold band of the L-real model
    for a, q, th, unit, form in det:
        case3(ctx, a, q, th, unit, form, [0.0, 1.0, -2.5, 1e3])
        case2(ctx, a[:2] if np.linalg.norm(a[:2]) > 0 else [1.0, 0.0], q[:2], th, unit, form)
    for i in range(N):
        a, q, th = gen_axis(rng), gen_point(rng), gen_theta(rng)
        unit = 'deg' if rng.random() < 0.4 else 'rad'
        form = forms[int(rng.integers(len(forms)))]
        lams = [0.0, float(rng.normal()), float(rng.choice([-1, 1]) * log_uniform(rng, 1e-3, 1e3))]
        case3(ctx, a, q, th, unit, form, lams)
        case2(ctx, gen_axis(rng, 2), gen_point(rng, 2), th, unit, form)
    named_axis(ctx)
    multi_scalar(ctx)
    multi_twist(ctx)
    accessor_kinds(ctx)
    ownership(ctx)       # last: on a tree that shares state this poisons the process
    ctx.sample({'kind': 'oracle', 'case': 'Twist3.Revolute(a,q).exp(theta)', 'a': list(map(float, a)), 'q': list(map(float, q)), 'theta': th, 'unit': unit, 'form': form})


def run(ctx):
    ctx.rule = ("obligations: theorems of theories/Props/C18_a.v, C18_b.v, C18_c.v over the traces and path conditions regenerated "
                "from /repo; evaluations: Sym==Num cases (generated model vs implementation, incl. Twist3.exp / Twist2.exp themselves) "
                "+ oracle cases (axis, point, theta, unit, theta form) on the implementation; a case is distinct by its input signature")
    ctx.trusted_extra = [
        "concolic tracer: /verif/lib/concolic.py + PGen in props/C18.py (path conditions printed as bool terms over ltb)",
        "Twist3.exp / Twist2.exp wrap base.trexp(self.S*theta) in SE3()/SE2(), whose validity check is not symbolic: the traced "
        "statement is base.trexp(Twist3(S).S*theta); the class method itself is the numeric side of the correspondence",
        "SciPy expm, NumPy (independent oracle side)"]
    with ctx.timed('regenerate'):
        g = build(ctx)
        path = ctx.write_gen(MOD + '.v', g.coq_text())
    ctx.stats['paths'] = {k: v for k, v in g.paths.items()}
    for name, why in g.failed:
        ctx.fail('gen:trace:' + name, f"the library call behind {name} no longer runs on symbols: {why}", no_input=True)
    rc, out, err, dt = ctx.coqc(path)
    if rc != 0:
        ctx.fail('gen:compile', 'generated traces do not compile: ' + err[-800:], no_input=True)
    else:
        for f in ('C18_a', 'C18_b', 'C18_c', 'C18_series'):
            ctx.prove(f'theories/Props/{f}.v')
        with ctx.timed('correspond'):
            noops = [t.name for t in g.traces if t.term is not None and not uses_ops(t.term)]
            if noops:    # (never on the unchanged tree) the float driver passes the ops record to every definition
                ctx.notes.append(f"traces without arithmetic left out of the float correspondence: {noops}")
                g.traces = [t for t in g.traces if t.name not in noops]
            try:
                sym_num(ctx, g, MOD, ctx.n(20, 300))
            except Exception as ex:     # noqa
                ctx.fail('corr:driver', f"the extracted model could not be built / run: {type(ex).__name__}: {str(ex)[-600:]}", no_input=True)
    with ctx.timed('oracle'):
        oracle(ctx)


def replay(ctx, path):
    """re-run one recorded case: oracle cases from their stored inputs, anything else by the whole quick check"""
    import json
    rec = json.load(open(path))
    key = rec.get('key') or ('obligation:' + rec.get('broken_obligation', ''))
    r = rec.get('replay') or {}
    fh = lambda xs: [float.fromhex(x) for x in xs]
    if key.startswith('oracle:') and 'dim' in r:
        a, q, th = fh(r['a_hex']), fh(r['q_hex']), fh(r['theta_hex'])[0]
        if r['dim'] == 3:
            case3(ctx, a, q, th, r['unit'], r['form'], fh(r.get('lams_hex', [])) or [0.0, 1.0])
        else:
            case2(ctx, a, q, th, r['unit'], r['form'])
    elif key.startswith('oracle:coordinate-axis'):
        named_axis(ctx)
    elif 'scalar-multi' in key:
        multi_scalar(ctx)
    elif ':ownership' in key:
        ownership(ctx)
    elif 'kind' in r:
        accessor_kinds(ctx)
    else:
        run(ctx)
    keys = {f.key for f in ctx.findings} | {'obligation:' + o.name for o in ctx.obligations if o.ok is False}
    if key in keys:
        f = [f for f in ctx.findings if f.key == key]
        print(f"REPRODUCED {key}" + (f": {f[0].what}" if f else ''))
        return 1
    print(f"not reproduced: {key}")
    return 0
