"""C10 -- list behaviour of pose / quaternion / twist objects matches a Python list of the element values.

Kind B (no Reals).  Coq: theories/Model/C10_PyList.v (specification: CPython list), theories/Model/C10_SMList.v (model of
spatialmath/smuserlist.py as it is), theories/Props/C10.v (theorems).  This file is the tie (T-seq, three-way) and the
search for a failing history:

    real objects of every class  ==  Coq model (extracted OCaml driver, cross-checked against vm_compute in the kernel)
    Coq specification            ==  a real Python list
    real objects                 ==  Python list          <- the property; a mismatch is a finding, and it is attributed
                                                             to a known root cause ONLY if the model predicted exactly
                                                             the observed outcome (result, class, error kind, state)

Model and specification are applied to the same state at every step (Coq `lockstep`); after a step on which the real
object's state differs from the list's (a known defect) the object is rebuilt from the list so that the run continues.
"""
import json
import os
import re
import math
import numpy as np

from spatialmath import SE3, SO3, SE2, SO2, Quaternion, UnitQuaternion, Twist3, Twist2  # noqa: E402
from spatialmath.spatialvector import SpatialVelocity, SpatialAcceleration, SpatialForce, SpatialMomentum  # noqa: E402
from spatialmath import Plucker  # noqa: E402

U = 0.001   # angle per tag for the rotation-valued classes


class K:
    """one list-capable class: how to make an element with a tag, how to read the tag back"""

    def __init__(self, name, cls, mk, untag, nrows, own, related, unrelated):
        self.name, self.cls, self.mk, self.untag, self.nrows, self.own = name, cls, mk, untag, nrows, own
        self.related, self.unrelated = related, unrelated
        self.shape = np.asarray(mk(0).A).shape

    def others(self):
        # things that are NOT a same-class object: related class (sub/superclass), unrelated class, bare array, int, list
        return [self.related, self.unrelated, lambda: np.array(self.mk(5).A), lambda: 3, lambda: [self.mk(5)]]

    def tag(self, a):
        """tag of one entry of .data; negative codes are the model's garbage codes"""
        if isinstance(a, np.ndarray) and a.shape == self.shape:
            v = float(self.untag(a))
            r = round(v)
            if abs(v - r) < 1e-6 and r >= 0:
                return int(r)
            return -77                      # a valid-shaped array that is not one of ours
        if isinstance(a, list):
            return -1 if len(a) == 0 else -3
        return -2                           # a row of a matrix / a scalar

    def state(self, x):
        d = x.data
        if len(x) != len(d):
            return [-88]
        return [len(d)] + [self.tag(a) for a in d]

    def build(self, tags):
        """object holding the given tags, through the public API"""
        if len(tags) == 0:
            return self.cls.Empty()
        if len(tags) == 1:
            return self.mk(tags[0])
        return self.cls([self.mk(t) for t in tags])

    def clone(self, x):
        y = self.cls.Empty()
        y.data = list(x.data)
        return y


def delegating_classes():
    """the SpatialVector classes: their own __init__ (copy constructor, list handling) and __getitem__ (spatialvector.py:64-133)"""
    cs = (SpatialVelocity, SpatialAcceleration, SpatialForce, SpatialMomentum)
    return [K(c.__name__, c, (lambda c: lambda t: c([t, 0, 0, 0, 0, 0]))(c), lambda a: a[0], 6, False,
              (lambda d: lambda: d([1, 2, 3, 4, 5, 6]))(cs[(i + 1) % 4]), lambda: Twist3())
            for i, c in enumerate(cs)] + [
        # Plucker: its own append (geom3d.py:332-347, repaired by the fix recorded in known_findings.json) and __getitem__ = cls(data[i])
        K('Plucker', Plucker, lambda t: Plucker([t, 0, 0, 0, 0, 1]), lambda a: a[0], 6, False, lambda: Twist3(), lambda: SE3())]


def classes():
    rot = lambda a: math.atan2(a[1, 0], a[0, 0]) / U
    return [
        K('SE3', SE3, lambda t: SE3.Tx(t), lambda a: a[0, 3], 4, True, lambda: SO3(), lambda: Quaternion([1, 2, 3, 4])),
        K('SO3', SO3, lambda t: SO3.Rz(U * t), rot, 3, True, lambda: SE3(), lambda: Twist3()),
        K('SE2', SE2, lambda t: SE2(t, 0, 0), lambda a: a[0, 2], 3, True, lambda: SO2(), lambda: SE3()),
        K('SO2', SO2, lambda t: SO2(U * t), rot, 2, True, lambda: SE2(), lambda: SO3()),
        K('Quaternion', Quaternion, lambda t: Quaternion([t, 0, 0, 0]), lambda a: a[0], 4, True,
          lambda: UnitQuaternion(), lambda: SE3()),
        K('UnitQuaternion', UnitQuaternion, lambda t: UnitQuaternion.Rz(U * t), lambda a: 2 * math.atan2(a[3], a[0]) / U, 4, True,
          lambda: Quaternion([1, 2, 3, 4]), lambda: SO3()),
        K('Twist3', Twist3, lambda t: Twist3([t, 0, 0, 0, 0, 0]), lambda a: a[0], 6, True, lambda: Twist2(), lambda: SE3()),
        K('Twist2', Twist2, lambda t: Twist2([t, 0, 0]), lambda a: a[0], 3, True, lambda: Twist3(), lambda: SE2()),
    ]


# --------------------------------------------------------------------------------------------- operations
# op = tuple; operands: ('s', (tags...)) an object of the same class holding the tags | ('o', k) something else
#   ('G', i) ('S', a, b, c) ('I',) ('L',) ('T', i, v) ('D', i) ('X', a, b, c) ('A', v) ('E', v) ('N', i, v)
#   ('P', i) ('R',) ('C',) ('CI',) ('CC',) ('CF', tags) ('AL', n) ('EM',)
EXC = {'IndexError': 1, 'ValueError': 2, 'TypeError': 3, 'AssertionError': 4, 'StopIteration': 5}
# root causes the model still mirrors.  (Repaired in /repo and therefore NOT listed, so that a regression is a VIOLATION:
# slice index arithmetic -- fix 639aa3a; extend by a single-valued object appending matrix rows -- fix e8a8671;
# empty slice of the SpatialVector classes raising IndexError -- fix 40af48b;
# construction from an empty list raising IndexError -- fix 1105ad0; empty object stored as an element -- fix b1d6482.)
# Nothing is left: the model equals the specification for every operation (C10_step_refines), so ANY difference between the
# implementation and the list is a VIOLATION.
KEYS = {}
OPNAME = {'G': 'getitem', 'S': 'getitem-slice', 'I': 'iter', 'RV': 'reversed', 'IN': 'iter-new', 'IX': 'iter-next', 'L': 'len', 'T': 'setitem', 'D': 'delitem', 'X': 'delitem-slice',
          'A': 'append', 'E': 'extend', 'N': 'insert', 'P': 'pop', 'R': 'reverse', 'C': 'clear', 'CI': 'ctor-from-iteration',
          'CC': 'copy-ctor', 'CF': 'ctor-from-list', 'AL': 'Alloc', 'EM': 'Empty'}


def bad_operand(op):
    """the specification says this operation must raise because of its operand (any exception type is acceptable)"""
    k = op[0]
    if k in ('T', 'N'):
        v = op[2]
    elif k in ('A', 'E'):
        v = op[1]
    else:
        return False
    if v[0] == 'o':
        return True
    return k != 'E' and len(v[1]) != 1


def norm(op, enc):
    """operand errors: only 'some exception was raised' is compared"""
    if enc and enc[0] == 9 and bad_operand(op):
        return [9, 8] + list(enc[2:])
    return list(enc)


def o2s(o):
    return 'N' if o is None else str(int(o))


def operand_tokens(v):
    return 'o' if v[0] == 'o' else 's %d %s' % (len(v[1]), ' '.join(str(t) for t in v[1]))


def op_tokens(op):
    k = op[0]
    if k in ('G', 'D', 'P', 'AL'):
        return f'{k} {op[1]}'
    if k in ('S', 'X'):
        return f'{k} {o2s(op[1])} {o2s(op[2])} {o2s(op[3])}'
    if k in ('T', 'N'):
        return f'{k} {op[1]} {operand_tokens(op[2])}'
    if k in ('A', 'E'):
        return f'{k} {operand_tokens(op[1])}'
    if k == 'CF':
        return 'CF %d %s' % (len(op[1]), ' '.join(str(t) for t in op[1]))
    return k


def zs(n):
    return f'({n})' if n < 0 else str(n)


def oz(o):
    return 'None' if o is None else f'(Some {zs(int(o))})'


def zl(ts):
    return '[' + '; '.join(zs(int(t)) for t in ts) + ']'


def operand_coq(v):
    return 'Other' if v[0] == 'o' else f'(Same {zl(v[1])})'


def op_coq(op):
    k = op[0]
    if k == 'G':
        return f'GetItem {zs(op[1])}'
    if k == 'S':
        return f'GetSlice {oz(op[1])} {oz(op[2])} {oz(op[3])}'
    if k == 'X':
        return f'DelSlice {oz(op[1])} {oz(op[2])} {oz(op[3])}'
    if k == 'T':
        return f'SetItem {zs(op[1])} {operand_coq(op[2])}'
    if k == 'N':
        return f'Insert {zs(op[1])} {operand_coq(op[2])}'
    if k == 'D':
        return f'DelItem {zs(op[1])}'
    if k == 'P':
        return f'Pop {zs(op[1])}'
    if k == 'A':
        return f'Append {operand_coq(op[1])}'
    if k == 'E':
        return f'Extend {operand_coq(op[1])}'
    if k == 'CF':
        return f'CtorFrom {zl(op[1])}'
    if k == 'AL':
        return f'Alloc {zs(op[1])}'
    return {'I': 'Iter', 'RV': 'IterRev', 'L': 'Len', 'R': 'Reverse', 'C': 'Clear', 'CI': 'CtorIter', 'CC': 'CtorCopy', 'EM': 'Empty'}[k]


def op_py(op):
    """human-readable Python form, for replays"""
    k = op[0]
    sl = lambda a, b, c: f"{'' if a is None else a}:{'' if b is None else b}" + ('' if c is None else f':{c}')
    v = lambda w: 'OTHER' if w[0] == 'o' else ('EMPTY' if not w[1] else ('elem(%d)' % w[1][0] if len(w[1]) == 1 else 'multi%s' % (list(w[1]),)))
    return {'G': lambda: f'x[{op[1]}]', 'S': lambda: f'x[{sl(*op[1:])}]', 'I': lambda: 'list(iter(x))', 'RV': lambda: 'list(reversed(x))', 'L': lambda: 'len(x)',
            'T': lambda: f'x[{op[1]}] = {v(op[2])}', 'D': lambda: f'del x[{op[1]}]', 'X': lambda: f'del x[{sl(*op[1:])}]',
            'A': lambda: f'x.append({v(op[1])})', 'E': lambda: f'x.extend({v(op[1])})', 'N': lambda: f'x.insert({op[1]}, {v(op[2])})',
            'P': lambda: f'x.pop({op[1]})', 'R': lambda: 'x.reverse()', 'C': lambda: 'x.clear()', 'CI': lambda: 'x = cls([e for e in x])',
            'CC': lambda: 'x = cls(x)', 'CF': lambda: f'x = cls([elem(t) for t in {list(op[1])}])', 'AL': lambda: f'x = cls.Alloc({op[1]})',
            'EM': lambda: 'x = cls.Empty()'}[k]()


# --------------------------------------------------------------------------------------------- the three executors
def make_operand(k, v):
    if v[0] == 'o':
        return k.others()[v[1] % 5]()
    return k.build(list(v[1]))


def enc_obj(k, r):
    if type(r) is not k.cls:
        return [7, 0]                                  # not an object of the same class
    st = k.state(r)
    return [1] + st


def shares_state(k, x, r):
    """does the result r share state with the receiver x?  (a list element read / slice / pop / iteration item of a Python list
    never aliases the list.)  Observed behaviourally in both directions, then undone."""
    if r is x or r.data is x.data:
        return True
    nx, nr = len(x.data), len(r.data)
    r.data.append(None)
    bad = len(x.data) != nx
    r.data.pop()
    x.data.append(None)
    bad = bad or len(r.data) != nr
    x.data.pop()
    return bad


def impl_step(k, x, op, keep=None):
    """apply op to the real object; returns (object afterwards, encoded outcome ++ encoded state).
    keep: a list that receives the object-valued results (they stay alive and are addressed by later operations)"""
    kind = op[0]
    results = []
    operand = None
    if kind in ('T', 'N'):
        operand = make_operand(k, op[2])
    elif kind in ('A', 'E'):
        operand = make_operand(k, op[1])
    elems = [k.mk(t) for t in op[1]] if kind == 'CF' else None
    try:
        r = None
        if kind == 'G':
            r = x[op[1]]
            results.append(r)
            out = enc_obj(k, r)
        elif kind == 'S':
            r = x[slice(op[1], op[2], op[3])]
            results.append(r)
            out = enc_obj(k, r)
        elif kind in ('I', 'RV'):
            out = [2, 0]
            for e in (x if kind == 'I' else reversed(x)):
                results.append(e)
                o = enc_obj(k, e)
                out += o[1:] if o[0] == 1 else [-70]
                out[1] += 1
        elif kind == 'L':
            out = [3, len(x)]
        elif kind == 'P':
            r = x.pop() if (op[1] == -1 and len(op) > 2) else x.pop(op[1])
            results.append(r)
            out = enc_obj(k, r)
        else:
            if kind == 'T':
                x[op[1]] = operand
            elif kind == 'D':
                del x[op[1]]
            elif kind == 'X':
                del x[slice(op[1], op[2], op[3])]
            elif kind == 'A':
                r = x.append(operand)
            elif kind == 'E':
                r = x.extend(operand)
            elif kind == 'N':
                r = x.insert(op[1], operand)
            elif kind == 'R':
                r = x.reverse()
            elif kind == 'C':
                r = x.clear()
            elif kind == 'CI':
                x = k.cls([e for e in x])
            elif kind == 'CC':
                y = k.cls(x)
                if type(y) is k.cls and len(y.data) == len(x.data):
                    y.data.append(None)                    # the copy must own its list
                    shared = len(x.data) == len(y.data)
                    y.data.pop()
                    if shared:
                        raise RuntimeError('copy shares its list with the original')
                x = y
            elif kind == 'CF':
                x = k.cls(elems)
            elif kind == 'AL':
                x = k.cls.Alloc(op[1])
            elif kind == 'EM':
                x = k.cls.Empty()
            else:
                raise RuntimeError('unknown op ' + repr(op))
            out = [0] if r is None else [6]
            if kind in ('CI', 'CC', 'CF', 'AL', 'EM') and type(x) is not k.cls:
                out = [7, 0]
    except Exception as ex:  # noqa: the exception kind IS the observation
        out = [9, EXC.get(type(ex).__name__, 99)]
    if out[0] in (1, 2):
        objs = [r for r in results if type(r) is k.cls]
        if any(shares_state(k, x, r) for r in objs) or any(a.data is b.data for i, a in enumerate(objs) for b in objs[:i]):
            out = [64]                                 # a result shares state with the receiver (or with another result)
    if keep is not None and out[0] in (1, 2):
        keep.extend(results)
    return x, out + k.state(x)


def list_step(l, op):
    """the same operation on a real Python list of tags (the reference); returns (list afterwards, encoding)"""
    kind = op[0]

    def single(v):
        if v[0] == 's' and len(v[1]) == 1:
            return v[1][0]
        raise ValueError('operand is not one value of this class')
    try:
        out = [0]
        if kind == 'G':
            out = [1, 1, l[op[1]]]
        elif kind == 'S':
            r = l[slice(op[1], op[2], op[3])]
            out = [1, len(r)] + r
        elif kind == 'I':
            out = [2, len(l)]
            for e in l:
                out += [1, e]
        elif kind == 'RV':
            out = [2, len(l)]
            for e in reversed(l):
                out += [1, e]
        elif kind == 'L':
            out = [3, len(l)]
        elif kind == 'T':
            v = single(op[2])
            l[op[1]] = v
        elif kind == 'D':
            del l[op[1]]
        elif kind == 'X':
            del l[slice(op[1], op[2], op[3])]
        elif kind == 'A':
            l.append(single(op[1]))
        elif kind == 'E':
            if op[1][0] == 'o':
                raise ValueError('operand is not an object of this class')
            l.extend(list(op[1][1]))
        elif kind == 'N':
            v = single(op[2])
            l.insert(op[1], v)
        elif kind == 'P':
            out = [1, 1, l.pop(op[1])]
        elif kind == 'R':
            l.reverse()
        elif kind == 'C':
            l.clear()
        elif kind in ('CI', 'CC'):
            l = list(l)
        elif kind == 'CF':
            l = list(op[1])
        elif kind == 'AL':
            l = [0] * op[1]
        elif kind == 'EM':
            l = []
    except Exception as ex:  # noqa
        out = [9, EXC.get(type(ex).__name__, 99)]
    return l, out + [len(l)] + list(l)


# --------------------------------------------------------------------------------------------- the Coq model, executed
EXTRACT = """From SM Require Import Model.C10_PyList Model.C10_SMList Model.C10_World.
Require Extraction.
Require Import ExtrOcamlBasic.
Extraction Language OCaml.
Set Extraction Output Directory ".".
Extraction "c10_ml.ml" lockstep wlockstep wstart.
"""

DRIVER = r"""
open C10_ml
let rec pos_of_int n = if n = 1 then XH else if n land 1 = 0 then XO (pos_of_int (n lsr 1)) else XI (pos_of_int (n lsr 1))
let z_of_int n = if n = 0 then Z0 else if n > 0 then Zpos (pos_of_int n) else Zneg (pos_of_int (- n))
let rec int_of_pos = function XH -> 1 | XO p -> 2 * int_of_pos p | XI p -> 2 * int_of_pos p + 1
let int_of_z = function Z0 -> 0 | Zpos p -> int_of_pos p | Zneg p -> - (int_of_pos p)
let run line =
  let toks = Array.of_list (List.filter (fun s -> s <> "") (String.split_on_char ' ' line)) in
  let pos = ref 0 in
  let next () = let t = toks.(!pos) in incr pos; t in
  let zint () = z_of_int (int_of_string (next ())) in
  let optz () = let t = next () in if t = "N" then None else Some (z_of_int (int_of_string t)) in
  let zlist () = let k = int_of_string (next ()) in
    let rec go i acc = if i = k then List.rev acc else (let v = zint () in go (i + 1) (v :: acc)) in go 0 [] in
  let operand () = let t = next () in if t = "o" then Other else Same (zlist ()) in
  let rec nat_of_int n = if n <= 0 then O else S (nat_of_int (n - 1)) in
  let world = (toks.(0) = "W") in
  if world then incr pos;
  let own = (next () = "1") in
  let n0 = int_of_string (next ()) in
  let ops = ref [] in
  let wops = ref [] in
  let parse_op t =
    match t with
      | "G" -> GetItem (zint ())
      | "S" -> let a = optz () in let b = optz () in let c = optz () in GetSlice (a, b, c)
      | "I" -> Iter
      | "RV" -> IterRev
      | "L" -> Len
      | "T" -> let i = zint () in let v = operand () in SetItem (i, v)
      | "D" -> DelItem (zint ())
      | "X" -> let a = optz () in let b = optz () in let c = optz () in DelSlice (a, b, c)
      | "A" -> Append (operand ())
      | "E" -> Extend (operand ())
      | "N" -> let i = zint () in let v = operand () in Insert (i, v)
      | "P" -> Pop (zint ())
      | "R" -> Reverse
      | "C" -> Clear
      | "CI" -> CtorIter
      | "CC" -> CtorCopy
      | "CF" -> CtorFrom (zlist ())
      | "AL" -> Alloc (zint ())
      | "EM" -> Empty
      | _ -> failwith ("bad op token " ^ t) in
  while !pos < Array.length toks do
    let t = next () in
    if world then begin
      let a = match t with
        | "O" -> let tg = nat_of_int (int_of_string (next ())) in let o = parse_op (next ()) in On (tg, o)
        | "IN" -> ItNew (nat_of_int (int_of_string (next ())))
        | "IX" -> ItNext (nat_of_int (int_of_string (next ())))
        | _ -> failwith ("bad world op token " ^ t) in
      wops := a :: !wops
    end else ops := parse_op t :: !ops
  done;
  let st = List.init n0 (fun k -> z_of_int (k + 1)) in
  let per = if world then 2 else 3 in
  let res = if world then wlockstep own (wstart (z_of_int n0)) (List.rev !wops) else lockstep own st (List.rev !ops) in
  let b = Buffer.create 256 in
  List.iteri (fun i l ->
    if i > 0 then Buffer.add_char b (if i mod per = 0 then '|' else ',');
    List.iteri (fun j z -> if j > 0 then Buffer.add_char b ' '; Buffer.add_string b (string_of_int (int_of_z z))) l) res;
  print_string (Buffer.contents b); print_newline ()
let () =
  try while true do run (input_line stdin) done with End_of_file -> ()
"""

COQ_HEADER = ("From Coq Require Import ZArith List.\nFrom SM Require Import Model.C10_PyList Model.C10_SMList Model.C10_World.\n"
              "Import ListNotations.\nOpen Scope Z_scope.\n")


def parse_coq_ll(s):
    """'[[1; 2]; [3]]' -> [[1,2],[3]]"""
    return [[int(t) for t in re.findall(r'-?\d+', grp)] for grp in re.findall(r'\[([^\[\]]*)\]', s)]


def parse_driver_line(line):
    """-> list of (model enc, spec enc, class code) per step"""
    steps = []
    if not line:
        return steps
    for st in line.split('|'):
        m, s, c = st.split(',')
        steps.append(([int(t) for t in m.split()], [int(t) for t in s.split()], int(c)))
    return steps


class Model:
    def __init__(self, ctx):
        self.ctx = ctx
        self.exe = ctx.build_driver('C10', EXTRACT, DRIVER)
        self.cache = {}

    def run(self, own, cases):
        """cases: list of (n0, [ops]); returns per case the list of (m, s, code) per step"""
        lines = [f"{1 if own else 0} {n0} " + ' '.join(op_tokens(o) for o in ops) for n0, ops in cases]
        with self.ctx.timed('model-driver'):
            outs = self.ctx.run_driver(self.exe, lines, timeout=1800) if lines else []
        if len(outs) != len(lines):
            raise RuntimeError(f'driver returned {len(outs)} lines for {len(lines)} cases')
        return [parse_driver_line(l) for l in outs]


# --------------------------------------------------------------------------------------------- comparison
class Cmp:
    """three-way comparison of one step, and attribution of mismatches"""

    def __init__(self, ctx):
        self.ctx = ctx

    def step(self, k, n0, ops, idx, I, L, M, S, code, where):
        ctx = self.ctx
        op = ops[idx]
        I, L, M, S = norm(op, I), norm(op, L), norm(op, M), norm(op, S)
        name = OPNAME[op[0]]
        ctx.count('steps')
        rp = lambda: {'class': k.name, 'start_length': n0, 'ops': [list(map(_js, o)) for o in ops[:idx + 1]],
                      'python': [op_py(o) for o in ops[:idx + 1]], 'failing_step': idx, 'where': where,
                      'implementation': I, 'python_list': L, 'model': M, 'spec': S,
                      'encoding': 'result: [0]=None [1,n,tags..]=object [2,n,(len,tags..)..]=objects [3,n]=int [9,kind]=raised '
                                  '(1 IndexError 2 ValueError 3 TypeError 4 AssertionError 8 any 99 other); then len and tags of the state; '
                                  'negative tags: -1 [] stored, -2 some other non-element stored, -3 nested list stored'}
        if S != L:
            ctx.fail(f'spec:{name}', f"the Coq specification of {name} disagrees with a real Python list: spec {S} list {L} for {op_py(op)}",
                     rp(), no_input=True)
        if I != M:
            ctx.corr['disagreements'] += 1
            ctx.fail(f'corr:{name}', f"the model of {name} no longer corresponds to the implementation ({k.name}): "
                     f"{op_py(op)} gives {I}, model says {M}" + ('' if I != L else ' (the implementation agrees with the list here)'),
                     rp(), no_input=(I == L))
        if I != L:
            if I == M and S == L and code in KEYS:
                ctx.fail(KEYS[code], f"{k.name}: {op_py(op)} differs from the list: got {I}, list gives {L}", rp())
                ctx.count('known-mismatch:' + KEYS[code].split(':')[1])
                return code
            ctx.fail(f'oracle:{name}:mismatch-not-predicted-by-model',
                     f"{k.name}: {op_py(op)} differs from the list and the model does not predict it: got {I}, list gives {L}, model {M}", rp())
            return -1
        return 0


def _js(v):
    if isinstance(v, tuple):
        return [_js(t) for t in v]
    if isinstance(v, (np.integer,)):
        return int(v)
    return v


def _unjs(v):
    if isinstance(v, list):
        return tuple(_unjs(t) for t in v)
    return v


# --------------------------------------------------------------------------------------------- alphabets
I_FULL = [-5, -2, -1, 0, 1, 3, 4]


def alphabet(depth, level):
    t = 10 * (depth + 1)
    s1 = lambda j=0: ('s', (t + j,))
    m2, m3, em = ('s', (t + 5, t + 6)), ('s', (t + 7, t + 8, t + 9)), ('s', ())
    ot = lambda j: ('o', depth + j)
    if level == 'small':      # no error-injecting operands
        return [('G', -1), ('S', 1, 3, None), ('I',), ('T', 0, s1()), ('D', -1), ('A', s1(1)), ('E', m2), ('N', 1, s1(2)),
                ('P', -1, 'default'), ('P', 0), ('R',), ('CI',)]
    if level == 'mid':
        return [('G', -1), ('G', 0), ('G', 3), ('S', None, -1, None), ('S', 1, 3, None), ('S', None, None, -1), ('I',), ('RV',),
                ('T', -1, s1()), ('T', 2, s1()), ('T', 0, m2), ('D', 0), ('D', -1), ('D', 3),
                ('A', s1(1)), ('A', ot(0)), ('A', em), ('E', s1(2)), ('E', m2), ('E', em),
                ('N', 0, s1(3)), ('N', -1, s1(3)), ('N', 9, s1(3)), ('P', -1, 'default'), ('P', 0), ('P', 3),
                ('R',), ('C',), ('CI',), ('CC',), ('EM',)]
    a = [('G', i) for i in I_FULL]
    a += [('S',) + s for s in [(None, None, None), (1, None, None), (None, -1, None), (None, None, 2), (None, None, -1), (1, 3, None),
                               (-2, None, None), (2, 2, None), (0, 9, None), (None, None, 0)]]
    a += [('I',), ('RV',), ('L',)]
    a += [('T', i, s1()) for i in (-5, -1, 0, 2, 4)] + [('T', 0, m2), ('T', 0, ot(0)), ('T', 0, em), ('T', 9, m2)]
    a += [('D', i) for i in (-5, -1, 0, 2, 4)] + [('X', 1, 3, None), ('X', None, None, 2), ('X', None, None, -2)]
    a += [('A', s1(1)), ('A', m2), ('A', ot(1)), ('A', em)]
    a += [('E', s1(2)), ('E', m2), ('E', m3), ('E', em), ('E', ot(2))]
    a += [('N', i, s1(3)) for i in (-9, -1, 0, 2, 9)] + [('N', 1, m2), ('N', 1, ot(3)), ('N', 1, em)]
    a += [('P', -1, 'default')] + [('P', i) for i in (-5, 0, 2, 4)]
    a += [('R',), ('C',), ('CI',), ('CC',), ('CF', (t + 3, t + 4)), ('CF', ()), ('AL', 2), ('AL', 0), ('EM',)]
    return a


def enumerate_paths(maxlen, level):
    """all op sequences of length 1..maxlen in DFS (pre-)order"""
    paths = []

    def rec(prefix):
        for o in alphabet(len(prefix), level):
            p = prefix + [o]
            paths.append(p)
            if len(p) < maxlen:
                rec(p)
    rec([])
    return paths


# --------------------------------------------------------------------------------------------- sub-checks
def exhaustive_sequences(ctx, model, cmp, ks, maxlen, level):
    paths = enumerate_paths(maxlen, level)
    ctx.stats[f'sequences:{level}:len<={maxlen}:per-class-and-start'] = len(paths)
    mcache = {}
    for k in ks:
        for n0 in range(5):
            key = (k.own, n0)
            if key not in mcache:
                mcache[key] = model.run(k.own, [(n0, p) for p in paths])
            mres = mcache[key]
            with ctx.timed('impl-sequences'):
                x0, l0 = k.build(list(range(1, n0 + 1))), list(range(1, n0 + 1))
                stack = [(x0, l0)]            # state after the prefix of each length
                for pi, p in enumerate(paths):
                    d = len(p) - 1
                    del stack[d + 1:]
                    x, l = stack[d]
                    xc, lc = k.clone(x), list(l)
                    xc, I = impl_step(k, xc, p[-1])
                    lc, L = list_step(lc, p[-1])
                    M, S, code = mres[pi][d]
                    ctx.case((k.name, n0, tuple(map(op_tokens, p))))
                    ctx.corr['cases'] += 1
                    cmp.step(k, n0, p, d, I, L, M, S, code, f'exhaustive:{level}')
                    if k.state(xc) != [len(lc)] + lc:
                        xc = k.build(lc)      # resynchronise after a (reported) divergence of the state
                    stack.append((xc, lc))
    if mcache:
        ctx.sample({'kind': f'exhaustive sequences ({level})', 'example': [op_py(o) for o in paths[len(paths) // 2]]})


def random_ops(rng, nsteps):
    """one random history; generated against a Python list so that indices straddle the current length"""
    l, ops, fresh = [], [], [100]
    n0 = int(rng.integers(0, 5))
    l = list(range(1, n0 + 1))

    def new(n=1):
        fresh[0] += n
        return tuple(range(fresh[0] - n, fresh[0]))

    def operand(for_extend):
        r = rng.random()
        if for_extend:
            return ('s', new(int(rng.integers(2, 4)))) if r < 0.5 else ('s', new(1)) if r < 0.65 else ('s', ()) if r < 0.8 else ('o', int(rng.integers(0, 5)))
        return ('s', new(1)) if r < 0.72 else ('s', new(int(rng.integers(2, 4)))) if r < 0.82 else ('s', ()) if r < 0.88 else ('o', int(rng.integers(0, 5)))

    def idx():
        n = len(l)
        return int(rng.integers(-(n + 2), n + 3))

    def bound():
        r = rng.random()
        if r < 0.2:
            return None
        if r < 0.85:
            return int(rng.integers(-7, 8))
        return idx()

    kinds = ['G', 'S', 'I', 'L', 'T', 'D', 'X', 'A', 'E', 'N', 'P', 'R', 'C', 'CI', 'CC', 'CF', 'AL', 'EM', 'RV']
    w = np.array([12, 12, 3, 2, 10, 6, 3, 12, 9, 10, 10, 3, 0.7, 2, 1, 1.5, 0.5, 0.5, 2])

    def draw():
        nonlocal l
        ww = w.copy()
        if len(l) > 9:
            ww[[7, 8, 9]] *= 0.2
            ww[[5, 6, 10]] *= 3
        kd = kinds[int(rng.choice(len(kinds), p=ww / ww.sum()))]
        if kd in ('G', 'D'):
            op = (kd, idx())
        elif kd == 'P':
            op = ('P', -1, 'default') if rng.random() < 0.3 else ('P', idx())
        elif kd in ('S', 'X'):
            st = [None, 1, -1, 2, -2, 3, -3, 0][int(rng.integers(0, 8))] if rng.random() < 0.95 else int(rng.integers(-5, 6))
            op = (kd, bound(), bound(), st)
        elif kd in ('T', 'N'):
            op = (kd, idx(), operand(False))
        elif kd == 'A':
            op = ('A', operand(False))
        elif kd == 'E':
            op = ('E', operand(True))
        elif kd == 'CF':
            op = ('CF', new(int(rng.integers(0, 4))))
        elif kd == 'AL':
            op = ('AL', int(rng.integers(0, 4)))
        else:
            op = (kd,)
        return op

    if nsteps is None:            # world histories: hand out the generator (the caller sets the list the indices refer to)
        def draw_on(target_list):
            nonlocal l
            l = target_list
            return draw()
        return n0, draw_on
    for _ in range(nsteps):
        op = draw()
        ops.append(op)
        l, _ = list_step(l, op)
    return n0, ops


def run_history(ctx, cmp, k, n0, ops, mres, where):
    x, l = k.build(list(range(1, n0 + 1))), list(range(1, n0 + 1))
    for i, op in enumerate(ops):
        x, I = impl_step(k, x, op)
        l, L = list_step(l, op)
        M, S, code = mres[i]
        ctx.corr['cases'] += 1
        cmp.step(k, n0, ops, i, I, L, M, S, code, where)
        if k.state(x) != [len(l)] + l:
            x = k.build(l)


def random_sequences(ctx, model, cmp, ks, nseq):
    for k in ks:
        hs = []
        for j in range(nseq):
            nsteps = 60 if j % 4 == 0 else int(ctx.rng.integers(1, 61))
            hs.append(random_ops(ctx.rng, nsteps))
        mres = model.run(k.own, hs)
        with ctx.timed('impl-random'):
            for (n0, ops), mr in zip(hs, mres):
                ctx.case((k.name, 'random', n0, tuple(map(op_tokens, ops))))
                run_history(ctx, cmp, k, n0, ops, mr, 'random')
        ctx.count('random-histories', nseq)
    ctx.sample({'kind': 'random history', 'class': ks[-1].name, 'start_length': hs[-1][0], 'ops': [op_py(o) for o in hs[-1][1][:12]]})


GRID_B = [None] + list(range(-7, 8))
GRID_S = [None, 1, -1, 2, -2, 3, -3]


def grid(ctx, model, cmp, ks):
    """every slice with start, stop in {None,-7..7}, step in {None,+-1,+-2,+-3} and every index -7..7 on lengths 0..5, every class.
    Model side: vm_compute inside Coq (grid_eval_*), cross-checked with the extracted driver."""
    slices = [(a, b, c) for a in GRID_B for b in GRID_B for c in GRID_S]
    kinds = sorted({k.own for k in ks})
    terms, meta = [], []
    for own in kinds:
        for n in range(6):
            terms.append(f"grid_eval_slices (Build_cls {'true' if own else 'false'}) {n}")
            meta.append((own, n, 'S'))
            terms.append(f"grid_eval_index (Build_cls {'true' if own else 'false'}) {n}")
            meta.append((own, n, 'G'))
    vals = ctx.coq_eval(COQ_HEADER, terms, name='grid', chunk=4)
    kernel = {}
    for (own, n, kd), v in zip(meta, vals):
        ll = parse_coq_ll(v)
        kernel[(own, n, kd)] = [(ll[i], ll[i + 1], ll[i + 2][0]) for i in range(0, len(ll), 3)]
    # extraction cross-check: the driver must print what the kernel computed
    for own in kinds:
        for n in range(6):
            d = model.run(own, [(n, [('S',) + s]) for s in slices] + [(n, [('G', i)]) for i in range(-7, 8)])
            got = [x[0] for x in d]
            exp = kernel[(own, n, 'S')] + kernel[(own, n, 'G')]
            ctx.count('extraction-crosscheck', len(exp))
            if got != exp:
                j = next(i for i in range(len(exp)) if i >= len(got) or got[i] != exp[i])
                ctx.fail('harness:extraction-vs-kernel', f"extracted OCaml model and vm_compute disagree on grid cell {j} (own_slice={own}, len={n})",
                         {'driver': got[j] if j < len(got) else None, 'kernel': exp[j]}, no_input=True)
    census = {}
    with ctx.timed('impl-grid'):
        for k in ks:
            for n in range(6):
                x, l = k.build(list(range(1, n + 1))), list(range(1, n + 1))
                for kd, cases in (('S', slices), ('G', [(i,) for i in range(-7, 8)])):
                    for j, cs in enumerate(cases):
                        op = (kd,) + cs
                        x2, I = impl_step(k, x, op)
                        _, L = list_step(list(l), op)
                        M, S, code = kernel[(k.own, n, kd)][j]
                        ctx.case((k.name, 'grid', n, op))
                        ctx.corr['cases'] += 1
                        r = cmp.step(k, n, [op], 0, I, L, M, S, code, 'grid')
                        if kd == 'S' and r != 0:
                            census[k.name] = census.get(k.name, 0) + 1
                        if k.state(x) != [n] + l:
                            ctx.fail(f'oracle:{OPNAME[kd]}:read-changed-the-object', f"{k.name}: {op_py(op)} changed the object",
                                     {'class': k.name, 'length': n, 'op': op_py(op)})
                            x = k.build(l)
    ctx.stats['slice-grid-cells-differing-from-list'] = census
    ctx.sample({'kind': 'grid', 'cells per class': 6 * (len(slices) + 15), 'differing from the list (C10_slice_grid_census: 0 for every class)': census})


def kernel_crosscheck(ctx, model, ks, nseq):
    """random histories evaluated by vm_compute inside Coq must equal the extracted driver's output"""
    k = ks[0]
    hs = [random_ops(ctx.rng, int(ctx.rng.integers(1, 25))) for _ in range(nseq)]
    for own in sorted({k.own for k in ks}):
        d = model.run(own, hs)
        terms = [f"lockstep (Build_cls {'true' if own else 'false'}) (iota {n0}) [{'; '.join(op_coq(o) for o in ops)}]" for n0, ops in hs]
        vals = ctx.coq_eval(COQ_HEADER, terms, name='xcheck', chunk=200)
        for (n0, ops), dv, v in zip(hs, d, vals):
            ll = parse_coq_ll(v)
            exp = [(ll[i], ll[i + 1], ll[i + 2][0]) for i in range(0, len(ll), 3)]
            ctx.count('extraction-crosscheck', len(exp))
            if exp != dv:
                ctx.fail('harness:extraction-vs-kernel', 'extracted OCaml model and vm_compute disagree on a history',
                         {'start_length': n0, 'ops': [op_py(o) for o in ops], 'driver': dv, 'kernel': exp}, no_input=True)


# --------------------------------------------------------------------------------------------- worlds: several live objects + iterators
# world op:  ('O', t, op) operation on object t | ('IN', t) it = iter(object t) | ('IX', j) next(iterator j)
CTORS = ('CI', 'CC', 'CF', 'AL', 'EM')


def wop_tokens(a):
    return f'O {a[1]} {op_tokens(a[2])}' if a[0] == 'O' else f'{a[0]} {a[1]}'


def wop_coq(a):
    return f'On {a[1]} ({op_coq(a[2])})' if a[0] == 'O' else ('ItNew %d' % a[1] if a[0] == 'IN' else 'ItNext %d' % a[1])


def wop_py(a):
    if a[0] == 'O':
        return f'obj{a[1]}: ' + op_py(a[2]).replace('x', f'obj{a[1]}', 1) if False else f'[obj{a[1]} as x] ' + op_py(a[2])
    return f'it{"" if a[0] == "IN" else a[1]} = iter(obj{a[1]})' if a[0] == 'IN' else f'next(it{a[1]})'


def wnorm(a, enc):
    return norm(a[2], enc) if a[0] == 'O' else list(enc)


class ImplWorld:
    """real objects and real iterators; every object-valued result stays alive as a new object"""

    def __init__(self, k, n0):
        self.k = k
        self.objs = [k.build(list(range(1, n0 + 1)))]
        self.its, self.it_obj = [], []

    def sig(self, u):
        return tuple(id(a) for a in self.objs[u].data)

    def step(self, a):
        k = self.k
        before = [self.sig(u) for u in range(len(self.objs))]
        news = []
        if a[0] == 'O':
            t, op = a[1], a[2]
            x = self.objs[t]
            keep = []
            x2, enc = impl_step(k, x, op, keep)
            nst = len(k.state(x2))
            out, tgt = enc[:len(enc) - nst], enc[len(enc) - nst:]
            if op[0] in CTORS:
                if out == [0]:
                    news = [x2]
                tgt = k.state(x)
            else:
                news = keep[:2] if op[0] in ('I', 'RV') else keep
            skip = None if op[0] in CTORS else t
        elif a[0] == 'IN':
            t = a[1]
            it = iter(self.objs[t])
            self.its.append(it)
            self.it_obj.append(t)
            out, tgt, skip = [0], k.state(self.objs[t]), None
        else:
            j = a[1]
            t = self.it_obj[j]
            try:
                r = next(self.its[j])
                out = enc_obj(k, r)
                if out[0] == 1:
                    if shares_state(k, self.objs[t], r):
                        out = [64]
                    news = [r]
            except Exception as ex:  # noqa
                out = [9, EXC.get(type(ex).__name__, 99)]
            tgt, skip = k.state(self.objs[t]), None
        # frame: no other object may have changed
        for u, sg in enumerate(before):
            if u != skip and self.sig(u) != sg:
                out = [64, u]
                break
        self.objs.extend(news)
        enc = out + tgt + [len(news)]
        for r in news:
            enc += k.state(r) if type(r) is k.cls else [-70]
        return enc


class ListWorld:
    """the reference: real Python lists and real list iterators"""

    def __init__(self, n0):
        self.objs = [list(range(1, n0 + 1))]
        self.its, self.it_obj = [], []

    def step(self, a):
        news = []
        if a[0] == 'O':
            t, op = a[1], a[2]
            l = self.objs[t]
            before = list(l)
            l2, enc = list_step(l, op)
            out, tgt = enc[:len(enc) - len(l2) - 1], enc[len(enc) - len(l2) - 1:]
            if op[0] in CTORS:
                if out == [0]:
                    news = [l2]
                tgt = [len(before)] + before
            elif out[0] == 1:
                news = [out[2:]]
            elif out[0] == 2:
                items, p = [], 2
                for _ in range(out[1]):
                    items.append(out[p + 1:p + 1 + out[p]])
                    p += 1 + out[p]
                news = items[:2]
        elif a[0] == 'IN':
            t = a[1]
            self.its.append(iter(self.objs[t]))
            self.it_obj.append(t)
            out, tgt = [0], [len(self.objs[t])] + self.objs[t]
        else:
            j = a[1]
            t = self.it_obj[j]
            try:
                v = next(self.its[j])
                out, news = [1, 1, v], [[v]]
            except StopIteration:
                out = [9, 5]
            tgt = [len(self.objs[t])] + self.objs[t]
        self.objs.extend(news)
        enc = out + tgt + [len(news)]
        for r in news:
            enc += [len(r)] + list(r)
        return enc


def parse_world_line(line):
    steps = []
    if not line:
        return steps
    for st in line.split('|'):
        m, s = st.split(',')
        steps.append(([int(t) for t in m.split()], [int(t) for t in s.split()]))
    return steps


def model_world_run(model, own, cases):
    lines = [f"W {1 if own else 0} {n0} " + ' '.join(wop_tokens(a) for a in ops) for n0, ops in cases]
    with model.ctx.timed('model-driver'):
        outs = model.ctx.run_driver(model.exe, lines, timeout=1800) if lines else []
    if len(outs) != len(lines):
        raise RuntimeError(f'driver returned {len(outs)} lines for {len(lines)} world cases')
    return [parse_world_line(l) for l in outs]


def scripted_worlds():
    """(n0, [world ops]) -- generated against Python lists, so the scripts know where an iteration stops.
    (1) every value-returning operation followed by every kind of mutator applied to the RESULT, then to the receiver, each time
        re-observing both;  (2) the iteration protocol: nested loops over one object, zip(x, x), an iterator held across another
        iteration, two iterators advanced alternately, iteration across mutation, exhausted iterators."""
    cases = []
    s1 = lambda t: ('s', (t,))
    readers = [('G', 0), ('G', -1), ('S', None, None, None), ('S', 0, 1, None), ('S', None, None, -1), ('P', -1, 'default'), ('P', 0),
               ('I',), ('RV',), ('CC',), ('CI',)]
    mutators = lambda t: [('A', s1(t)), ('E', ('s', (t, t + 1))), ('N', 0, s1(t)), ('P', -1, 'default'), ('D', 0), ('T', 0, s1(t)), ('R',), ('C',)]
    for n0 in range(5):
        for rd in readers:
            for mi in range(8):
                lw = ListWorld(n0)
                ops = [('O', 0, rd)]
                lw.step(ops[0])
                if len(lw.objs) > 1:
                    ops += [('O', 1, mutators(50)[mi]), ('O', 0, ('L',)), ('O', 0, ('I',)), ('O', 0, mutators(60)[(mi + 3) % 8]), ('O', 1, ('I',))]
                    if len(lw.objs) > 2:
                        ops += [('O', 2, mutators(70)[mi]), ('O', 1, ('L',)), ('O', 0, ('L',))]
                    cases.append((n0, ops))
                elif mi == 0:
                    cases.append((n0, ops))

        def nexts(ops, lw, j):
            """advance iterator j once; True if it produced an item"""
            ops.append(('IX', j))
            return lw.step(ops[-1])[0] == 1
        # nested loops: [(a, b) for a in x for b in x]
        lw, ops, nit = ListWorld(n0), [('IN', 0)], 1
        lw.step(ops[0])
        while nexts(ops, lw, 0):
            ops.append(('IN', 0))
            lw.step(ops[-1])
            b, nit = nit, nit + 1
            while nexts(ops, lw, b):
                pass
        cases.append((n0, ops))
        # zip(x, x)
        lw, ops = ListWorld(n0), [('IN', 0), ('IN', 0)]
        lw.step(ops[0]), lw.step(ops[1])
        while nexts(ops, lw, 0) and nexts(ops, lw, 1):
            pass
        cases.append((n0, ops))
        # an iterator held across a full iteration, a reversed iteration and a slice of the same object
        lw, ops = ListWorld(n0), [('IN', 0)]
        lw.step(ops[0])
        nexts(ops, lw, 0)
        for o in (('I',), ('RV',), ('S', None, None, None), ('CI',)):
            ops.append(('O', 0, o))
            lw.step(ops[-1])
        while nexts(ops, lw, 0):
            pass
        nexts(ops, lw, 0)
        cases.append((n0, ops))
        # iter() twice, advanced one after the other, then the object grows: an exhausted iterator stays exhausted
        lw, ops = ListWorld(n0), [('IN', 0), ('IN', 0)]
        lw.step(ops[0]), lw.step(ops[1])
        while nexts(ops, lw, 0):
            pass
        nexts(ops, lw, 1)
        ops.append(('O', 0, ('A', s1(80))))
        lw.step(ops[-1])
        nexts(ops, lw, 0)
        while nexts(ops, lw, 1):
            pass
        cases.append((n0, ops))
        # iteration across mutation: delete / insert at the front while iterating
        for mut in (('D', 0), ('N', 0, s1(81)), ('R',), ('C',)):
            lw, ops = ListWorld(n0), [('IN', 0)]
            lw.step(ops[0])
            nexts(ops, lw, 0)
            ops.append(('O', 0, mut))
            lw.step(ops[-1])
            while nexts(ops, lw, 0):
                pass
            cases.append((n0, ops))
        # iterating a RESULT while the receiver changes
        lw, ops = ListWorld(n0), [('O', 0, ('S', None, None, None))]
        lw.step(ops[0])
        if len(lw.objs) > 1:
            ops.append(('IN', 1))
            lw.step(ops[-1])
            nexts(ops, lw, 0)
            ops.append(('O', 0, ('C',)))
            lw.step(ops[-1])
            while nexts(ops, lw, 0):
                pass
            cases.append((n0, ops))
    return cases


def random_world(rng, nsteps):
    n0, draw_on = random_ops(rng, None)
    lw, ops, nit = ListWorld(n0), [], 0
    for _ in range(nsteps):
        r = rng.random()
        if r < 0.08 and nit < 4:
            a = ('IN', int(rng.integers(0, len(lw.objs))) if rng.random() < 0.4 else 0)
            nit += 1
        elif r < 0.30 and nit > 0:
            a = ('IX', int(rng.integers(0, nit)))
        else:
            t = 0 if rng.random() < 0.5 else int(rng.integers(0, len(lw.objs)))
            a = ('O', t, draw_on(lw.objs[t]))
        ops.append(a)
        lw.step(a)
    return n0, ops


def run_world(ctx, k, n0, ops, mres, where):
    """one history on the real class, the Python-list reference and the model/specification pair; stops at the first disagreement"""
    iw, lw = ImplWorld(k, n0), ListWorld(n0)
    for i, a in enumerate(ops):
        I, L = wnorm(a, iw.step(a)), wnorm(a, lw.step(a))
        M, S = wnorm(a, mres[i][0]), wnorm(a, mres[i][1])
        name = OPNAME[a[2][0] if a[0] == 'O' else a[0]]
        ctx.corr['cases'] += 1
        ctx.count('world-steps')
        if I == L == M == S:
            continue
        rp = {'class': k.name, 'start_length': n0, 'wops': [_js(o) for o in ops[:i + 1]], 'python': [wop_py(o) for o in ops[:i + 1]],
              'failing_step': i, 'where': where, 'implementation': I, 'python_list': L, 'model': M, 'spec': S,
              'encoding': 'result ([0] None, [1,n,tags] object, [2,n,(len,tags)..] objects, [3,n] int, [9,kind] raised: 1 IndexError 2 ValueError '
                          '5 StopIteration 8 any, [64..] a result/another object shares state with the receiver); then len+tags of the addressed '
                          'object afterwards; then the number of new objects and len+tags of each'}
        if S != L:
            ctx.fail(f'spec:world:{name}', f"the Coq specification (objects + list iterators) disagrees with real Python lists at {wop_py(a)}: spec {S} list {L}",
                     rp, no_input=True)
        if I != M:
            ctx.corr['disagreements'] += 1
            ctx.fail(f'corr:world:{name}', f"{k.name}: {wop_py(a)} gives {I}, the model says {M}", rp, no_input=(I == L))
        if I != L:
            what = 'a result shares state with another object' if I and I[0] == 64 else 'differs from Python lists / list iterators'
            ctx.fail(f"oracle:world:{name}:{'shared-state' if I and I[0] == 64 else 'mismatch'}",
                     f"{k.name}: in a history over several live objects and iterators, {wop_py(a)} {what}: got {I}, lists give {L}", rp)
        return False
    return True


def world_histories(ctx, model, ks, nrand):
    scripts = scripted_worlds()
    ctx.stats['world-scripts-per-class'] = len(scripts)
    mcache = {}
    for k in ks:
        if k.own not in mcache:
            mcache[k.own] = model_world_run(model, k.own, scripts)
        with ctx.timed('impl-world'):
            for (n0, ops), mr in zip(scripts, mcache[k.own]):
                ctx.case((k.name, 'world', n0, tuple(map(wop_tokens, ops))))
                run_world(ctx, k, n0, ops, mr, 'world:scripted')
        hs = [random_world(ctx.rng, 40 if j % 3 == 0 else int(ctx.rng.integers(2, 41))) for j in range(nrand)]
        mres = model_world_run(model, k.own, hs)
        with ctx.timed('impl-world'):
            for (n0, ops), mr in zip(hs, mres):
                ctx.case((k.name, 'world-random', n0, tuple(map(wop_tokens, ops))))
                run_world(ctx, k, n0, ops, mr, 'world:random')
        ctx.count('world-random-histories', nrand)
    # vm_compute cross-check of the extracted world machine
    xs = scripts[::max(1, len(scripts) // 25)] + hs[:10]
    for own in sorted({k.own for k in ks}):
        d = model_world_run(model, own, xs)
        terms = [f"wlockstep (Build_cls {'true' if own else 'false'}) (wstart {n0}) [{'; '.join(wop_coq(a) for a in ops)}]" for n0, ops in xs]
        vals = ctx.coq_eval(COQ_HEADER, terms, name='wxcheck', chunk=100)
        for (n0, ops), dv, v in zip(xs, d, vals):
            ll = parse_coq_ll(v)
            exp = [(ll[i], ll[i + 1]) for i in range(0, len(ll), 2)]
            ctx.count('extraction-crosscheck', len(exp))
            if exp != dv:
                ctx.fail('harness:extraction-vs-kernel', 'extracted OCaml world machine and vm_compute disagree on a history',
                         {'start_length': n0, 'ops': [wop_py(a) for a in ops], 'driver': dv, 'kernel': exp}, no_input=True)
    ctx.sample({'kind': 'world history (scripted: nested loops)', 'ops': [wop_py(a) for a in scripts[88][1][:14]] if len(scripts) > 88 else []})


def probes(ctx, ks):
    """constructor paths that the model does not cover: a list containing a multi-valued or a foreign object must be rejected"""
    for k in ks:
        for pos in (0, 1):
            # a multi-valued or an empty object inside the list: every element must hold exactly one value (repaired by 2eab8b7;
            # the key names the outcome, no earlier entry can match it)
            for what, tags in (('multi-valued', [7, 8]), ('empty', [])):
                arg = [k.mk(1), k.mk(2)]
                arg[pos] = k.build(tags)
                ctx.case((k.name, 'probe-' + what, pos))
                try:
                    r = k.cls(arg)
                    st = k.state(r) if type(r) is k.cls else ['not-same-class']
                    ctx.fail(f'oracle:ctor-list:{what}-element-not-rejected:{k.name}',
                             f"{k.name}([.. a {what} {k.name} at position {pos} ..]) does not raise; resulting state {st}",
                             {'class': k.name, 'position': pos, 'element_tags': tags, 'state': st})
                except Exception:  # noqa: raising is what the property asks for
                    ctx.count(f'probe:{what}-element-rejected')
            for which, mkbad in (('related', k.related), ('unrelated', k.unrelated), ('int', lambda: 3)):
                arg = [k.mk(1), k.mk(2)]
                arg[pos] = mkbad()
                ctx.case((k.name, 'probe-foreign', pos, which))
                try:
                    r = k.cls(arg)
                    st = k.state(r) if type(r) is k.cls else ['not-same-class']
                    if len(st) == 3 and st[0] == 2 and all(isinstance(t, int) and t >= 0 for t in st[1:]):
                        ctx.count('probe:foreign-element-converted')     # a documented conversion (e.g. UnitQuaternion from SO3): 2 valid values
                        continue
                    ctx.fail(f"oracle:ctor-list:foreign-element-at-{pos}-not-rejected:{k.name}",
                             f"{k.name}([..]) with a {which} operand ({type(arg[pos]).__name__}) at position {pos} neither raises nor yields 2 values; result state {st}",
                             {'class': k.name, 'position': pos, 'operand': type(arg[pos]).__name__, 'state': st})
                except Exception:  # noqa
                    ctx.count('probe:foreign-element-rejected')
        # Alloc / Empty produce objects of the class
        for n in (0, 1, 3):
            r = k.cls.Alloc(n)
            ctx.case((k.name, 'alloc', n))
            if type(r) is not k.cls or k.state(r) != [n] + [0] * n:
                ctx.fail(f'oracle:Alloc:wrong-result', f"{k.name}.Alloc({n}) is not {n} identity values", {'class': k.name, 'n': n})


def ctor_table(ctx, ks):
    """T-tab for Model/C10_Ctor.v: EVERY argument list of length <= 4 whose first element is an object of the class, over elements that hold
    0, 1, 2 or 3 values or are foreign (an object of an unrelated class / an int), is passed to the constructor of every list-capable class; outcome
    (new state, or exception kind) compared with `ctor_objs` evaluated by vm_compute.  This is where an element-count test that lets an
    empty element compensate a multi-valued one shows."""
    import itertools
    alphabet = [0, 1, 2, 3, 'X']
    profiles = [()]
    for n in range(1, 5):
        profiles += [p for p in itertools.product(alphabet, repeat=n) if p[0] != 'X']

    def tags_of(profile):
        out, t = [], 10
        for e in profile:
            if e == 'X':
                out.append(None)
            else:
                out.append(list(range(t, t + e)))
                t += e
        return out
    terms = []
    for pr in profiles:
        els = "; ".join("EOther" if ts is None else "ESame [" + "; ".join(str(t) for t in ts) + "]" for ts in tags_of(pr))
        terms.append(f"match ctor_objs [{els}] with Ok d => (0, d) | Raise IndexError => (1, []) | Raise ValueError => (2, []) | Raise TypeError => (3, []) "
                     f"| Raise AssertionError => (4, []) | Raise StopIteration => (5, []) end")
    hdr = COQ_HEADER.replace("Model.C10_World.", "Model.C10_World Model.C10_Ctor.")
    vals = ctx.coq_eval(hdr, terms, name='ctor', chunk=700)
    EXC = {IndexError: 1, ValueError: 2, TypeError: 3, AssertionError: 4, StopIteration: 5}
    for k in ks:
        for pr, v in zip(profiles, vals):
            nums = [int(t) for t in re.findall(r'-?\d+', v)]
            mcode, mdata = nums[0], nums[1:]
            arg = [(k.unrelated() if (j % 2 == 0) else 3) if ts is None else k.build(ts) for j, ts in enumerate(tags_of(pr))]
            ctx.case((k.name, 'ctor-table', pr))
            ctx.corr['cases'] += 1
            try:
                r = k.cls(arg)
                icode, idata = (0, k.state(r)[1:]) if type(r) is k.cls and k.state(r)[0] == len(k.state(r)) - 1 else (-1, ['not-same-class-or-bad-state'])
            except Exception as ex:  # noqa
                icode, idata = EXC.get(type(ex), 9), []
            if (icode, idata) != (mcode, mdata):
                ctx.corr['disagreements'] += 1
                lens = [('foreign' if e == 'X' else e) for e in pr]
                if icode == 0 and mcode != 0:
                    what = 'accepted-though-an-element-is-not-a-single-value'
                elif icode != 0 and mcode == 0:
                    what = 'rejected-though-every-element-is-a-single-value'
                elif icode == 0:
                    what = 'wrong-values'
                else:
                    what = 'other-exception-kind'
                ctx.fail(f'corr:ctor-from-list-of-objects:{what}',
                         f"{k.name}([..]) with elements holding {lens} values: implementation gives (code {icode}, {idata}), "
                         f"model ctor_objs (Model/C10_Ctor.v) gives (code {mcode}, {mdata}) [0 = constructed, 2 = ValueError, 4 = AssertionError]",
                         {'class': k.name, 'values_per_element': lens, 'implementation': [icode, idata], 'model': [mcode, mdata]})
    ctx.stats['ctor-table-profiles'] = len(profiles)


# --------------------------------------------------------------------------------------------- entry points
def run(ctx):
    ctx.rule = ("obligations: theorems of theories/Props/C10.v (model theories/Model/C10_SMList.v vs specification C10_PyList.v); "
                "evaluations: one per (class, history step) on which real object, Coq model, Coq specification and a real Python list "
                "were compared (exhaustive slice/index grid, every short history, random histories) plus constructor probes; "
                "distinct by (class, start length, operation sequence)")
    ctx.trusted_extra = ["hand-written model theories/Model/C10_SMList.v, tied by the T-seq correspondence of props/C10.py on every run "
                         "(exhaustive grid + exhaustive short histories + random histories, all 12 classes)",
                         "props/C10.py: tagging of elements (SE3.Tx(tag) etc.), encoders, the OCaml driver text, the Python list reference"]
    ctx.prove('theories/Props/C10.v')
    ks = classes() + delegating_classes()
    model = Model(ctx)
    cmp = Cmp(ctx)
    with ctx.timed('grid'):
        grid(ctx, model, cmp, ks)
    with ctx.timed('kernel-crosscheck'):
        kernel_crosscheck(ctx, model, ks, ctx.n(40, 150))
    with ctx.timed('exhaustive'):
        exhaustive_sequences(ctx, model, cmp, ks, 2, 'full')
        if ctx.thorough:
            exhaustive_sequences(ctx, model, cmp, ks, 3, 'mid')
            exhaustive_sequences(ctx, model, cmp, ks, 4, 'small')
    with ctx.timed('random'):
        random_sequences(ctx, model, cmp, ks, ctx.n(250, 6000))
    with ctx.timed('worlds'):
        world_histories(ctx, model, ks, ctx.n(120, 2500))
    with ctx.timed('probes'):
        probes(ctx, ks)
    ctx.prove('theories/Props/C10_ctor.v')
    with ctx.timed('ctor-table'):
        ctor_table(ctx, ks)
    ctx.corr['functions'] = len(OPNAME)


def replay(ctx, path):
    """re-run one recorded history on the real class, the model and a Python list"""
    rec = json.load(open(path))
    rp = rec.get('replay', {})
    if 'wops' in rp:
        k = {c.name: c for c in classes() + delegating_classes()}[rp['class']]
        ops = [_unjs(o) for o in rp['wops']]
        model = Model(ctx)
        mres = model_world_run(model, k.own, [(rp['start_length'], ops)])[0]
        run_world(ctx, k, rp['start_length'], ops, mres, 'replay')
        iw, lw = ImplWorld(k, rp['start_length']), ListWorld(rp['start_length'])
        print(f"class {k.name}, obj0 = {lw.objs[0]}")
        for i, a in enumerate(ops):
            print(f"  {wop_py(a):44s} implementation {wnorm(a, iw.step(a))}   lists {wnorm(a, lw.step(a))}   model {wnorm(a, mres[i][0])}")
        if rec.get('key') in {f.key for f in ctx.findings}:
            print(f"REPRODUCED {rec['key']}")
            return 1
        print(f"not reproduced: {rec.get('key')}")
        return 0
    if 'ops' not in rp:
        from lib.main import generic_replay
        import props.C10 as me
        return generic_replay(ctx, me, path)
    k = {c.name: c for c in classes() + delegating_classes()}[rp['class']]
    ops = [_unjs(o) for o in rp['ops']]
    n0 = rp['start_length']
    model = Model(ctx)
    mres = model.run(k.own, [(n0, ops)])[0]
    cmp = Cmp(ctx)
    run_history(ctx, cmp, k, n0, ops, mres, 'replay')
    x, l = k.build(list(range(1, n0 + 1))), list(range(1, n0 + 1))
    print(f"class {k.name}, start = {l}")
    for i, op in enumerate(ops):
        x, I = impl_step(k, x, op)
        l, L = list_step(l, op)
        print(f"  {op_py(op):40s} implementation {norm(op, I)}   list {norm(op, L)}   model {norm(op, mres[i][0])}")
        if k.state(x) != [len(l)] + l:
            x = k.build(l)
    keys = {f.key for f in ctx.findings}
    if rec.get('key') in keys:
        print(f"REPRODUCED {rec['key']}")
        return 1
    print(f"not reproduced: {rec.get('key')}")
    return 0
