"""C12 -- quaternion and dual-quaternion arithmetic obeys the Hamilton algebra.

Two parts:
  A. polynomial identities: T-sym traces of the real code (build) + theories/Props/C12.v + Sym==Num + oracle.
  B. exp / log round trips: hand model theories/Model/C12_ExpLog.v of Quaternion.exp / Quaternion.log and of
     what they call (vectors.norm, quaternions.qnorm, quaternions.unit, the (s=, v=)
     constructors), tied on every run by
       T-const : fail-closed AST pass (tconst) -> coq/gen/Consts_C12.v: the thresholds of the three branch sites as
                 terms over the ops record + the branch skeleton / call set of every modelled function,
       T-num   : Gen.model numeric correspondence (extracted model on OCaml floats vs the real methods) on
                 directed inputs (scalar part 0 / 1e-18..1e-1 / O(1), vector norm 1e-12..pi..3pi, |q| = 1 +- d,
                 vector parts down to 1e-30, real and zero quaternions), a factor 2 away from each threshold,
     theorems theories/Props/C12_explog.v over R, and the oracle on the same directed domain (1e-6 relative).
"""
import ast
import math
import os
import numpy as np
import sympy
from lib import concolic
from lib.symtrace import Gen
from lib.corr import sym_num
from lib.gens import log_uniform, rand_unit, rand_rot, rand_trans

concolic.install()
from spatialmath import base, Quaternion, UnitQuaternion, SE3  # noqa: E402
from spatialmath.DualQuaternion import DualQuaternion, UnitDualQuaternion  # noqa: E402

from lib.core import REPO  # noqa: E402

MOD = 'Traces_C12'
EPS = float(np.finfo(np.float64).eps)


def unit_v3_small(rng):
    # 3-vector form of a unit quaternion with scalar part >= 0.1
    while True:
        v = rng.normal(size=3) * rng.uniform(0.05, 0.6)
        if v @ v < 0.98:
            return v


def expand_all(res):
    return np.array([sympy.expand(x) for x in np.asarray(res, dtype=object).flatten()], dtype=object).reshape(np.shape(res))


def build(ctx):
    g = Gen('C12')
    Q = lambda x: Quaternion(x)
    # ---- base functions, executed on symbols
    g.trace('tr_qqmul', [('p', 'V4'), ('q', 'V4')], base.qqmul)
    g.trace('tr_conj', [('q', 'V4')], base.conj)
    g.trace('tr_inner', [('p', 'V4'), ('q', 'V4')], base.inner)
    g.trace('tr_qnorm', [('q', 'V4')], base.qnorm)
    g.trace('tr_pure', [('v', 'V3')], base.pure)
    g.trace('tr_matrix', [('q', 'V4')], base.matrix)
    g.trace('tr_qvmul', [('q', 'V4'), ('v', 'V3')], base.qvmul)
    g.trace('tr_dot', [('q', 'V4'), ('w', 'V3')], base.dot)
    g.trace('tr_dotb', [('q', 'V4'), ('w', 'V3')], base.dotb)
    g.trace('tr_vvmul', [('a', 'V3'), ('b', 'V3')], base.vvmul, sampler=lambda rng: [unit_v3_small(rng), unit_v3_small(rng)])
    g.trace('tr_v2q', [('a', 'V3')], base.v2q, sampler=lambda rng: [unit_v3_small(rng)])
    for n in range(-6, 7):
        nm = f"tr_qpow_{'m' if n < 0 else 'p'}{abs(n)}"
        g.trace(nm, [('q', 'V4')], (lambda n: lambda q: base.qpow(q, n))(n), tol=1e-9, post=expand_all,
                note='expanded with sympy.expand (the nested loop result has 4^n nodes)')
    # ---- class layer
    g.trace('tr_Q_mul', [('p', 'V4'), ('q', 'V4')], lambda p, q: (Q(p) * Q(q)).vec)
    g.trace('tr_Q_add', [('p', 'V4'), ('q', 'V4')], lambda p, q: (Q(p) + Q(q)).vec)
    g.trace('tr_Q_sub', [('p', 'V4'), ('q', 'V4')], lambda p, q: (Q(p) - Q(q)).vec)
    g.trace('tr_Q_conj', [('q', 'V4')], lambda q: Q(q).conj().vec)
    g.trace('tr_Q_inner', [('p', 'V4'), ('q', 'V4')], lambda p, q: Q(p).inner(Q(q)))
    g.trace('tr_Q_matrix', [('q', 'V4')], lambda q: Q(q).matrix)
    g.trace('tr_Q_norm', [('q', 'V4')], lambda q: Q(q).norm())
    g.trace('tr_Q_smul', [('k', 'S'), ('q', 'V4')], lambda k, q: (Q(q) * k).vec)
    g.trace('tr_Q_rsmul', [('k', 'S'), ('q', 'V4')], lambda k, q: (k * Q(q)).vec)
    g.trace('tr_Q_pow3', [('q', 'V4')], lambda q: (Q(q) ** 3).vec, tol=1e-9, post=expand_all)
    g.trace('tr_Q_powm2', [('q', 'V4')], lambda q: (Q(q) ** -2).vec, tol=1e-9, post=expand_all)
    # ---- class layer on MULTI-VALUED operands: 4 quaternions = the rows of an M44, 2 quaternions = the halves of a V8
    S4 = lambda M: Quaternion([M[i] for i in range(4)])
    S2 = lambda a: Quaternion([a[0:4], a[4:8]])
    rows = lambda R: np.array([x for x in R.data], dtype=object)
    flat2 = lambda R: np.array([x for x in R.data], dtype=object).reshape(8)
    seq = lambda *a, **k: g.trace(*a, optional=True, **k)
    seq('tr_S4_inner_NN', [('P', 'M44'), ('R', 'M44')], lambda P, R: np.array(S4(P).inner(S4(R)), dtype=object), out='V4')
    seq('tr_S4_inner_N1', [('P', 'M44'), ('q', 'V4')], lambda P, q: np.array(S4(P).inner(Q(q)), dtype=object), out='V4')
    seq('tr_S4_inner_1N', [('q', 'V4'), ('P', 'M44')], lambda q, P: np.array(Q(q).inner(S4(P)), dtype=object), out='V4')
    seq('tr_S4_mul_NN', [('P', 'M44'), ('R', 'M44')], lambda P, R: rows(S4(P) * S4(R)), out='M44')
    seq('tr_S4_mul_N1', [('P', 'M44'), ('q', 'V4')], lambda P, q: rows(S4(P) * Q(q)), out='M44')
    seq('tr_S4_mul_1N', [('q', 'V4'), ('P', 'M44')], lambda q, P: rows(Q(q) * S4(P)), out='M44')
    seq('tr_S4_add_NN', [('P', 'M44'), ('R', 'M44')], lambda P, R: rows(S4(P) + S4(R)), out='M44')
    seq('tr_S4_sub_NN', [('P', 'M44'), ('R', 'M44')], lambda P, R: rows(S4(P) - S4(R)), out='M44')
    seq('tr_S4_add_N1', [('P', 'M44'), ('q', 'V4')], lambda P, q: rows(S4(P) + Q(q)), out='M44')
    seq('tr_S4_sub_1N', [('q', 'V4'), ('P', 'M44')], lambda q, P: rows(Q(q) - S4(P)), out='M44')
    seq('tr_S4_conj', [('P', 'M44')], lambda P: rows(S4(P).conj()), out='M44')
    seq('tr_S4_norm', [('P', 'M44')], lambda P: np.array(S4(P).norm(), dtype=object), out='V4')
    seq('tr_S4_pow2', [('P', 'M44')], lambda P: rows(S4(P) ** 2), out='M44', post=expand_all, tol=1e-9)
    seq('tr_S4_smul', [('k', 'S'), ('P', 'M44')], lambda k, P: rows(S4(P) * k), out='M44')
    seq('tr_S2_inner_NN', [('a', 'V8'), ('b', 'V8')], lambda a, b: np.array(S2(a).inner(S2(b)), dtype=object), out='V2')
    seq('tr_S2_inner_1N', [('q', 'V4'), ('a', 'V8')], lambda q, a: np.array(Q(q).inner(S2(a)), dtype=object), out='V2')
    seq('tr_S2_mul_NN', [('a', 'V8'), ('b', 'V8')], lambda a, b: flat2(S2(a) * S2(b)), out='V8')
    seq('tr_S2_mul_N1', [('a', 'V8'), ('q', 'V4')], lambda a, q: flat2(S2(a) * Q(q)), out='V8')
    seq('tr_S2_mul_1N', [('q', 'V4'), ('a', 'V8')], lambda q, a: flat2(Q(q) * S2(a)), out='V8')
    seq('tr_S2_add_NN', [('a', 'V8'), ('b', 'V8')], lambda a, b: flat2(S2(a) + S2(b)), out='V8')
    seq('tr_S2_sub_NN', [('a', 'V8'), ('b', 'V8')], lambda a, b: flat2(S2(a) - S2(b)), out='V8')
    seq('tr_S2_conj', [('a', 'V8')], lambda a: flat2(S2(a).conj()), out='V8')
    seq('tr_S2_norm', [('a', 'V8')], lambda a: np.array(S2(a).norm(), dtype=object), out='V2')
    # ---- dual quaternions
    DQ = lambda a: DualQuaternion(Q(a[0:4]), Q(a[4:8]))
    g.trace('tr_DQ_mul', [('a', 'V8'), ('b', 'V8')], lambda a, b: (DQ(a) * DQ(b)).vec)
    g.trace('tr_DQ_add', [('a', 'V8'), ('b', 'V8')], lambda a, b: (DQ(a) + DQ(b)).vec)
    g.trace('tr_DQ_sub', [('a', 'V8'), ('b', 'V8')], lambda a, b: (DQ(a) - DQ(b)).vec)
    g.trace('tr_DQ_conj', [('a', 'V8')], lambda a: DQ(a).conj().vec)
    g.trace('tr_DQ_matrix', [('a', 'V8')], lambda a: DQ(a).matrix())
    g.trace('tr_DQ_norm', [('a', 'V8')], lambda a: np.array(DQ(a).norm(), dtype=object), out='V2',
            num_fn=lambda a: np.array(DQ(a).norm()),
            sampler=lambda rng: [udq_vec(rng) if rng.random() < 0.5 else rng.normal(size=8) * log_uniform(rng, 1e-3, 1e3)], tol=1e-9)
    # the dual part the UnitDualQuaternion(SE3) constructor builds from (rotation quaternion q, translation t)
    g.trace('tr_UDQ_dual', [('q', 'V4'), ('t', 'V3')], lambda q, t: (0.5 * Quaternion.Pure(t) * Q(q)).vec)
    return g


def udq_vec(rng):
    """8-vector of a unit dual quaternion built from a rigid motion (independent construction)"""
    q = rand_unit(rng, 4)
    t = rng.normal(size=3) * log_uniform(rng, 1e-3, 1e3)
    return np.r_[q, 0.5 * hamilton(np.r_[0, t], q)]


def hamilton(p, q):
    s1, v1, s2, v2 = p[0], p[1:], q[0], q[1:]
    return np.r_[s1 * s2 - v1 @ v2, s1 * v2 + s2 * v1 + np.cross(v1, v2)]


def qexp_ref(q):
    s, v = q[0], q[1:]
    n = np.linalg.norm(v)
    return math.exp(s) * np.r_[math.cos(n), v / n * math.sin(n)]


# ------------------------------------------------------------------------------------------------------------
# B.1  T-const: thresholds, branch skeleton and call set of the functions modelled in Model/C12_ExpLog.v
# ------------------------------------------------------------------------------------------------------------
FILES = {
    'spatialmath/quaternion.py': ['Quaternion.__init__', 'Quaternion.norm', 'Quaternion.log', 'Quaternion.exp',
                                  'UnitQuaternion.__init__'],
    'spatialmath/base/vectors.py': ['norm'],
    'spatialmath/base/quaternions.py': ['qnorm', 'unit'],
}
# if / else / return <callee> / raise structure; assigned locals are renamed to `_`, a threshold operand of an
# ordering comparison (a number, or a number times _eps) to `K` -- the value of K goes to Consts_C12.v
EXPECTED_SKELETON = {
    'Quaternion.__init__': ['if v is None', 'if super().arghandler(s, check=True)', 'return', 'else', 'if base.isvector(s, 4)',
                            'else', 'raise ValueError', 'endif', 'endif', 'else', 'if base.isscalar(s) and base.isvector(v, 3)',
                            'else', 'raise ValueError', 'endif', 'endif'],
    'Quaternion.norm': ['if len(self) == 1', 'return base.qnorm', 'else', 'return np.array', 'endif'],
    'Quaternion.log': ['if len(self) > 1', 'return Quaternion', 'endif',     # several values: log mapped over them (5d38d76)
                       'if _ == 0', 'if self.s < 0', 'raise ValueError', 'endif', 'else', 'endif', 'return Quaternion'],
    'Quaternion.exp': ['if len(self) > 1', 'if all((isinstance(_, UnitQuaternion) for _ in _))', 'return UnitQuaternion', 'endif',
                       'return Quaternion', 'endif',                 # several values: exp mapped over them (0242ef3)
                       'if _ == 0', 'else', 'endif', 'if abs(self.s) < K', 'return UnitQuaternion', 'else', 'return Quaternion', 'endif'],
    'UnitQuaternion.__init__': ['if v is None', 'if super().arghandler(s, check=check)', 'else',
                                'if isinstance(s, np.ndarray) and base.isrot(s, check=check)', 'else',
                                'if isinstance(s, np.ndarray) and base.ishom(s, check=check)', 'else',
                                'if isinstance(s, np.ndarray) and s.shape == (4,)', 'else',
                                'if isinstance(s, np.ndarray) and s.ndim == 2 and (s.shape[1] == 4)', 'if norm', 'else', 'endif',
                                'else', 'if isinstance(s, SO3)', 'else', 'if isinstance(s[0], SO3)', 'else', 'raise ValueError',
                                'endif', 'endif', 'endif', 'endif', 'endif', 'endif', 'endif', 'else',
                                'if base.isscalar(s) and base.isvector(v, 3)', 'if norm', 'endif', 'else', 'raise ValueError',
                                'endif', 'endif'],
    'norm': ['For', 'if isinstance(_, sympy.Expr)', 'return sympy.sqrt', 'else', 'return math.sqrt', 'endif'],
    'qnorm': ['return np.linalg.norm'],
    'unit': ['if abs(_) < K', 'raise ValueError', 'endif', 'return'],
}
# multiset of callees of the small kernels (invariant under renamed locals / reordered terms)
EXPECTED_CALLS = {
    'Quaternion.log': ['Quaternion', 'Quaternion', 'ValueError', 'base.norm', 'len', 'math.atan2', 'math.log', 'np.zeros', 'q.log', 'self.norm'],
    'Quaternion.exp': ['Quaternion', 'Quaternion', 'UnitQuaternion', 'UnitQuaternion', 'abs', 'all', 'base.norm', 'isinstance', 'len',
                       'math.cos', 'math.exp', 'math.sin', 'q.exp'],
    'norm': ['getvector', 'isinstance', 'math.sqrt', 'sympy.sqrt'],
    'qnorm': ['base.getvector', 'np.linalg.norm'],
    'unit': ['ValueError', 'abs', 'base.getvector', 'np.linalg.norm'],
}
# threshold sites: function -> field of the qthr record
SITES = {'Quaternion.exp': 't_exp', 'unit': 't_unit'}
NOMINAL = {'t_exp': 100 * EPS, 't_unit': 10 * EPS}


class TConstError(Exception):
    pass


def _num(e):
    return isinstance(e, ast.Constant) and isinstance(e.value, (int, float)) and not isinstance(e.value, bool)


def _thr_num(e):
    return _num(e) and e.value != 0        # `x < 0` / `n == 0` are sign / zero tests, not thresholds


def _len_test(n):
    """`len(x) > 1`: dispatch on the number of values held, not a threshold"""
    return any(isinstance(x, ast.Call) and ast.unparse(x.func) == 'len' for x in [n.left] + n.comparators)


def _is_thr(e):
    if _thr_num(e):
        return True
    if isinstance(e, ast.BinOp) and isinstance(e.op, ast.Mult):
        return any(isinstance(x, ast.Name) and x.id == '_eps' for x in (e.left, e.right))
    return False


def _skeleton(fn):
    params = {a.arg for a in fn.args.args}
    stored = {n.id for n in ast.walk(fn) if isinstance(n, ast.Name) and isinstance(n.ctx, ast.Store)}
    local = stored - params

    class Ren(ast.NodeTransformer):
        def visit_Name(self, n):
            return ast.copy_location(ast.Name(id='_' if n.id in local else n.id, ctx=n.ctx), n)

        def visit_Compare(self, n):
            if len(n.ops) == 1 and isinstance(n.ops[0], (ast.Lt, ast.LtE, ast.Gt, ast.GtE)) and not _len_test(n):
                if _is_thr(n.left):
                    n.left = ast.Name(id='K', ctx=ast.Load())
                if _is_thr(n.comparators[0]):
                    n.comparators = [ast.Name(id='K', ctx=ast.Load())]
            self.generic_visit(n)
            return n
    out = []

    def tag(v):
        if isinstance(v, ast.Call):
            return ' ' + ast.unparse(v.func)
        if isinstance(v, ast.Constant):
            return ' ' + repr(v.value)
        return ''

    def walk(stmts):
        for st in stmts:
            if isinstance(st, ast.If):
                out.append('if ' + ast.unparse(Ren().visit(ast.parse(ast.unparse(st.test), mode='eval').body)))
                walk(st.body)
                if st.orelse:
                    out.append('else')
                    walk(st.orelse)
                out.append('endif')
            elif isinstance(st, ast.Return):
                out.append('return' + tag(st.value))
            elif isinstance(st, ast.Raise):
                out.append('raise ' + (ast.unparse(st.exc.func) if isinstance(st.exc, ast.Call) else ast.unparse(st.exc)))
            elif isinstance(st, (ast.For, ast.While, ast.With, ast.Try)):
                out.append(type(st).__name__)
                walk(st.body)
    walk(fn.body)
    return out


def _find(tree, path):
    body, node = tree.body, None
    for part in path.split('.'):
        node = next((n for n in body if isinstance(n, (ast.FunctionDef, ast.ClassDef)) and n.name == part), None)
        if node is None:
            raise TConstError(f"modelled function {path} not found")
        body = node.body
    return node


def _defaults(fn):
    a, d = fn.args, {}
    for arg, val in zip(a.args[len(a.args) - len(a.defaults):], a.defaults):
        if isinstance(val, ast.Constant):
            d[arg.arg] = val.value
    return d


def _coq_num(c):
    """a Python int / float literal as an exact term over the ops record"""
    if isinstance(c, bool) or not isinstance(c, (int, float)) or (isinstance(c, float) and not math.isfinite(c)):
        raise TConstError(f"threshold literal {c!r} is not a finite number")
    p, q = (c, 1) if isinstance(c, int) else c.as_integer_ratio()
    z = lambda n: f"(of_Z O ({n})%Z)"
    return z(p) if q == 1 else f"(div O {z(p)} {z(q)})"


def _threshold(fn, name, helpers=()):
    """the single ordering comparison of fn (and, when restructured, of the same-module helpers it calls) one side of which is a
    threshold: (coq term, float value, source text)"""
    dflt = _defaults(fn)
    found = []
    for n in [x for f in (fn,) + tuple(helpers) for x in ast.walk(f)]:
        if isinstance(n, ast.Compare) and len(n.ops) == 1 and isinstance(n.ops[0], (ast.Lt, ast.LtE, ast.Gt, ast.GtE)) \
                and not _len_test(n):
            for e in (n.left, n.comparators[0]):
                if _thr_num(e):
                    found.append((_coq_num(e.value), float(e.value), ast.unparse(e)))
                elif isinstance(e, ast.BinOp) and isinstance(e.op, ast.Mult):
                    a, b = e.left, e.right
                    if isinstance(a, ast.Name) and a.id == '_eps':
                        a, b = b, a
                    if isinstance(b, ast.Name) and b.id == '_eps':
                        if _num(a):
                            k = a.value
                        elif isinstance(a, ast.Name) and a.id in dflt and isinstance(dflt[a.id], (int, float)) \
                                and not isinstance(dflt[a.id], bool):
                            k = dflt[a.id]
                        else:
                            raise TConstError(f"{name}: threshold factor `{ast.unparse(a)}` is neither a literal nor a defaulted parameter")
                        found.append((f"(mul O {_coq_num(k)} (eps O))", float(k) * EPS, ast.unparse(e)))
    if len(found) != 1:
        raise TConstError(f"{name}: expected exactly one comparison with a threshold, found {len(found)}")
    if not found[0][1] >= 0:
        raise TConstError(f"{name}: threshold {found[0][2]} is negative")
    return found[0]


TSOFT = [('spatialmath/quaternion.py', 'Quaternion.__init__'), ('spatialmath/quaternion.py', 'Quaternion.norm'), ('spatialmath/quaternion.py', 'Quaternion.log'),
         ('spatialmath/quaternion.py', 'Quaternion.exp'), ('spatialmath/quaternion.py', 'UnitQuaternion.__init__'), ('spatialmath/base/vectors.py', 'norm'),
         ('spatialmath/base/quaternions.py', 'qnorm'), ('spatialmath/base/quaternions.py', 'unit')]
_TSOFT_STOP = {'Quaternion.__init__', 'Quaternion.norm', 'Quaternion.log', 'Quaternion.exp', 'UnitQuaternion.__init__', 'norm', 'qnorm', 'unit'}


def _tsoft_same(nm):
    from lib import tsoft
    for rel, q in TSOFT:
        if q == nm:
            return tsoft.same_thresholds(REPO, 'C12', rel, q, _TSOFT_STOP - {q})[0]
    return False


def _tsoft_single_threshold(nm):
    """the one threshold of a restructured function, read from its (unchanged) threshold summary: (coq term, float value, source text)"""
    import re
    from lib import tsoft
    for rel, q in TSOFT:
        if q == nm:
            ok, found, base = tsoft.same_thresholds(REPO, 'C12', rel, q, _TSOFT_STOP - {q})
            cm = sorted({t for t in (found or []) if t.startswith('cmp ')})
            if not ok or len(cm) != 1:
                return None
            m = re.fullmatch(r'cmp \w+ (?:\w+=)?(\d+)\*eps', cm[0])
            if m:
                k = int(m.group(1))
                return (f"(mul O {_coq_num(k)} (eps O))", float(k) * EPS, f"{k} * _eps")
            m = re.fullmatch(r'cmp \w+ (?:\w+=)?([0-9.eE+-]+)', cm[0])
            if m:
                v = float(m.group(1))
                return (_coq_num(v), v, m.group(1))
    return None


def _tsoft_helpers(nm):
    from lib import tsoft
    for rel, q in TSOFT:
        if q == nm:
            return tuple(tsoft.closure(tsoft.module_funcs(os.path.join(REPO, rel)), q, _TSOFT_STOP - {q})[1:])
    return ()


def tconst(ctx):
    """returns {field: (coq term, float value, source text)}; raises TConstError when the hand model no longer corresponds"""
    fns = {}
    for f, names in FILES.items():
        tree = ast.parse(open(os.path.join(REPO, f)).read())
        if not any(isinstance(n, ast.Assign) and ast.unparse(n) == '_eps = np.finfo(np.float64).eps' for n in tree.body):
            raise TConstError(f"{f}: _eps is no longer np.finfo(np.float64).eps")
        for nm in names:
            fns[nm] = _find(tree, nm)
    restructured = []
    for nm, fn in fns.items():
        sk, ex = _skeleton(fn), EXPECTED_SKELETON[nm]
        calls_differ = nm in EXPECTED_CALLS and sorted(ast.unparse(n.func) for n in ast.walk(fn) if isinstance(n, ast.Call)) != EXPECTED_CALLS[nm]
        if (sk != ex or calls_differ) and _tsoft_same(nm):
            # restructured, but the numeric thresholds of the function and of the same-module helpers it calls are the recorded ones:
            # not a broken tie by itself -- the execution correspondence (escalated) and the oracle decide
            restructured.append(nm)
            continue
        if sk != ex:
            i = next((i for i, (a, b) in enumerate(zip(sk, ex)) if a != b), min(len(sk), len(ex)))
            raise TConstError(f"branch skeleton of {nm} differs from the modelled one at position {i}: "
                              f"source has {sk[i:i + 2]}, model expects {ex[i:i + 2]}")
        if nm in EXPECTED_CALLS:
            calls = sorted(ast.unparse(n.func) for n in ast.walk(fn) if isinstance(n, ast.Call))
            if calls != EXPECTED_CALLS[nm]:
                raise TConstError(f"{nm} calls {calls}, the model was written for {EXPECTED_CALLS[nm]}")
    if _defaults(fns['UnitQuaternion.__init__']).get('norm') is not True:
        raise TConstError("UnitQuaternion.__init__: default of `norm` is no longer True (the model normalises)")
    # base.unit must be called with its default tolerance from the (s=, v=) constructor
    for n in ast.walk(fns['UnitQuaternion.__init__']):
        if isinstance(n, ast.Call) and ast.unparse(n.func) == 'base.unit' and (len(n.args) != 1 or n.keywords):
            raise TConstError("UnitQuaternion.__init__ passes a tolerance to base.unit (the model uses the default)")
    K = {}
    for nm, field in SITES.items():
        try:
            K[field] = _threshold(fns[nm], nm, _tsoft_helpers(nm) if nm in restructured else ())
        except TConstError:
            k = _tsoft_single_threshold(nm) if nm in restructured else None
            if k is None:
                raise
            K[field] = k
    ctx.stats['tconst:restructured'] = restructured
    if restructured:
        ctx.notes.append("T-const: " + ", ".join(restructured) + " restructured (skeleton / callees differ from the recorded ones) with unchanged numeric "
                         "thresholds (lib/tsoft.py) -> numeric correspondence escalated to its thorough size")
    ctx.stats['thresholds'] = {k: {'source': v[2], 'value': v[1]} for k, v in K.items()}
    return K


def consts_text(K):
    return ("(* GENERATED on every run by props/C12.py from the AST of /repo's working tree -- do not edit.\n"
            "   thresholds of Quaternion.exp (" + K['t_exp'][2] + "), quaternions.unit (" + K['t_unit'][2] + ") *)\n"
            "From Coq Require Import ZArith.\nFrom SM Require Import Base.Ops Model.C12_ExpLog.\n"
            "Definition C12_thr {T} (O : ops T) : qthr T :=\n  {| " +
            ";\n     ".join(f"{f} := {K[f][0]}" for f in ('t_exp', 't_unit')) + " |}.\n")


# ------------------------------------------------------------------------------------------------------------
# B.2  hand models instantiated with the regenerated thresholds (appended to Traces_C12.v) + directed samplers
# ------------------------------------------------------------------------------------------------------------
WRAPPERS = """
(* ---- hand models of theories/Model/C12_ExpLog.v instantiated with the regenerated thresholds ---- *)
From SM Require Import Base.Lin Model.C12_ExpLog.
From SMgen Require Import Consts_C12.
Definition m_vnorm3 {T} (O : ops T) (v : V3 T) : T := vnorm3 O v.
Definition m_qnorm4 {T} (O : ops T) (q : V4 T) : T := qnorm4 O q.
Definition m_qunit {T} (O : ops T) (q : V4 T) := qres_opt (qunit O (C12_thr O) q).
Definition m_qunit_code {T} (O : ops T) (q : V4 T) : T := qres_code O (qunit O (C12_thr O) q).
Definition m_qexp {T} (O : ops T) (q : V4 T) := qres_opt (qexp_vec O (C12_thr O) q).
Definition m_qexp_code {T} (O : ops T) (q : V4 T) : T := qres_code O (qexp O (C12_thr O) q).
Definition m_qexp_unit {T} (O : ops T) (q : V4 T) : bool := qexp_is_unit O (C12_thr O) q.
Definition m_qlog {T} (O : ops T) (q : V4 T) := qres_opt (qlog O q).
Definition m_qlog_code {T} (O : ops T) (q : V4 T) : T := qres_code O (qlog O q).
Definition m_qexp_log {T} (O : ops T) (q : V4 T) := qres_opt (qexp_log O (C12_thr O) q).
Definition m_qexp_log_code {T} (O : ops T) (q : V4 T) : T := qres_code O (qexp_log O (C12_thr O) q).
Definition m_qlog_exp {T} (O : ops T) (q : V4 T) := qres_opt (qlog_exp O (C12_thr O) q).
Definition m_qlog_exp_code {T} (O : ops T) (q : V4 T) : T := qres_code O (qlog_exp O (C12_thr O) q).
"""


class Cycle:
    """sampler that visits its input classes round-robin (every class is hit for any case count >= len)"""
    def __init__(self, ctx, name, classes):
        self.ctx, self.name, self.classes, self.i = ctx, name, classes, 0

    def __call__(self, rng):
        lab, f = self.classes[self.i % len(self.classes)]
        self.i += 1
        self.ctx.count(f'hit:{self.name}:{lab}')
        return f(rng)


def lu(rng, lo, hi):
    """log-uniform on [lo, hi]; degenerate ranges (thresholds moved by a code change) collapse to lo"""
    lo = max(lo, 1e-300)
    return log_uniform(rng, lo, hi) if hi > lo else lo


def away(x, t):
    """x is a factor 2 away from the threshold t"""
    return not (t / 2 <= abs(x) <= 2 * t)


class Dom:
    """directed inputs for exp / log; th = {'t_exp','t_unit'} -> float values taken from the source"""
    def __init__(self, th):
        self.te, self.tn = th['t_exp'], th['t_unit']

    # ---- scalar part of the argument of exp
    def s_zero(self, rng):
        return 0.0

    def s_tiny(self, rng):
        for _ in range(500):
            s = lu(rng, 1e-18, 1e-1) * rng.choice([-1.0, 1.0])
            if away(s, self.te):
                break
        return s

    def s_band_edge(self, rng):       # just inside / just outside the branch of exp (a factor 2..4 from it)
        return self.te * rng.choice([1 / rng.uniform(2, 4), rng.uniform(2, 4)]) * rng.choice([-1.0, 1.0])

    def s_o1(self, rng):
        return rng.uniform(-3, 3)

    S_CLASSES = ['s_zero', 's_tiny', 's_tiny', 's_band_edge', 's_o1']

    # ---- vector part
    def v_small(self, rng):
        return rand_unit(rng) * lu(rng, 1e-12, 1e-2)

    def v_mid(self, rng):
        return rand_unit(rng) * rng.uniform(0.01, math.pi - 0.01)

    def v_near_pi(self, rng):
        return rand_unit(rng) * (math.pi - lu(rng, 1e-9, 1e-2))

    def v_axis(self, rng):
        return np.eye(3)[rng.integers(3)] * rng.choice([-1.0, 1.0]) * lu(rng, 1e-12, math.pi - 1e-6)

    def v_big(self, rng):
        return rand_unit(rng) * rng.uniform(math.pi + 0.01, 3 * math.pi)

    V_IN = ['v_small', 'v_mid', 'v_near_pi', 'v_axis']

    def exp_arg(self, sc, vc):
        return lambda rng: [np.r_[getattr(self, sc)(rng), getattr(self, vc)(rng)]]

    def exp_classes(self, with_big=True, with_zero=True):
        cl = [(f'{sc}/{vc}', self.exp_arg(sc, vc)) for vc in self.V_IN + (['v_big'] if with_big else [])
              for sc in self.S_CLASSES]
        if with_zero:
            cl.append(('real', lambda rng: [np.r_[rng.uniform(-2, 2), 0.0, 0.0, 0.0]]))
        return cl

    def log_exp_ok(self, q):
        """the vector part of exp q does not vanish (log has no threshold any more)"""
        n = float(np.linalg.norm(q[1:]))
        return n > 0 and math.exp(q[0]) * abs(math.sin(n)) > 0

    def log_exp_classes(self):
        def mk(f):
            def g(rng):
                for _ in range(500):
                    a = f(rng)
                    if self.log_exp_ok(a[0]):
                        break
                return a
            return g
        return [(lab, mk(f)) for lab, f in self.exp_classes(with_zero=False)]

    # ---- argument of log
    def unit_dir(self, rng, lo=1e-9):
        """unit 4-vector whose vector part is not negligible: generic, vector-dominated, or with a small vector part
        (at least lo relative to the scalar part)"""
        r = rng.random()
        if r < 0.5:
            u = rand_unit(rng, 4)
        elif r < 0.7:
            u = np.r_[rng.normal() * 1e-3, rand_unit(rng)]
        else:
            u = np.r_[rng.choice([-1.0, 1.0]), rand_unit(rng) * lu(rng, lo, 1e-1)]
        return u / np.linalg.norm(u)

    def log_ok(self, p, lo=0.0):
        """non-zero vector part, |ln|p|| a factor 2 away from the band of exp"""
        nv, N = float(np.linalg.norm(p[1:])), float(np.linalg.norm(p))
        return nv > 0 and N > 0 and away(math.log(N), self.te)

    def _retry(self, f, lo):
        def g(rng):
            for _ in range(500):
                p = f(rng, lo)
                if self.log_ok(p, lo):
                    break
            return [p]
        return g

    def p_near_unit(self, rng, lo):
        return self.unit_dir(rng, lo) * (1.0 + rng.choice([-1.0, 1.0]) * lu(rng, 1e-18, 1e-2))

    def p_band_edge(self, rng, lo):
        d = self.te * rng.choice([1 / rng.uniform(2.2, 4), rng.uniform(2.2, 4)])
        return self.unit_dir(rng, lo) * math.exp(rng.choice([-1.0, 1.0]) * d)

    def p_generic(self, rng, lo):
        return self.unit_dir(rng, lo) * lu(rng, 1e-3, 1e3)

    def p_small_vec(self, rng, lo):
        """vector part 1e-13..1e-6 in absolute terms, scalar part O(1) (any sign)"""
        return np.r_[rng.uniform(0.2, 3) * rng.choice([-1.0, 1.0]), rand_unit(rng) * lu(rng, 1e-13, 1e-6)]

    def p_tiny_vec(self, rng, lo):
        """non-zero vector part of norm 1e-30..1e-14: below every threshold the code ever had (100 eps, 10 eps);
        before b361ecf log raised TypeError here"""
        return np.r_[rng.uniform(0.2, 3) * rng.choice([-1.0, 1.0]), rand_unit(rng) * lu(rng, 1e-30, 1e-14)]

    def p_tiny_ratio(self, rng, lo):
        """positive scalar part, |v| <= 1e-9 |s|: before b361ecf acos(s/|p|) = acos(1.0) = 0 and exp(log p) was NaN"""
        sc = rng.uniform(0.2, 3)
        return np.r_[sc, rand_unit(rng) * sc * lu(rng, 1e-13, 1e-9)]

    def p_real_pos(self, rng):
        return [np.r_[rng.uniform(0.2, 3), 0.0, 0.0, 0.0]]

    def p_real_neg(self, rng):
        return [np.r_[-rng.uniform(0.2, 3), 0.0, 0.0, 0.0]]

    def p_zero(self, rng):
        return [np.zeros(4)]

    def log_classes(self, composite=False, errors=True):
        """errors: also the real quaternions (positive: a value, negative / zero: ValueError)"""
        ud = 1e-9
        cl = [('near-unit', self._retry(self.p_near_unit, ud)), ('band-edge', self._retry(self.p_band_edge, ud)),
              ('generic', self._retry(self.p_generic, ud)), ('small-vector', self._retry(self.p_small_vec, 0.0)),
              ('tiny-vector', self._retry(self.p_tiny_vec, 0.0)), ('tiny-ratio', self._retry(self.p_tiny_ratio, 0.0))]
        if errors:
            cl += [('real-positive', self.p_real_pos), ('real-negative', self.p_real_neg), ('zero', self.p_zero)]
        return cl


def _vec_or_none(f):
    """library result as a flat float vector; None when it has NaN components (the model's NanRes)"""
    def g(*a):
        with np.errstate(all='ignore'):
            r = np.asarray(f(*a), float).flatten()
        return None if np.any(np.isnan(r)) else r
    return g


def err_code(f):
    """0 = value, 1 = TypeError, 2 = ValueError, 3 = NaN components (no exception): the codes of qres_code"""
    def g(*a):
        try:
            with np.errstate(all='ignore'):
                r = np.asarray(f(*a), float)
            return 3.0 if np.any(np.isnan(r)) else 0.0
        except TypeError:
            return 1.0
        except ValueError:
            return 2.0
    return g


def add_models(ctx, g, th):
    D = Dom(th)
    M = 'Model.C12_ExpLog'
    C = lambda nm, classes: Cycle(ctx, nm, classes)
    Q = lambda q: Quaternion(q)
    v3 = [('tiny', lambda rng: [rand_unit(rng) * lu(rng, 1e-30, 1e-14)]),
          ('small', lambda rng: [rand_unit(rng) * lu(rng, 1e-14, 1e-3)]),
          ('generic', lambda rng: [rng.normal(size=3) * lu(rng, 1e-3, 1e3)]),
          ('zero', lambda rng: [np.zeros(3)])]
    q4 = [('generic', lambda rng: [rng.normal(size=4) * lu(rng, 1e-6, 1e6)]),
          ('tiny', lambda rng: [rand_unit(rng, 4) * lu(rng, 1e-18, 0.5 * D.tn) if D.tn > 0 else np.zeros(4)]),
          ('small', lambda rng: [rand_unit(rng, 4) * lu(rng, 2 * D.tn + 1e-300, 1e-6)]),
          ('zero', lambda rng: [np.zeros(4)])]
    g.model('m_vnorm3', [('v', 'V3')], 'S', coq='m_vnorm3', module=M, num_fn=lambda v: base.norm(v), sampler=C('vnorm3', v3))
    g.model('m_qnorm4', [('q', 'V4')], 'S', coq='m_qnorm4', module=M, num_fn=lambda q: Q(q).norm(), sampler=C('qnorm4', q4))
    # the normalising constructor UnitQuaternion(s=, v=) (= base.unit with the default tolerance)
    g.model('m_qunit', [('q', 'V4')], 'O:V4', coq='m_qunit', module=M,
            num_fn=lambda q: UnitQuaternion(s=float(q[0]), v=q[1:]).vec, sampler=C('qunit', q4))
    g.model('m_qunit_code', [('q', 'V4')], 'S', coq='m_qunit_code', module=M,
            num_fn=err_code(lambda q: UnitQuaternion(s=float(q[0]), v=q[1:]).vec), sampler=C('qunit_code', q4))
    ex = D.exp_classes()
    g.model('m_qexp', [('q', 'V4')], 'O:V4', coq='m_qexp', module=M, num_fn=_vec_or_none(lambda q: Q(q).exp().vec),
            sampler=C('qexp', ex))
    g.model('m_qexp_code', [('q', 'V4')], 'S', coq='m_qexp_code', module=M, num_fn=err_code(lambda q: Q(q).exp().vec),
            sampler=C('qexp_code', ex))
    g.model('m_qexp_unit', [('q', 'V4')], 'B', coq='m_qexp_unit', module=M,
            num_fn=lambda q: float(isinstance(Q(q).exp(), UnitQuaternion) and not np.any(np.isnan(Q(q).exp().vec))),
            sampler=C('qexp_unit', ex))
    # log takes the angle by atan2(|v|, s) (well conditioned; |v| is computed by the same loop in model and code)
    lt = 1e-10
    lg = D.log_classes()
    g.model('m_qlog', [('q', 'V4')], 'O:V4', coq='m_qlog', module=M, num_fn=lambda q: Q(q).log().vec, sampler=C('qlog', lg), tol=lt)
    g.model('m_qlog_code', [('q', 'V4')], 'S', coq='m_qlog_code', module=M, num_fn=err_code(lambda q: Q(q).log().vec),
            sampler=C('qlog_code', lg))
    lc = D.log_classes(composite=True)
    g.model('m_qexp_log', [('q', 'V4')], 'O:V4', coq='m_qexp_log', module=M, num_fn=_vec_or_none(lambda q: Q(q).log().exp().vec),
            sampler=C('qexp_log', lc), tol=lt)
    g.model('m_qexp_log_code', [('q', 'V4')], 'S', coq='m_qexp_log_code', module=M,
            num_fn=err_code(lambda q: Q(q).log().exp().vec), sampler=C('qexp_log_code', lc))
    le = D.log_exp_classes()
    g.model('m_qlog_exp', [('q', 'V4')], 'O:V4', coq='m_qlog_exp', module=M, num_fn=_vec_or_none(lambda q: Q(q).exp().log().vec),
            sampler=C('qlog_exp', le), tol=lt)
    g.model('m_qlog_exp_code', [('q', 'V4')], 'S', coq='m_qlog_exp_code', module=M,
            num_fn=err_code(lambda q: Q(q).exp().log().vec), sampler=C('qlog_exp_code', le))
    return D



def oracle(ctx):
    """measure the identities on L-impl over magnitudes 1e-6..1e6 (search for a failing input)"""
    rng = ctx.rng
    N = ctx.n(400, 20000)
    rel = 1e-9

    def chk(key, lhs, rhs, scale, inputs, tol=rel):
        lhs, rhs = np.asarray(lhs, float), np.asarray(rhs, float)
        ctx.case((key, tuple(np.asarray(inputs, float).flatten()[:8])))
        ctx.count('oracle:' + key)
        err = np.max(np.abs(lhs - rhs)) if lhs.shape == rhs.shape else float('inf')
        ctx.stats['worst:' + key] = max(ctx.stats.get('worst:' + key, 0.0), float(err / scale) if np.isfinite(err) else float('inf'))
        if not err <= tol * scale:
            ctx.fail('oracle:' + key, f"identity {key} fails on the implementation: |lhs-rhs|={err:g} scale={scale:g}",
                     {'identity': key, 'inputs_hex': [float(x).hex() for x in np.asarray(inputs, float).flatten()],
                      'lhs': lhs.tolist(), 'rhs': rhs.tolist()})

    for i in range(N):
        m = [log_uniform(rng, 1e-6, 1e6) for _ in range(3)]
        if i % 3 == 0:
            m = [m[0]] * 3
        p, q, r = (rng.normal(size=4) * m[0], rng.normal(size=4) * m[1], rng.normal(size=4) * m[2])
        npq = np.linalg.norm(p) * np.linalg.norm(q)
        inp = np.r_[p, q, r]
        P, Qq, R = Quaternion(p), Quaternion(q), Quaternion(r)
        chk('assoc', ((P * Qq) * R).vec, (P * (Qq * R)).vec, npq * np.linalg.norm(r), inp)
        chk('distrib-left', (P * (Qq + R)).vec, (P * Qq + P * R).vec, np.linalg.norm(p) * (np.linalg.norm(q) + np.linalg.norm(r)), inp)
        chk('distrib-right', ((Qq + R) * P).vec, (Qq * P + R * P).vec, np.linalg.norm(p) * (np.linalg.norm(q) + np.linalg.norm(r)), inp)
        chk('norm-mult', (P * Qq).norm(), P.norm() * Qq.norm(), npq, inp)
        chk('conj-rev', (P * Qq).conj().vec, (Qq.conj() * P.conj()).vec, npq, inp)
        chk('q-conj-q', (P * P.conj()).vec, np.r_[p @ p, 0, 0, 0], p @ p, inp)
        chk('matrix', P.matrix @ q, (P * Qq).vec, npq, inp)
        chk('inner', P.inner(Qq), float(p @ q), npq, inp)
        n = int(rng.integers(-6, 7))
        ref = np.r_[1.0, 0, 0, 0]
        for _ in range(abs(n)):
            ref = hamilton(ref, p)
        if n < 0:
            ref = ref * np.r_[1, -1, -1, -1]
        chk('pow', (P ** n).vec, ref, max(np.linalg.norm(p) ** abs(n), 1e-300), np.r_[p, n])
        chk('base-pow', base.qpow(p, n), ref, max(np.linalg.norm(p) ** abs(n), 1e-300), np.r_[p, n])
        # kinematic rates
        w = rng.normal(size=3) * m[1]
        u = p / np.linalg.norm(p)
        chk('dot', base.dot(u, w), 0.5 * hamilton(np.r_[0, w], u), np.linalg.norm(w), np.r_[u, w])
        chk('dotb', base.dotb(u, w), 0.5 * hamilton(u, np.r_[0, w]), np.linalg.norm(w), np.r_[u, w])
        # 3-vector form, scalar parts >= 0.1
        a, b = unit_v3_small(rng), unit_v3_small(rng)
        qa, qb = np.r_[math.sqrt(1 - a @ a), a], np.r_[math.sqrt(1 - b @ b), b]
        if qa[0] >= 0.1 and qb[0] >= 0.1:
            chk('vvmul', base.vvmul(a, b), hamilton(qa, qb)[1:], 1.0, np.r_[a, b])
        # exp / log (tolerance 1e-6)
        vn = log_uniform(rng, 1e-6, 3.0) if i % 2 else rng.uniform(0.01, math.pi - 0.01)
        e = np.r_[rng.uniform(-3, 3), rand_unit(rng) * vn]
        E = Quaternion(e)
        try:
            chk('log-exp', E.exp().log().vec, e, max(1, np.linalg.norm(e)), e, tol=1e-6)
        except Exception as ex:
            ctx.fail('oracle:log-exp:raises', f"log(exp(q)) raises {type(ex).__name__}: {ex}", {'q_hex': [float(x).hex() for x in e]})
        g_ = rng.normal(size=4) * log_uniform(rng, 1e-3, 1e3)
        try:
            chk('exp-log', Quaternion(g_).log().exp().vec, g_, max(1, np.linalg.norm(g_)), g_, tol=1e-6)
        except Exception as ex:
            ctx.fail('oracle:exp-log:raises', f"exp(log(q)) raises {type(ex).__name__}: {ex}", {'q_hex': [float(x).hex() for x in g_]})
        # dual quaternions
        a8, b8, c8 = rng.normal(size=8) * m[0], rng.normal(size=8) * m[1], rng.normal(size=8) * m[2]
        DQ = lambda a: DualQuaternion(Quaternion(a[0:4]), Quaternion(a[4:8]))
        sc = np.linalg.norm(a8) * np.linalg.norm(b8)
        chk('dq-assoc', ((DQ(a8) * DQ(b8)) * DQ(c8)).vec, (DQ(a8) * (DQ(b8) * DQ(c8))).vec, sc * np.linalg.norm(c8), np.r_[a8, b8, c8])
        chk('dq-matrix', DQ(a8).matrix() @ b8, (DQ(a8) * DQ(b8)).vec, sc, np.r_[a8, b8])
        chk('dq-conj', DQ(a8).conj().vec, a8 * np.r_[1, -1, -1, -1, 1, -1, -1, -1], np.linalg.norm(a8), a8)
        # the norm is the dual-number square root: (n + eps m)^2 = <r,r> + eps 2<r,d>
        try:
            with np.errstate(all='ignore'):
                n_, m_ = (float(x) for x in DQ(a8).norm())
            chk('dq-norm-dual-sqrt', [n_ * n_, 2 * n_ * m_], [a8[:4] @ a8[:4], 2 * (a8[:4] @ a8[4:])], np.linalg.norm(a8) ** 2, a8)
        except Exception as ex:
            ctx.fail(f'oracle:dq-norm:raises:{type(ex).__name__}', f"DualQuaternion.norm() raises {type(ex).__name__}: {ex}",
                     {'a_hex': [float(x).hex() for x in a8]})
        # norm of a unit dual quaternion built from a rigid motion: always defined, (1, 0) to 1e-6
        T = np.eye(4)
        T[:3, :3] = rand_rot(rng)
        T[:3, 3] = rand_trans(rng, 1e-6, 1e3)
        try:
            with np.errstate(all='ignore'):
                nrm = np.asarray(UnitDualQuaternion(SE3(T, check=False)).norm(), float)
            ctx.case(('udq-norm', tuple(T.flatten())))
            ctx.count('oracle:udq-norm')
            if not np.all(np.isfinite(nrm)):
                ctx.fail('oracle:udq-norm:undefined', f"UnitDualQuaternion(SE3).norm() is not defined (NaN): {nrm}",
                         {'T_hex': [float(x).hex() for x in T.flatten()], 'norm': nrm.tolist()})
            elif not (abs(nrm[0] - 1) <= 1e-6 and abs(nrm[1]) <= 1e-6 * max(1, np.linalg.norm(T[:3, 3]))):
                ctx.fail('oracle:udq-norm:value', f"UnitDualQuaternion(SE3).norm() = {nrm} is not (1,0)",
                         {'T_hex': [float(x).hex() for x in T.flatten()], 'norm': nrm.tolist()})
        except Exception as ex:
            ctx.fail(f'oracle:udq-norm:raises:{type(ex).__name__}:{ex}', f"UnitDualQuaternion(SE3).norm() raises {type(ex).__name__}: {ex}",
                     {'T_hex': [float(x).hex() for x in T.flatten()]})
        # class of a product: unit only when BOTH factors are unit dual quaternions; the values obey the same product
        if i % 8 == 0:
            U, D8 = UnitDualQuaternion(SE3(T, check=False)), DQ(a8)
            ctx.case(('dq-mul-class', tuple(T.flatten())))
            ctx.count('oracle:dq-mul-class')
            got = [type(U * U).__name__, type(U * D8).__name__, type(D8 * U).__name__, type(D8 * D8).__name__]
            want = ['UnitDualQuaternion', 'DualQuaternion', 'DualQuaternion', 'DualQuaternion']
            if got != want:
                ctx.fail('oracle:dq-mul-class', f"classes of U*U, U*D, D*U, D*D are {got}, expected {want}",
                         {'T_hex': [float(x).hex() for x in T.flatten()], 'a_hex': [float(x).hex() for x in a8]})
            chk('dq-mul-unit-left', (U * D8).vec, (DQ(U.vec) * D8).vec, np.linalg.norm(U.vec) * np.linalg.norm(a8), np.r_[U.vec, a8])
    ctx.sample({'kind': 'oracle', 'identity': 'assoc', 'p': p.tolist(), 'q': q.tolist(), 'r': r.tolist()})


def qlog_ref(p):
    """independent closed form of the principal logarithm (atan2 form: well conditioned at small angles)"""
    s, v = p[0], p[1:]
    nv, N = math.sqrt(float(v @ v)), math.sqrt(float(p @ p))
    return np.r_[math.log(N), v / nv * math.atan2(nv, s)]


def oracle_explog(ctx, th):
    """exp / log on the DIRECTED domain (the property's tolerance: 1e-6 relative):
       exp(q) against the closed form, log(exp q) = q for |v| in (0, pi), exp(log(exp q)) = exp q beyond pi,
       log(p) against the closed form, exp(log p) = p  --  q: scalar part 0 / 1e-18..1e-1 / band edges / O(1),
       vector norm 1e-12..pi..3pi;  p: |p| = 1 +- 1e-18..1e-2, band edges, 1e-3..1e3, small vector parts."""
    rng, D, tol = ctx.rng, Dom(th), 1e-6
    hx = lambda a: [float(x).hex() for x in np.asarray(a, float).flatten()]

    def chk(key, lhs, rhs, scale, arg):
        lhs, rhs = np.asarray(lhs, float), np.asarray(rhs, float)
        ctx.case((key, tuple(np.asarray(arg, float))))
        ctx.count('oracle:' + key)
        err = float(np.max(np.abs(lhs - rhs))) if lhs.shape == rhs.shape and np.all(np.isfinite(lhs)) else float('inf')
        ctx.stats['worst:' + key] = max(ctx.stats.get('worst:' + key, 0.0), err / scale)
        if not err <= tol * scale:
            nan = bool(np.any(np.isnan(lhs)))
            ctx.fail('oracle:' + key + (':nan' if nan else ''),
                     f"{key} fails on the implementation for q={np.asarray(arg).tolist()}: got {lhs.tolist()}, expected {rhs.tolist()} "
                     f"(error {err:g}, scale {scale:g}, tolerance {tol:g} relative)",
                     {'law': key, 'q': np.asarray(arg).tolist(), 'q_hex': hx(arg), 'got': lhs.tolist(), 'expected': rhs.tolist(),
                      'replay': f"from spatialmath import Quaternion; q = Quaternion([float.fromhex(h) for h in {hx(arg)}])"})

    def guarded(key, arg, f):
        try:
            with np.errstate(all='ignore'):
                return f()
        except Exception as ex:
            ctx.case((key, tuple(np.asarray(arg, float))))
            ctx.fail(f'oracle:{key}:raises:{type(ex).__name__}', f"{key}: raises {type(ex).__name__}: {ex} for q={np.asarray(arg).tolist()}",
                     {'law': key, 'q': np.asarray(arg).tolist(), 'q_hex': hx(arg),
                      'replay': f"from spatialmath import Quaternion; q = Quaternion([float.fromhex(h) for h in {hx(arg)}])"})
            return None

    N = ctx.n(150, 4000)
    exp_cl = D.log_exp_classes()
    for rnd in range(N):
        for lab, f in exp_cl:
            q = f(rng)[0]
            ctx.count('hit:oracle-exp:' + lab)
            n = float(np.linalg.norm(q[1:]))
            ref = qexp_ref(q)
            E = guarded('exp', q, lambda: Quaternion(q).exp())
            if E is None:
                continue
            chk('exp-closed-form', E.vec, ref, float(np.linalg.norm(ref)), q)
            if n < math.pi - 1e-10:
                L = guarded('log-exp', q, lambda: E.log())
                if L is not None:
                    chk('log-exp-directed', L.vec, q, max(1.0, float(np.linalg.norm(q))), q)
            else:
                L = guarded('log-exp', q, lambda: E.log().exp())
                if L is not None:
                    chk('exp-log-exp', L.vec, ref, float(np.linalg.norm(ref)), q)
        for lab, f in D.log_classes(errors=False):
            p = f(rng)[0]
            ctx.count('hit:oracle-log:' + lab)
            # the classes repaired by b361ecf / dbb1296 report under their own keys (no stale known entry can match)
            tag = ':tiny-vector-part' if lab in ('tiny-vector', 'tiny-ratio') else ''
            L = guarded('log' + tag, p, lambda: Quaternion(p).log())
            if L is None:
                continue
            ref = qlog_ref(p)
            chk('log-closed-form' + tag, L.vec, ref, max(1.0, float(np.linalg.norm(ref))), p)
            R = guarded('exp-log' + tag, p, lambda: L.exp())
            if R is not None:
                chk('exp-log-directed' + tag, R.vec, p, max(1.0, float(np.linalg.norm(p))), p)
        # log(exp q) when the vector part of exp q is tiny (e^s sin|v| = 1e-30..1e-16): formerly TypeError
        sc = rng.uniform(-3, 3)
        q = np.r_[sc, rand_unit(rng) * lu(rng, 1e-30, 1e-16) * math.exp(-sc)]
        ctx.count('hit:oracle-exp:tiny-vector')
        L = guarded('log-exp:tiny-vector-part', q, lambda: Quaternion(q).exp().log())
        if L is not None:
            chk('log-exp:tiny-vector-part', L.vec, q, max(1.0, float(np.linalg.norm(q))), q)
        # real quaternions: exp is (e^s, 0, 0, 0) (formerly NaN), log of a positive one (ln s, 0, 0, 0) (formerly TypeError)
        sr = D.s_o1(rng) if rnd % 2 else D.s_tiny(rng)
        qr = np.r_[sr, 0.0, 0.0, 0.0]
        ctx.count('hit:oracle-exp:real')
        E = guarded('exp:real-quaternion', qr, lambda: Quaternion(qr).exp())
        if E is not None:
            chk('exp:real-quaternion', E.vec, np.r_[math.exp(sr), 0, 0, 0], math.exp(sr), qr)
            L = guarded('log-exp:real-quaternion', qr, lambda: E.log())
            if L is not None:
                chk('log-exp:real-quaternion', L.vec, qr, max(1.0, abs(sr)), qr)
        pr = D.p_real_pos(rng)[0]
        L = guarded('log:real-quaternion', pr, lambda: Quaternion(pr).log())
        if L is not None:
            chk('log:real-quaternion', L.vec, np.r_[math.log(pr[0]), 0, 0, 0], max(1.0, abs(math.log(pr[0]))), pr)
            R = guarded('exp-log:real-quaternion', pr, lambda: L.exp())
            if R is not None:
                chk('exp-log:real-quaternion', R.vec, pr, max(1.0, pr[0]), pr)
    ctx.sample({'kind': 'oracle', 'identity': 'log-exp-directed', 'q': q.tolist()})



def oracle_poison(ctx):
    """results are the caller's: modifying a returned array / object in place must not change what LATER calls compute (a shared identity
    element handed out by qpow(q, 0), eye(), q ** 0, UnitQuaternion() would be polluted).  The power laws are re-evaluated after each mutation."""
    rng = ctx.rng

    def href(q, n):
        r = np.array([1.0, 0, 0, 0])
        for _ in range(abs(n)):
            r = np.asarray(hamilton(r, q), float)
        return np.r_[r[0], -r[1:]] if n < 0 else r

    def laws(stage):
        ctx.case(('poison', stage))
        ctx.count('oracle:poison')
        for _ in range(4):
            q = rng.normal(size=4)
            for n in (-3, -1, 0, 1, 2, 4):
                got = np.asarray(base.qpow(q, n), float)
                want = href(q, n)
                if not np.max(np.abs(got - want)) <= 1e-9 * max(1.0, float(np.max(np.abs(want)))):
                    ctx.fail('oracle:poison:qpow-after-caller-mutated-a-result', f"after [{stage}]: qpow(q, {n}) = {got.tolist()} instead of {want.tolist()}",
                             {'stage': stage, 'q_hex': [float(x).hex() for x in q], 'n': n})
                    return False
                gq = np.asarray((Quaternion(q) ** n).vec, float)
                if not np.max(np.abs(gq - want)) <= 1e-9 * max(1.0, float(np.max(np.abs(want)))):
                    ctx.fail('oracle:poison:Quaternion-pow-after-caller-mutated-a-result', f"after [{stage}]: Quaternion(q) ** {n} = {gq.tolist()} instead of {want.tolist()}",
                             {'stage': stage, 'q_hex': [float(x).hex() for x in q], 'n': n})
                    return False
        for nm, mk in (('base.eye()', lambda: np.asarray(base.eye(), float)), ('UnitQuaternion()', lambda: np.asarray(UnitQuaternion().vec, float)),
                       ('qpow(q, 0)', lambda: np.asarray(base.qpow([1.0, 2, 3, 4], 0), float)), ('Quaternion(q) ** 0', lambda: np.asarray((Quaternion([1.0, 2, 3, 4]) ** 0).vec, float))):
            v = mk()
            if not np.array_equal(v, np.array([1.0, 0, 0, 0])):
                ctx.fail('oracle:poison:identity-element-changed', f"after [{stage}]: {nm} is {v.tolist()}, not the identity quaternion", {'stage': stage, 'site': nm})
                return False
        return True

    if not laws('nothing'):
        return
    muts = [('r = qpow(q, 0); r *= 3', lambda: base.qpow([0.5, 1, -2, 3], 0).__imul__(3)),
            ('e = eye(); e[0] = -1', lambda: base.eye().__setitem__(0, -1.0)),
            ('p = Quaternion(q) ** 0; p.vec *= -1', lambda: (Quaternion([0.5, 1, -2, 3]) ** 0).vec.__imul__(-1)),
            ('u = UnitQuaternion(); u.vec[1] = 7', lambda: UnitQuaternion().vec.__setitem__(1, 7.0)),
            ('r = qpow(q, 2); r += 1', lambda: base.qpow([0.5, 1, -2, 3], 2).__iadd__(1)),
            ('c = conj(q0); c *= 0', lambda: base.conj(np.array([1.0, 0, 0, 0])).__imul__(0)),
            ('m = qqmul(eye(), eye()); m -= 5', lambda: base.qqmul(base.eye(), base.eye()).__isub__(5))]
    for stage, f in muts:
        try:
            f()
        except Exception:  # noqa: a read-only result is fine too
            ctx.count('oracle:poison:mutation-refused')
        if not laws(stage):
            return


def oracle_multi(ctx):
    """every class-level operation of C12 on MULTI-VALUED Quaternion / UnitQuaternion operands (lengths 2..5, 4
    included in every round; N x N, N x 1, 1 x N): the result must have N elements, element k equal to the
    single-valued operation on the k-th operand(s) AND to the independent reference (1e-9; exp/log 1e-6).
    Keys follow C09's: oracle:method:<Class>.<op>:sequence-raises:<Exc> / oracle:op:<Class>.<op>:<shape>:raises:<Exc>;
    a wrong value / length / shape is ...:wrong-value (always a finding)."""
    rng = ctx.rng
    hx = lambda a: [float(x).hex() for x in np.asarray(a, float).flatten()]

    def owner(X, attr):
        return next((c.__name__ for c in type(X).__mro__ if attr in c.__dict__), type(X).__name__)

    def elems(r, N):
        """result of a sequence operation as a list of N float arrays (None if it does not have N elements)"""
        if isinstance(r, Quaternion):
            return [np.asarray(x, float) for x in r.data] if len(r) == N else None
        a = np.asarray(r, float)
        return [a[k] for k in range(N)] if a.ndim >= 1 and a.shape[0] == N else None

    def run(cls, op, attr, shape, N, f_seq, f_single, refs, operands, tol=1e-9):
        """f_seq(): the multi-valued call; f_single(k): the same call on the k-th elements; refs[k]: independent value"""
        kind = 'method' if shape == 'N' else 'op'
        base_key = f"oracle:{kind}:{cls}.{op}:" + ('sequence' if shape == 'N' else shape)
        rep = {'operation': f'{cls}.{op}', 'shape': shape, 'N': N, 'operands_hex': [hx(o) for o in operands],
               'operands': [np.asarray(o, float).tolist() for o in operands]}
        ctx.case(('multi', cls, op, shape, N, tuple(np.asarray(operands[0], float).flatten()[:8])))
        ctx.count(f'oracle:multi:{op}:{shape}')
        try:
            with np.errstate(all='ignore'):
                r = f_seq()
        except Exception as ex:
            sep = '-raises:' if shape == 'N' else ':raises:'
            ctx.fail(base_key + sep + type(ex).__name__,
                     f"{cls}.{op} on {N} values ({shape}) raises {type(ex).__name__}: {ex}", rep)
            return
        el = elems(r, N)
        if el is None:
            ctx.fail(base_key + ':wrong-value', f"{cls}.{op} on {N} values ({shape}) does not return {N} elements: "
                     f"{type(r).__name__} of shape {np.shape(np.asarray(r, dtype=object))}", rep)
            return
        for k in range(N):
            with np.errstate(all='ignore'):
                single = np.asarray(f_single(k), float)
            ref = np.asarray(refs[k], float)
            scale = max(1.0, float(np.max(np.abs(ref))))
            for what, want in (('the single-valued result', single), ('the reference', ref)):
                if el[k].shape != want.shape or not np.max(np.abs(el[k] - want)) <= tol * scale:
                    ctx.fail(base_key + ':wrong-value',
                             f"{cls}.{op} on {N} values ({shape}): element {k} is {el[k].tolist()}, {what} is {want.tolist()}",
                             dict(rep, element=k, got=el[k].tolist(), expected=want.tolist()))
                    return

    rounds = ctx.n(6, 60)
    for rnd in range(rounds):
        for N in sorted({4, int(rng.integers(2, 6)), 2 + rnd % 4}):
            for cls in ('Quaternion', 'UnitQuaternion'):
                unit = cls == 'UnitQuaternion'
                mk = (lambda: rand_unit(rng, 4)) if unit else (lambda: rng.normal(size=4) * log_uniform(rng, 1e-2, 1e2))
                a, b, c = [mk() for _ in range(N)], [mk() for _ in range(N)], mk()
                K = UnitQuaternion if unit else Quaternion
                one = lambda v: K(v, norm=False) if unit else K(v)
                A, B, C = K(a, norm=False) if unit else K(a), K(b, norm=False) if unit else K(b), one(c)
                Ak, Bk = [one(v) for v in a], [one(v) for v in b]
                for shape, (X, Y, xs, ys, Xk, Yk) in {'NxN': (A, B, a, b, Ak, Bk), 'Nx1': (A, C, a, [c] * N, Ak, [C] * N),
                                                      '1xN': (C, A, [c] * N, a, [C] * N, Ak)}.items():
                    opnd = [np.array(xs if shape != '1xN' else c), np.array(ys if shape != 'Nx1' else c)]
                    run(owner(X, 'inner'), 'inner', 'inner', shape, N, lambda: X.inner(Y), lambda k: Xk[k].inner(Yk[k]),
                        [xs[k] @ ys[k] for k in range(N)], opnd)
                    run(owner(X, '__mul__'), 'mul', '__mul__', shape, N, lambda: X * Y, lambda k: (Xk[k] * Yk[k]).vec,
                        [hamilton(xs[k], ys[k]) for k in range(N)], opnd)
                    run(owner(X, '__add__'), 'add', '__add__', shape, N, lambda: X + Y, lambda k: (Xk[k] + Yk[k]).vec,
                        [xs[k] + ys[k] for k in range(N)], opnd)
                    run(owner(X, '__sub__'), 'sub', '__sub__', shape, N, lambda: X - Y, lambda k: (Xk[k] - Yk[k]).vec,
                        [xs[k] - ys[k] for k in range(N)], opnd)
                    # dual quaternions whose parts hold several values: the operations that go through the Quaternion
                    # operators (+ - * conj); norm / matrix / vec are single-valued by construction and not exercised
                    if not unit:
                        Dx, Dy = DualQuaternion(X, Y), DualQuaternion(Y, X)
                        dref = [(hamilton(xs[k], ys[k]), hamilton(xs[k], xs[k]) + hamilton(ys[k], ys[k])) for k in range(N)]
                        run('DualQuaternion', 'mul.real', '__mul__', shape, N, lambda: (Dx * Dy).real,
                            lambda k: (DualQuaternion(Xk[k], Yk[k]) * DualQuaternion(Yk[k], Xk[k])).real.vec, [d[0] for d in dref], opnd)
                        run('DualQuaternion', 'mul.dual', '__mul__', shape, N, lambda: (Dx * Dy).dual,
                            lambda k: (DualQuaternion(Xk[k], Yk[k]) * DualQuaternion(Yk[k], Xk[k])).dual.vec, [d[1] for d in dref], opnd)
                        run('DualQuaternion', 'add.real', '__add__', shape, N, lambda: (Dx + Dy).real,
                            lambda k: (Xk[k] + Yk[k]).vec, [xs[k] + ys[k] for k in range(N)], opnd)
                        run('DualQuaternion', 'sub.dual', '__sub__', shape, N, lambda: (Dx - Dy).dual,
                            lambda k: (Yk[k] - Xk[k]).vec, [ys[k] - xs[k] for k in range(N)], opnd)
                        if shape == 'NxN':
                            run('DualQuaternion', 'conj.dual', 'conj', shape, N, lambda: Dx.conj().dual,
                                lambda k: Yk[k].conj().vec, [ys[k] * np.r_[1, -1, -1, -1] for k in range(N)], opnd)
                # unary operations and scalar multiples
                kf = float(rng.normal() * 3)
                n = int(rng.integers(-6, 7))

                def powref(v):
                    r = np.r_[1.0, 0, 0, 0]
                    for _ in range(abs(n)):
                        r = hamilton(r, v)
                    return r * np.r_[1, -1, -1, -1] if n < 0 else r
                mats = lambda v: np.array([[v[0], -v[1], -v[2], -v[3]], [v[1], v[0], -v[3], v[2]],
                                           [v[2], v[3], v[0], -v[1]], [v[3], -v[2], v[1], v[0]]])
                un = [('conj', 'conj', lambda Z: Z.conj(), lambda v: v * np.r_[1, -1, -1, -1], 1e-9),
                      ('norm', 'norm', lambda Z: Z.norm(), lambda v: np.linalg.norm(v), 1e-9),
                      ('pow', '__pow__', lambda Z: Z ** n, powref, 1e-9),
                      ('smul', '__mul__', lambda Z: Z * kf, lambda v: kf * v, 1e-9),
                      ('rsmul', '__rmul__', lambda Z: kf * Z, lambda v: kf * v, 1e-9),
                      ('matrix-per-value', 'matrix', lambda Z: Z.matrix, mats, 1e-9),
                      ('exp-per-value', 'exp', lambda Z: Z.exp(), qexp_ref, 1e-6),
                      ('log-per-value', 'log', lambda Z: Z.log(), qlog_ref, 1e-6)]
                for op, attr, f, ref, tol in un:
                    vec = lambda r: r.vec if isinstance(r, Quaternion) else r
                    run(owner(A, attr), op, attr, 'N', N, lambda: f(A), lambda k: vec(f(Ak[k])), [ref(v) for v in a], [np.array(a)], tol)
                # class of a multi-valued exp: UnitQuaternion exactly when every single-valued exponential is one
                if not unit:
                    pure = [np.r_[0.0, rng.normal(size=3)] for _ in range(N)]
                    for lab, vals in (('pure', pure), ('mixed', [pure[0]] + a[1:])):
                        ctx.case(('multi-exp-class', lab, N, tuple(np.asarray(vals).flatten()[:8])))
                        ctx.count('oracle:multi:exp-class:' + lab)
                        try:
                            with np.errstate(all='ignore'):
                                got = type(Quaternion(vals).exp()).__name__
                                want = 'UnitQuaternion' if all(isinstance(Quaternion(v).exp(), UnitQuaternion) for v in vals) else 'Quaternion'
                            if got != want:
                                ctx.fail('oracle:method:Quaternion.exp-per-value:sequence:wrong-class',
                                         f"exp of {N} {lab} quaternions is a {got}, the single-valued rule gives {want}",
                                         {'operands': np.asarray(vals).tolist(), 'operands_hex': [hx(v) for v in vals]})
                        except Exception as ex:
                            ctx.fail(f'oracle:method:Quaternion.exp-per-value:sequence-raises:{type(ex).__name__}',
                                     f"exp of {N} {lab} quaternions raises {type(ex).__name__}: {ex}",
                                     {'operands': np.asarray(vals).tolist(), 'operands_hex': [hx(v) for v in vals]})
                    run('Quaternion', 'exp-per-value', 'exp', 'N', N, lambda: Quaternion(pure).exp(), lambda k: Quaternion(pure[k]).exp().vec,
                        [qexp_ref(v) for v in pure], [np.array(pure)], 1e-6)
                # N unit quaternions times a 3 x N array: column i is rotated by quaternion i (the sandwich product)
                if unit:
                    pts = rng.normal(size=(3, N)) * log_uniform(rng, 1e-2, 1e2)
                    rot = lambda qv, x: hamilton(hamilton(qv, np.r_[0, x]), qv * np.r_[1, -1, -1, -1])[1:]
                    run('UnitQuaternion', 'mul-points-per-value', '__mul__', 'NxN', N, lambda: (A * pts).T,
                        lambda k: np.asarray(Ak[k] * pts[:, k]).flatten(), [rot(a[k], pts[:, k]) for k in range(N)], [np.array(a), pts])
    ctx.sample({'kind': 'oracle', 'identity': 'multi-valued inner NxN', 'N': N, 'a': np.asarray(a).tolist(), 'b': np.asarray(b).tolist()})



def run(ctx):
    ctx.rule = ("obligations: theorems of theories/Props/C12.v over the traces regenerated from /repo and of "
                "theories/Props/C12_explog.v over the hand model of exp/log instantiated with the thresholds regenerated "
                "from /repo's AST; evaluations: Sym==Num / T-num cases (model vs implementation) + oracle evaluations of "
                "each identity on the implementation at magnitudes 1e-6..1e6 and of exp/log on the directed domain; "
                "a case is non-trivial/distinct by its (identity, input) signature")
    ctx.trusted_extra = ["T-const AST pass of props/C12.py (thresholds, branch skeleton and call set of Quaternion.exp/log, "
                         "vectors.norm, quaternions.qnorm/unit, the (s=, v=) constructors)",
                         "math.atan2-based closed form of the quaternion logarithm and e^s(cos|v|, v/|v| sin|v|) as the oracle's references"]
    with ctx.timed('regenerate'):
        try:
            K = tconst(ctx)
        except TConstError as ex:
            ctx.fail('tconst:model-correspondence-broken',
                     f"the hand model of Quaternion.exp/log no longer corresponds to the source: {ex}", {'detail': str(ex)}, no_input=True)
            K = None
    th = {f: K[f][1] for f in K} if K else dict(NOMINAL)
    consts_ok = False
    if K is not None:
        rc, out, err, dt = ctx.coqc(ctx.write_gen('Consts_C12.v', consts_text(K)))
        consts_ok = rc == 0
        if not consts_ok:
            ctx.fail('gen:compile:consts', 'generated constants do not compile: ' + err[-800:], no_input=True)
    with ctx.timed('regenerate'):
        g = build(ctx)
        D = add_models(ctx, g, th) if consts_ok else None
        text = g.coq_text() + (WRAPPERS if consts_ok else '')
    rc, out, err, dt = ctx.coqc(ctx.write_gen(MOD + '.v', text))
    if rc != 0:
        ctx.fail('gen:compile', 'generated traces do not compile: ' + err[-800:], no_input=True)
    else:
        ctx.prove('theories/Props/C12.v')
        if any(nm.startswith('tr_S') for nm, _ in g.failed):
            ctx.fail('gen:trace:class-layer-on-sequences', 'the class layer could not be executed symbolically on multi-valued '
                     'operands: ' + '; '.join(f'{nm}: {why}' for nm, why in g.failed if nm.startswith('tr_S'))[:1500],
                     {'failed': g.failed}, no_input=True)
        else:
            ctx.prove('theories/Props/C12_seq.v')
        if consts_ok:
            ctx.prove('theories/Props/C12_explog.v')
            ctx.prove('theories/Props/C12_series.v')    # exp of a pure quaternion = its power series (Model/C12_Series.v)
        with ctx.timed('correspond'):
            try:
                sym_num(ctx, g, MOD, 400 if ctx.stats.get('tconst:restructured') else ctx.n(25, 400))
            except Exception as ex:   # keep searching for a failing input
                ctx.fail('harness:correspondence', f"the model/implementation correspondence could not be run: {type(ex).__name__}: {ex}",
                         {'detail': repr(ex)}, no_input=True)
    # the search for a failing input always runs (also when the model could not be re-established)
    with ctx.timed('oracle'):
        oracle(ctx)
    with ctx.timed('oracle-explog'):
        oracle_explog(ctx, th)
    with ctx.timed('oracle-multi'):
        oracle_multi(ctx)
    with ctx.timed('oracle-poison'):      # last: if a shared value were polluted, everything after it would be falsified
        oracle_poison(ctx)
