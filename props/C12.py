"""C12 -- quaternion and dual-quaternion arithmetic obeys the Hamilton algebra.

Two parts:
  A. polynomial identities: T-sym traces of the real code (build) + theories/Props/C12.v + Sym==Num + oracle.
  B. exp / log round trips: hand model theories/Model/C12_ExpLog.v of Quaternion.exp / Quaternion.log and of
     what they call (vectors.norm, vectors.unitvec, quaternions.qnorm, quaternions.unit, the (s=, v=)
     constructors), tied on every run by
       T-const : fail-closed AST pass (tconst) -> coq/gen/Consts_C12.v: the thresholds of the three branch sites as
                 terms over the ops record + the branch skeleton / call set of every modelled function,
       T-num   : Gen.model numeric correspondence (extracted model on OCaml floats vs the real methods) on
                 directed inputs (scalar part 0 / 1e-18..1e-1 / O(1), vector norm 1e-12..pi..3pi, |q| = 1 +- d,
                 vector parts below the unitvec threshold), a factor 2 away from each threshold,
     theorems theories/Props/C12_explog.v over R, and the oracle on the same directed domain (1e-6 relative).
"""
import ast
import math
import os
import numpy as np
import sympy
from lib import concolic
from lib.symtrace import Gen
from lib.corr import sym_num
from lib.gens import log_uniform, rand_unit, rand_rot, rand_trans

concolic.install()
from spatialmath import base, Quaternion, UnitQuaternion, SE3  # noqa: E402
from spatialmath.DualQuaternion import DualQuaternion, UnitDualQuaternion  # noqa: E402

from lib.core import REPO  # noqa: E402

MOD = 'Traces_C12'
EPS = float(np.finfo(np.float64).eps)


def unit_v3_small(rng):
    # 3-vector form of a unit quaternion with scalar part >= 0.1
    while True:
        v = rng.normal(size=3) * rng.uniform(0.05, 0.6)
        if v @ v < 0.98:
            return v


def expand_all(res):
    return np.array([sympy.expand(x) for x in np.asarray(res, dtype=object).flatten()], dtype=object).reshape(np.shape(res))


def build(ctx):
    g = Gen('C12')
    Q = lambda x: Quaternion(x)
    # ---- base functions, executed on symbols
    g.trace('tr_qqmul', [('p', 'V4'), ('q', 'V4')], base.qqmul)
    g.trace('tr_conj', [('q', 'V4')], base.conj)
    g.trace('tr_inner', [('p', 'V4'), ('q', 'V4')], base.inner)
    g.trace('tr_qnorm', [('q', 'V4')], base.qnorm)
    g.trace('tr_pure', [('v', 'V3')], base.pure)
    g.trace('tr_matrix', [('q', 'V4')], base.matrix)
    g.trace('tr_qvmul', [('q', 'V4'), ('v', 'V3')], base.qvmul)
    g.trace('tr_dot', [('q', 'V4'), ('w', 'V3')], base.dot)
    g.trace('tr_dotb', [('q', 'V4'), ('w', 'V3')], base.dotb)
    g.trace('tr_vvmul', [('a', 'V3'), ('b', 'V3')], base.vvmul, sampler=lambda rng: [unit_v3_small(rng), unit_v3_small(rng)])
    g.trace('tr_v2q', [('a', 'V3')], base.v2q, sampler=lambda rng: [unit_v3_small(rng)])
    for n in range(-6, 7):
        nm = f"tr_qpow_{'m' if n < 0 else 'p'}{abs(n)}"
        g.trace(nm, [('q', 'V4')], (lambda n: lambda q: base.qpow(q, n))(n), tol=1e-9, post=expand_all,
                note='expanded with sympy.expand (the nested loop result has 4^n nodes)')
    # ---- class layer
    g.trace('tr_Q_mul', [('p', 'V4'), ('q', 'V4')], lambda p, q: (Q(p) * Q(q)).vec)
    g.trace('tr_Q_add', [('p', 'V4'), ('q', 'V4')], lambda p, q: (Q(p) + Q(q)).vec)
    g.trace('tr_Q_sub', [('p', 'V4'), ('q', 'V4')], lambda p, q: (Q(p) - Q(q)).vec)
    g.trace('tr_Q_conj', [('q', 'V4')], lambda q: Q(q).conj().vec)
    g.trace('tr_Q_inner', [('p', 'V4'), ('q', 'V4')], lambda p, q: Q(p).inner(Q(q)))
    g.trace('tr_Q_matrix', [('q', 'V4')], lambda q: Q(q).matrix)
    g.trace('tr_Q_norm', [('q', 'V4')], lambda q: Q(q).norm())
    g.trace('tr_Q_smul', [('k', 'S'), ('q', 'V4')], lambda k, q: (Q(q) * k).vec)
    g.trace('tr_Q_rsmul', [('k', 'S'), ('q', 'V4')], lambda k, q: (k * Q(q)).vec)
    g.trace('tr_Q_pow3', [('q', 'V4')], lambda q: (Q(q) ** 3).vec, tol=1e-9, post=expand_all)
    g.trace('tr_Q_powm2', [('q', 'V4')], lambda q: (Q(q) ** -2).vec, tol=1e-9, post=expand_all)
    # ---- dual quaternions
    DQ = lambda a: DualQuaternion(Q(a[0:4]), Q(a[4:8]))
    g.trace('tr_DQ_mul', [('a', 'V8'), ('b', 'V8')], lambda a, b: (DQ(a) * DQ(b)).vec)
    g.trace('tr_DQ_add', [('a', 'V8'), ('b', 'V8')], lambda a, b: (DQ(a) + DQ(b)).vec)
    g.trace('tr_DQ_sub', [('a', 'V8'), ('b', 'V8')], lambda a, b: (DQ(a) - DQ(b)).vec)
    g.trace('tr_DQ_conj', [('a', 'V8')], lambda a: DQ(a).conj().vec)
    g.trace('tr_DQ_matrix', [('a', 'V8')], lambda a: DQ(a).matrix())
    g.trace('tr_DQ_norm', [('a', 'V8')], lambda a: np.array(DQ(a).norm(), dtype=object), out='V2',
            num_fn=lambda a: np.array(DQ(a).norm()),
            sampler=lambda rng: [udq_vec(rng)], tol=1e-6)
    # the dual part the UnitDualQuaternion(SE3) constructor builds from (rotation quaternion q, translation t)
    g.trace('tr_UDQ_dual', [('q', 'V4'), ('t', 'V3')], lambda q, t: (0.5 * Quaternion.Pure(t) * Q(q)).vec)
    return g


def udq_vec(rng):
    """8-vector of a unit dual quaternion built from a rigid motion (independent construction),
    nudged so that real.dual >= 0 exactly representable cases dominate (sqrt of -eps is an L-impl finding, see oracle)"""
    q = rand_unit(rng, 4)
    t = rng.normal(size=3)
    d = 0.5 * hamilton(np.r_[0, t], q)
    # make <q,d> a tiny positive number so that both paths take sqrt of a non-negative value
    d = d + q * 1e-3
    return np.r_[q, d]


def hamilton(p, q):
    s1, v1, s2, v2 = p[0], p[1:], q[0], q[1:]
    return np.r_[s1 * s2 - v1 @ v2, s1 * v2 + s2 * v1 + np.cross(v1, v2)]


def qexp_ref(q):
    s, v = q[0], q[1:]
    n = np.linalg.norm(v)
    return math.exp(s) * np.r_[math.cos(n), v / n * math.sin(n)]


def oracle(ctx):
    """measure the identities on L-impl over magnitudes 1e-6..1e6 (search for a failing input)"""
    rng = ctx.rng
    N = ctx.n(400, 20000)
    rel = 1e-9

    def chk(key, lhs, rhs, scale, inputs, tol=rel):
        lhs, rhs = np.asarray(lhs, float), np.asarray(rhs, float)
        ctx.case((key, tuple(np.asarray(inputs, float).flatten()[:8])))
        ctx.count('oracle:' + key)
        err = np.max(np.abs(lhs - rhs)) if lhs.shape == rhs.shape else float('inf')
        ctx.stats['worst:' + key] = max(ctx.stats.get('worst:' + key, 0.0), float(err / scale) if np.isfinite(err) else float('inf'))
        if not err <= tol * scale:
            ctx.fail('oracle:' + key, f"identity {key} fails on the implementation: |lhs-rhs|={err:g} scale={scale:g}",
                     {'identity': key, 'inputs_hex': [float(x).hex() for x in np.asarray(inputs, float).flatten()],
                      'lhs': lhs.tolist(), 'rhs': rhs.tolist()})

    for i in range(N):
        m = [log_uniform(rng, 1e-6, 1e6) for _ in range(3)]
        if i % 3 == 0:
            m = [m[0]] * 3
        p, q, r = (rng.normal(size=4) * m[0], rng.normal(size=4) * m[1], rng.normal(size=4) * m[2])
        npq = np.linalg.norm(p) * np.linalg.norm(q)
        inp = np.r_[p, q, r]
        P, Qq, R = Quaternion(p), Quaternion(q), Quaternion(r)
        chk('assoc', ((P * Qq) * R).vec, (P * (Qq * R)).vec, npq * np.linalg.norm(r), inp)
        chk('distrib-left', (P * (Qq + R)).vec, (P * Qq + P * R).vec, np.linalg.norm(p) * (np.linalg.norm(q) + np.linalg.norm(r)), inp)
        chk('distrib-right', ((Qq + R) * P).vec, (Qq * P + R * P).vec, np.linalg.norm(p) * (np.linalg.norm(q) + np.linalg.norm(r)), inp)
        chk('norm-mult', (P * Qq).norm(), P.norm() * Qq.norm(), npq, inp)
        chk('conj-rev', (P * Qq).conj().vec, (Qq.conj() * P.conj()).vec, npq, inp)
        chk('q-conj-q', (P * P.conj()).vec, np.r_[p @ p, 0, 0, 0], p @ p, inp)
        chk('matrix', P.matrix @ q, (P * Qq).vec, npq, inp)
        chk('inner', P.inner(Qq), float(p @ q), npq, inp)
        n = int(rng.integers(-6, 7))
        ref = np.r_[1.0, 0, 0, 0]
        for _ in range(abs(n)):
            ref = hamilton(ref, p)
        if n < 0:
            ref = ref * np.r_[1, -1, -1, -1]
        chk('pow', (P ** n).vec, ref, max(np.linalg.norm(p) ** abs(n), 1e-300), np.r_[p, n])
        chk('base-pow', base.qpow(p, n), ref, max(np.linalg.norm(p) ** abs(n), 1e-300), np.r_[p, n])
        # kinematic rates
        w = rng.normal(size=3) * m[1]
        u = p / np.linalg.norm(p)
        chk('dot', base.dot(u, w), 0.5 * hamilton(np.r_[0, w], u), np.linalg.norm(w), np.r_[u, w])
        chk('dotb', base.dotb(u, w), 0.5 * hamilton(u, np.r_[0, w]), np.linalg.norm(w), np.r_[u, w])
        # 3-vector form, scalar parts >= 0.1
        a, b = unit_v3_small(rng), unit_v3_small(rng)
        qa, qb = np.r_[math.sqrt(1 - a @ a), a], np.r_[math.sqrt(1 - b @ b), b]
        if qa[0] >= 0.1 and qb[0] >= 0.1:
            chk('vvmul', base.vvmul(a, b), hamilton(qa, qb)[1:], 1.0, np.r_[a, b])
        # exp / log (tolerance 1e-6)
        vn = log_uniform(rng, 1e-6, 3.0) if i % 2 else rng.uniform(0.01, math.pi - 0.01)
        e = np.r_[rng.uniform(-3, 3), rand_unit(rng) * vn]
        E = Quaternion(e)
        try:
            chk('log-exp', E.exp().log().vec, e, max(1, np.linalg.norm(e)), e, tol=1e-6)
        except Exception as ex:
            ctx.fail('oracle:log-exp:raises', f"log(exp(q)) raises {type(ex).__name__}: {ex}", {'q_hex': [float(x).hex() for x in e]})
        g_ = rng.normal(size=4) * log_uniform(rng, 1e-3, 1e3)
        try:
            chk('exp-log', Quaternion(g_).log().exp().vec, g_, max(1, np.linalg.norm(g_)), g_, tol=1e-6)
        except Exception as ex:
            ctx.fail('oracle:exp-log:raises', f"exp(log(q)) raises {type(ex).__name__}: {ex}", {'q_hex': [float(x).hex() for x in g_]})
        # dual quaternions
        a8, b8, c8 = rng.normal(size=8) * m[0], rng.normal(size=8) * m[1], rng.normal(size=8) * m[2]
        DQ = lambda a: DualQuaternion(Quaternion(a[0:4]), Quaternion(a[4:8]))
        sc = np.linalg.norm(a8) * np.linalg.norm(b8)
        chk('dq-assoc', ((DQ(a8) * DQ(b8)) * DQ(c8)).vec, (DQ(a8) * (DQ(b8) * DQ(c8))).vec, sc * np.linalg.norm(c8), np.r_[a8, b8, c8])
        chk('dq-matrix', DQ(a8).matrix() @ b8, (DQ(a8) * DQ(b8)).vec, sc, np.r_[a8, b8])
        chk('dq-conj', DQ(a8).conj().vec, a8 * np.r_[1, -1, -1, -1, 1, -1, -1, -1], np.linalg.norm(a8), a8)
        # norm of a unit dual quaternion built from a rigid motion: always defined, (1, 0) to 1e-6
        T = np.eye(4)
        T[:3, :3] = rand_rot(rng)
        T[:3, 3] = rand_trans(rng, 1e-6, 1e3)
        try:
            with np.errstate(all='ignore'):
                nrm = np.asarray(UnitDualQuaternion(SE3(T, check=False)).norm(), float)
            ctx.case(('udq-norm', tuple(T.flatten())))
            ctx.count('oracle:udq-norm')
            if not np.all(np.isfinite(nrm)):
                ctx.fail('oracle:udq-norm:undefined', f"UnitDualQuaternion(SE3).norm() is not defined (NaN): {nrm}",
                         {'T_hex': [float(x).hex() for x in T.flatten()], 'norm': nrm.tolist()})
            elif not (abs(nrm[0] - 1) <= 1e-6 and abs(nrm[1]) <= 1e-6 * max(1, np.linalg.norm(T[:3, 3]))):
                ctx.fail('oracle:udq-norm:value', f"UnitDualQuaternion(SE3).norm() = {nrm} is not (1,0)",
                         {'T_hex': [float(x).hex() for x in T.flatten()], 'norm': nrm.tolist()})
        except Exception as ex:
            ctx.fail(f'oracle:udq-norm:raises:{type(ex).__name__}:{ex}', f"UnitDualQuaternion(SE3).norm() raises {type(ex).__name__}: {ex}",
                     {'T_hex': [float(x).hex() for x in T.flatten()]})
    ctx.sample({'kind': 'oracle', 'identity': 'assoc', 'p': p.tolist(), 'q': q.tolist(), 'r': r.tolist()})


def run(ctx):
    ctx.rule = ("obligations: theorems of theories/Props/C12.v over the traces regenerated from /repo; "
                "evaluations: Sym==Num cases (model vs implementation) + oracle evaluations of each identity on the "
                "implementation at magnitudes 1e-6..1e6; a case is non-trivial/distinct by its (identity, input) signature")
    with ctx.timed('regenerate'):
        g = build(ctx)
        ctx.write_gen(MOD + '.v', g.coq_text())
    rc, out, err, dt = ctx.coqc(ctx.write_gen(MOD + '.v', g.coq_text()))
    if rc != 0:
        ctx.fail('gen:compile', 'generated traces do not compile: ' + err[-800:], no_input=True)
        return
    ctx.prove('theories/Props/C12.v')
    with ctx.timed('correspond'):
        sym_num(ctx, g, MOD, ctx.n(25, 400))
    with ctx.timed('oracle'):
        oracle(ctx)
