"""C04 -- all representations of the same motion agree; conversions are homomorphisms."""
import math
import numpy as np
import sympy
from lib import concolic, gens
from lib.symtrace import Gen, sym_input, SHAPES
from lib.corr import sym_num
from lib.gens import log_uniform, rand_unit, rand_rot, rand_trans, rot_from_axis_angle

concolic.install()
from spatialmath import base, SO2, SE2, SO3, SE3, UnitQuaternion, Quaternion, Twist3, Twist2  # noqa: E402
from spatialmath.DualQuaternion import DualQuaternion, UnitDualQuaternion  # noqa: E402

MOD = 'Traces_C04'

# ----------------------------------------------------------------------------------------------
# tracer helper local to this property: np.linalg.det on object arrays (the SE3/SO3 constructors
# validate with base.isR, which calls det); float arrays go to the original function.
_det = np.linalg.det


def _det_obj(a):
    a = np.asarray(a)
    if a.dtype == object and a.shape == (2, 2):
        return a[0, 0] * a[1, 1] - a[0, 1] * a[1, 0]
    if a.dtype == object and a.shape == (3, 3):
        return (a[0, 0] * (a[1, 1] * a[2, 2] - a[1, 2] * a[2, 1]) - a[0, 1] * (a[1, 0] * a[2, 2] - a[1, 2] * a[2, 0])
                + a[0, 2] * (a[1, 0] * a[2, 1] - a[1, 1] * a[2, 0]))
    return _det(a)


np.linalg.det = _det_obj

PATHS = {}       # trace name -> recorded path condition (relational, truth)


def vtrace(g, rng, name, inputs, fn, sampler=None, alloc=False, **kw):
    """g.trace under a shadow valuation of the input symbols (drawn from the trace's own sampler, so the
    Sym==Num cases follow the same path), recording the path condition."""
    vals = sampler(rng) if sampler else [rng.normal(size=SHAPES[sh]) if sh != 'S' else float(rng.uniform(0.3, 1.2)) for _, sh in inputs]
    concolic.VAL.clear()
    concolic.PATH.clear()
    for (an, sh), v in zip(inputs, vals):
        _, syms = sym_input(an, sh)
        for s, x in zip(syms, np.asarray(v, float).flatten()):
            concolic.VAL[s] = float(x)
    if alloc:
        with concolic.object_alloc():
            t = g.trace(name, inputs, fn, sampler=sampler, **kw)
    else:
        t = g.trace(name, inputs, fn, sampler=sampler, **kw)
    PATHS[name] = [(str(r), bool(v)) for r, v in concolic.PATH]
    concolic.VAL.clear()
    return t


# ---------------------------------------------------------------------------------------------- samplers
def s_unitq(n=1):
    return lambda rng: [rand_unit(rng, 4) for _ in range(n)]


def s_rot2(n=1):
    def f(rng):
        out = []
        for _ in range(n):
            th = rng.uniform(-3, 3)
            out.append(np.array([[math.cos(th), -math.sin(th)], [math.sin(th), math.cos(th)]]))
        return out
    return f


def s_se2(n=1):
    def f(rng):
        out = []
        for _ in range(n):
            T = np.eye(3)
            T[:2, :2] = s_rot2()(rng)[0]
            T[:2, 2] = rng.normal(size=2)
            out.append(T)
        return out
    return f


def s_rot3(n=1):
    return lambda rng: [rot_from_axis_angle(rand_unit(rng), rng.uniform(0.2, 2.9)) for _ in range(n)]


def s_se3(n=1):
    def f(rng):
        out = []
        for _ in range(n):
            T = np.eye(4)
            T[:3, :3] = s_rot3()(rng)[0]
            T[:3, 3] = rng.normal(size=3)
            out.append(T)
        return out
    return f


def rot_branch(rng, b, add, lo=2.2, hi=2.95):
    """rotation with trace <= 0 (angle above 120 deg) on which r2q takes `largest diagonal` branch b with sign test `add`"""
    u = rng.normal(size=3) * 0.3
    u[b] = 1.0
    u /= np.linalg.norm(u)
    if not add:
        u = -u
    return rot_from_axis_angle(u, rng.uniform(lo, hi))


def s_udq_pair(rng):
    q = rand_unit(rng, 4)
    t = rng.normal(size=3)
    return np.r_[q, 0.5 * hamilton(np.r_[0, t], q)]


def hamilton(p, q):
    s1, v1, s2, v2 = p[0], p[1:], q[0], q[1:]
    return np.r_[s1 * s2 - v1 @ v2, s1 * v2 + s2 * v1 + np.cross(v1, v2)]


def r2q_rotations(rng):
    """directed inputs for the r2q model correspondence: every branch x sign, rotations within 1e-9 of 0 and of pi
    (where the branch changes), exact special rotations, both sides of trace = 0 (the eye() exit of r2q is not reachable for rotation matrices since /repo 1cdf860)"""
    r = rng.random()
    if r < 0.2:
        R = rot_branch(rng, int(rng.integers(3)), bool(rng.integers(2)))
    elif r < 0.3:
        # around the switch trace = 0 (120 deg), but not within 1e-9 of it (model and implementation may round the trace differently there)
        R = rot_from_axis_angle(rand_unit(rng), 2 * math.pi / 3 + log_uniform(rng, 1e-8, 0.3) * rng.choice([-1.0, 1.0]))
    elif r < 0.45:
        R = rot_from_axis_angle(rand_unit(rng), math.pi - log_uniform(rng, 1e-12, 1e-2) * rng.choice([0, 1, 1, 1]))
    elif r < 0.6:
        th = float(rng.choice([0.0, 1e-17, 1e-16, 1e-15, 2e-15])) if rng.random() < 0.4 else log_uniform(rng, 2e-13, 1e-2)
        R = rot_from_axis_angle(rand_unit(rng), th)
    elif r < 0.75:
        ax = np.eye(3)[rng.integers(3)] * rng.choice([-1.0, 1.0])
        R = rot_from_axis_angle(ax, float(rng.choice([0, math.pi / 2, math.pi, -math.pi / 2, 2 * math.pi / 3, 1e-9, math.pi - 1e-9])))
    elif r < 0.85:
        # exact signed permutation matrices / half turns about diagonals: ties between the diagonal entries
        ax = np.array(rng.choice([-1.0, 0.0, 1.0], size=3))
        if not ax.any():
            ax[0] = 1.0
        R = rot_from_axis_angle(ax, float(rng.choice([math.pi, 2 * math.pi / 3, math.pi / 2])))
    else:
        R = rand_rot(rng)
    return [R]


# ---------------------------------------------------------------------------------------------- traces
UQ = lambda q: UnitQuaternion(q[0], q[1:], norm=False, check=False)     # noqa: E731  (the only constructor path without unit())


def mkUDQ(a):
    return UnitDualQuaternion(UQ(a[:4]), Quaternion(a[4:]))


def build(ctx):
    g = Gen('C04')
    rng = np.random.Generator(np.random.PCG64(12345))     # valuations for tracing only (fixed: they select the path, not the cases)
    T = lambda *a, **k: vtrace(g, rng, *a, **k)           # noqa: E731
    # ---- base: quaternion -> matrix
    T('tr_q2r', [('q', 'V4')], base.q2r)
    T('tr_q2r_qqmul', [('p', 'V4'), ('q', 'V4')], lambda p, q: base.q2r(base.qqmul(p, q)))
    T('tr_q2r_conj', [('q', 'V4')], lambda q: base.q2r(base.conj(q)))
    T('tr_q2r_neg', [('q', 'V4')], lambda q: base.q2r(-q))
    # ---- UnitQuaternion class layer
    T('tr_UQ_R', [('q', 'V4')], lambda q: UQ(q).R, sampler=s_unitq())
    T('tr_UQ_SO3', [('q', 'V4')], lambda q: UQ(q).SO3().A, sampler=s_unitq())
    T('tr_UQ_SE3', [('q', 'V4')], lambda q: UQ(q).SE3().A, sampler=s_unitq(), alloc=True)
    T('tr_UQ_mul', [('p', 'V4'), ('q', 'V4')], lambda p, q: (UQ(p) * UQ(q)).vec, sampler=s_unitq(2))
    T('tr_UQ_inv', [('q', 'V4')], lambda q: UQ(q).inv().vec, sampler=s_unitq())
    T('tr_UQ_div', [('p', 'V4'), ('q', 'V4')], lambda p, q: (UQ(p) / UQ(q)).vec, sampler=s_unitq(2))
    T('tr_UQ_vmul', [('q', 'V4'), ('v', 'V3')], lambda q, v: UQ(q) * v, sampler=lambda rng: [rand_unit(rng, 4), rng.normal(size=3)])
    T('tr_UQ_mul_SO3', [('p', 'V4'), ('q', 'V4')], lambda p, q: (UQ(p) * UQ(q)).SO3().A, sampler=s_unitq(2))
    T('tr_UQ_SO3_mul', [('p', 'V4'), ('q', 'V4')], lambda p, q: (UQ(p).SO3() * UQ(q).SO3()).A, sampler=s_unitq(2))
    T('tr_UQ_inv_SO3', [('q', 'V4')], lambda q: UQ(q).inv().SO3().A, sampler=s_unitq())
    T('tr_UQ_SO3_inv', [('q', 'V4')], lambda q: UQ(q).SO3().inv().A, sampler=s_unitq())
    # ---- embeddings
    so2 = lambda X: SO2(X, check=False)       # noqa: E731
    def se2(X):
        # the last row is the constant (0, 0, 1): the class validates it with `==`, which is structural on symbols
        X = np.array(X, dtype=object if np.asarray(X).dtype == object else float)
        X[2, :] = [0, 0, 1]
        return SE2(X, check=False)
    so3 = lambda X: SO3(X, check=False)       # noqa: E731
    se3 = lambda X: SE3(X, check=False)       # noqa: E731
    T('tr_SO2_SE2', [('X', 'M22')], lambda X: so2(X).SE2().A, sampler=s_rot2(), alloc=True)
    T('tr_SO2_mul_SE2', [('X', 'M22'), ('Y', 'M22')], lambda X, Y: (so2(X) * so2(Y)).SE2().A, sampler=s_rot2(2), alloc=True)
    T('tr_SO2_SE2_mul', [('X', 'M22'), ('Y', 'M22')], lambda X, Y: (so2(X).SE2() * so2(Y).SE2()).A, sampler=s_rot2(2), alloc=True)
    T('tr_SO2_inv_SE2', [('X', 'M22')], lambda X: so2(X).inv().SE2().A, sampler=s_rot2(), alloc=True)
    T('tr_SO2_SE2_inv', [('X', 'M22')], lambda X: so2(X).SE2().inv().A, sampler=s_rot2(), alloc=True)
    T('tr_SO2_act', [('X', 'M22'), ('p', 'V2')], lambda X, p: so2(X) * p, sampler=lambda rng: s_rot2()(rng) + [rng.normal(size=2)])
    T('tr_SO2_SE2_act', [('X', 'M22'), ('p', 'V2')], lambda X, p: so2(X).SE2() * p, sampler=lambda rng: s_rot2()(rng) + [rng.normal(size=2)], alloc=True)
    T('tr_SE2_SE3', [('X', 'M33')], lambda X: se2(X).SE3().A, sampler=s_se2(), alloc=True)
    T('tr_SE2_SE3z', [('X', 'M33'), ('z', 'S')], lambda X, z: se2(X).SE3(z).A, sampler=lambda rng: s_se2()(rng) + [float(rng.normal())], alloc=True)
    # multi-valued object: each element of the lifted SE3 is the lift of the corresponding element (not of a shared buffer)
    for k_ in (0, 1):
        T(f'tr_SE2_SE3_multi{k_}', [('X', 'M33'), ('Y', 'M33'), ('z', 'S')],
          (lambda k_: lambda X, Y, z: SE2([se2(X), se2(Y)]).SE3(z)[k_].A)(k_),
          sampler=lambda rng: s_se2(2)(rng) + [float(rng.normal())], alloc=True)
    T('tr_SE2_mul_SE3', [('X', 'M33'), ('Y', 'M33')], lambda X, Y: (se2(X) * se2(Y)).SE3().A, sampler=s_se2(2), alloc=True)
    T('tr_SE2_SE3_mul', [('X', 'M33'), ('Y', 'M33')], lambda X, Y: (se2(X).SE3() * se2(Y).SE3()).A, sampler=s_se2(2), alloc=True)
    T('tr_SE2_inv_SE3', [('X', 'M33')], lambda X: se2(X).inv().SE3().A, sampler=s_se2(), alloc=True)
    T('tr_SE2_SE3_inv', [('X', 'M33')], lambda X: se2(X).SE3().inv().A, sampler=s_se2(), alloc=True)
    T('tr_SE2_act', [('X', 'M33'), ('p', 'V2')], lambda X, p: se2(X) * p, sampler=lambda rng: s_se2()(rng) + [rng.normal(size=2)])
    T('tr_SE2_SE3_act', [('X', 'M33'), ('p', 'V2')], lambda X, p: se2(X).SE3() * np.r_[p, 0], sampler=lambda rng: s_se2()(rng) + [rng.normal(size=2)], alloc=True)
    T('tr_SO3_SE3', [('X', 'M33')], lambda X: SE3.SO3(so3(X)).A, sampler=s_rot3(), alloc=True)
    T('tr_SO3m_SE3', [('X', 'M33')], lambda X: SE3.SO3(X, check=False).A, sampler=s_rot3(), alloc=True)
    T('tr_SO3_mul_SE3', [('X', 'M33'), ('Y', 'M33')], lambda X, Y: SE3.SO3(so3(X) * so3(Y)).A, sampler=s_rot3(2), alloc=True)
    T('tr_SO3_SE3_mul', [('X', 'M33'), ('Y', 'M33')], lambda X, Y: (SE3.SO3(so3(X)) * SE3.SO3(so3(Y))).A, sampler=s_rot3(2), alloc=True)
    T('tr_SO3_inv_SE3', [('X', 'M33')], lambda X: SE3.SO3(so3(X).inv()).A, sampler=s_rot3(), alloc=True)
    T('tr_SO3_SE3_inv', [('X', 'M33')], lambda X: SE3.SO3(so3(X)).inv().A, sampler=s_rot3(), alloc=True)
    T('tr_SO3_act', [('X', 'M33'), ('p', 'V3')], lambda X, p: so3(X) * p, sampler=lambda rng: s_rot3()(rng) + [rng.normal(size=3)])
    T('tr_SO3_SE3_act', [('X', 'M33'), ('p', 'V3')], lambda X, p: SE3.SO3(so3(X)) * p, sampler=lambda rng: s_rot3()(rng) + [rng.normal(size=3)], alloc=True)
    # ---- unit dual quaternions
    for b in range(3):
        for add in (True, False):
            nm = f"b{b}{'p' if add else 'm'}"
            smp = (lambda b, add: lambda rng: [np.block([[rot_branch(rng, b, add), rng.normal(size=(3, 1))], [np.array([[0, 0, 0, 1.0]])]])])(b, add)
            T('tr_UDQ_vec_' + nm, [('X', 'M44')], lambda X: UnitDualQuaternion(se3(X)).vec, sampler=smp, alloc=True, tol=1e-10)
            T('tr_r2q_' + nm, [('X', 'M33')], lambda X: base.r2q(X), sampler=(lambda b, add: lambda rng: [rot_branch(rng, b, add)])(b, add), tol=1e-10)
    # the trace > 0 path of r2q (angle below 120 deg): vector part from the skew part, scalar part from the vector part
    s_pos = lambda rng: rot_from_axis_angle(rand_unit(rng), rng.uniform(0.2, 1.9))      # noqa: E731
    T('tr_UDQ_vec_pos', [('X', 'M44')], lambda X: UnitDualQuaternion(se3(X)).vec,
      sampler=lambda rng: [np.block([[s_pos(rng), rng.normal(size=(3, 1))], [np.array([[0, 0, 0, 1.0]])]])], alloc=True, tol=1e-10)
    T('tr_r2q_pos', [('X', 'M33')], lambda X: base.r2q(X), sampler=lambda rng: [s_pos(rng)], tol=1e-10)
    T('tr_UDQ_SE3', [('a', 'V8')], lambda a: mkUDQ(a).SE3().A, sampler=lambda rng: [s_udq_pair(rng)], alloc=True, tol=1e-10)
    T('tr_UDQ_act', [('a', 'V8'), ('p', 'V3')], lambda a, p: mkUDQ(a) * p, sampler=lambda rng: [s_udq_pair(rng), rng.normal(size=3)], tol=1e-10)
    T('tr_UDQ_mul', [('a', 'V8'), ('b', 'V8')], lambda a, b: (mkUDQ(a) * mkUDQ(b)).vec, sampler=lambda rng: [s_udq_pair(rng), s_udq_pair(rng)], tol=1e-10)
    # ---- named constructors with the angle as a symbol
    ang = lambda rng: [float(rng.uniform(-3, 3))]       # noqa: E731
    for nm in ('Rx', 'Ry', 'Rz'):
        T('tr_UQ_' + nm, [('t', 'S')], (lambda nm: lambda t: getattr(UnitQuaternion, nm)(t).vec)(nm), sampler=ang)
        T('tr_SO3_' + nm, [('t', 'S')], (lambda nm: lambda t: getattr(SO3, nm)(t).A)(nm), sampler=ang, alloc=True)
        T('tr_SE3_' + nm, [('t', 'S')], (lambda nm: lambda t: getattr(SE3, nm)(t).A)(nm), sampler=ang, alloc=True)
        # Twist3.Rx(scalar) (accepted since /repo e531d4d): the twist vector, and its exponential by both routes (path |t| >= 10 eps)
        ang_nz = lambda rng: [float(rng.uniform(0.05, 3) * rng.choice([-1.0, 1.0]))]       # noqa: E731
        T(f'tr_Tw3_{nm}_S', [('t', 'S')], (lambda nm: lambda t: getattr(Twist3, nm)(t).S)(nm), sampler=ang_nz, optional=True)
        T(f'tr_Tw3_{nm}_SE3', [('t', 'S')], (lambda nm: lambda t: getattr(Twist3, nm)(t).SE3().A)(nm), sampler=ang_nz, alloc=True, optional=True)
        T(f'tr_Tw3_{nm}_exp', [('t', 'S')], (lambda nm: lambda t: getattr(Twist3, nm)(t).exp().A)(nm), sampler=ang_nz, alloc=True, optional=True)
    # all options together: angle in degrees AND a translation t (SE3 only) -- same rotation block as SO3.R?(a, 'deg'), translation t
    s_at = lambda rng: [float(rng.uniform(-170, 170)), rng.normal(size=3)]      # noqa: E731
    for nm in ('Rx', 'Ry', 'Rz'):
        T(f'tr_SE3_{nm}_deg_t', [('a', 'S'), ('v', 'V3')], (lambda nm: lambda a, v: getattr(SE3, nm)(a, 'deg', t=v).A)(nm), sampler=s_at, alloc=True)
        T(f'tr_SO3_{nm}_deg', [('a', 'S')], (lambda nm: lambda a: getattr(SO3, nm)(a, 'deg').A)(nm), sampler=lambda rng: [float(rng.uniform(-170, 170))], alloc=True)
    T('tr_SO2_ang', [('t', 'S')], lambda t: SO2(t).A, sampler=ang, alloc=True)
    T('tr_SE2_ang', [('t', 'S')], lambda t: SE2(0, 0, t).A, sampler=ang, alloc=True, optional=True)
    s_tv = lambda rng: [float(rng.uniform(-3, 3)), rand_unit(rng) * log_uniform(rng, 0.2, 5)]     # noqa: E731
    T('tr_UQ_AngVec', [('t', 'S'), ('v', 'V3')], lambda t, v: UnitQuaternion.AngVec(t, v).vec, sampler=s_tv)
    T('tr_SO3_AngVec', [('t', 'S'), ('v', 'V3')], lambda t, v: SO3.AngVec(t, v).A, sampler=s_tv, alloc=True)
    s_w = lambda rng: [rand_unit(rng) * rng.uniform(0.1, 3)]     # noqa: E731
    T('tr_UQ_EulerVec', [('w', 'V3')], lambda w: UnitQuaternion.EulerVec(w).vec, sampler=s_w, tol=1e-10)
    T('tr_SO3_EulerVec', [('w', 'V3')], lambda w: SO3.EulerVec(w).A, sampler=s_w, alloc=True, tol=1e-10)
    s_a3 = lambda rng: [rng.uniform(-3, 3, size=3)]     # noqa: E731
    for order in ('zyx', 'xyz', 'yxz'):
        T('tr_SO3_RPY_' + order, [('a', 'V3')], (lambda o: lambda a: SO3.RPY(a, order=o).A)(order), sampler=s_a3, alloc=True)
    T('tr_SO3_Eul', [('a', 'V3')], lambda a: SO3.Eul(a).A, sampler=s_a3, alloc=True)
    # ---- hand models (T-num): r2q on every branch, and UnitDualQuaternion(SE3) built from it
    g.model('m_r2q', [('X', 'M33')], 'V4', coq='SM.Model.C04_R2q.r2q_100', module='Model.C04_R2q',
            num_fn=lambda X: base.r2q(X), sampler=r2q_rotations, tol=1e-11)
    g.model('m_udq_of_T', [('X', 'M44')], 'V8', coq='SM.Model.C04_R2q.udq_of_T', module='Model.C04_R2q',
            num_fn=lambda X: UnitDualQuaternion(SE3(X, check=False)).vec,
            sampler=lambda rng: [np.block([[r2q_rotations(rng)[0], rand_trans(rng, 1e-3, 1e3).reshape(3, 1)], [np.array([[0, 0, 0, 1.0]])]])],
            tol=1e-11)
    return g


def run(ctx):
    ctx.rule = ("obligations: theorems of theories/Props/C04_*.v over the traces regenerated from /repo and over the hand model of r2q; "
                "evaluations: Sym==Num / model==implementation cases + oracle evaluations on the implementation "
                "(expression trees in every representation, conversions there and back, shared constructors x options); "
                "a case is non-trivial/distinct by its (law, input) signature")
    ctx.trusted_extra = [
        "props/C04.py: np.linalg.det patched for 2x2/3x3 object arrays while tracing (isR inside the SO3/SE3 constructors); checked by Sym==Num",
        "hand model Model/C04_R2q.v (base.r2q, UnitDualQuaternion(SE3)): tied by the extracted-model correspondence corr:m_r2q / corr:m_udq_of_T on a branch-directed sampler, not by a symbolic bridge",
        "UnitQuaternion.RPY/Eul/OA and UnitQuaternion(SO3|matrix) = r2q o (matrix constructor): checked numerically (oracle struct:*), not traced",
        "oracle reference: independent NumPy formulas in props/C04.py (rotx/roty/rotz, rpy orders, eul, Rodrigues, oa, q2r)"]
    with ctx.timed('regenerate'):
        g = build(ctx)
        p = ctx.write_gen(MOD + '.v', g.coq_text())
    ctx.stats['paths'] = {k: v for k, v in PATHS.items() if v}
    rc, out, err, dt = ctx.coqc(p)
    if rc != 0:
        ctx.fail('gen:compile', 'generated traces do not compile: ' + err[-800:], no_input=True)
        return
    from concurrent.futures import ThreadPoolExecutor
    files = ['theories/Props/C04_a.v', 'theories/Props/C04_b.v', 'theories/Props/C04_c.v', 'theories/Props/C04_d.v']
    with ThreadPoolExecutor(4) as ex:          # independent files (none imports another): compiled side by side
        list(ex.map(ctx.prove, files))
    ctx.obligations.sort(key=lambda o: (o.file, 0))
    with ctx.timed('correspond'):
        sym_num(ctx, g, MOD, ctx.n(12, 200))
    with ctx.timed('oracle'):
        oracle(ctx)


# =============================================================================================== oracle
# Independent NumPy references (nothing from spatialmath)
def _rx(t):
    c, s = math.cos(t), math.sin(t)
    return np.array([[1, 0, 0], [0, c, -s], [0, s, c]])


def _ry(t):
    c, s = math.cos(t), math.sin(t)
    return np.array([[c, 0, s], [0, 1, 0], [-s, 0, c]])


def _rz(t):
    c, s = math.cos(t), math.sin(t)
    return np.array([[c, -s, 0], [s, c, 0], [0, 0, 1]])


def _rpy(a, order):
    if order == 'zyx':
        return _rz(a[2]) @ _ry(a[1]) @ _rx(a[0])
    if order == 'xyz':
        return _rx(a[2]) @ _ry(a[1]) @ _rz(a[0])
    return _ry(a[2]) @ _rx(a[1]) @ _rz(a[0])


def _eul(a):
    return _rz(a[0]) @ _ry(a[1]) @ _rz(a[2])


def _oa(o, a):
    n = np.cross(o, a)
    o2 = np.cross(a, n)
    u = lambda v: v / np.linalg.norm(v)      # noqa: E731
    return np.stack((u(n), u(o2), u(a)), axis=1)


def _q2r(q):
    s, x, y, z = q
    return np.array([[1 - 2 * (y * y + z * z), 2 * (x * y - s * z), 2 * (x * z + s * y)],
                     [2 * (x * y + s * z), 1 - 2 * (x * x + z * z), 2 * (y * z - s * x)],
                     [2 * (x * z - s * y), 2 * (y * z + s * x), 1 - 2 * (x * x + y * y)]])


def _T(R, t):
    T = np.eye(R.shape[0] + 1)
    T[:-1, :-1] = R
    T[:-1, -1] = t
    return T


def _hex(a):
    return [float(x).hex() for x in np.asarray(a, float).flatten()]


TOL = 1e-6


# sub-check keys under which every kind of failure (exception of any type, NaN, wrong value) has ONE known root cause, the
# matrix logarithm the twist classes are built on (base.trlog / trlog2, property C03): there the outcome is not part of the key
# /repo 84bd1d7, c4462a7 and 5f912b1 repaired every cell where the matrix logarithm under the twist classes used to break; no cell is
# exempt from the outcome-specific keys any more.
LOG_HAZARD = ()
# regression case (the residue that 5f912b1 repaired): the float product trexp(S) @ trexp(-S) for a half turn S -- not iseye, exactly symmetric
ROUNDING_IDENTITY = ['0x1.ffffffffffff3p-1', '-0x1.3e9cd73ddeee8p-53', '0x1.d36031c8fef82p-52', '0x1.3700000000000p-52',
                     '-0x1.3e9cd73ddeee8p-53', '0x1.ffffffffffff2p-1', '-0x1.9db59251a80fep-52', '-0x1.8000000000000p-53',
                     '0x1.d36031c8fef82p-52', '-0x1.9db59251a80fep-52', '0x1.fffffffffffffp-1', '-0x1.4000000000000p-53',
                     '0x0.0p+0', '0x0.0p+0', '0x0.0p+0', '0x1.0000000000000p+0']


class Oracle:
    def __init__(self, ctx):
        self.ctx = ctx

    def fk(self, key, outcome):
        return f'oracle:{key}:fails' if key in LOG_HAZARD else f'oracle:{key}:{outcome}'

    def cmp(self, key, got, ref, inputs, scale=1.0, tol=TOL, aux=None):
        """got: matrix produced by the library in some representation; ref: the matrix it must equal"""
        ctx = self.ctx
        ctx.case((key, tuple(np.asarray(inputs, float).flatten()[:12])))
        ctx.count('oracle:' + key)
        try:
            got = np.asarray(got, float)
        except Exception:
            got = np.full(np.shape(ref), np.nan)
        ref = np.asarray(ref, float)
        if got.shape != ref.shape:
            ctx.fail(self.fk(key, 'shape'), f"{key}: result has shape {got.shape}, expected {ref.shape}", {'law': key, 'inputs_hex': _hex(inputs)})
            return False
        if not np.all(np.isfinite(got)):
            ctx.fail(self.fk(key, 'nan'), f"{key}: the result contains NaN/inf", {'law': key, 'inputs_hex': _hex(inputs), 'got': got.tolist()})
            return False
        err = float(np.max(np.abs(got - ref))) if got.size else 0.0
        k = 'worst:' + key
        ctx.stats[k] = max(ctx.stats.get(k, 0.0), err / scale)
        if not err <= tol * scale:
            ctx.fail(self.fk(key, 'value'), f"{key}: representations disagree, |diff|={err:.3g} (scale {scale:.3g}, tolerance {tol:g})",
                     {'law': key, 'inputs_hex': _hex(inputs), 'got': got.tolist(), 'expected': ref.tolist(), 'aux': aux})
            return False
        return True

    def leaves(self, key, mats, kinds, make, back, scale_of):
        """convert every leaf matrix into the representation and back (key:<kind of rotation>); the tree is evaluated in
        this representation only when every leaf converted correctly, so that one root cause gives one key"""
        out, ok = [], True
        for M, k in zip(mats, kinds):
            X = self.guard(f'{key}:{k}', lambda: make(M), M)
            Y = None if X is None else self.guard(f'{key}:{k}', lambda: back(X), M)
            if Y is None or not self.cmp(f'{key}:{k}', Y, M, M, scale_of(M)):
                ok = False
            out.append(X)
        return out if ok else None

    def elems(self, key, make, refs, getM, inputs, scale=1.0, gkey=None):
        """multi-valued object: right length, and element k is refs[k] (compared as matrices)"""
        X = self.guard(gkey or key, make, inputs)      # gkey: coarser key for "the call itself fails" (one root cause, many option cells)
        if X is None:
            return None
        n = self.guard(gkey or key, lambda: len(X), inputs)
        self.ctx.count('oracle:' + key)
        self.ctx.case((key, 'len', tuple(np.asarray(inputs, float).flatten()[:12])))
        if n != len(refs):
            self.ctx.fail(self.fk(key, 'length'), f"{key}: result has {n} element(s), expected {len(refs)}", {'law': key, 'inputs_hex': _hex(inputs)})
            return None
        for k_, ref in enumerate(refs):
            M = self.guard(key, lambda: getM(X[k_]) if len(refs) > 1 or hasattr(X, '__getitem__') else getM(X), inputs)
            if M is not None:
                self.cmp(key, M, ref, inputs, scale, aux={'element': k_, 'of': len(refs)})
        return X

    def guard(self, key, thunk, inputs, aux=None):
        """run a library call; an exception is a finding keyed by the exception type"""
        try:
            with np.errstate(all='ignore'):
                return thunk()
        except Exception as ex:          # noqa
            self.ctx.count('oracle:' + key)
            self.ctx.case((key, 'raises', tuple(np.asarray(inputs, float).flatten()[:12])))
            self.ctx.fail(self.fk(key, 'raises:' + type(ex).__name__), f"{key}: raises {type(ex).__name__}: {str(ex)[:200]}",
                          {'law': key, 'inputs_hex': _hex(inputs), 'aux': aux})
            return None


# ---- random expression trees --------------------------------------------------------------------------------------
def gen_tree(rng, depth, nleaf):
    if depth == 0 or rng.random() < 0.25:
        return ('leaf', int(rng.integers(nleaf)))
    r = rng.random()
    if r < 0.55:
        return ('mul', gen_tree(rng, depth - 1, nleaf), gen_tree(rng, depth - 1, nleaf))
    if r < 0.75:
        return ('div', gen_tree(rng, depth - 1, nleaf), gen_tree(rng, depth - 1, nleaf))
    return ('inv', gen_tree(rng, depth - 1, nleaf))


def eval_tree(t, leaves, mul, inv, div=None):
    if t[0] == 'leaf':
        return leaves[t[1]]
    if t[0] == 'inv':
        return inv(eval_tree(t[1], leaves, mul, inv, div))
    a, b = eval_tree(t[1], leaves, mul, inv, div), eval_tree(t[2], leaves, mul, inv, div)
    if t[0] == 'mul':
        return mul(a, b)
    return div(a, b) if div else mul(a, inv(b))


def ref_nodes(t, leaves, acc):
    """reference value of every internal node of the tree (numpy), appended to acc; returns the value of t"""
    if t[0] == 'leaf':
        return leaves[t[1]]
    if t[0] == 'inv':
        v = np_inv(ref_nodes(t[1], leaves, acc))
    else:
        a, b = ref_nodes(t[1], leaves, acc), ref_nodes(t[2], leaves, acc)
        v = a @ b if t[0] == 'mul' else a @ np_inv(b)
    acc.append(v)
    return v


def rot_angle(T):
    n = T.shape[0] - 1
    if n == 2:
        return abs(math.atan2(T[1, 0], T[0, 0]))
    R = T[:3, :3]
    v = 0.5 * np.array([R[2, 1] - R[1, 2], R[0, 2] - R[2, 0], R[1, 0] - R[0, 1]])
    return math.atan2(np.linalg.norm(v), 0.5 * (np.trace(R) - 1))


def log_hazard(tree, Ts):
    """formerly classified the cells where trlog / trlog2 were known to break; all repaired (84bd1d7, c4462a7, 5f912b1)"""
    return ''


def tree_leaves(t):
    if t[0] == 'leaf':
        return {t[1]}
    out = set()
    for c in t[1:]:
        out |= tree_leaves(c)
    return out


def tree_str(t):
    if t[0] == 'leaf':
        return f"X{t[1]}"
    if t[0] == 'inv':
        return f"inv({tree_str(t[1])})"
    return f"({tree_str(t[1])} {'*' if t[0] == 'mul' else '/'} {tree_str(t[2])})"


def np_inv(T):
    n = T.shape[0] - 1
    R, t = T[:n, :n], T[:n, n]
    return _T(R.T, -R.T @ t)


def udq_inv(d):
    c = d.conj()         # returns a plain DualQuaternion (no .SE3()); rebuild the unit class from its parts
    return UnitDualQuaternion(c.real, c.dual)


def trans_upto(rng, tmax, n=3):
    """translation of magnitude up to tmax: zero, exactly tmax, or log-uniform below it"""
    r = rng.random()
    if r < 0.1:
        return np.zeros(n)
    m = tmax if r < 0.35 else log_uniform(rng, min(1e-6, tmax), tmax)
    return rand_unit(rng, n) * m


def rot_kind(rng):
    """rotation leaf: generic, or within 1e-9 of 0 / of pi, or exactly 0 / pi / quarter turns"""
    r = rng.random()
    ax = rand_unit(rng) if rng.random() < 0.7 else np.eye(3)[rng.integers(3)] * rng.choice([-1.0, 1.0])
    if r < 0.42:
        th, kind = rng.uniform(0.05, math.pi - 0.05), 'generic'
    elif r < 0.5:
        th, kind = log_uniform(rng, 1e-6, 5e-2), 'small'
    elif r < 0.62:
        th, kind = log_uniform(rng, 1e-12, 1e-9), 'near0'
    elif r < 0.74:
        th, kind = math.pi - log_uniform(rng, 1e-12, 1e-9), 'nearpi'
    elif r < 0.8:
        th, kind = 0.0, 'zero'
    elif r < 0.86:
        th, kind = math.pi, 'pi'
    elif r < 0.93:
        th, kind = float(rng.choice([math.pi / 2, 2 * math.pi / 3])), 'special'
    else:
        th, kind = math.pi - log_uniform(rng, 1e-8, 1e-2), 'towardspi'
    return rot_from_axis_angle(ax, th), kind, th


def oracle_trees3(o, rng, ntrees, depth):
    ctx = o.ctx
    # directed regression case: the recorded symmetric rounding residue of the identity (trlog gave 0/0 = NaN before 5f912b1),
    # and X * inv(X) for half turns X, whose float product is such a residue
    M = np.array([float.fromhex(h) for h in ROUNDING_IDENTITY]).reshape(4, 4)
    Y = o.guard('regress:trlog:symmetric-residue', lambda: SE3(M, check=False).Twist3().SE3().A, M)
    if Y is not None:
        o.cmp('regress:trlog:symmetric-residue', Y, M, M)
    for _ in range(ctx.n(40, 2000)):
        T = _T(rot_from_axis_angle(rand_unit(rng), math.pi), rng.normal(size=3))
        Y = o.guard('regress:Twist3:X*inv(X)', lambda: (lambda tw: (tw * tw.inv()).SE3().A)(SE3(T, check=False).Twist3()), T)
        if Y is not None:
            o.cmp('regress:Twist3:X*inv(X)', Y, np.eye(4), T, 10.0)
    for it in range(ntrees):
        nleaf = int(rng.integers(1, 4))
        kinds, Rs, ts = [], [], []
        tmax = log_uniform(rng, 1e-3, 1e6) if it % 2 else 1.0
        for _ in range(nleaf):
            R, kind, th = rot_kind(rng)
            Rs.append(R)
            kinds.append(kind)
            ts.append(trans_upto(rng, tmax))
        tree = gen_tree(rng, int(rng.integers(1, depth + 1)), nleaf)
        inp = np.r_[np.array(Rs).flatten(), np.array(ts).flatten()]
        tag = {'tree': tree_str(tree), 'kinds': kinds}
        Ts = [_T(R, t) for R, t in zip(Rs, ts)]
        refT = eval_tree(tree, Ts, lambda a, b: a @ b, np_inv)
        refR = refT[:3, :3]
        scale = max(1.0, float(np.max(np.abs(refT[:3, 3]))), max(float(np.max(np.abs(t))) for t in ts))
        ctx.sample({'kind': 'tree3', **tag})
        # --- SO3
        L = o.guard('tree:SO3:leaf', lambda: [SO3(R, check=False) for R in Rs], inp)
        if L is not None:
            X = o.guard('tree:SO3', lambda: eval_tree(tree, L, lambda a, b: a * b, lambda a: a.inv(), lambda a, b: a / b), inp)
            if X is not None:
                o.cmp('tree:SO3', X.A, refR, inp)
        # --- SE3
        L = o.guard('tree:SE3:leaf', lambda: [SE3(T, check=False) for T in Ts], inp)
        if L is not None:
            X = o.guard('tree:SE3', lambda: eval_tree(tree, L, lambda a, b: a * b, lambda a: a.inv(), lambda a, b: a / b), inp)
            if X is not None:
                o.cmp('tree:SE3', X.A, refT, inp, scale)
        # --- UnitQuaternion (leaves converted from the matrices: r2q on every branch)
        L = o.leaves('conv:SO3->UQ->SO3', Rs, kinds, lambda R: UnitQuaternion(R), lambda q: q.R, lambda R: 1.0)
        if L is not None:
            X = o.guard('tree:UQ', lambda: eval_tree(tree, L, lambda a, b: a * b, lambda a: a.inv(), lambda a, b: a / b), inp)
            if X is not None:
                o.cmp('tree:UQ', X.R, refR, inp)
                o.cmp('tree:UQ.SO3', X.SO3().A, refR, inp)
                o.cmp('tree:UQ.SE3', X.SE3().A, _T(refR, [0, 0, 0]), inp)
        # --- UnitDualQuaternion
        tsc = lambda T: max(1.0, float(np.max(np.abs(T[:-1, -1]))))      # noqa: E731
        L = o.leaves('conv:SE3->UDQ->SE3', Ts, kinds, lambda T: UnitDualQuaternion(SE3(T, check=False)), lambda d: d.SE3().A, tsc)
        if L is not None:
            X = o.guard('tree:UDQ', lambda: eval_tree(tree, L, lambda a, b: a * b, udq_inv), inp)
            if X is not None:
                Y = o.guard('tree:UDQ', lambda: X.SE3().A, inp)
                if Y is not None:
                    o.cmp('tree:UDQ', Y, refT, inp, scale)
        # --- Twist3 (through log / exp)
        L = o.leaves('conv:SE3->Twist3->SE3', Ts, kinds, lambda T: Twist3(SE3(T, check=False)), lambda tw: tw.SE3().A, tsc)
        if L is not None:
            hz = log_hazard(tree, Ts)
            X = o.guard('tree:Twist3' + hz, lambda: eval_tree(tree, L, lambda a, b: a * b, lambda a: a.inv()), inp, aux={'tree': tree_str(tree)})
            if X is not None:
                Y = o.guard('tree:Twist3' + hz, lambda: X.SE3().A, inp)
                if Y is not None:
                    o.cmp('tree:Twist3' + hz, Y, refT, inp, scale, aux={'tree': tree_str(tree)})


def oracle_trees2(o, rng, ntrees, depth):
    ctx = o.ctx
    for it in range(ntrees):
        nleaf = int(rng.integers(1, 4))
        ths, Rs, ts, kinds = [], [], [], []
        tmax = log_uniform(rng, 1e-3, 1e6) if it % 2 else 1.0
        for _ in range(nleaf):
            r = rng.random()
            if r < 0.6:
                th, k = rng.uniform(-2.95, 2.95), 'generic'
            elif r < 0.72:
                th, k = log_uniform(rng, 1e-12, 1e-9) * rng.choice([-1, 1]), 'near0'
            elif r < 0.84:
                th, k = (math.pi - log_uniform(rng, 1e-12, 1e-9)) * rng.choice([-1, 1]), 'near-half-turn'
            elif r < 0.9:
                th, k = (math.pi - log_uniform(rng, 1e-8, 0.15)) * rng.choice([-1, 1]), 'near-half-turn'
            else:
                th, k = float(rng.choice([0.0, math.pi / 2, -math.pi / 2])), 'special'
            ths.append(th)
            kinds.append(k)
            Rs.append(np.array([[math.cos(th), -math.sin(th)], [math.sin(th), math.cos(th)]]))
            ts.append(trans_upto(rng, tmax, 2))
        tree = gen_tree(rng, int(rng.integers(1, depth + 1)), nleaf)
        inp = np.r_[np.array(ths), np.array(ts).flatten()]
        Ts = [_T(R, t) for R, t in zip(Rs, ts)]
        refT = eval_tree(tree, Ts, lambda a, b: a @ b, np_inv)
        scale = max(1.0, float(np.max(np.abs(refT[:2, 2]))), max(float(np.max(np.abs(t))) for t in ts))
        L = o.guard('tree:SO2:leaf', lambda: [SO2(R, check=False) for R in Rs], inp)
        if L is not None:
            X = o.guard('tree:SO2', lambda: eval_tree(tree, L, lambda a, b: a * b, lambda a: a.inv(), lambda a, b: a / b), inp)
            if X is not None:
                o.cmp('tree:SO2', X.A, refT[:2, :2], inp)
                o.cmp('tree:SO2.SE2', X.SE2().A, _T(refT[:2, :2], [0, 0]), inp)
        L = o.guard('tree:SE2:leaf', lambda: [SE2(T, check=False) for T in Ts], inp)
        if L is not None:
            X = o.guard('tree:SE2', lambda: eval_tree(tree, L, lambda a, b: a * b, lambda a: a.inv(), lambda a, b: a / b), inp)
            if X is not None:
                o.cmp('tree:SE2', X.A, refT, inp, scale)
                z = float(rng.normal())
                ref3 = np.eye(4)
                ref3[:2, :2], ref3[:2, 3], ref3[2, 3] = refT[:2, :2], refT[:2, 2], z
                Y = o.guard('tree:SE2.SE3', lambda: X.SE3(z).A, inp)
                if Y is not None:
                    o.cmp('tree:SE2.SE3', Y, ref3, inp, scale)
        tsc = lambda T: max(1.0, float(np.max(np.abs(T[:-1, -1]))))      # noqa: E731
        L = o.leaves('conv:SE2->Twist2->SE2', Ts, kinds, lambda T: Twist2(SE2(T, check=False)), lambda tw: tw.SE2().A, tsc)
        if L is not None:
            hz = log_hazard(tree, Ts)
            X = o.guard('tree:Twist2' + hz, lambda: eval_tree(tree, L, lambda a, b: a * b, lambda a: a.inv()), inp, aux={'tree': tree_str(tree)})
            if X is not None:
                Y = o.guard('tree:Twist2' + hz, lambda: X.SE2().A, inp)
                if Y is not None:
                    o.cmp('tree:Twist2' + hz, Y, refT, inp, scale, aux={'tree': tree_str(tree)})


# ---- embeddings act on points as the embedded object does -----------------------------------------------------------
def oracle_embeddings(o, rng, n):
    for _ in range(n):
        th = gens.angle(rng)
        R2 = np.array([[math.cos(th), -math.sin(th)], [math.sin(th), math.cos(th)]])
        t2 = rand_trans(rng, 1e-6, 1e6, 2)
        p2 = rng.normal(size=2) * log_uniform(rng, 1e-3, 1e3)
        sc = max(1.0, float(np.max(np.abs(t2))), float(np.max(np.abs(p2))))
        inp = np.r_[th, t2, p2]
        Y = o.guard('embed:SO2.SE2:point', lambda: SO2(R2, check=False).SE2() * p2, inp)
        if Y is not None:
            o.cmp('embed:SO2.SE2:point', np.asarray(Y).flatten(), R2 @ p2, inp, sc)
        z = float(rng.normal())
        Y = o.guard('embed:SE2.SE3:point', lambda: SE2(_T(R2, t2), check=False).SE3(z) * np.r_[p2, 0.0], inp)
        if Y is not None:
            o.cmp('embed:SE2.SE3:point', np.asarray(Y).flatten(), np.r_[R2 @ p2 + t2, z], inp, sc)
        R3, _, _ = rot_kind(rng)
        p3 = rng.normal(size=3) * log_uniform(rng, 1e-3, 1e3)
        inp = np.r_[R3.flatten(), p3]
        Y = o.guard('embed:SO3->SE3:point', lambda: SE3.SO3(SO3(R3, check=False)) * p3, inp)
        if Y is not None:
            o.cmp('embed:SO3->SE3:point', np.asarray(Y).flatten(), R3 @ p3, inp, max(1.0, float(np.max(np.abs(p3)))))
        t3 = rand_trans(rng, 1e-6, 1e6)
        inp4 = np.r_[R3.flatten(), t3, p3]
        Y = o.guard('embed:UDQ:point', lambda: UnitDualQuaternion(SE3(_T(R3, t3), check=False)) * p3, inp4)
        if Y is not None:
            o.cmp('embed:UDQ:point', np.asarray(Y).flatten(), R3 @ p3 + t3, inp4, max(1.0, float(np.max(np.abs(p3))), float(np.max(np.abs(t3)))))
        Y = o.guard('embed:UQ:point', lambda: UnitQuaternion(R3) * p3, inp)
        if Y is not None:
            o.cmp('embed:UQ:point', np.asarray(Y).flatten(), R3 @ p3, inp, max(1.0, float(np.max(np.abs(p3)))))


# ---- quaternion double cover ----------------------------------------------------------------------------------------
def oracle_half_turn_equality(o, rng):
    """q and -q compare equal also where a 'canonical representative' would be chosen discontinuously: half turns, whose scalar part is
    zero up to rounding with an arbitrary sign -- (s, v) against (s', -v) with |s|, |s'| of a few 1e-17, and the named constructors at +pi / -pi"""
    ctx = o.ctx
    tiny = [0.0, 6.123233995736766e-17, -6.123233995736766e-17, 1e-17, -1e-17, 1e-16, -1e-16, 3e-16]
    axes = [np.array([1.0, 0, 0]), np.array([0, 1.0, 0]), np.array([0, 0, 1.0]), np.array([0.6, 0.8, 0.0]), np.array([0.0, -0.6, 0.8])] + \
           [rand_unit(rng, 3) for _ in range(4)]
    for v in axes:
        for s1 in tiny:
            for s2 in tiny:
                q1, q2 = np.r_[s1, v], np.r_[s2, -v]
                ctx.case(('cover:half-turn-eq', tuple(q1), tuple(q2)))
                ctx.count('oracle:cover:half-turn-eq')
                eq = o.guard('cover:half-turn-eq', lambda: (UnitQuaternion(q1) == UnitQuaternion(q2), UnitQuaternion(q1) != UnitQuaternion(q2),
                                                             UnitQuaternion(q1) == UnitQuaternion(np.r_[s2, v])), q1)
                if eq is not None and not (bool(eq[0]) is True and bool(eq[1]) is False and bool(eq[2]) is True):
                    ctx.fail('oracle:cover:half-turn-eq:value', f"half turn about {v.tolist()}: UnitQuaternion([{s1!r}, v]) == UnitQuaternion([{s2!r}, -v]) is {eq[0]} "
                             f"(!= is {eq[1]}; == UnitQuaternion([{s2!r}, v]) is {eq[2]}): the same rotation up to 1e-16, q and -q must compare equal",
                             {'q1_hex': _hex(q1), 'q2_hex': _hex(q2)})
    pairs = [('Rx(pi) vs Rx(-pi)', lambda: (UnitQuaternion.Rx(math.pi), UnitQuaternion.Rx(-math.pi))),
             ('Ry(pi) vs Ry(-pi)', lambda: (UnitQuaternion.Ry(math.pi), UnitQuaternion.Ry(-math.pi))),
             ('Rz(180deg) vs Rz(-180deg)', lambda: (UnitQuaternion.Rz(180, 'deg'), UnitQuaternion.Rz(-180, 'deg'))),
             ('Rx(pi) vs Rx(3pi)', lambda: (UnitQuaternion.Rx(math.pi), UnitQuaternion.Rx(3 * math.pi))),
             ('AngVec(pi,v) vs AngVec(-pi,v)', lambda: (UnitQuaternion.AngVec(math.pi, [0.6, 0.8, 0]), UnitQuaternion.AngVec(-math.pi, [0.6, 0.8, 0]))),
             ('EulerVec(w) vs EulerVec(-w), |w| = pi', lambda: (UnitQuaternion.EulerVec(math.pi * np.array([0.0, 0.6, 0.8])), UnitQuaternion.EulerVec(-math.pi * np.array([0.0, 0.6, 0.8])))),
             ('RPY(pi,0,0) vs RPY(-pi,0,0)', lambda: (UnitQuaternion.RPY([math.pi, 0, 0]), UnitQuaternion.RPY([-math.pi, 0, 0]))),
             ('UQ(SO3.Rx(1)*SO3.Rx(pi-1)) vs UQ.Rx(1)*UQ.Rx(pi-1)', lambda: (UnitQuaternion(SO3.Rx(1.0) * SO3.Rx(math.pi - 1.0)), UnitQuaternion.Rx(1.0) * UnitQuaternion.Rx(math.pi - 1.0)))]
    for name, mk in pairs:
        ctx.case(('cover:half-turn-eq:named', name))
        ctx.count('oracle:cover:half-turn-eq')
        ab = o.guard('cover:half-turn-eq:' + name, mk, name)
        if ab is None:
            continue
        a, b = ab
        if float(np.max(np.abs(np.asarray(a.R, float) - np.asarray(b.R, float)))) > 1e-9:
            continue          # not the same rotation (would be another law's business)
        eq = o.guard('cover:half-turn-eq:' + name, lambda: (a == b, a != b), name)
        if eq is not None and not (bool(eq[0]) is True and bool(eq[1]) is False):
            ctx.fail('oracle:cover:half-turn-eq:named-constructors', f"{name}: the same half turn (rotation matrices agree to 1e-9) but == is {eq[0]}, != is {eq[1]} "
                     f"(vectors {np.asarray(a.vec).tolist()} and {np.asarray(b.vec).tolist()})", {'pair': name})


def oracle_double_cover(o, rng, n):
    ctx = o.ctx
    oracle_half_turn_equality(o, rng)
    for _ in range(n):
        q = rand_unit(rng, 4)
        if rng.random() < 0.3:
            R, _, _ = rot_kind(rng)
            q0 = o.guard('cover:UQ(R)', lambda: np.asarray(UnitQuaternion(R).vec, float), R)
            if q0 is None:
                continue
            q = q0
        ab = o.guard('cover:UQ(q)', lambda: (UnitQuaternion(q), UnitQuaternion(-q)), q)
        if ab is None:
            continue
        a, b = ab
        o.cmp('cover:R(q)=R(-q)', b.R, a.R, q)
        o.cmp('cover:R(q)', a.R, _q2r(q / np.linalg.norm(q)), q)
        ctx.case(('cover:eq', tuple(q)))
        ctx.count('oracle:cover:eq')
        eq = o.guard('cover:eq', lambda: (a == b, a != b), q)
        if eq is not None and not (eq[0] is True or eq[0] == True) or eq is not None and (eq[1] is True or eq[1] == True):   # noqa: E712
            ctx.fail('oracle:cover:eq:value', f"UnitQuaternion(q) == UnitQuaternion(-q) is {eq[0]}, != is {eq[1]}", {'q_hex': _hex(q)})
        # back from the matrix: one of +-q
        r = o.guard('conv:UQ->SO3->UQ', lambda: UnitQuaternion(a.SO3()), q)
        if r is not None:
            v = np.asarray(r.vec, float)
            qq = q / np.linalg.norm(q)
            d = min(np.max(np.abs(v - qq)), np.max(np.abs(v + qq)))
            ctx.case(('conv:UQ->SO3->UQ', tuple(q)))
            ctx.count('oracle:conv:UQ->SO3->UQ')
            # near a half turn the scalar part is ill-conditioned (sqrt of a difference): measured on the rotation instead
            o.cmp('conv:UQ->SO3->UQ:rotation', r.R, a.R, q)
            if not d <= 1e-6 and abs(qq[0]) > 1e-3:
                ctx.fail('oracle:conv:UQ->SO3->UQ:value', f"UnitQuaternion(q.SO3()) is neither q nor -q: distance {d:.3g}", {'q_hex': _hex(q), 'got': v.tolist()})


# ---- every shared named constructor x options, in each class --------------------------------------------------------
def near_special_angle(rng):
    r = rng.random()
    if r < 0.35:
        return float(rng.uniform(-2 * math.pi, 2 * math.pi))
    base_ = float(rng.choice([0.0, math.pi, -math.pi, math.pi / 2, -math.pi / 2, 2 * math.pi]))
    if r < 0.5:
        return base_
    return base_ + log_uniform(rng, 1e-12, 1e-9) * rng.choice([-1.0, 1.0])


def oracle_constructors(o, rng, n):
    classes3 = [('SO3', SO3, lambda x: x.A), ('SE3', SE3, lambda x: x.A[:3, :3]), ('UQ', UnitQuaternion, lambda x: x.R)]

    def each(key, ref, inputs, call, classes=classes3, extra=None):
        for cname, cls, getR in classes:
            X = o.guard(f'ctor:{key}:{cname}', lambda: call(cls), inputs)
            if X is None:
                continue
            M = o.guard(f'ctor:{key}:{cname}', lambda: getR(X), inputs)
            if M is not None:
                o.cmp(f'ctor:{key}:{cname}', M, ref, inputs)
            if cname == 'SE3' and X is not None:
                o.cmp(f'ctor:{key}:SE3:translation', np.asarray(X.A, float)[:, 3], [0, 0, 0, 1], inputs)

    for i in range(n):
        for unit in ('rad', 'deg'):
            k = 180 / math.pi if unit == 'deg' else 1.0
            th = near_special_angle(rng)
            for nm, ref in (('Rx', _rx), ('Ry', _ry), ('Rz', _rz)):
                each(f'{nm}:{unit}', ref(th), [th], lambda cls: getattr(cls, nm)(th * k, unit))
                tw = o.guard(f'ctor:{nm}:{unit}:Twist3', lambda: (getattr(Twist3, nm)(th * k, unit).SE3().A, getattr(Twist3, nm)(th * k, unit).exp().A), [th])
                if tw is not None:
                    o.cmp(f'ctor:{nm}:{unit}:Twist3', tw[0], _T(ref(th), [0, 0, 0]), [th])
                    o.cmp(f'ctor:{nm}:{unit}:Twist3:exp', tw[1], _T(ref(th), [0, 0, 0]), [th])
                tw = o.guard(f'ctor:{nm}:{unit}:Twist3:list-angle', lambda: getattr(Twist3, nm)([th * k], unit).SE3().A, [th])
                if tw is not None:
                    o.cmp(f'ctor:{nm}:{unit}:Twist3:list-angle', tw, _T(ref(th), [0, 0, 0]), [th])
            # full cross product of the options: unit x translation t (SE3; Twist3.Ry/Rz also take t) x scalar / vector of angles
            thv = np.array([near_special_angle(rng) for _ in range(int(rng.integers(2, 5)))])
            tt = trans_upto(rng, log_uniform(rng, 1e-3, 1e6))
            for nm, ref in (('Rx', _rx), ('Ry', _ry), ('Rz', _rz)):
                for tform, tv in (('t', tt), ('no-t', None)):
                    for aform, av in (('scalar', th), ('vector', thv)):
                        refs = [_T(ref(a), tv if tv is not None else [0, 0, 0]) for a in np.atleast_1d(av)]
                        kw = {} if tv is None else {'t': tv}
                        arg = av * k if aform == 'scalar' else list(av * k)
                        inp = np.r_[np.atleast_1d(av), tt]
                        o.elems(f'ctor:{nm}:{unit}:{tform}:{aform}:SE3', lambda: getattr(SE3, nm)(arg, unit, **kw), refs, lambda x: x.A, inp, max(1.0, float(np.max(np.abs(tt)))) if tv is not None else 1.0)
                        if nm != 'Rx' and tv is not None:
                            # Twist3.Ry / Rz also offer t= (honoured since /repo f2aa26c): one cell per constructor
                            o.elems(f'ctor:{nm}:with-t:Twist3', lambda: getattr(Twist3, nm)(arg, unit, **kw), refs, lambda x: x.SE3().A, inp, max(1.0, float(np.max(np.abs(tt)))))
                        if tv is None and aform == 'vector':
                            r3 = [M[:3, :3] for M in refs]
                            o.elems(f'ctor:{nm}:{unit}:vector:SO3', lambda: getattr(SO3, nm)(arg, unit), r3, lambda x: x.A, inp)
                            o.elems(f'ctor:{nm}:{unit}:vector:UQ', lambda: getattr(UnitQuaternion, nm)(arg, unit), r3, lambda x: x.R, inp)
                            o.elems(f'ctor:{nm}:{unit}:vector:Twist3', lambda: getattr(Twist3, nm)(arg, unit), refs, lambda x: x.SE3().A, inp)
            r2s = [np.array([[math.cos(a), -math.sin(a)], [math.sin(a), math.cos(a)]]) for a in thv]
            o.elems(f'ctor:SO2:{unit}:vector', lambda: SO2(list(thv * k), unit=unit), r2s, lambda x: x.A, thv)
            # RPY / Eul with an N x 3 array of angles, every order x unit
            A3 = np.array([[near_special_angle(rng) if rng.random() < 0.3 else rng.uniform(-math.pi, math.pi) for _ in range(3)] for _ in range(int(rng.integers(2, 5)))])
            for cname, cls, getR in classes3:
                for order in ('zyx', 'xyz', 'yxz'):
                    o.elems(f'ctor:RPY:{order}:{unit}:Nx3:{cname}', lambda: cls.RPY(A3 * k, order=order, unit=unit), [_rpy(a, order) for a in A3], getR, A3, gkey=f'ctor:RPY:rows:{cname}')
                o.elems(f'ctor:Eul:{unit}:Nx3:{cname}', lambda: cls.Eul(A3 * k, unit=unit), [_eul(a) for a in A3], getR, A3, gkey=f'ctor:Eul:rows:{cname}')
            # planar
            R2 = np.array([[math.cos(th), -math.sin(th)], [math.sin(th), math.cos(th)]])
            Y = o.guard(f'ctor:SO2:{unit}', lambda: SO2(th * k, unit=unit).A, [th])
            if Y is not None:
                o.cmp(f'ctor:SO2:{unit}', Y, R2, [th])
            Y = o.guard(f'ctor:SE2:{unit}', lambda: SE2(0, 0, th * k, unit=unit).A, [th])
            if Y is not None:
                o.cmp(f'ctor:SE2:{unit}', Y, _T(R2, [0, 0]), [th])
            a = np.array([near_special_angle(rng) if rng.random() < 0.4 else rng.uniform(-math.pi, math.pi) for _ in range(3)])
            for order in ('zyx', 'xyz', 'yxz'):
                each(f'RPY:{order}:{unit}', _rpy(a, order), a, lambda cls: cls.RPY(a * k, order=order, unit=unit))
            each(f'Eul:{unit}', _eul(a), a, lambda cls: cls.Eul(a * k, unit=unit))
            # AngVec: unit axis, and axis of arbitrary length (the documented meaning: rotation about the direction of v)
            v = rand_unit(rng)
            each(f'AngVec:unit-axis:{unit}', rot_from_axis_angle(v, th), np.r_[th, v], lambda cls: cls.AngVec(th * k, v, unit=unit))
            vs = v * log_uniform(rng, 1e-3, 1e3)
            each(f'AngVec:scaled-axis:{unit}', rot_from_axis_angle(v, th), np.r_[th, vs], lambda cls: cls.AngVec(th * k, vs, unit=unit))
            vz = np.zeros(3) if i % 2 else v * 1e-20      # zero / negligible axis: the identity in every class
            each(f'AngVec:zero-axis:{unit}', np.eye(3), np.r_[th, vz], lambda cls: cls.AngVec(th * k, vz, unit=unit))
        # EulerVec (no unit option)
        thw = float(rng.uniform(1e-3, math.pi)) if rng.random() < 0.6 else float(rng.choice([1e-9, math.pi - 1e-9, math.pi, 1e-12]))
        v = rand_unit(rng)
        each('EulerVec', rot_from_axis_angle(v, thw), v * thw, lambda cls: cls.EulerVec(v * thw))
        each('EulerVec:zero', np.eye(3), np.zeros(3), lambda cls: cls.EulerVec(np.zeros(3)))
        vb = v * 5e-15       # axis length between 10 eps and 100 eps: normalisable since /repo d900630 (every class raised TypeError before)
        each('AngVec:tiny-axis', rot_from_axis_angle(v, thw), np.r_[thw, vb], lambda cls: cls.AngVec(thw, vb))
        # OA
        while True:
            ov, av = rng.normal(size=3) * log_uniform(rng, 1e-2, 1e2), rng.normal(size=3) * log_uniform(rng, 1e-2, 1e2)
            if np.linalg.norm(np.cross(ov, av)) > 0.2 * np.linalg.norm(ov) * np.linalg.norm(av):
                break
        each('OA', _oa(ov, av), np.r_[ov, av], lambda cls: cls.OA(ov, av))
        # Exp: so(3) vector / se(3) twist
        w = rand_unit(rng) * (rng.uniform(1e-3, math.pi - 1e-3) if rng.random() < 0.7 else float(rng.choice([1e-9, math.pi - 1e-9])))
        Rw = rot_from_axis_angle(w, np.linalg.norm(w))
        Y = o.guard('ctor:Exp:SO3', lambda: SO3.Exp(w).A, w)
        if Y is not None:
            o.cmp('ctor:Exp:SO3', Y, Rw, w)
        Y = o.guard('ctor:Exp:SE3', lambda: SE3.Exp(np.r_[0, 0, 0, w]).A, w)
        if Y is not None:
            o.cmp('ctor:Exp:SE3', Y, _T(Rw, [0, 0, 0]), w)
        # the documented first form of SE3.Exp: a single se(3) matrix (since /repo 39bd617)
        Sm = np.zeros((4, 4))
        Sm[:3, :3] = np.array([[0, -w[2], w[1]], [w[2], 0, -w[0]], [-w[1], w[0], 0]])
        Y = o.guard('ctor:Exp:SE3:se3-matrix', lambda: SE3.Exp(Sm).A, w)
        if Y is not None:
            o.cmp('ctor:Exp:SE3:se3-matrix', Y, _T(Rw, [0, 0, 0]), w)
        Y = o.guard('ctor:Exp:Twist3', lambda: Twist3(np.r_[0, 0, 0, w]).exp().A, w)
        if Y is not None:
            o.cmp('ctor:Exp:Twist3', Y, _T(Rw, [0, 0, 0]), w)
        S = np.r_[rng.normal(size=3) * log_uniform(rng, 1e-3, 1e3), w]
        A1 = o.guard('ctor:Exp:SE3-vs-Twist3', lambda: (SE3.Exp(S).A, Twist3(S).exp().A, Twist3(S).SE3().A), S)
        if A1 is not None:
            sc = max(1.0, float(np.max(np.abs(S[:3]))))
            o.cmp('ctor:Exp:SE3-vs-Twist3', A1[0], A1[1], S, sc)
            o.cmp('ctor:Exp:Twist3.SE3-vs-exp', A1[2], A1[1], S, sc)
        thz = near_special_angle(rng)
        S2 = np.r_[rng.normal(size=2), thz]
        A2 = o.guard('ctor:Exp:SE2-vs-Twist2', lambda: (SE2.Exp(S2).A, Twist2(S2).exp().A), S2)
        if A2 is not None:
            o.cmp('ctor:Exp:SE2-vs-Twist2', A2[0], A2[1], S2, 1.0)
            o.cmp('ctor:Exp:SE2:rotation', np.asarray(A2[0], float)[:2, :2], [[math.cos(thz), -math.sin(thz)], [math.sin(thz), math.cos(thz)]], S2)


# ---- structure: the constructors that are a composition through r2q really are that composition --------------------
def oracle_structure(o, rng, n):
    """ties the theorems C04_RPY_Eul_agree / C04_UDQ_roundtrip (stated on model r2q o traced rpy2r) to the class methods"""
    def same_q(key, mk, inputs):
        r = o.guard('struct:' + key, mk, inputs)
        if r is None:
            return
        q, R = r
        ref = o.guard('struct:' + key, lambda: base.r2q(np.asarray(R, float)), inputs)
        if ref is not None:
            o.cmp('struct:' + key, np.asarray(q, float), ref / np.linalg.norm(ref), inputs, tol=1e-12)
    for _ in range(n):
        a = rng.uniform(-math.pi, math.pi, size=3)
        for order in ('zyx', 'xyz', 'yxz'):
            same_q(f'UQ.RPY:{order}=r2q(rpy2r)', (lambda order: lambda: (UnitQuaternion.RPY(a, order=order).vec, SO3.RPY(a, order=order).A))(order), a)
        same_q('UQ.Eul=r2q(eul2r)', lambda: (UnitQuaternion.Eul(a).vec, SO3.Eul(a).A), a)
        ov, av = rng.normal(size=3), rng.normal(size=3)
        same_q('UQ.OA=r2q(oa2r)', lambda: (UnitQuaternion.OA(ov, av).vec, SO3.OA(ov, av).A), np.r_[ov, av])
        R, _, _ = rot_kind(rng)
        same_q('UQ(SO3)=r2q', lambda: (UnitQuaternion(SO3(R, check=False)).vec, R), R)
        same_q('UQ(matrix)=r2q', lambda: (UnitQuaternion(R).vec, R), R)


def oracle_multi(o, rng, n):
    """every conversion / embedding on MULTI-valued objects (2..4 elements), element by element"""
    for _ in range(n):
        N = int(rng.integers(2, 5))
        ths = [float(rng.uniform(-3, 3)) for _ in range(N)]
        R2s = [np.array([[math.cos(a), -math.sin(a)], [math.sin(a), math.cos(a)]]) for a in ths]
        t2s = [trans_upto(rng, 10.0, 2) for _ in range(N)]
        T2s = [_T(R, t) for R, t in zip(R2s, t2s)]
        R3s = [rot_kind(rng)[0] for _ in range(N)]
        t3s = [trans_upto(rng, 10.0) for _ in range(N)]
        T3s = [_T(R, t) for R, t in zip(R3s, t3s)]
        z = float(rng.normal())
        inp2, inp3 = np.r_[ths, np.array(t2s).flatten()], np.r_[np.array(R3s).flatten(), np.array(t3s).flatten()]
        so2 = o.guard('multi:SO2', lambda: SO2([SO2(R, check=False) for R in R2s]), inp2)
        se2 = o.guard('multi:SE2', lambda: SE2([SE2(T, check=False) for T in T2s]), inp2)
        so3 = o.guard('multi:SO3', lambda: SO3([SO3(R, check=False) for R in R3s]), inp3)
        se3 = o.guard('multi:SE3', lambda: SE3([SE3(T, check=False) for T in T3s]), inp3)

        def lift(T):
            L = np.eye(4)
            L[:2, :2], L[:2, 3], L[2, 3] = T[:2, :2], T[:2, 2], z
            return L
        if so2 is not None:
            o.elems('multi:SO2_N.SE2', lambda: so2.SE2(), [_T(R, [0, 0]) for R in R2s], lambda x: x.A, inp2)
        if se2 is not None:
            o.elems('multi:SE2.SE3', lambda: se2.SE3(z), [lift(T) for T in T2s], lambda x: x.A, inp2, 10.0)
            o.elems('multi:SE2.SE3:hom', lambda: (se2 * se2.inv() * se2).SE3(z), [lift(T) for T in T2s], lambda x: x.A, inp2, 10.0)
            o.elems('multi:SE2.SE3:hom', lambda: se2.SE3(z) * se2.SE3(0.0), [lift(T) @ (lift(T) - np.diag([0, 0, 0, 0]) + np.array([[0, 0, 0, 0], [0, 0, 0, 0], [0, 0, 0, -z], [0, 0, 0, 0]])) for T in T2s], lambda x: x.A, inp2, 100.0)
            tw2 = o.elems('multi:SE2.Twist2()', lambda: se2.Twist2(), T2s, lambda x: x.SE2().A, inp2, 10.0)
            o.elems('multi:Twist2(SE2_N)', lambda: Twist2(se2), T2s, lambda x: x.SE2().A, inp2, 10.0)
            if tw2 is not None:
                o.elems('multi:Twist2_N.SE2', lambda: tw2.SE2(), T2s, lambda x: x.A, inp2, 10.0)
                o.elems('multi:Twist2_N.exp', lambda: tw2.exp(), T2s, lambda x: x.A, inp2, 10.0)
        if so3 is not None:
            o.elems('multi:SE3.SO3(SO3_N)', lambda: SE3.SO3(so3), [_T(R, [0, 0, 0]) for R in R3s], lambda x: x.A, inp3)
            uq = o.elems('multi:UQ(SO3)', lambda: UnitQuaternion(so3), R3s, lambda x: x.R, inp3)
            if uq is not None:
                o.elems('multi:UQ_N.SO3', lambda: uq.SO3(), R3s, lambda x: x.A, inp3)
                o.elems('multi:UQ_N.SE3', lambda: uq.SE3(), [_T(R, [0, 0, 0]) for R in R3s], lambda x: x.A, inp3)
                o.elems('multi:UQ_N.R', lambda: uq.R, R3s, lambda x: x, inp3)
                # N quaternions times a 3 x N array of points: column i rotated by quaternion i (since /repo e6aec7a)
                P = rng.normal(size=(3, N))
                Y = o.guard('multi:UQ_N*points', lambda: uq * P, inp3)
                if Y is not None:
                    o.cmp('multi:UQ_N*points', Y, np.column_stack([R @ P[:, i] for i, R in enumerate(R3s)]), inp3, 10.0)
                o.elems('multi:UQ*UQ.inv*UQ', lambda: uq * uq.inv() * uq, R3s, lambda x: x.R, inp3)
        if se3 is not None:
            tw = o.elems('multi:SE3.Twist3()', lambda: se3.Twist3(), T3s, lambda x: x.SE3().A, inp3, 10.0)
            o.elems('multi:Twist3(SE3_N)', lambda: Twist3(se3), T3s, lambda x: x.SE3().A, inp3, 10.0)
            if tw is not None:
                o.elems('multi:Twist3_N.SE3', lambda: tw.SE3(), T3s, lambda x: x.A, inp3, 10.0)
                o.elems('multi:Twist3_N.exp', lambda: tw.exp(), T3s, lambda x: x.A, inp3, 10.0)
                o.elems('multi:Twist3*Twist3', lambda: tw * tw, [T @ T for T in T3s], lambda x: x.SE3().A, inp3, 100.0)


def oracle(ctx):
    o = Oracle(ctx)
    rng = ctx.rng
    oracle_trees3(o, rng, ctx.n(250, 20000), 5)
    oracle_trees2(o, rng, ctx.n(250, 20000), 5)
    oracle_embeddings(o, rng, ctx.n(300, 20000))
    oracle_double_cover(o, rng, ctx.n(300, 20000))
    oracle_constructors(o, rng, ctx.n(120, 4000))
    oracle_structure(o, rng, ctx.n(100, 5000))
    oracle_multi(o, rng, ctx.n(60, 2000))
