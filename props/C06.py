"""C06 -- applying a pose to points is the rigid motion p -> R p + t.

regenerate : T-sym traces of pose*point for SE3/SO3/SE2/SO2 (vector forms, d x N arrays column by column,
             multi-valued poses), homtrans/e2h/h2e, qvmul/q2r, UnitQuaternion*v, UnitDualQuaternion*v
prove      : theories/Props/C06.v   (kernel laws over the traces, ring/field/nsatz)
             theories/Props/C06_dispatch.v (shape dispatch of SMPose.__mul__: hand model Model/C06_Dispatch.v,
             tied to the traced N=1..4 cases; columnwise for every N, one column per pose value for every length)
correspond : Sym==Num for every trace; T-tab: the dispatch model evaluated inside Coq (vm_compute) on the WHOLE
             grid {SO2,SE2,SO3,SE3} x pose length 1..5 x {list,tuple,1-D,row,column,d x N (N=1..7)} against the
             implementation (result shape, provenance of every output column, exception kind)
oracle     : value AND shape against an independent R p + t on that grid; the laws (distance, handedness,
             compatibility with composition, inverse, agreement of the four routes) on the implementation at
             magnitudes 1e-6..1e6, tolerance 1e-9 relative to the data magnitude
"""
import json
import math
import re
import numpy as np
import sympy
from lib import concolic
from lib.symtrace import Gen
from lib.corr import sym_num
from lib.gens import log_uniform, rand_unit, rand_rot, rand_trans, rand_rot2, angle

concolic.install()
_np_det = np.linalg.det


def _det(a):
    """harness-process patch (same kind as lib/concolic.py): np.linalg.det of an object array of SymPy entries"""
    a = np.asarray(a)
    if a.dtype == object:
        return sympy.Matrix(a.tolist()).det()
    return _np_det(a)


np.linalg.det = _det
from spatialmath import base, SE3, SO3, SE2, SO2, UnitQuaternion, Quaternion  # noqa: E402
from spatialmath.DualQuaternion import DualQuaternion, UnitDualQuaternion  # noqa: E402

MOD = 'Traces_C06'
REL = 1e-9

CLASSES = {'SO2': (SO2, 2, False), 'SE2': (SE2, 2, True), 'SO3': (SO3, 3, False), 'SE3': (SE3, 3, True)}


# ------------------------------------------------------------------------------------------------ traces
def UQ(q):
    """a UnitQuaternion holding exactly the 4-vector q (the (s, v) constructor form with norm=False stores it as is)"""
    return UnitQuaternion(q[0], q[1:4], norm=False)


def uq_pair(q, r):
    """two-valued UnitQuaternion holding exactly q and r (append stores the element as is; the list constructor re-normalises)"""
    u = UQ(q)
    u.append(UQ(r))
    return u


def _shadow(*arrs):
    """shadow valuation for the comparisons met on the way (UnitQuaternion's unit-norm validity test and the
    zero-norm test of base.unit): an exactly unit quaternion, generic other values"""
    concolic.VAL.clear()
    concolic.PATH.clear()
    vals = [sympy.Rational(1, 2)] * 4 + [sympy.Rational(k + 1, 2 * k + 5) * (-1) ** k for k in range(40)]
    k = 0
    for a in arrs:
        for s in np.asarray(a, dtype=object).flatten():
            if isinstance(s, sympy.Expr):
                concolic.VAL[s] = vals[k]
            k += 1


def _shadow_units(qs, others, conj_second):
    """shadow valuation for PRODUCTS of unit quaternions: every q in qs gets an exactly unit value; the scalar part of the
    product q1 q2 is negative when conj_second is False ((1/2)(1,1,1,1) twice: s = -1/2) and positive when it is True
    (second factor conjugated: s = +1) -- the two signs of the double cover, one concolic path each"""
    concolic.VAL.clear()
    concolic.PATH.clear()
    h = sympy.Rational(1, 2)
    for k, q in enumerate(qs):
        vals = [h, h, h, h] if not (conj_second and k == 1) else [h, -h, -h, -h]
        for sym, v_ in zip(q, vals):
            concolic.VAL[sym] = v_
    k = 0
    for a in others:
        for sym in np.asarray(a, dtype=object).flatten():
            concolic.VAL[sym] = sympy.Rational(k + 1, 2 * k + 5) * (-1) ** k
            k += 1


def udq_product(conj_second):
    """(UnitDualQuaternion(q1, d1) * UnitDualQuaternion(q2, d2)).vec  -- DualQuaternion.__mul__, product branch"""
    def f(q1, d1, q2, d2):
        if isinstance(q1[0], sympy.Expr):
            _shadow_units([q1, q2], [d1, d2], conj_second)
        return (UnitDualQuaternion(UQ(q1), Quaternion(d1)) * UnitDualQuaternion(UQ(q2), Quaternion(d2))).vec
    return f


def uq_product(conj_second):
    """(UnitQuaternion q1 * UnitQuaternion q2).vec"""
    def f(q1, q2):
        if isinstance(q1[0], sympy.Expr):
            _shadow_units([q1, q2], [], conj_second)
        return (UQ(q1) * UQ(q2)).vec
    return f


def two_unit_q_sampler(n_other4, negative):
    """two unit quaternions whose product has a negative / positive scalar part, plus n_other4 generic 4-vectors"""
    def s(rng):
        while True:
            q1, q2 = rand_unit(rng, 4), rand_unit(rng, 4)
            sc = q1[0] * q2[0] - q1[1:] @ q2[1:]
            if (sc < -0.05) if negative else (sc > 0.05):
                break
        oth = [rng.normal(size=4) for _ in range(n_other4)]
        return [q1] + oth[:n_other4 // 2] + [q2] + oth[n_other4 // 2:]
    return s


def udq_point(q, d, v):
    """UnitDualQuaternion(real=UnitQuaternion q, dual=Quaternion d) * v  (DualQuaternion.__mul__, point branch)"""
    if isinstance(q[0], sympy.Expr):
        _shadow(q, d, v)
    return UnitDualQuaternion(UQ(q), Quaternion(d)) * v


def inv_of(mk, isse, d, X):
    """mk(X).inv()  (since fix 1c511ed the 2-D inverses build their result with check=False like the 3-D ones, so they
    run on symbols as they are: no shadow valuation, no path condition)"""
    return mk(X).inv()


def shadow_group(cn, mats):
    """for code paths that iterate a multi-valued pose (`for x in self`, `zip(left, ...)`): SMUserList.__getitem__
    re-validates every element with a checking constructor.  With symbols this needs (i) the last row of an SE(n) value
    given literally as (0,..,0,1) (the test `T[n,:] == [0,..,1]` is structural on SymPy objects), so the symbolic last
    row of each input is replaced by the constants -- such a trace is about matrices whose last row is (0,..,0,1) and
    ignores the inputs' last rows; (ii) a shadow valuation of exact rotations to decide isR (path condition: the rotation
    block passes the validity test).  Returns the matrices to hand to the constructor."""
    cls, d, isse = CLASSES[cn]
    if not isinstance(np.asarray(mats[0]).flatten()[0], sympy.Expr):
        return list(mats)
    concolic.VAL.clear()
    concolic.PATH.clear()
    Q = sympy.Rational
    cs = [(Q(3, 5), Q(4, 5)), (Q(5, 13), Q(-12, 13)), (Q(8, 17), Q(15, 17))]
    out = []
    for k, X in enumerate(mats):
        c, s_ = cs[k % 3]
        if d == 2:
            Rv = [[c, -s_], [s_, c]]
        elif k % 2 == 0:
            Rv = [[c, -s_, 0], [s_, c, 0], [0, 0, 1]]
        else:
            Rv = [[1, 0, 0], [0, c, -s_], [0, s_, c]]
        n = d + 1 if isse else d
        vals = np.zeros((n, n), dtype=object)
        vals[:d, :d] = Rv
        if isse:
            vals[:d, d] = [Q(1, 3) + k, Q(1, 7) - k, Q(2, 9) + k][:d]
            vals[d, :] = [0] * d + [1]
        for sym, v_ in zip(np.asarray(X, dtype=object).flatten(), vals.flatten()):
            concolic.VAL[sym] = v_
        Xl = np.array(X, dtype=object)
        if isse:
            Xl[d, :] = [0] * d + [1]
        out.append(Xl)
    return out


def minv_of(cn, mats):
    """cls([X0, X1, ...], check=False).inv()  -- the MULTI-valued branch of inv().  Only SE2's iterates `for x in self`
    (see shadow_group); the others run on plain symbols"""
    cls = CLASSES[cn][0]
    return cls(shadow_group(cn, mats) if cn == 'SE2' else list(mats), check=False).inv()


def unit_q_sampler(shapes):
    def s(rng):
        out = [rand_unit(rng, 4)]
        for sh in shapes:
            out.append(rng.normal(size=sh) * 10 ** rng.uniform(-0.5, 0.5))
        return out
    return s


class SoftGen(Gen):
    """Gen whose traces are fail-soft: an entry point the library can no longer run on symbols (or whose result has
    another shape) is recorded in .failed and simply missing from the generated file, so that the theorem naming it
    breaks (attributed obligation) while the grid and the oracle still run and look for the failing input"""
    def trace(self, name, inputs, fn, **kw):
        kw['optional'] = True
        t = super().trace(name, inputs, fn, **kw)
        if t is not None and not re.search(r'\bO\b', t.term):
            # a definition that does no arithmetic would lose its `O` argument when the section closes
            t.term = f"(let _ := zero O in\n  {t.term})"
        return t


def build(ctx):
    g = SoftGen('C06')
    P = {'SE3': lambda X: SE3(X, check=False), 'SO3': lambda X: SO3(X, check=False),
         'SE2': lambda X: SE2(X, check=False), 'SO2': lambda X: SO2(X, check=False)}
    MSH = {'SE3': 'M44', 'SO3': 'M33', 'SE2': 'M33', 'SO2': 'M22'}
    for cn, (cls, d, isse) in CLASSES.items():
        mk, M, V = P[cn], MSH[cn], f'V{d}'
        # ---- one pose x one point, every argument form
        g.trace(f'tr_{cn}_v', [('X', M), ('v', V)], (lambda mk: lambda X, v: mk(X) * v)(mk))
        g.trace(f'tr_{cn}_list', [('X', M), ('v', V)], (lambda mk: lambda X, v: mk(X) * list(v))(mk))
        g.trace(f'tr_{cn}_tuple', [('X', M), ('v', V)], (lambda mk: lambda X, v: mk(X) * tuple(v))(mk))
        g.trace(f'tr_{cn}_row', [('X', M), ('v', V)], (lambda mk, d: lambda X, v: mk(X) * np.asarray(v).reshape(1, d))(mk, d))
        g.trace(f'tr_{cn}_col', [('X', M), ('v', V)], (lambda mk, d: lambda X, v: mk(X) * np.asarray(v).reshape(d, 1))(mk, d))
        # ---- one pose x (d x N) array, traced column by column (N = 2..4 includes N = d)
        for N in (2, 3, 4):
            for j in range(N):
                g.trace(f'tr_{cn}_a{N}_c{j}', [('X', M)] + [(f'p{k}', V) for k in range(N)],
                        (lambda mk, j: lambda X, *p: (mk(X) * np.column_stack(p))[:, j])(mk, j))
        # ---- multi-valued pose x one point: one column per pose value
        for L in (2, 3):
            for i in range(L):
                g.trace(f'tr_{cn}_m{L}_c{i}', [(f'X{k}', M) for k in range(L)] + [('v', V)],
                        (lambda cls, i, L: lambda *a: (cls(list(a[:L]), check=False) * a[L])[:, i])(cls, i, L))
        # ---- two-valued pose x (d x 2) array: column i is pose i applied to column i (the branch repaired by fix 86fcbcb)
        for i in range(2):
            g.trace(f'tr_{cn}_ma2_c{i}', [('X0', M), ('X1', M), ('p0', V), ('p1', V)],
                    (lambda cn, cls, i: lambda X0, X1, p0, p1: (cls(shadow_group(cn, [X0, X1]), check=False) * np.column_stack([p0, p1]))[:, i])(cn, cls, i),
                    sampler=(lambda cn, d: lambda rng: rand_pose_mats(rng, cn, 2, 0.1, 10) + [rng.normal(size=d), rng.normal(size=d)])(cn, d),
                    note='the branch iterates zip(left, right.T): elements are re-validated by __getitem__; traced with literal last rows and a shadow valuation of exact rotations')
        # ---- composition and inverse (the group side of the compatibility laws)
        g.trace(f'tr_{cn}_mul', [('X', M), ('Y', M)], (lambda mk: lambda X, Y: (mk(X) * mk(Y)).A)(mk))
        # X.inv() * v  (the inverse as a matrix too for SE(n); the SO(n) inverse is a bare transposition, no arithmetic to trace)
        note2 = ''
        g.trace(f'tr_{cn}_invv', [('X', M), ('v', V)], (lambda mk, isse, d: lambda X, v: inv_of(mk, isse, d, X) * v)(mk, isse, d),
                note=note2)
        if isse:
            g.trace(f'tr_{cn}_inv', [('X', M)], (lambda mk, isse, d: lambda X: inv_of(mk, isse, d, X).A)(mk, isse, d),
                    note=note2)
        # multi-valued inverse (a separate branch of inv()): column k of X.inv() * v for a two-valued X
        smp2 = (lambda cn, d: lambda rng: rand_pose_mats(rng, cn, 2, 0.1, 10) + [rng.normal(size=d)])(cn, d)
        for k in range(2):
            g.trace(f'tr_{cn}_minv2_c{k}', [('X0', M), ('X1', M), ('v', V)],
                    (lambda cn, k: lambda X0, X1, v: (minv_of(cn, [X0, X1]) * v)[:, k])(cn, k),
                    sampler=smp2, note=('SE2: elements are re-validated by __getitem__ while iterating; traced with the last rows '
                                        'literally (0,0,1) and under a shadow valuation of exact rotations') if cn == 'SE2' else '')
    # ---- homogeneous-coordinate function route
    g.trace('tr_homtrans3', [('X', 'M44'), ('v', 'V3')], base.homtrans)
    g.trace('tr_homtrans2', [('X', 'M33'), ('v', 'V2')], base.homtrans)
    g.trace('tr_homtrans3_a2_c1', [('X', 'M44'), ('p0', 'V3'), ('p1', 'V3')],
            lambda X, p0, p1: base.homtrans(X, np.column_stack([p0, p1]))[:, 1])
    g.trace('tr_e2h3', [('v', 'V3')], base.e2h)
    g.trace('tr_h2e3', [('h', 'V4')], base.h2e)
    g.trace('tr_e2h2', [('v', 'V2')], base.e2h)
    g.trace('tr_h2e2', [('h', 'V3')], base.h2e)
    # ---- quaternion routes
    g.trace('tr_qvmul', [('q', 'V4'), ('v', 'V3')], base.qvmul)
    g.trace('tr_q2r', [('q', 'V4')], base.q2r)
    g.trace('tr_UQ_v', [('q', 'V4'), ('v', 'V3')], lambda q, v: UQ(q) * v)
    g.trace('tr_UQ_col', [('q', 'V4'), ('v', 'V3')], lambda q, v: UQ(q) * np.asarray(v).reshape(3, 1))
    for N in (2, 3):
        for j in range(N):
            g.trace(f'tr_UQ_a{N}_c{j}', [('q', 'V4')] + [(f'p{k}', 'V3') for k in range(N)],
                    (lambda j: lambda q, *p: (UQ(q) * np.column_stack(p))[:, j])(j))
    for i in range(2):
        g.trace(f'tr_UQ_m2_c{i}', [('q', 'V4'), ('r', 'V4'), ('v', 'V3')],
                (lambda i: lambda q, r, v: (uq_pair(q, r) * v)[:, i])(i))
    # ---- dual-quaternion route: the dual part the UnitDualQuaternion(SE3) constructor builds from (q, t), and the point product
    g.trace('tr_UDQ_dual', [('q', 'V4'), ('t', 'V3')], lambda q, t: (0.5 * Quaternion.Pure(t) * UQ(q)).vec,
            note='DualQuaternion.py:314-318  S = UnitQuaternion(T.R); D = Quaternion.Pure(T.t); dual = 0.5 * D * S')
    g.trace('tr_UDQ_v', [('q', 'V4'), ('d', 'V4'), ('v', 'V3')], udq_point, sampler=unit_q_sampler([(4,), (3,)]),
            note='traced under the shadow valuation |q| = 1: products of UnitQuaternions are re-normalised by the '
                 'constructor (base.unit), hence the sqrt terms; path condition: the unit-norm validity test passes')
    # ---- PRODUCTS on the quaternion routes (composition must act as composition, for both signs of the double cover):
    #      one concolic path with the scalar part of q1 q2 negative, one with it positive
    for tag, cs in (('neg', False), ('pos', True)):
        g.trace(f'tr_UQ_mul_{tag}', [('q1', 'V4'), ('q2', 'V4')], uq_product(cs), sampler=two_unit_q_sampler(0, not cs),
                note=f'shadow valuation: unit q1, q2 with scalar part of q1 q2 {"> 0" if cs else "< 0"}')
        g.trace(f'tr_UDQ_mul_{tag}', [('q1', 'V4'), ('d1', 'V4'), ('q2', 'V4'), ('d2', 'V4')], udq_product(cs),
                sampler=two_unit_q_sampler(2, not cs), note=f'shadow valuation: unit q1, q2 with scalar part of q1 q2 {"> 0" if cs else "< 0"}')
    return g


# ------------------------------------------------------------------------------------------------ T-tab: the dispatch
FORMS = ['list', 'tuple', 'arr1', 'row', 'col'] + [f'arr{n}' for n in range(1, 8)]


def make_arg(form, pts):
    """pts: d x N array of points; the vector forms use column 0"""
    d = pts.shape[0]
    p = pts[:, 0].copy()
    if form == 'list':
        return [x.item() for x in p], 1
    if form == 'tuple':
        return tuple(x.item() for x in p), 1
    if form == 'arr1':
        return p, 1
    if form == 'row':
        return p.reshape(1, d), 1
    if form == 'col':
        return p.reshape(d, 1), 1
    n = int(form[3:])
    return pts[:, :n].copy(), n


def coq_form(form, d):
    if form == 'list':
        return f'(FList {d})'
    if form == 'tuple':
        return f'(FTuple {d})'
    if form == 'arr1':
        return f'(FArr1 {d})'
    if form == 'row':
        return f'(FArr2 1 {d})'
    if form == 'col':
        return f'(FArr2 {d} 1)'
    return f'(FArr2 {d} {int(form[3:])})'


def parse_outcome(s):
    """printed value of `dispatch len dim form`: inl err | inr {| shape := [..]; cols := [(i, j); ..] |}"""
    s = s.strip()
    m = re.match(r'^inl (\w+)$', s)
    if m:
        return ('raise', m.group(1))
    m = re.match(r'^inr \{\| shape := \[(.*?)\]; cols := \[(.*?)\] \|\}$', s)
    if not m:
        raise RuntimeError('cannot parse model outcome: ' + s)
    shape = tuple(int(x) for x in m.group(1).split(';') if x.strip())
    cols = [tuple(int(y) for y in c.strip(' ()').split(',')) for c in m.group(2).split(';') if c.strip()]
    return ('value', shape, cols)


def rand_pose_mats(rng, cn, L, tlo=1e-2, thi=1e2):
    """L independent group elements (built without the library)"""
    cls, d, isse = CLASSES[cn]
    mats = []
    for _ in range(L):
        R = rand_rot(rng) if d == 3 else rand_rot2(rng)
        if isse:
            T = np.eye(d + 1)
            T[:d, :d] = R
            T[:d, d] = rand_trans(rng, tlo, thi, d)
            mats.append(T)
        else:
            mats.append(R)
    return mats


def ref_apply(cn, M, p):
    """the independent R p + t"""
    cls, d, isse = CLASSES[cn]
    p = np.asarray(p, float)
    return M[:d, :d] @ p + M[:d, d] if isse else M @ p


def make_pose(cn, mats):
    cls = CLASSES[cn][0]
    return cls(mats[0], check=False) if len(mats) == 1 else cls([m.copy() for m in mats], check=False)


def hexl(a):
    return [float(x).hex() for x in np.asarray(a, float).flatten()]


def grid(ctx):
    """exhaustive shape grid: model outcome (Coq) vs implementation vs independent R p + t"""
    rng = ctx.rng
    cells, terms = [], []
    for cn, (cls, d, isse) in CLASSES.items():
        for L in range(1, 6):
            for form in FORMS:
                cells.append((cn, L, form))
                terms.append(f'dispatch {L} {d} {coq_form(form, d)}')
    header = "From Coq Require Import List Arith.\nFrom SM Require Import Model.C06_Dispatch.\nImport ListNotations.\n"
    outs = ctx.coq_eval(header, terms, name='grid')
    reps = ctx.n(2, 12)
    for (cn, L, form), mo in zip(cells, outs):
        cls, d, isse = CLASSES[cn]
        model = parse_outcome(mo)
        ctx.count('grid:model:' + (model[1] if model[0] == 'raise' else 'value'))
        for rep in range(reps + 2):
            mats = rand_pose_mats(rng, cn, L)
            mag = log_uniform(rng, 1e-6, 1e6)
            pts = rng.normal(size=(d, 7)) * mag
            adt = 'float64'
            if rep >= reps:
                # the points as whole numbers in an INTEGER-typed (resp. float32) container: the result is still R p + t in floating point
                adt = ('int64', 'float32')[rep - reps]
                pts = rng.integers(-9, 10, size=(d, 7)).astype(adt)
            arg, ncol = make_arg(form, pts)
            pts = pts.astype(float)
            cell = f'{cn}:len{L}:{form}'
            rep_in = {'class': cn, 'len': L, 'form': form, 'poses_hex': [hexl(m) for m in mats], 'arg_dtype': adt,
                      'arg_hex': hexl(np.asarray(arg, float)), 'arg_shape': list(np.shape(arg))}
            ctx.case(('grid', cell, rep, tuple(pts[:, 0])))
            ctx.count('grid:cells')
            X = make_pose(cn, mats)
            try:
                r = X * arg
                obs = ('value', tuple(np.shape(r)), np.asarray(r, float))
            except Exception as ex:  # noqa
                obs = ('raise', type(ex).__name__, str(ex))
            site = ('single' if L == 1 else 'multi') + '-pose-x-' + ('vector' if ncol == 1 else 'array')
            model_vs_impl(ctx, cn, cell, site, model, obs, mats, pts, rep_in)
            spec_check(ctx, cn, L, form, ncol, mats, pts, obs, rep_in)
    ctx.sample({'kind': 'grid', 'cell': 'SE3:len1:arr3', 'model': outs[cells.index(('SE3', 1, 'arr3'))]})


def uq_grid(ctx):
    """the same exhaustive operand grid for UnitQuaternion * points: quaternion objects holding M = 1..5 values (a DIFFERENT
    generic rotation per value) x {list, tuple, 1-D, row, column, 3 x N for N = 1..7}.  Every output column is compared
    with the independent R_i p_j AND with the single-valued call U[i] * p_j; the column provenance and the exception
    kind are compared with the dispatch model (dim 3), which the quaternion class shares with the poses (its result for a
    single vector is 1-D, a shape the property does not state)."""
    rng = ctx.rng
    from lib.gens import rot_from_axis_angle
    cells, terms = [], []
    for M in range(1, 6):
        for form in FORMS:
            cells.append((M, form))
            terms.append(f'dispatch {M} 3 {coq_form(form, 3)}')
    header = "From Coq Require Import List Arith.\nFrom SM Require Import Model.C06_Dispatch.\nImport ListNotations.\n"
    outs = ctx.coq_eval(header, terms, name='uqgrid')
    reps = ctx.n(2, 10)
    for (M, form), mo in zip(cells, outs):
        model = parse_outcome(mo)
        for rep in range(reps):
            Rs = [rot_from_axis_angle(rand_unit(rng), rng.uniform(0.2, math.pi - 0.2) * rng.choice([-1.0, 1.0])) for _ in range(M)]
            pts = rng.normal(size=(3, 7)) * log_uniform(rng, 1e-6, 1e6)
            arg, ncol = make_arg(form, pts)
            cell = f'UQ:len{M}:{form}'
            site = ('single' if M == 1 else 'multi') + '-quaternion-x-' + ('vector' if ncol == 1 else 'array')
            rep_in = {'class': 'UnitQuaternion', 'len': M, 'form': form, 'R_hex': [hexl(R) for R in Rs],
                      'arg_hex': hexl(np.asarray(arg, float)), 'arg_shape': list(np.shape(arg))}
            ctx.case(('uqgrid', cell, rep, tuple(pts[:, 0])))
            ctx.count('uqgrid:cells')
            singles = [UnitQuaternion(R) for R in Rs]
            U = singles[0] if M == 1 else UnitQuaternion(singles)
            try:
                r = U * arg
                obs = ('value', tuple(np.shape(r)), np.asarray(r, float))
            except Exception as ex:  # noqa
                obs = ('raise', type(ex).__name__, str(ex))
            # ---- model (column provenance / exception kind) vs implementation
            ctx.corr['cases'] += 1
            if model[0] != obs[0] or (model[0] == 'raise' and model[1] != obs[1]):
                ctx.corr['disagreements'] += 1
                ctx.fail(f'corr:dispatch-UQ:{site}', f"dispatch model and UnitQuaternion.__mul__ disagree in cell {cell}: model {model[:2]}, "
                         f"implementation {obs[:2]}" + (f": {obs[2]}" if obs[0] == 'raise' else ''), rep_in)
            # ---- specification, independent of the model
            if M > 1 and ncol >= 2 and ncol != M:
                if obs[0] == 'value':
                    ctx.fail(f'uqgrid:{site}:N-ne-len:returns-value', f"cell {cell}: {M} quaternions times a 3 x {ncol} array returned shape {obs[1]}", rep_in)
                elif obs[1] != 'ValueError':
                    ctx.fail(f'uqgrid:{site}:N-ne-len:raises-{obs[1]}', f"cell {cell}: raises {obs[1]}: {obs[2]}", rep_in)
                continue
            if obs[0] != 'value':
                ctx.fail(f'uqgrid:{site}:raises-{obs[1]}', f"cell {cell}: a documented operand form raises {obs[1]}: {obs[2]}", rep_in)
                continue
            if M == 1:
                pairs = [(0, j) for j in range(ncol)]
            elif ncol == 1:
                pairs = [(i, 0) for i in range(M)]
            else:
                pairs = [(i, i) for i in range(M)]
            want = np.column_stack([Rs[i] @ pts[:, j] for i, j in pairs])
            got = obs[2]
            if got.size != want.size or not (got.shape == want.shape or want.shape[1] == 1):
                ctx.fail(f'uqgrid:{site}:shape', f"cell {cell}: result shape {got.shape}, expected {want.shape}", rep_in)
                continue
            got2 = got.reshape(want.shape)
            scale = float(np.max(np.linalg.norm(pts[:, :max(ncol, 1)], axis=0)))
            err = float(np.max(np.abs(got2 - want)))
            ctx.count('oracle:uqgrid-value')
            ctx.stats['worst:uqgrid'] = max(ctx.stats.get('worst:uqgrid', 0.0), err / scale)
            if not err <= REL * scale:
                bad = int(np.argmax(np.max(np.abs(got2 - want), axis=0)))
                ctx.fail(f'uqgrid:{site}:value', f"cell {cell}: output column {bad} is not R_{pairs[bad][0]} applied to point column {pairs[bad][1]} "
                         f"(independent R p): error {err:g}, data magnitude {scale:g}", dict(rep_in, got=got.tolist(), want=want.tolist()))
                continue
            # per column against the single-valued call
            for k, (i, j) in enumerate(pairs):
                one = np.asarray(singles[i] * pts[:, j], float).flatten()
                if not float(np.max(np.abs(got2[:, k] - one))) <= REL * scale:
                    ctx.fail(f'uqgrid:{site}:differs-from-single-valued-call', f"cell {cell}: output column {k} differs from U[{i}] * p_{j}", dict(rep_in, column=k))
                    break


def model_vs_impl(ctx, cn, cell, site, model, obs, mats, pts, rep_in):
    """T-tab: the outcome the Coq model computes for this cell vs what the implementation does (exception kind, result
    shape, and for every output column WHICH pose value and WHICH point column it was computed from)"""
    cls, d, isse = CLASSES[cn]
    ctx.corr['cases'] += 1
    if model[0] != obs[0] or (model[0] == 'raise' and model[1] != obs[1]):
        ctx.corr['disagreements'] += 1
        ctx.fail(f'corr:dispatch:{site}', f"dispatch model and implementation disagree in cell {cell}: "
                 f"model {model[:2]}, implementation {obs[:2]}", rep_in)
        return
    if model[0] == 'raise':
        return
    if tuple(model[1]) != obs[1]:
        ctx.corr['disagreements'] += 1
        ctx.fail(f'corr:dispatch:{site}:shape', f"dispatch model shape {model[1]} but the implementation returns {obs[1]} in cell {cell}", rep_in)
        return
    R = obs[2].reshape(d, -1)
    for k, (i, j) in enumerate(model[2]):
        want = ref_apply(cn, mats[i], pts[:, j])
        scale = max(np.linalg.norm(pts[:, j]), np.linalg.norm(mats[i][:d, d]) if isse else 0.0, 1e-300)
        err = float(np.max(np.abs(R[:, k] - want)))
        ctx.stats['worst:grid'] = max(ctx.stats.get('worst:grid', 0.0), err / scale)
        if not err <= REL * scale:
            ctx.corr['disagreements'] += 1
            ctx.fail(f'corr:dispatch:{site}:column', f"cell {cell}: output column {k} is not pose[{i}] applied to point column {j} "
                     f"(R p + t computed independently): err {err:g}, scale {scale:g}",
                     dict(rep_in, column=k, got=R[:, k].tolist(), want=want.tolist()))
            return


def spec_check(ctx, cn, L, form, ncol, mats, pts, obs, rep_in):
    """what the property (and the documented table of SMPose.__mul__) requires in this cell, independently of the model:
       single pose x vector form        -> R p + t; the d x 1 array for the column form (it is a d x N array with N = 1);
                                           for list / tuple / 1-D / row the property states no shape (any d-element shape)
       single pose x d x N array        -> shape (d,N), column j = R p_j + t
       multi-valued pose x vector form  -> shape (d,L), column i = R_i p + t_i
       multi-valued pose x d x N, N>=2  -> N == L: shape (d,L), column i = R_i p_i + t_i; otherwise ValueError ("Any other
                                           input combinations result in a ValueError")"""
    cls, d, isse = CLASSES[cn]
    cell = f'{cn}:len{L}:{form}'
    who = 'single-pose' if L == 1 else 'multi-pose'
    what = 'vector' if ncol == 1 else 'array'
    site = f'{who}-x-{what}'
    if L > 1 and ncol >= 2:
        if ncol == L:
            # documented since fix 86fcbcb: "M, (N,M) -> (N,M), column i is left[i] * right[:,i]"
            if obs[0] != 'value':
                ctx.fail(f'grid:{site}:N-eq-len:regression-86fcbcb-raises-{obs[1]}', f"cell {cell}: a multi-valued pose times a d x N array with N == len raises "
                         f"{obs[1]}: {obs[2]} (documented: column i is pose[i] applied to column i)", rep_in)
                return
            want = np.column_stack([ref_apply(cn, mats[i], pts[:, i]) for i in range(L)])
            scale = max(float(np.max(np.linalg.norm(pts[:, :L], axis=0))), max(np.linalg.norm(m[:d, d]) if isse else 0.0 for m in mats))
            ctx.count('oracle:grid-value')
            if obs[1] != want.shape:
                ctx.fail(f'grid:{site}:N-eq-len:shape', f"cell {cell}: result shape {obs[1]}, expected {want.shape}", rep_in)
            elif not float(np.max(np.abs(obs[2] - want))) <= REL * scale:
                ctx.fail(f'grid:{site}:N-eq-len:value', f"cell {cell}: column i is not pose[i] applied to column i (independent R_i p_i + t_i)",
                         dict(rep_in, got=obs[2].tolist(), want=want.tolist()))
        elif obs[0] == 'value':
            ctx.fail(f'grid:{site}:N-ne-len:returns-value', f"cell {cell}: a multi-valued pose of length {L} times a d x {ncol} array returned a value of shape {obs[1]}", rep_in)
        elif obs[1] != 'ValueError':
            ctx.fail(f'grid:{site}:N-ne-len:raises-{obs[1]}', f"cell {cell}: multi-valued pose times d x N array (N != len) raises {obs[1]}: {obs[2]} "
                     "(documented: ValueError for unsupported combinations)", rep_in)
        return
    if obs[0] != 'value':
        ctx.fail(f'grid:{site}:raises-{obs[1]}', f"cell {cell}: raises {obs[1]}: {obs[2]}", rep_in)
        return
    if L == 1:
        want = np.column_stack([ref_apply(cn, mats[0], pts[:, j]) for j in range(ncol)])
        if form in ('list', 'tuple', 'arr1', 'row'):
            # the property does not state the shape of a single transformed vector: any d-element vector shape is accepted
            # here (the code returns the d x 1 column; that shape is tied to the model by the T-tab comparison)
            want_shapes = [(d, 1), (d,), (1, d)]
        else:
            want_shapes = [(d, ncol)]
        tn = np.linalg.norm(mats[0][:d, d]) if isse else 0.0
        scale = max(float(np.max(np.linalg.norm(pts[:, :ncol], axis=0))), tn)
    else:
        want = np.column_stack([ref_apply(cn, mats[i], pts[:, 0]) for i in range(L)])
        want_shapes = [(d, L)]
        scale = max(float(np.linalg.norm(pts[:, 0])), max(np.linalg.norm(m[:d, d]) if isse else 0.0 for m in mats))
    got = obs[2]
    if got.size != want.size:
        ctx.fail(f'grid:{site}:size', f"cell {cell}: result has shape {got.shape}, expected {want.size} elements ({want_shapes})", rep_in)
        return
    g2 = got.reshape(want.shape) if (want.shape[1] == 1 or got.shape == want.shape) else None
    if g2 is None:
        ctx.fail(f'grid:{site}:shape', f"cell {cell}: result shape {got.shape}, expected {want_shapes}", rep_in)
        return
    err = float(np.max(np.abs(g2 - want)))
    ctx.count('oracle:grid-value')
    if not err <= REL * scale:
        ctx.fail(f'grid:{site}:value', f"cell {cell}: result differs from the independent R p + t by {err:g} (data magnitude {scale:g})",
                 dict(rep_in, got=got.tolist(), want=want.tolist()))
        return
    if tuple(got.shape) not in want_shapes:
        ctx.fail(f'grid:{site}:shape', f"cell {cell}: result shape {got.shape}, expected one of {want_shapes}", rep_in)


# ------------------------------------------------------------------------------------------------ oracle: the laws on L-impl
def oracle(ctx):
    rng = ctx.rng
    N = ctx.n(300, 12000)

    def chk(key, lhs, rhs, scale, rep, tol=REL, stat=None):
        lhs, rhs = np.asarray(lhs, float), np.asarray(rhs, float)
        ctx.count('oracle:' + key)
        if lhs.size == rhs.size and lhs.shape != rhs.shape:
            lhs = lhs.reshape(rhs.shape)
        err = float(np.max(np.abs(lhs - rhs))) if lhs.shape == rhs.shape else float('inf')
        rel = err / scale if scale > 0 else err
        if not err <= tol * scale:
            ctx.fail('oracle:' + key, f"law {key} fails on the implementation: |lhs-rhs|={err:g}, data magnitude {scale:g}",
                     dict(rep, law=key, lhs=lhs.tolist(), rhs=rhs.tolist()))
            return False
        sk = 'worst:' + key + (':' + stat if stat else '')
        ctx.stats[sk] = max(ctx.stats.get(sk, 0.0), rel)
        return True

    def one(it, cn, cls, d, isse):
        tm = log_uniform(rng, 1e-6, 1e6)
        Xm, Ym = rand_pose_mats(rng, cn, 2, tm, tm * 1.0000001)
        pm = log_uniform(rng, 1e-6, 1e6) if it % 3 else tm
        P = rng.normal(size=(d, 4)) * pm
        if it % 7 == 0:
            P[rng.integers(d), :] = 0.0
        X, Y = make_pose(cn, [Xm]), make_pose(cn, [Ym])
        tX = float(np.linalg.norm(Xm[:d, d])) if isse else 0.0
        tY = float(np.linalg.norm(Ym[:d, d])) if isse else 0.0
        pn = float(np.max(np.linalg.norm(P, axis=0)))
        sX = max(pn, tX, 1e-300)
        rep = {'class': cn, 'X_hex': hexl(Xm), 'Y_hex': hexl(Ym), 'P_hex': hexl(P), 'P_shape': list(P.shape)}
        ctx.case(('oracle', cn, it, tuple(P[:, 0])))
        XP = np.asarray(X * P, float)
        ref = np.column_stack([ref_apply(cn, Xm, P[:, j]) for j in range(4)])
        chk(f'{cn}:point-is-Rp+t', XP, ref, sX, rep)
        # distances between points are preserved
        for (a, b) in ((0, 1), (2, 3)):
            chk(f'{cn}:distance', np.linalg.norm(XP[:, a] - XP[:, b]), np.linalg.norm(P[:, a] - P[:, b]), sX, rep)
        # handedness: oriented volume (area) of the simplex spanned by d+1 of the points
        E = P[:, 1:d + 1] - P[:, [0]]
        EX = XP[:, 1:d + 1] - XP[:, [0]]
        chk(f'{cn}:handedness', np.linalg.det(EX), np.linalg.det(E), sX * pn ** (d - 1), rep)
        # (X*Y)*p == X*(Y*p)
        chk(f'{cn}:compose', (X * Y) * P, X * (Y * P), max(sX, tY), rep)
        # X.inv()*(X*p) == p
        chk(f'{cn}:inverse', X.inv() * (X * P), P, sX, rep)
        # N separate calls
        for j in range(4):
            chk(f'{cn}:columnwise', XP[:, j], np.asarray(X * P[:, j], float).flatten(), sX, rep)
        # homogeneous-coordinate function route
        if isse:
            chk(f'{cn}:route-homtrans', base.homtrans(Xm, P), XP, sX, rep)
            chk(f'{cn}:route-e2h-h2e', base.h2e(Xm @ base.e2h(P)), XP, sX, rep)
        # homogeneous <-> Euclidean conversion: any non-zero scale of the homogeneous vector is the same point
        k = float(log_uniform(rng, 1e-3, 1e3) * rng.choice([-1.0, 1.0]))
        chk(f'h2e-e2h:{d}D:array', base.h2e(k * base.e2h(P)), P, pn, dict(rep, k=k))
        chk(f'h2e-e2h:{d}D:vector', base.h2e((k * base.e2h(P[:, 0])).flatten()), P[:, 0], pn, dict(rep, k=k))
        chk(f'h2e-e2h:{d}D:list', base.h2e([float(x) for x in (k * base.e2h(P[:, 0])).flatten()]), P[:, 0], pn, dict(rep, k=k))
        if d == 3:
            Rm = Xm[:3, :3]
            t = Xm[:3, 3] if isse else np.zeros(3)
            # regions where the conversion rotation matrix -> quaternion is delicate (the scalar / vector part is tiny): near the
            # identity and near a half turn.  Since fix 1cdf860 r2q is well conditioned there too; the label only splits the
            # measured worst errors.  The tolerance is the property's 1e-9 everywhere.
            band = 'near-half-turn' if (np.trace(Rm) + 1.0) < 1e-9 else ('near-identity' if (3.0 - np.trace(Rm)) < 1e-10 else None)
            ctx.count('oracle:rotation:' + (band or 'generic'))
            try:
                uq = UnitQuaternion(Rm)
                chk(f'{cn}:route-unit-quaternion', np.asarray(uq * P, float) + t.reshape(3, 1), XP, sX, rep, stat=band or 'generic')
                chk(f'{cn}:route-qvmul', base.qvmul(uq.vec, P[:, 0]) + t, XP[:, 0], sX, rep, stat=band or 'generic')
                chk(f'{cn}:route-q2r', base.q2r(uq.vec) @ P + t.reshape(3, 1), XP, sX, rep, stat=band or 'generic')
            except Exception as ex:  # noqa
                ctx.fail(f'oracle:{cn}:route-unit-quaternion:raises-{type(ex).__name__}', f"UnitQuaternion route raises {type(ex).__name__}: {ex}", rep)
            if cn == 'SE3':
                udq_route(ctx, Xm, P[:, 0], XP[:, 0], tX, band, rep)
        return Xm, P

    last = None
    for it in range(N):
        for cn, (cls, d, isse) in CLASSES.items():
            try:
                last = one(it, cn, cls, d, isse)
            except Exception as ex:  # noqa
                ctx.fail(f'oracle:{cn}:raises-{type(ex).__name__}', f"evaluating the laws for {cn} raises {type(ex).__name__}: {ex}",
                         {'class': cn, 'iteration': it, 'seed': ctx.seed})
    if not ctx.stats.get('oracle:SE3:route-dual-quaternion:agrees-with-nonzero-translation'):
        ctx.fail('oracle:SE3:route-dual-quaternion:never-exercised', "the dual-quaternion route never agreed with X * p on an input with a non-zero translation",
                 no_input=True)
    if last is not None:
        ctx.sample({'kind': 'oracle', 'law': 'SE3:compose', 'X': last[0].tolist(), 'P': last[1].tolist()})


def ref_inv(cn, M):
    """independent structured inverse [R', -R' t] (R' for SO(n))"""
    cls, d, isse = CLASSES[cn]
    if not isse:
        return M.T.copy()
    Ti = np.eye(d + 1)
    Ti[:d, :d] = M[:d, :d].T
    Ti[:d, d] = -M[:d, :d].T @ M[:d, d]
    return Ti


def oracle_multi(ctx):
    """the laws for MULTI-valued poses (lengths 2..5, every class, generic rotation AND translation together), element
    by element and through every way of inverting: inv(), /, ** -1.  The multi-valued branches of inv(), _op2 and
    __pow__ are separate code paths from the single-valued ones."""
    rng = ctx.rng
    N = ctx.n(40, 1500)

    def chk(key, lhs, rhs, scale, rep, tol=REL):
        lhs, rhs = np.asarray(lhs, float), np.asarray(rhs, float)
        ctx.count('oracle:' + key)
        if lhs.size == rhs.size and lhs.shape != rhs.shape:
            lhs = lhs.reshape(rhs.shape)
        err = float(np.max(np.abs(lhs - rhs))) if lhs.shape == rhs.shape else float('inf')
        rel = err / scale if scale > 0 else err
        if not err <= tol * scale:
            ctx.fail('oracle:' + key, f"law {key} fails on the implementation: |lhs-rhs|={err:g}, data magnitude {scale:g} (shapes {lhs.shape} vs {rhs.shape})",
                     dict(rep, law=key, lhs=lhs.tolist(), rhs=rhs.tolist()))
            return False
        ctx.stats['worst:' + key] = max(ctx.stats.get('worst:' + key, 0.0), rel)
        return True

    def one(it, cn, cls, d, isse, L):
        # generic rotations (angle away from 0) together with non-zero translations; magnitudes 1e-6..1e6 every third case
        tm = log_uniform(rng, 1e-6, 1e6) if it % 3 == 0 else log_uniform(rng, 0.1, 10)
        pm = log_uniform(rng, 1e-6, 1e6) if it % 3 == 0 else log_uniform(rng, 0.1, 10)
        Xm = [generic_pose(rng, cn, tm) for _ in range(L)]
        Ym = [generic_pose(rng, cn, tm) for _ in range(L)]
        p = rng.normal(size=d) * pm
        X, Y, Y1 = make_pose(cn, Xm), make_pose(cn, Ym), make_pose(cn, Ym[:1])
        tX = max(float(np.linalg.norm(m[:d, d])) if isse else 0.0 for m in Xm + Ym)
        sc = max(float(np.linalg.norm(p)), tX, 1e-300)
        rep = {'class': cn, 'len': L, 'X_hex': [hexl(m) for m in Xm], 'Y_hex': [hexl(m) for m in Ym], 'p_hex': hexl(p)}
        ctx.case(('oracle-multi', cn, L, it, tuple(p)))
        key = f'multi:{cn}'
        Xp_ref = np.column_stack([ref_apply(cn, m, p) for m in Xm])
        Xp = np.asarray(X * p, float)
        chk(f'{key}:point-is-Rp+t', Xp, Xp_ref, sc, rep)
        # ---- multi-valued pose x (d x L) array: column i is value i applied to column i (branch repaired by fix 86fcbcb)
        PL = rng.normal(size=(d, L)) * float(np.linalg.norm(p))
        try:
            chk(f'{key}:array-by-columns', X * PL, np.column_stack([ref_apply(cn, Xm[i], PL[:, i]) for i in range(L)]), sc, dict(rep, P_hex=hexl(PL)))
        except Exception as ex:  # noqa
            ctx.fail(f'oracle:{key}:array-by-columns:regression-86fcbcb-raises-{type(ex).__name__}', f"{cn} of length {L} times a {d} x {L} array raises {type(ex).__name__}: {ex}", rep)
        # ---- inverse, three ways, element by element: value i of the inverse undoes value i
        ways = {'inv()': lambda: X.inv(), 'pow(-1)': lambda: X ** -1, 'identity/X': lambda: make_pose(cn, [np.eye(d + 1 if isse else d)]) / X}
        for wname, mkinv in ways.items():
            try:
                Xi = mkinv()
            except Exception as ex:  # noqa
                ctx.fail(f'oracle:{key}:inverse:{wname}:raises-{type(ex).__name__}', f"{cn} of length {L}: {wname} raises {type(ex).__name__}: {ex}", rep)
                continue
            if len(Xi) != L:
                ctx.fail(f'oracle:{key}:inverse:{wname}:length', f"{cn} of length {L}: {wname} holds {len(Xi)} values", rep)
                continue
            tol = REL
            mats_ref = np.array([ref_inv(cn, m) for m in Xm])
            chk(f'{key}:inverse:{wname}:matrix', np.array([x.A for x in Xi]), mats_ref, max(1.0, tX), rep, tol=tol)
            back = np.column_stack([np.asarray(Xi[i] * Xp_ref[:, i], float).flatten() for i in range(L)])
            chk(f'{key}:inverse:{wname}:elementwise', back, np.tile(p.reshape(d, 1), (1, L)), sc, rep, tol=tol)
            # (X.inv() * X) * p : L copies of p
            chk(f'{key}:inverse:{wname}:(Xinv*X)*p', (Xi * X) * p, np.tile(p.reshape(d, 1), (1, L)), sc, rep, tol=tol)
            chk(f'{key}:inverse:{wname}:(X*Xinv)*p', (X * Xi) * p, np.tile(p.reshape(d, 1), (1, L)), sc, rep, tol=tol)
        # (X / X) * p and (Y / X)[i] * (X[i] * p) == Y[i] * p
        chk(f'{key}:div:(X/X)*p', (X / X) * p, np.tile(p.reshape(d, 1), (1, L)), sc, rep)
        YX = Y / X
        chk(f'{key}:div:(Y/X)[i]*(X[i]*p)', np.column_stack([np.asarray(YX[i] * Xp_ref[:, i], float).flatten() for i in range(L)]),
            np.column_stack([ref_apply(cn, m, p) for m in Ym]), sc, rep)
        # ---- composition: the four length combinations, against the reference and against X*(Y*p) element by element
        XYp_ref = np.column_stack([ref_apply(cn, Xm[i], ref_apply(cn, Ym[i], p)) for i in range(L)])
        chk(f'{key}:compose:MxM', (X * Y) * p, XYp_ref, sc, rep)
        Yp = np.asarray(Y * p, float)
        chk(f'{key}:compose:MxM:elementwise', (X * Y) * p, np.column_stack([np.asarray(X[i] * Yp[:, i], float).flatten() for i in range(L)]), sc, rep)
        chk(f'{key}:compose:Mx1', (X * Y1) * p, np.column_stack([ref_apply(cn, Xm[i], ref_apply(cn, Ym[0], p)) for i in range(L)]), sc, rep)
        chk(f'{key}:compose:1xM', (Y1 * X) * p, np.column_stack([ref_apply(cn, Ym[0], ref_apply(cn, Xm[i], p)) for i in range(L)]), sc, rep)
        return Xm, p

    def one_uq(it, L):
        """multi-valued UnitQuaternion objects (a different generic rotation per value): products, inverse, quotient, per value"""
        Rs = [generic_pose(rng, 'SO3', 1.0) for _ in range(L)]
        Ss = [generic_pose(rng, 'SO3', 1.0) for _ in range(L)]
        p = rng.normal(size=3) * log_uniform(rng, 1e-6, 1e6)
        sc = float(np.linalg.norm(p))
        U, V = UnitQuaternion([UnitQuaternion(R) for R in Rs]), UnitQuaternion([UnitQuaternion(S) for S in Ss])
        rep = {'class': 'UnitQuaternion', 'len': L, 'R_hex': [hexl(R) for R in Rs], 'S_hex': [hexl(S) for S in Ss], 'p_hex': hexl(p)}
        ctx.case(('oracle-multi', 'UQ', L, it, tuple(p)))
        copies = np.tile(p.reshape(3, 1), (1, L))
        chk('multi:UQ:point-is-Rp', U * p, np.column_stack([R @ p for R in Rs]), sc, rep)
        chk('multi:UQ:compose:MxM', (U * V) * p, np.column_stack([Rs[i] @ Ss[i] @ p for i in range(L)]), sc, rep)
        chk('multi:UQ:compose:Mx1', (U * V[0]) * p, np.column_stack([Rs[i] @ Ss[0] @ p for i in range(L)]), sc, rep)
        chk('multi:UQ:compose:1xM', (V[0] * U) * p, np.column_stack([Ss[0] @ Rs[i] @ p for i in range(L)]), sc, rep)
        chk('multi:UQ:inverse:(Uinv*U)*p', (U.inv() * U) * p, copies, sc, rep)
        chk('multi:UQ:inverse:elementwise', np.column_stack([np.asarray(U.inv()[i] * (Rs[i] @ p), float).flatten() for i in range(L)]), copies, sc, rep)
        chk('multi:UQ:div:(U/V)*p', (U / V) * p, np.column_stack([Rs[i] @ Ss[i].T @ p for i in range(L)]), sc, rep)

    last = None
    for it in range(N):
        try:
            one_uq(it, 2 + (it % 4))
        except Exception as ex:  # noqa
            ctx.fail(f'oracle:multi:UQ:raises-{type(ex).__name__}', f"evaluating the multi-valued UnitQuaternion laws (length {2 + (it % 4)}) raises "
                     f"{type(ex).__name__}: {ex}", {'class': 'UnitQuaternion', 'len': 2 + (it % 4), 'iteration': it, 'seed': ctx.seed})
        for cn, (cls, d, isse) in CLASSES.items():
            L = 2 + (it % 4)
            try:
                last = one(it, cn, cls, d, isse, L)
            except Exception as ex:  # noqa
                ctx.fail(f'oracle:multi:{cn}:raises-{type(ex).__name__}', f"evaluating the multi-valued laws for {cn} (length {L}) raises {type(ex).__name__}: {ex}",
                         {'class': cn, 'len': L, 'iteration': it, 'seed': ctx.seed})
    if last is not None:
        ctx.sample({'kind': 'oracle-multi', 'law': 'multi:SE3:inverse', 'X': [m.tolist() for m in last[0]], 'p': last[1].tolist()})


def generic_pose(rng, cn, tmag):
    """group element with a generic rotation (angle in [0.3, pi-0.3], random axis) and a non-zero translation of magnitude tmag"""
    cls, d, isse = CLASSES[cn]
    th = rng.uniform(0.3, math.pi - 0.3) * rng.choice([-1.0, 1.0])
    if d == 3:
        from lib.gens import rot_from_axis_angle
        R = rot_from_axis_angle(rand_unit(rng), th)
    else:
        R = np.array([[math.cos(th), -math.sin(th)], [math.sin(th), math.cos(th)]])
    if not isse:
        return R
    T = np.eye(d + 1)
    T[:d, :d] = R
    T[:d, d] = rand_unit(rng, d) * tmag
    return T


def oracle_products(ctx):
    """PRODUCTS on the quaternion routes: the product of unit quaternions / unit dual quaternions must act as the
    composition, (Xq*Yq)*p == X*(Y*p), and agree with the matrix route -- for operands over the whole group, in particular
    large angles about similar axes (the scalar part of the real-part product is then negative: the other sheet of the
    double cover) and tiny angles 1e-4..1e-2, with non-zero translations.  Both sheets must be exercised."""
    rng = ctx.rng
    N = ctx.n(150, 6000)
    from lib.gens import rot_from_axis_angle

    def chk(key, lhs, rhs, scale, rep, sheet):
        lhs, rhs = np.asarray(lhs, float), np.asarray(rhs, float)
        ctx.count('oracle:' + key)
        if lhs.size == rhs.size and lhs.shape != rhs.shape:
            lhs = lhs.reshape(rhs.shape)
        err = float(np.max(np.abs(lhs - rhs))) if lhs.shape == rhs.shape else float('inf')
        if not err <= REL * scale:
            ctx.fail('oracle:' + key, f"{key} fails on the implementation ({sheet}): |lhs-rhs|={err:g}, data magnitude {scale:g}",
                     dict(rep, law=key, sheet=sheet, lhs=lhs.tolist(), rhs=rhs.tolist()))
            return
        sk = f'worst:{key}:{sheet}'
        ctx.stats[sk] = max(ctx.stats.get(sk, 0.0), err / scale)

    def rot(kind, ax0):
        if kind == 'large':      # 2 .. pi about an axis close to ax0
            ax = ax0 + 0.3 * rng.normal(size=3)
            return rot_from_axis_angle(ax, rng.uniform(2.0, math.pi))
        if kind == 'tiny':
            return rot_from_axis_angle(rand_unit(rng), log_uniform(rng, 1e-4, 1e-2))
        return rand_rot(rng)

    def one(it):
        kinds = [('large', 'large', 'large'), ('any', 'any', 'any'), ('tiny', 'any', 'large'), ('large', 'tiny', 'tiny'), ('tiny', 'tiny', 'tiny')][it % 5]
        ax0 = rand_unit(rng)
        tm = log_uniform(rng, 1e-3, 1e3) if it % 4 else log_uniform(rng, 1e-6, 1e6)
        Ms = []
        for kd in kinds:
            T = np.eye(4)
            T[:3, :3] = rot(kd, ax0)
            T[:3, 3] = rand_unit(rng) * tm * rng.uniform(0.2, 1.0)
            Ms.append(T)
        Xm, Ym, Zm = Ms
        pm = log_uniform(rng, 1e-3, 1e3) if it % 4 else tm
        P = rng.normal(size=(3, 3)) * pm
        p = P[:, 0]
        sc_rot = max(float(np.max(np.linalg.norm(P, axis=0))), 1e-300)
        sc = max(sc_rot, tm)
        rep = {'kinds': list(kinds), 'X_hex': hexl(Xm), 'Y_hex': hexl(Ym), 'Z_hex': hexl(Zm), 'P_hex': hexl(P)}
        ctx.case(('oracle-products', it, tuple(p)))
        Rx, Ry, Rz = Xm[:3, :3], Ym[:3, :3], Zm[:3, :3]
        app = lambda M, Q: M[:3, :3] @ Q + M[:3, [3]]
        # ---- unit quaternions (rotation part)
        qx, qy, qz = UnitQuaternion(Rx), UnitQuaternion(Ry), UnitQuaternion(Rz)
        sxy = float(base.qqmul(qx.vec, qy.vec)[0])
        sheet = 'scalar<0' if sxy < 0 else 'scalar>=0'
        ctx.count('oracle:products:UQ:' + sheet)
        chk('products:UQ:(qx*qy)*P', (qx * qy) * P, Rx @ Ry @ P, sc_rot, rep, sheet)
        chk('products:UQ:(qx*qy)*p', (qx * qy) * p, Rx @ Ry @ p, sc_rot, rep, sheet)
        chk('products:UQ:compose', (qx * qy) * P, qx * np.asarray(qy * P, float), sc_rot, rep, sheet)
        chk('products:UQ:(qx*qy*qz)*P', (qx * qy * qz) * P, Rx @ Ry @ Rz @ P, sc_rot, rep, sheet)
        chk('products:UQ:(qx*qy).R', (qx * qy).R, Rx @ Ry, 1.0, rep, sheet)
        chk('products:UQ:qvmul(qqmul)', base.qvmul(base.qqmul(qx.vec, qy.vec), p), Rx @ Ry @ p, sc_rot, rep, sheet)
        chk('products:UQ:(qx/qy)*P', (qx / qy) * P, Rx @ Ry.T @ P, sc_rot, rep, sheet)
        chk('products:UQ:(qx.inv()*qx)*P', (qx.inv() * qx) * P, P, sc_rot, rep, sheet)
        # ---- unit dual quaternions (rigid motion)
        xd, yd, zd = (UnitDualQuaternion(SE3(M, check=False)) for M in Ms)
        xy = xd * yd
        sd = float(xy.real.s)
        sheet_d = 'scalar<0' if sxy < 0 else 'scalar>=0'      # sheet of the exact product (a canonicalising change would hide it in xy.real.s)
        ctx.count('oracle:products:UDQ:' + sheet_d)
        ref_xy = app(Xm, app(Ym, P))
        for j in range(2):
            chk('products:UDQ:(xd*yd)*p', xy * P[:, j], ref_xy[:, j], sc, rep, sheet_d)
            chk('products:UDQ:compose', xy * P[:, j], xd * np.asarray(yd * P[:, j], float).flatten(), sc, rep, sheet_d)
        chk('products:UDQ:(xd*yd*zd)*p', (xd * yd * zd) * p, app(Xm, app(Ym, app(Zm, P)))[:, 0], sc, rep, sheet_d)
        chk('products:UDQ:(xd*yd).SE3()', xy.SE3().A, Xm @ Ym, max(1.0, tm), rep, sheet_d)
        chk('products:UDQ:(xd*yd).SE3()*P', xy.SE3() * P, ref_xy, sc, rep, sheet_d)
        return Xm, p

    last = None
    for it in range(N):
        try:
            last = one(it)
        except Exception as ex:  # noqa
            ctx.fail(f'oracle:products:raises-{type(ex).__name__}', f"evaluating the product laws raises {type(ex).__name__}: {ex}", {'iteration': it, 'seed': ctx.seed})
    for route in ('UQ', 'UDQ'):
        for sheet in ('scalar<0', 'scalar>=0'):
            if not ctx.stats.get(f'oracle:products:{route}:{sheet}'):
                ctx.fail(f'oracle:products:{route}:never-exercised', f"no {route} product with {sheet} of the real-part product was evaluated", no_input=True)
    if last is not None:
        ctx.sample({'kind': 'oracle-products', 'law': 'products:UDQ:(xd*yd)*p', 'X': last[0].tolist(), 'p': last[1].tolist()})


def udq_route(ctx, Xm, p, want, tX, band, rep):
    """UnitDualQuaternion(SE3) * p against X * p; a failure is classified by root cause"""
    try:
        got = np.asarray(UnitDualQuaternion(SE3(Xm, check=False)) * p, float).flatten()
    except Exception as ex:  # noqa
        ctx.fail(f'oracle:SE3:route-dual-quaternion:raises-{type(ex).__name__}', f"UnitDualQuaternion route raises {type(ex).__name__}: {ex}", rep)
        return
    ctx.count('oracle:SE3:route-dual-quaternion')
    sc = max(float(np.linalg.norm(p)), tX, 1e-300)
    e_full = float(np.max(np.abs(got - want))) / sc
    e_rot = float(np.max(np.abs(got - Xm[:3, :3] @ p))) / sc
    rep = dict(rep, got=got.tolist(), want=want.tolist())
    if e_full <= REL:
        if tX > 1e-6 * sc:
            ctx.count('oracle:SE3:route-dual-quaternion:agrees-with-nonzero-translation')
        return
    if e_rot <= REL and tX > REL * sc:
        # the defect repaired by fix 0a28e8d (wrong conjugate): must stay a VIOLATION if it ever comes back
        ctx.fail('oracle:SE3:route-dual-quaternion:regression-0a28e8d-translation-lost', f"UnitDualQuaternion(X) * p = {got.tolist()} equals R p; X * p = R p + t = {want.tolist()}: "
                 "the translation is lost", rep)
    else:
        ctx.fail('oracle:SE3:route-dual-quaternion:value', f"UnitDualQuaternion(X) * p = {got.tolist()} but X * p = {want.tolist()} "
                 f"(relative error {e_full:.3g}; against R p: {e_rot:.3g})", rep)


def run(ctx):
    ctx.rule = ("obligations: theorems of theories/Props/C06.v and C06_dispatch.v over the traces regenerated from /repo; "
                "evaluations: Sym==Num cases + dispatch grid cells (model vs implementation vs independent R p + t) + oracle "
                "evaluations of each law on the implementation (points and translations 1e-6..1e6); a case is distinct by "
                "(cell or law, input) signature")
    ctx.trusted_extra = ["hand model theories/Model/C06_Dispatch.v of the isinstance/shape dispatch in SMPose.__mul__ "
                         "(super_pose.py:956-994), tied by exhaustive grid correspondence (vm_compute vs implementation) on every run",
                         "tr_UQ_mul_{neg,pos}, tr_UDQ_mul_{neg,pos} are concolic paths (one per sign of the scalar part of q1 q2); "
                         "tr_UDQ_v, tr_SE2_minv2_c* and tr_*_ma2_c* are single concolic paths (validity test of the UnitQuaternion "
                         "constructor / of SMUserList.__getitem__ passes); their path conditions are not emitted, the theorems about "
                         "them assume |q| = 1 / use them on group members"]
    with ctx.timed('regenerate'):
        g = build(ctx)
        path = ctx.write_gen(MOD + '.v', g.coq_text())
    for name, why in g.failed:
        ctx.fail('trace:' + name, f"the library call behind trace {name} no longer runs on symbols / no longer has the expected result shape: {why}",
                 {'trace': name, 'reason': why}, no_input=True)
    rc, out, err, dt = ctx.coqc(path)
    if rc != 0:
        ctx.fail('gen:compile', 'generated traces do not compile: ' + err[-800:], no_input=True)
    else:
        ctx.prove('theories/Props/C06.v')
        ctx.prove('theories/Props/C06_dispatch.v')
        with ctx.timed('correspond'):
            try:
                sym_num(ctx, g, MOD, ctx.n(12, 150))
            except Exception as ex:  # noqa
                ctx.fail('corr:harness', f"Sym==Num correspondence could not run: {type(ex).__name__}: {str(ex)[-600:]}", no_input=True)
    with ctx.timed('grid'):
        grid(ctx)
        uq_grid(ctx)
    with ctx.timed('oracle'):
        oracle(ctx)
    with ctx.timed('oracle-multi'):
        oracle_multi(ctx)
    with ctx.timed('oracle-products'):
        oracle_products(ctx)


def replay(ctx, path):
    """./check C06 --replay file : grid findings are re-evaluated on exactly the recorded poses and argument;
    every other key re-runs the check and reports whether the recorded key reproduces"""
    rec = json.load(open(path))
    key, r = rec.get('key', ''), rec.get('replay', {})
    if key.startswith('grid:') and 'poses_hex' in r:
        cn, L, form = r['class'], r['len'], r['form']
        cls, d, isse = CLASSES[cn]
        n = d + 1 if isse else d
        mats = [np.array([float.fromhex(x) for x in m]).reshape(n, n) for m in r['poses_hex']]
        a = np.array([float.fromhex(x) for x in r['arg_hex']]).reshape(r['arg_shape'])
        pts = np.zeros((d, 7))
        cols = a.reshape(d, -1) if form not in ('row',) else a.reshape(-1, 1)
        pts[:, :cols.shape[1]] = cols
        arg, ncol = make_arg(form, pts)
        try:
            res = make_pose(cn, mats) * arg
            obs = ('value', tuple(np.shape(res)), np.asarray(res, float))
        except Exception as ex:  # noqa
            obs = ('raise', type(ex).__name__, str(ex))
        print('observed:', obs[:2])
        spec_check(ctx, cn, L, form, ncol, mats, pts, obs, r)
        hit = any(f.key == key for f in ctx.findings)
        print(('REPRODUCED ' if hit else 'not reproduced: ') + key)
        return 1 if hit else 0
    from lib.main import generic_replay
    import sys
    return generic_replay(ctx, sys.modules[__name__], path)
