"""C03 -- exponential and logarithm are correct and mutually inverse on the whole group.

Pipeline (see docs/C03.md):
  1. T-const : fail-closed AST pass over the modelled functions -> coq/gen/Consts_C03.v (thresholds k*_eps,
               branch skeleton compared with the one the hand model was written against)
  2. T-sym   : concolic traces of individual paths of the real code (rodrigues, trexp, trlog) -> coq/gen/Traces_C03.v
  3. prove   : theories/Props/C03.v (fixed statements) against the regenerated constants / traces
  4. T-num   : hand model (theories/Model/C03_ExpLog.v, extracted to OCaml floats) vs base.trexp/trlog/trexp2 on
               branch- and magnitude-directed inputs that stay a factor 2 away from every threshold
  5. oracle  : the property itself on the implementation (mpmath expm reference, exp(log T) vs T, log(exp S) vs S,
               structure/finiteness of L, class methods), rotation magnitude log-uniform 1e-12..pi and pi-1e-12..pi,
               translations 0..1e6, 2D and 3D
"""
import ast
import re
import math
import os
import warnings
import numpy as np
import sympy
from lib import concolic
from lib.core import REPO
from lib.symtrace import Gen, coq_expr, PrintError
from lib.corr import sym_num
from lib.gens import log_uniform, rand_unit, rot_from_axis_angle

concolic.install()
from spatialmath import base, SE3, SO3, SE2, SO2, Twist3, Twist2  # noqa: E402

warnings.simplefilter('ignore')
MOD = 'Traces_C03'
EPS = float(np.finfo(np.float64).eps)

# ------------------------------------------------------------------------------------------------------------
# 1. T-const: thresholds and branch skeleton from the source AST (fail-closed)
# ------------------------------------------------------------------------------------------------------------
FUNCS = {
    'spatialmath/base/vectors.py': ['unitvec_norm', 'iszerovec', 'iszero', 'isunitvec', 'isunittwist', 'isunittwist2',
                                    'unittwist_norm', 'unittwist2_norm'],
    'spatialmath/base/transformsNd.py': ['iseye', 'skew', 'vex', 'rodrigues'],
    'spatialmath/base/transforms3d.py': ['trlog', 'trexp'],
    'spatialmath/base/transforms2d.py': ['trexp2', 'trlog2'],
}

# (SOFT, see EXPECTED_SOFT) the statement skeleton the hand model (theories/Model/C03_ExpLog.v) was written against: if-tests (local
# variable names replaced by `_`, numeric factors of _eps by `K`), else / return / raise markers, in source order
EXPECTED_SKELETON = {'iseye': ['if len(_) != 2 or _[0] != _[1]', 'return', 'endif', 'return'],
 'isunittwist': ['if len(v) == 6', 'return', 'else', 'raise ValueError', 'endif'],
 'isunittwist2': ['if len(v) == 3', 'return', 'else', 'raise ValueError', 'endif'],
 'isunitvec': ['return'],
 'iszero': ['return'],
 'iszerovec': ['return'],
 'rodrigues': ['if len(w) not in (1, 3)',
               'raise ValueError',
               'endif',
               'if base.iszerovec(w)',
               'if len(w) == 1',
               'return',
               'else',
               'return',
               'endif',
               'endif',
               'if theta is None',
               'endif',
               'return'],
 'skew': ['if len(v) == 1', 'return', 'else', 'if len(v) == 3', 'return', 'else', 'raise ValueError', 'endif', 'endif'],
 'trexp': ['if base.ismatrix(S, (4, 4)) or base.isvector(S, 6)',
           'if base.ismatrix(S, (4, 4))',
           'if check and (not base.isskewa(S))',
           'raise ValueError',
           'endif',
           'else',
           'endif',
           'if base.iszerovec(_)',
           'return',
           'endif',
           'if theta is None',
           'else',
           'if theta == 0',
           'return',
           'else',
           'if not base.isunittwist(_)',
           'raise ValueError',
           'endif',
           'endif',
           'endif',
           'return',
           'else',
           'if base.ismatrix(S, (3, 3)) or base.isvector(S, 3)',
           'if base.ismatrix(S, (3, 3))',
           'if check and (not base.isskew(S))',
           'raise ValueError',
           'endif',
           'else',
           'endif',
           'if theta is not None and (not base.isunitvec(_))',
           'raise ValueError',
           'endif',
           'return',
           'else',
           'raise ValueError',
           'endif',
           'endif'],
 'trexp2': ['if base.ismatrix(S, (3, 3)) or base.isvector(S, 3)',
            'if base.ismatrix(S, (3, 3))',
            'if check and (not base.isskewa(S))',
            'raise ValueError',
            'endif',
            'else',
            'endif',
            'if base.iszerovec(_)',
            'return',
            'endif',
            'if theta is None',
            'else',
            'if not base.isunittwist2(_)',
            'raise ValueError',
            'endif',
            'endif',
            'return',
            'else',
            'if base.ismatrix(S, (2, 2)) or base.isvector(S, 1)',
            'if base.ismatrix(S, (2, 2))',
            'if check and (not base.isskew(S))',
            'raise ValueError',
            'endif',
            'else',
            'endif',
            'if theta is not None and (not base.isunitvec(_))',
            'raise ValueError',
            'endif',
            'return',
            'else',
            'raise ValueError',
            'endif',
            'endif'],
 'trlog': ['if ishom(T, check=check)',
           'if base.iseye(T)',
           'if twist',
           'return',
           'else',
           'return',
           'endif',
           'else',
           'if base.iseye(_)',
           'if twist',
           'return',
           'else',
           'return',
           'endif',
           'else',
           'if _ == 0',
           'else',
           'endif',
           'if twist',
           'return',
           'else',
           'return',
           'endif',
           'endif',
           'endif',
           'else',
           'if isrot(T, check=check)',
           'if base.iseye(_)',
           'if twist',
           'return',
           'else',
           'return',
           'endif',
           'else',
           'if abs(np.trace(_) + 1) < K * _eps',
           'if np.dot(_, _) < 0',
           'endif',
           'if twist',
           'return',
           'else',
           'return',
           'endif',
           'else',
           'if _ == 0',
           'if twist',
           'return',
           'else',
           'return',
           'endif',
           'endif',
           'if twist',
           'return',
           'else',
           'return',
           'endif',
           'endif',
           'endif',
           'else',
           'raise ValueError',
           'endif',
           'endif'],
 'trlog2': ['if ishom2(T, check=check)',
            'if base.iseye(T)',
            'if twist',
            'return',
            'else',
            'return',
            'endif',
            'else',
            'if twist',
            'return',
            'else',
            'return',
            'endif',
            'endif',
            'else',
            'if isrot2(T, check=check)',
            'if twist',
            'return',
            'else',
            'return',
            'endif',
            'else',
            'raise ValueError',
            'endif',
            'endif'],
 'unittwist2_norm': ['if iszero(_)', 'else', 'endif', 'return'],
 'unittwist_norm': ['if iszerovec(S, tol=tol)', 'return', 'endif', 'if iszerovec(_)', 'else', 'endif', 'return'],
 'unitvec_norm': ['if _ >= K * _eps', 'return', 'else', 'return', 'endif'],
 'vex': ['if s.shape == (3, 3)',
         'if check and (not isskew(s))',
         'raise ValueError',
         'endif',
         'return',
         'else',
         'if s.shape == (2, 2)',
         'return',
         'else',
         'raise ValueError',
         'endif',
         'endif']}

# SOFT since round 5 (see EXPECTED_GUARDS_PLAIN for the hard one): guard multiset with single-assignment locals inlined; (tests, flag parameters)
EXPECTED_GUARDS = {'iseye': (['len(S.shape) != 2 or S.shape[0] != S.shape[1]'], []),
 'isunittwist': (['len(v) == 6'], []),
 'isunittwist2': (['len(v) == 3'], []),
 'isunitvec': ([], []),
 'iszero': ([], []),
 'iszerovec': ([], []),
 'rodrigues': (['base.iszerovec(w)', 'len(w) == 1', 'len(w) not in (1, 3)', 'theta is None'], []),
 'skew': (['len(v) == 1', 'len(v) == 3'], []),
 'trexp': (['base.ismatrix(S, (3, 3))',
            'base.ismatrix(S, (3, 3)) or base.isvector(S, 3)',
            'base.ismatrix(S, (4, 4))',
            'base.ismatrix(S, (4, 4)) or base.isvector(S, 6)',
            'base.iszerovec(_)',
            'check and (not base.isskew(S))',
            'check and (not base.isskewa(S))',
            'not base.isunittwist(_)',
            'theta == 0',
            'theta is None',
            'theta is not None and (not base.isunitvec(_))'],
           []),
 'trexp2': (['base.ismatrix(S, (2, 2))',
             'base.ismatrix(S, (2, 2)) or base.isvector(S, 1)',
             'base.ismatrix(S, (3, 3))',
             'base.ismatrix(S, (3, 3)) or base.isvector(S, 3)',
             'base.iszerovec(_)',
             'check and (not base.isskew(S))',
             'check and (not base.isskewa(S))',
             'not base.isunittwist2(_)',
             'theta is None',
             'theta is not None and (not base.isunitvec(_))'],
            []),
 'trlog': (['_ == 0',
            'abs(np.trace(_) + 1) < K * _eps',
            'base.iseye(T)',
            'base.iseye(_)',
            'base.iseye(_)',
            'base.norm(base.vex(_)) == 0',
            'ishom(T, check=check)',
            'isrot(T, check=check)',
            'np.dot(_, base.vex((_ - _.T) / 2)) < 0'],
           ['twist']),
 'trlog2': (['_ == 0', 'base.iseye(T)', 'ishom2(T, check=check)', 'isrot2(T, check=check)'], ['twist']),
 'unittwist2_norm': (['iszero(S[2])'], []),
 'unittwist_norm': (['iszerovec(S, tol=tol)', 'iszerovec(S[3:6])'], []),
 'unitvec_norm': (['np.linalg.norm(v) >= K * _eps'], []),
 'vex': (['check and (not isskew(s))', 's.shape == (2, 2)', 's.shape == (3, 3)'], [])}

# HARD: the PLAIN guard multiset (no inlining: every local is `_`)
EXPECTED_GUARDS_PLAIN = {'iseye': (['len(_) != 2 or _[0] != _[1]'], []),
 'isunittwist': (['len(v) == 6'], []),
 'isunittwist2': (['len(v) == 3'], []),
 'isunitvec': ([], []),
 'iszero': ([], []),
 'iszerovec': ([], []),
 'rodrigues': (['base.iszerovec(w)', 'len(w) == 1', 'len(w) not in (1, 3)', 'theta is None'], []),
 'skew': (['len(v) == 1', 'len(v) == 3'], []),
 'trexp': (['base.ismatrix(S, (3, 3))',
            'base.ismatrix(S, (3, 3)) or base.isvector(S, 3)',
            'base.ismatrix(S, (4, 4))',
            'base.ismatrix(S, (4, 4)) or base.isvector(S, 6)',
            'base.iszerovec(_)',
            'check and (not base.isskew(S))',
            'check and (not base.isskewa(S))',
            'not base.isunittwist(_)',
            'theta == 0',
            'theta is None',
            'theta is not None and (not base.isunitvec(_))'],
           []),
 'trexp2': (['base.ismatrix(S, (2, 2))',
             'base.ismatrix(S, (2, 2)) or base.isvector(S, 1)',
             'base.ismatrix(S, (3, 3))',
             'base.ismatrix(S, (3, 3)) or base.isvector(S, 3)',
             'base.iszerovec(_)',
             'check and (not base.isskew(S))',
             'check and (not base.isskewa(S))',
             'not base.isunittwist2(_)',
             'theta is None',
             'theta is not None and (not base.isunitvec(_))'],
            []),
 'trlog': (['_ == 0',
            '_ == 0',
            'abs(np.trace(_) + 1) < K * _eps',
            'base.iseye(T)',
            'base.iseye(_)',
            'base.iseye(_)',
            'ishom(T, check=check)',
            'isrot(T, check=check)',
            'np.dot(_, _) < 0'],
           ['twist']),
 'trlog2': (['_ == 0', 'base.iseye(T)', 'ishom2(T, check=check)', 'isrot2(T, check=check)'], ['twist']),
 'unittwist2_norm': (['iszero(_)'], []),
 'unittwist_norm': (['iszerovec(S, tol=tol)', 'iszerovec(_)'], []),
 'unitvec_norm': (['_ >= K * _eps'], []),
 'vex': (['check and (not isskew(s))', 's.shape == (2, 2)', 's.shape == (3, 3)'], [])}

# SOFT: callees / numeric constants / raised kinds (and EXPECTED_SKELETON above): a difference only escalates T-num
EXPECTED_SOFT = {'iseye': {'calls': ['eye', 'len', 'norm'], 'consts': ['0', '1', '10', '2'], 'raises': []},
 'isunittwist': {'calls': ['getvector', 'isunitvec', 'len', 'norm'], 'consts': ['0', '10', '3', '6'], 'raises': ['ValueError']},
 'isunittwist2': {'calls': ['abs', 'getvector', 'isunitvec', 'len'], 'consts': ['0', '10', '2', '3'], 'raises': ['ValueError']},
 'isunitvec': {'calls': ['_asdouble', 'abs', 'norm'], 'consts': ['1', '10'], 'raises': []},
 'iszero': {'calls': ['abs'], 'consts': ['10'], 'raises': []},
 'iszerovec': {'calls': ['_asdouble', 'norm'], 'consts': ['10'], 'raises': []},
 'rodrigues': {'calls': ['ValueError', 'cos', 'eye', 'getvector', 'iszerovec', 'len', 'sin', 'skew', 'unitvec_norm'],
               'consts': ['0', '1', '1.0', '2', '3'],
               'raises': ['ValueError']},
 'skew': {'calls': ['ValueError', 'array', 'getvector', 'len'], 'consts': ['0', '1', '2', '3'], 'raises': ['ValueError']},
 'trexp': {'calls': ['ValueError',
                     'cos',
                     'eye',
                     'getvector',
                     'ismatrix',
                     'isskew',
                     'isskewa',
                     'isunittwist',
                     'isunitvec',
                     'isvector',
                     'iszerovec',
                     'rodrigues',
                     'rt2tr',
                     'sin',
                     'skew',
                     'unittwist_norm',
                     'vex',
                     'vexa'],
           'consts': ['0', '1.0', '3', '4', '6'],
           'raises': ['ValueError', 'ValueError', 'ValueError', 'ValueError', 'ValueError']},
 'trexp2': {'calls': ['ValueError',
                      'cos',
                      'eye',
                      'getvector',
                      'ismatrix',
                      'isskew',
                      'isskewa',
                      'isunittwist2',
                      'isunitvec',
                      'isvector',
                      'iszerovec',
                      'rodrigues',
                      'rt2tr',
                      'sin',
                      'skew',
                      'unittwist2_norm',
                      'vex',
                      'vexa'],
            'consts': ['0', '1', '1.0', '2', '3'],
            'raises': ['ValueError', 'ValueError', 'ValueError', 'ValueError', 'ValueError']},
 'trlog': {'calls': ['Ab2M',
                     'ValueError',
                     'abs',
                     'argmax',
                     'atan2',
                     'diagonal',
                     'dot',
                     'eye',
                     'iseye',
                     'ishom',
                     'isrot',
                     'norm',
                     'skew',
                     'sqrt',
                     'tan',
                     'tr2rt',
                     'trace',
                     'trlog',
                     'vex',
                     'zeros'],
           'consts': ['0', '1', '100', '2', '3', '4', '6'],
           'raises': ['ValueError']},
 'trlog2': {'calls': ['ValueError', 'array', 'atan2', 'iseye', 'ishom2', 'isrot2', 'skew', 'skewa', 'tan', 'zeros'],
            'consts': ['0', '1', '1.0', '2', '3'],
            'raises': ['ValueError']},
 'unittwist2_norm': {'calls': ['abs', 'getvector', 'iszero', 'norm'], 'consts': ['0', '2', '3'], 'raises': []},
 'unittwist_norm': {'calls': ['getvector', 'iszerovec', 'norm'], 'consts': ['0', '10', '3', '6'], 'raises': []},
 'unitvec_norm': {'calls': ['getvector', 'norm'], 'consts': ['10'], 'raises': []},
 'vex': {'calls': ['ValueError', 'array', 'isskew'], 'consts': ['0', '1', '2', '3'], 'raises': ['ValueError', 'ValueError']}}

# threshold sites: function -> (field of the thr record, comparison operator the model uses, which side k*_eps is on)
SITES = {
    'iszerovec': ('k_zero', 'Lt', 'right'), 'iszero': ('k_iszero', 'Lt', 'right'), 'isunitvec': ('k_isunit', 'Lt', 'right'),
    'unitvec_norm': ('k_unit', 'GtE', 'right'), 'iseye': ('k_eye', 'Lt', 'right'), 'trlog': ('k_half', 'Lt', 'right'),
}
# functions that forward / reuse a tolerance: their default must coincide with the field the model uses for them
SAME_DEFAULT = {'isunittwist': 'k_isunit', 'isunittwist2': 'k_isunit', 'unittwist_norm': 'k_zero'}


class TConstError(Exception):
    pass


def _skeleton(fn):
    params = {a.arg for a in fn.args.args}
    stored = {n.id for n in ast.walk(fn) if isinstance(n, ast.Name) and isinstance(n.ctx, ast.Store)}
    local = stored - params

    class Ren(ast.NodeTransformer):
        def visit_Name(self, n):
            return ast.copy_location(ast.Name(id='_' if n.id in local else n.id, ctx=n.ctx), n)

        def visit_BinOp(self, n):
            self.generic_visit(n)
            if isinstance(n.op, ast.Mult) and isinstance(n.right, ast.Name) and n.right.id == '_eps' \
                    and isinstance(n.left, ast.Constant):
                n.left = ast.Name(id='K', ctx=ast.Load())
            return n
    out = []

    def walk(stmts):
        for s in stmts:
            if isinstance(s, ast.If):
                out.append('if ' + ast.unparse(Ren().visit(ast.parse(ast.unparse(s.test), mode='eval').body)))
                walk(s.body)
                if s.orelse:
                    out.append('else')
                    walk(s.orelse)
                out.append('endif')
            elif isinstance(s, ast.Return):
                out.append('return')
            elif isinstance(s, ast.Raise):
                out.append('raise ' + (ast.unparse(s.exc.func) if isinstance(s.exc, ast.Call) else ast.unparse(s.exc)))
            elif isinstance(s, (ast.For, ast.While, ast.With, ast.Try)):
                out.append(type(s).__name__)
                walk(s.body)
    walk(fn.body)
    return out


def _guards(fn, inline=True):
    """HARD part of the correspondence: the multiset of guard expressions of a function, independent of how
    statements are arranged.  A guard is the test of an `if`/`elif`, a conditional expression, a `while` or an
    `assert`.  Normalisation: locals that are assigned exactly once by a plain `name = expr` are inlined, the
    remaining locals are alpha-renamed to `_`, integer/float factors of `_eps` become `K` (their VALUES are
    regenerated separately), `K*_eps > a` is rewritten to `a < K*_eps`.  Tests that are a bare parameter name
    (`twist`) carry no comparison and are recorded as a set, not counted.
    With inline=False every local is `_` (PLAIN form): this is the hard, fail-closed comparison -- operators, constants,
    boolean structure, directly applied callees and the number of guards; the inlined form additionally says WHICH
    quantity is tested, but depends on how temporaries are assigned, so a difference there (with equal plain forms) is
    soft: noted, and the numeric correspondence is escalated."""
    params = {a.arg for a in fn.args.args}
    stores = {}
    for n in ast.walk(fn):
        if isinstance(n, ast.Name) and isinstance(n.ctx, ast.Store):
            stores[n.id] = stores.get(n.id, 0) + 1
    local = set(stores) - params
    single = {}
    for n in ast.walk(fn):
        if isinstance(n, ast.Assign) and len(n.targets) == 1 and isinstance(n.targets[0], ast.Name):
            nm = n.targets[0].id
            if inline and nm in local and stores[nm] == 1:
                single[nm] = n.value
    MIRROR = {ast.Lt: ast.Gt, ast.Gt: ast.Lt, ast.LtE: ast.GtE, ast.GtE: ast.LtE}

    def is_keps(e):
        return isinstance(e, ast.BinOp) and isinstance(e.op, ast.Mult) and isinstance(e.right, ast.Name) and e.right.id == '_eps'

    class Norm(ast.NodeTransformer):
        def __init__(self):
            self.depth = 0

        def visit_Name(self, n):
            if n.id in single and self.depth < 6:
                self.depth += 1
                r = self.visit(ast.parse(ast.unparse(single[n.id]), mode='eval').body)
                self.depth -= 1
                return r
            return ast.Name(id='_' if n.id in local else n.id, ctx=ast.Load())

        def visit_BinOp(self, n):
            self.generic_visit(n)
            if is_keps(n) and isinstance(n.left, ast.Constant):
                n.left = ast.Name(id='K', ctx=ast.Load())
            return n

        def visit_Compare(self, n):
            self.generic_visit(n)
            if len(n.ops) == 1 and is_keps(n.left) and type(n.ops[0]) in MIRROR:
                n = ast.Compare(left=n.comparators[0], ops=[MIRROR[type(n.ops[0])]()], comparators=[n.left])
            return n
    tests, flags = [], set()
    for n in ast.walk(fn):
        if isinstance(n, (ast.If, ast.IfExp, ast.While, ast.Assert)):
            t = n.test
            if isinstance(t, ast.Name) and t.id in params:
                flags.add(t.id)
                continue
            tests.append(ast.unparse(Norm().visit(ast.parse(ast.unparse(t), mode='eval').body)))
    return sorted(tests), sorted(flags)


def _soft(fn):
    """SOFT part: statement skeleton, callee set, numeric constants, raised exception kinds.  A difference here with
    identical guards is not a failure: it escalates the numeric correspondence to its thorough size and is noted."""
    calls, consts, raises = set(), set(), []
    doc = ast.get_docstring(fn)
    for n in ast.walk(fn):
        if isinstance(n, ast.Call):
            f = n.func
            calls.add(f.attr if isinstance(f, ast.Attribute) else (f.id if isinstance(f, ast.Name) else ast.unparse(f)))
        elif isinstance(n, ast.Constant) and isinstance(n.value, (int, float)) and not isinstance(n.value, bool):
            consts.add(repr(n.value))
        elif isinstance(n, ast.Raise) and n.exc is not None:
            raises.append(ast.unparse(n.exc.func) if isinstance(n.exc, ast.Call) else ast.unparse(n.exc))
    return {'skeleton': _skeleton(fn), 'calls': sorted(calls), 'consts': sorted(consts), 'raises': sorted(raises)}


def _defaults(fn):
    a = fn.args
    d = {}
    for arg, val in zip(a.args[len(a.args) - len(a.defaults):], a.defaults):
        if isinstance(val, ast.Constant):
            d[arg.arg] = val.value
    return d


def _eps_compares(fn):
    """every Compare in fn one side of which is `k * _eps` (k a literal or a defaulted parameter): (op, k, side)"""
    dflt = _defaults(fn)
    res = []
    for n in ast.walk(fn):
        if isinstance(n, ast.Compare) and len(n.ops) == 1:
            for side, e in (('left', n.left), ('right', n.comparators[0])):
                if isinstance(e, ast.BinOp) and isinstance(e.op, ast.Mult) and isinstance(e.right, ast.Name) and e.right.id == '_eps':
                    if isinstance(e.left, ast.Constant):
                        k = e.left.value
                    elif isinstance(e.left, ast.Name) and e.left.id in dflt:
                        k = dflt[e.left.id]
                    else:
                        raise TConstError(f"{fn.name}: threshold factor `{ast.unparse(e.left)}` is neither a literal nor a defaulted parameter")
                    op = type(n.ops[0]).__name__
                    if side == 'left':      # canonical form: k*_eps on the right (`k*_eps < a` is `a > k*_eps`)
                        op, side = {'Lt': 'Gt', 'Gt': 'Lt', 'LtE': 'GtE', 'GtE': 'LtE'}.get(op, op), 'right'
                    res.append((op, k, side, n.lineno))
    return sorted(res, key=lambda r: r[3])


TSOFT = [('spatialmath/base/vectors.py', 'unitvec_norm'), ('spatialmath/base/vectors.py', 'iszerovec'), ('spatialmath/base/vectors.py', 'iszero'),
         ('spatialmath/base/vectors.py', 'isunitvec'), ('spatialmath/base/vectors.py', 'isunittwist'), ('spatialmath/base/vectors.py', 'isunittwist2'),
         ('spatialmath/base/vectors.py', 'unittwist_norm'), ('spatialmath/base/vectors.py', 'unittwist2_norm'),
         ('spatialmath/base/transformsNd.py', 'iseye'), ('spatialmath/base/transformsNd.py', 'skew'), ('spatialmath/base/transformsNd.py', 'vex'),
         ('spatialmath/base/transformsNd.py', 'rodrigues'), ('spatialmath/base/transforms3d.py', 'trlog'), ('spatialmath/base/transforms3d.py', 'trexp'),
         ('spatialmath/base/transforms2d.py', 'trexp2'), ('spatialmath/base/transforms2d.py', 'trlog2')]
_TSOFT_STOP = {'unitvec_norm', 'iszerovec', 'iszero', 'isunitvec', 'isunittwist', 'isunittwist2', 'unittwist_norm', 'unittwist2_norm', 'iseye', 'skew',
               'vex', 'rodrigues', 'trlog', 'trexp', 'trexp2', 'trlog2'}


def _tsoft_same(nm):
    from lib import tsoft
    for rel, q in TSOFT:
        if q == nm:
            return tsoft.same_thresholds(REPO, 'C03', rel, q, _TSOFT_STOP - {q})
    return False, None, None


def tconst(ctx):
    """returns dict field -> integer threshold factor; raises TConstError when the model no longer corresponds"""
    fns = {}
    for f, names in FUNCS.items():
        src = open(os.path.join(REPO, f)).read()
        tree = ast.parse(src)
        for n in tree.body:
            if isinstance(n, ast.FunctionDef) and n.name in names:
                fns[n.name] = n
        if 'vectors.py' in f:
            # _eps itself
            ok = any(isinstance(n, ast.Assign) and ast.unparse(n) == '_eps = np.finfo(np.float64).eps' for n in tree.body)
            if not ok:
                raise TConstError("vectors._eps is no longer np.finfo(np.float64).eps")
    for names in FUNCS.values():
        for nm in names:
            if nm not in fns:
                raise TConstError(f"modelled function {nm} not found")
    soft_diff = []
    for nm, fn in fns.items():
        tests, flags = _guards(fn, inline=False)
        etests, eflags = EXPECTED_GUARDS_PLAIN[nm]
        if (tests != etests or flags != eflags) and _tsoft_same(nm)[0]:
            # restructured (helpers extracted, guards hoisted into locals, ...) but every numeric threshold of the function and of the
            # same-module helpers it calls is the recorded one: not a broken tie by itself -- the execution correspondence decides
            soft_diff.append(f"{nm}: guards (thresholds unchanged)")
            continue
        if tests != etests or flags != eflags:
            extra = [t for t in tests if tests.count(t) > etests.count(t)] + [f for f in flags if f not in eflags]
            missing = [t for t in etests if etests.count(t) > tests.count(t)] + [f for f in eflags if f not in flags]
            raise TConstError(f"the guards (branch conditions) of {nm} differ from the modelled ones: "
                              f"not in the model: {sorted(set(extra))}; modelled but no longer in the source: {sorted(set(missing))}")
        so = _soft(fn)
        es = dict(EXPECTED_SOFT[nm], skeleton=EXPECTED_SKELETON[nm])
        d = [k for k in ('skeleton', 'calls', 'consts', 'raises') if so[k] != es[k]]
        if tuple(_guards(fn, inline=True)) != tuple(EXPECTED_GUARDS[nm]):
            d.append('tested-quantities')
        if d:
            soft_diff.append(f"{nm}: {'/'.join(d)}")
    ctx.stats['tconst:restructured'] = soft_diff
    if soft_diff:
        ctx.notes.append("T-const: same guards, thresholds and comparison operators as the model, but statement structure / callees / "
                         "constants differ in " + "; ".join(soft_diff) + " -> numeric correspondence escalated to its thorough size")
    K = {}
    for nm, (field, op, side) in SITES.items():
        cmps = _eps_compares(fns[nm])
        if len(cmps) != 1:
            same, found, _b = _tsoft_same(nm)
            ks = [m for m in (re.fullmatch(r'cmp (\w+) (?:\w+=)?(\d+)\*eps', t) for t in sorted(set(found or []))) if m]
            if same and len(ks) == 1 and ks[0].group(1) == op:
                K[field] = int(ks[0].group(2))
                soft_diff.append(f"{nm}: threshold comparison moved into a helper (value and operator unchanged)")
                continue
            raise TConstError(f"{nm}: expected exactly one comparison with k*_eps, found {len(cmps)}")
        o, k, s, _ = cmps[0]
        if o != op or s != side:
            raise TConstError(f"{nm}: comparison is {o} with k*_eps on the {s}, the model has {op} on the {side}")
        if not (isinstance(k, int) and not isinstance(k, bool) and k > 0):
            raise TConstError(f"{nm}: threshold factor {k!r} is not a positive integer literal")
        K[field] = k
    for nm, field in SAME_DEFAULT.items():
        if any(x.startswith(nm + ':') for x in soft_diff) and _tsoft_same(nm)[0]:
            continue
        d = _defaults(fns[nm]).get('tol')
        if d != K[field]:
            raise TConstError(f"{nm}: default tol={d!r} differs from {field}={K[field]} which the model uses for it")
        for o, k, s, _ in _eps_compares(fns[nm]):
            if (o, s) != ('Lt', 'right'):
                raise TConstError(f"{nm}: comparison {o}/{s} with tol*_eps differs from the modelled `<`")
    ctx.stats['thresholds'] = dict(K)
    return K


def consts_text(K):
    return ("(* GENERATED on every run by props/C03.py from the AST of /repo's working tree -- do not edit. *)\n"
            "From Coq Require Import ZArith.\nFrom SM Require Import Model.C03_ExpLog.\n"
            "Definition C03_thr : thr := {| " +
            "; ".join(f"{f} := {K[f]}%Z" for f in ('k_zero', 'k_iszero', 'k_isunit', 'k_unit', 'k_eye', 'k_half')) + " |}.\n")


# ------------------------------------------------------------------------------------------------------------
# 4. hand models: wrappers instantiating the model with the regenerated thresholds, and directed samplers
# ------------------------------------------------------------------------------------------------------------
WRAPPERS = """
(* ---- hand models of theories/Model/C03_ExpLog.v instantiated with the regenerated thresholds ---- *)
From SM Require Import Base.Lin Model.C03_ExpLog.
From SMgen Require Import Consts_C03.
Definition m_trexp_so3 {T} (O : ops T) (w : V3 T) := res_opt (trexp_so3 O C03_thr w).
Definition m_trexp_so3_code {T} (O : ops T) (w : V3 T) : T := res_code O (trexp_so3 O C03_thr w).
Definition m_trexp_so3_th {T} (O : ops T) (w : V3 T) (th : T) := res_opt (trexp_so3_th O C03_thr w th).
Definition m_trexp_se3 {T} (O : ops T) (tw : V6 T) := res_opt (trexp_se3 O C03_thr tw).
Definition m_trexp_se3_th {T} (O : ops T) (tw : V6 T) (th : T) := res_opt (trexp_se3_th O C03_thr tw th).
Definition m_trexp_se3_th_code {T} (O : ops T) (tw : V6 T) (th : T) : T := res_code O (trexp_se3_th O C03_thr tw th).
Definition m_trlog_so3_tw {T} (O : ops T) (Rm : M33 T) := trlog_so3_tw O C03_thr Rm.
Definition m_trlog_so3_mat {T} (O : ops T) (Rm : M33 T) := trlog_so3_mat O C03_thr Rm.
Definition m_trlog_se3_tw {T} (O : ops T) (Tm : M44 T) := trlog_se3_tw O C03_thr Tm.
Definition m_trlog_se3_mat {T} (O : ops T) (Tm : M44 T) := trlog_se3_mat O C03_thr Tm.
Definition m_trexp2_so2 {T} (O : ops T) (w : T) := res_opt (trexp2_so2 O C03_thr w).
Definition m_trexp2_se2 {T} (O : ops T) (tw : V3 T) := res_opt (trexp2_se2 O C03_thr tw).
Definition m_trexp2_se2_th {T} (O : ops T) (tw : V3 T) (th : T) := res_opt (trexp2_se2_th O C03_thr tw th).
(* the vector-theta branch of Twist3.exp / Twist2.exp on a single twist: element t of theta gives trexp(S * t) *)
Definition m_twist3_exp_theta {T} (O : ops T) (tw : V6 T) (t : T) := res_opt (twist3_exp_elem O C03_thr tw t).
Definition m_twist2_exp_theta {T} (O : ops T) (tw : V3 T) (t : T) := res_opt (twist2_exp_elem O C03_thr tw t).
Definition m_trlog2_so2 {T} (O : ops T) (Rm : M22 T) : T := trlog2_so2 O Rm.
Definition m_trlog2_se2_tw {T} (O : ops T) (Tm : M33 T) := trlog2_se2_tw O C03_thr Tm.
"""


class Cycle:
    """sampler that visits its input classes round-robin (every class is hit for any case count >= len)"""
    def __init__(self, ctx, name, classes):
        self.ctx, self.name, self.classes, self.i = ctx, name, classes, 0

    def __call__(self, rng):
        lab, f = self.classes[self.i % len(self.classes)]
        self.i += 1
        self.ctx.count(f'hit:{self.name}:{lab}')
        return f(rng)


def axis(rng):
    r = rng.random()
    if r < 0.25:
        return np.eye(3)[rng.integers(3)] * rng.choice([-1.0, 1.0])
    if r < 0.35:   # two equal components (ties in the argmax of the diagonal)
        a = np.ones(3)
        a[rng.integers(3)] = 0
        return a / np.linalg.norm(a)
    if r < 0.45:   # nearly a coordinate axis
        a = np.eye(3)[rng.integers(3)] + rng.normal(size=3) * log_uniform(rng, 1e-12, 1e-3)
        return a / np.linalg.norm(a)
    return rand_unit(rng)


def trans(rng):
    r = rng.random()
    if r < 0.15:
        return np.zeros(3)
    return rand_unit(rng) * log_uniform(rng, 1e-6, 1e6)


def mk_samplers(ctx, K):
    kz, ku, ke, kh, kiu = K['k_zero'], K['k_unit'], K['k_eye'], K['k_half'], K['k_isunit']
    lo_gen = 2 * max(ku, kz) * EPS

    def so3_vec_classes():
        return [
            ('zero', lambda rng: [np.zeros(3)]),
            ('below-zero-thr', lambda rng: [axis(rng) * rng.uniform(0, kz / 2) * EPS]),
            ('between-zero-and-unit-thr', lambda rng: [axis(rng) * log_uniform(rng, 2 * kz * EPS, ku / 2 * EPS)] if 4 * kz < ku
             else [axis(rng) * 1.0]),
            ('exactly-at-zero-threshold', lambda rng: [np.eye(3)[rng.integers(3)] * rng.choice([-1.0, 1.0]) * kz * EPS]),
            ('tiny', lambda rng: [axis(rng) * log_uniform(rng, lo_gen, 1e-6)]),
            ('mid', lambda rng: [axis(rng) * log_uniform(rng, 1e-6, math.pi)]),
            ('near-pi', lambda rng: [axis(rng) * (math.pi - log_uniform(rng, 1e-12, 1e-1))]),
            ('beyond-pi', lambda rng: [axis(rng) * rng.uniform(math.pi, 10)]),
        ]

    def unit3(rng):
        u = axis(rng)
        return u / np.linalg.norm(u)

    def se3_vec_classes():
        return [
            ('zero', lambda rng: [np.zeros(6)]),
            ('below-zero-thr', lambda rng: [rand_unit(rng, 6) * rng.uniform(0, kz / 2) * EPS]),
            ('pure-translation', lambda rng: [np.r_[trans(rng) + rand_unit(rng) * 1e-3, 0, 0, 0]]),
            ('translation-with-negligible-rotation',
             lambda rng: [np.r_[rand_unit(rng) * log_uniform(rng, 1e-3, 1e3), axis(rng) * rng.uniform(0, kz / 2) * EPS]]),
            ('tiny-rotation', lambda rng: [np.r_[trans(rng), axis(rng) * log_uniform(rng, lo_gen, 1e-6)]]),
            ('mid', lambda rng: [np.r_[trans(rng), axis(rng) * log_uniform(rng, 1e-6, math.pi)]]),
            ('near-pi', lambda rng: [np.r_[trans(rng), axis(rng) * (math.pi - log_uniform(rng, 1e-12, 1e-1))]]),
            ('beyond-pi', lambda rng: [np.r_[trans(rng), axis(rng) * rng.uniform(math.pi, 10)]]),
        ]

    def theta(rng):
        r = rng.random()
        if r < 0.1:
            return 0.0
        if r < 0.5:
            return log_uniform(rng, 1e-12, math.pi) * rng.choice([-1.0, 1.0])
        return rng.uniform(-10, 10)

    def so3_th_classes():
        return [
            ('unit', lambda rng: [unit3(rng), theta(rng)]),
            ('not-unit', lambda rng: [unit3(rng) * (1 + rng.choice([-1, 1]) * log_uniform(rng, 4 * kiu * EPS, 1.0)), theta(rng)]),
        ]

    def se3_th_classes():
        return [
            ('unit-rotational', lambda rng: [np.r_[trans(rng), unit3(rng)], theta(rng)]),
            ('unit-prismatic', lambda rng: [np.r_[unit3(rng), 0, 0, 0], theta(rng)]),
            ('theta-zero', lambda rng: [np.r_[trans(rng), unit3(rng)], 0.0]),
            ('zero-twist', lambda rng: [np.zeros(6), theta(rng)]),
            ('not-unit', lambda rng: [np.r_[trans(rng), unit3(rng) * (1 + rng.choice([-1, 1]) * log_uniform(rng, 4 * kiu * EPS, 0.5))], theta(rng) or 1.0]),
        ]

    # rotation matrices by branch of trlog
    half_band = math.sqrt(kh * EPS)          # |tr+1| = 2(1+cos th) ~ (pi-th)^2  <  kh eps   <=>  pi - th < sqrt(kh eps)

    def R_classes():
        return [
            ('identity', lambda rng: np.eye(3)),
            ('inside-eye-thr', lambda rng: rot_from_axis_angle(axis(rng), rng.uniform(0.05, 0.3) * ke * EPS)),
            ('symmetric-residue-st-zero', lambda rng: np.eye(3) + np.diag(rng.uniform(2, 6, size=3) * ke * EPS * rng.choice([0.0, 1.0, -1.0], size=3) + np.array([3 * ke * EPS, 0, 0]))),
            ('general-tiny', lambda rng: rot_from_axis_angle(axis(rng), log_uniform(rng, 2 * ke * EPS, 5e-9))),
            ('general-small', lambda rng: rot_from_axis_angle(axis(rng), log_uniform(rng, 3e-8, 1e-2))),
            ('general-mid', lambda rng: rot_from_axis_angle(axis(rng), rng.uniform(1e-2, math.pi - 1e-2))),
            ('general-near-pi', lambda rng: rot_from_axis_angle(axis(rng), math.pi - log_uniform(rng, 2 * half_band, 1e-2))),
            ('half-turn-band', lambda rng: rot_from_axis_angle(axis(rng), math.pi - log_uniform(rng, 1e-12, half_band / 2))),
            ('half-turn-exact', lambda rng: rot_from_axis_angle(axis(rng), math.pi)),
        ]

    def T_classes():
        def mk(Rf, tf):
            def f(rng):
                T = np.eye(4)
                T[:3, :3] = Rf(rng)
                T[:3, 3] = tf(rng)
                return [T]
            return f
        cl = [('identity', mk(lambda rng: np.eye(3), lambda rng: np.zeros(3))),
              ('inside-eye-thr', mk(lambda rng: np.eye(3), lambda rng: rand_unit(rng) * rng.uniform(0, ke / 2) * EPS)),
              ('pure-translation', mk(lambda rng: np.eye(3), lambda rng: rand_unit(rng) * log_uniform(rng, 2 * ke * EPS, 1e6)))]
        for lab, Rf in R_classes()[1:]:
            cl.append(('rot:' + lab, mk(Rf, trans)))
        return cl

    def so2_classes():
        return [
            ('zero', lambda rng: [0.0]),
            ('below-zero-thr', lambda rng: [rng.uniform(-1, 1) * kz / 2 * EPS]),
            ('between-zero-and-unit-thr', lambda rng: [rng.choice([-1.0, 1.0]) * log_uniform(rng, 2 * kz * EPS, ku / 2 * EPS)] if 4 * kz < ku else [1.0]),
            ('small', lambda rng: [rng.choice([-1.0, 1.0]) * log_uniform(rng, lo_gen, 1e-3)]),
            ('mid', lambda rng: [rng.uniform(-math.pi, math.pi)]),
            ('many-turns', lambda rng: [rng.uniform(-100, 100)]),
        ]

    def t2(rng):
        return np.zeros(2) if rng.random() < 0.15 else rand_unit(rng, 2) * log_uniform(rng, 1e-6, 1e6)

    def se2_classes():
        return [
            ('zero', lambda rng: [np.zeros(3)]),
            ('below-zero-thr', lambda rng: [rand_unit(rng, 3) * rng.uniform(0, kz / 2) * EPS]),
            ('pure-translation', lambda rng: [np.r_[rand_unit(rng, 2) * log_uniform(rng, 1e-6, 1e6), 0.0]]),
            ('translation-with-negligible-rotation', lambda rng: [np.r_[rand_unit(rng, 2) * log_uniform(rng, 1e-3, 1e3), rng.uniform(-1, 1) * K['k_iszero'] / 2 * EPS]]),
            ('small-rotation', lambda rng: [np.r_[t2(rng), rng.choice([-1.0, 1.0]) * log_uniform(rng, lo_gen, 1e-3)]]),
            ('mid', lambda rng: [np.r_[t2(rng), rng.uniform(-math.pi, math.pi)]]),
            ('many-turns', lambda rng: [np.r_[t2(rng), rng.uniform(-100, 100)]]),
        ]

    def se2_th_classes():
        return [
            ('unit-rotational', lambda rng: [np.r_[t2(rng), rng.choice([-1.0, 1.0])], theta(rng)]),
            ('unit-prismatic', lambda rng: [np.r_[rand_unit(rng, 2), 0.0], theta(rng)]),
            ('not-unit', lambda rng: [np.r_[t2(rng), rng.choice([-1.0, 1.0]) * (1 + log_uniform(rng, 4 * kiu * EPS, 0.5))], theta(rng)]),
        ]
    def ang2(rng):
        r = rng.random()
        sg = rng.choice([-1.0, 1.0])
        if r < 0.3:
            return sg * (math.pi - log_uniform(rng, 1e-15, 1e-3))
        if r < 0.4:
            return sg * math.pi
        if r < 0.6:
            return sg * log_uniform(rng, 1e-12, 1e-2)
        return rng.uniform(-math.pi, math.pi)

    def R2_classes():
        return [
            ('identity', lambda rng: [np.eye(2)]),
            ('tiny', lambda rng: [rot2_np(rng.choice([-1.0, 1.0]) * log_uniform(rng, 1e-17, 1e-9))]),
            ('near-half-turn', lambda rng: [rot2_np(rng.choice([-1.0, 1.0]) * (math.pi - log_uniform(rng, 1e-15, 1e-3)))]),
            ('half-turn', lambda rng: [rot2_np(rng.choice([-1.0, 1.0]) * math.pi)]),
            ('any', lambda rng: [rot2_np(rng.uniform(-math.pi, math.pi))]),
        ]

    def T2_classes():
        def mk(thf, tf):
            def f(rng):
                T = np.eye(3)
                T[:2, :2] = rot2_np(thf(rng))
                T[:2, 2] = tf(rng)
                return [T]
            return f
        big = lambda rng: rand_unit(rng, 2) * log_uniform(rng, 1e-6, 1e6)
        return [
            ('identity', mk(lambda rng: 0.0, lambda rng: np.zeros(2))),
            ('inside-eye-thr', mk(lambda rng: 0.0, lambda rng: rand_unit(rng, 2) * rng.uniform(0, ke / 2) * EPS)),
            ('pure-translation-theta-exactly-zero', mk(lambda rng: 0.0, lambda rng: rand_unit(rng, 2) * log_uniform(rng, 2 * ke * EPS, 1e6))),
            ('tiny-rotation', mk(lambda rng: rng.choice([-1.0, 1.0]) * log_uniform(rng, 2 * ke * EPS, 1e-6), t2)),
            ('near-half-turn', mk(lambda rng: rng.choice([-1.0, 1.0]) * (math.pi - log_uniform(rng, 1e-15, 1e-3)), big)),
            ('half-turn', mk(lambda rng: rng.choice([-1.0, 1.0]) * math.pi, big)),
            ('any', mk(ang2, t2)),
        ]
    C = lambda name, cl: Cycle(ctx, name, cl)
    wrapR = lambda cl: [(lab, (lambda f: lambda rng: [f(rng)])(f)) for lab, f in cl]
    return dict(so3=so3_vec_classes, se3=se3_vec_classes, so3_th=so3_th_classes, se3_th=se3_th_classes,
                R=lambda: wrapR(R_classes()), T=T_classes, so2=so2_classes, se2=se2_classes, se2_th=se2_th_classes,
                R2=R2_classes, T2=T2_classes,
                C=C, R_raw=R_classes)


def err_code(f):
    def g(*a):
        try:
            f(*a)
            return 0.0
        except TypeError:
            return 1.0
        except ValueError:
            return 2.0
    return g


# ------------------------------------------------------------------------------------------------------------
# 2. T-sym: concolic traces of individual paths of the real code (DESIGN 4.1)
# ------------------------------------------------------------------------------------------------------------
def _set_val(pairs):
    concolic.VAL.clear()
    concolic.PATH.clear()
    for name, arr in pairs:
        arr = np.asarray(arr, float)
        if arr.ndim == 0:
            concolic.VAL[sympy.Symbol(name, real=True)] = float(arr)
        elif arr.ndim == 1:
            for i, x in enumerate(arr):
                concolic.VAL[sympy.Symbol(f'{name}{i}', real=True)] = float(x)
        else:
            for i in range(arr.shape[0]):
                for j in range(arr.shape[1]):
                    concolic.VAL[sympy.Symbol(f'{name}{i}{j}', real=True)] = float(arr[i, j])


def _pc_term(path):
    """recorded path condition -> Gallina boolean over the generic ops (fail-closed on unknown relationals)"""
    terms, seen = [], set()
    for rel, truth in path:
        key = (str(rel), truth)
        if key in seen:
            continue
        seen.add(key)
        l, r = coq_expr(rel.lhs), coq_expr(rel.rhs)
        nm = type(rel).__name__
        if nm == 'StrictLessThan':
            t = f"(ltb O {l} {r})"
        elif nm == 'StrictGreaterThan':
            t = f"(ltb O {r} {l})"
        elif nm == 'LessThan':
            t = f"(leb O {l} {r})"
        elif nm == 'GreaterThan':
            t = f"(leb O {r} {l})"
        else:
            raise PrintError(f"unsupported relational {nm}")
        terms.append(t if truth else f"(negb {t})")
    out = "true"
    for t in reversed(terms):
        out = f"(andb {t} {out})"
    return out


def traces(ctx, g):
    """one concolic run per path; returns Coq text of the path conditions pc_<trace>"""
    u = np.array([1.0, 2.0, 2.0]) / 3.0
    pcs = []

    def one(name, inputs, fn, val, sampler):
        _set_val(val)
        with concolic.object_alloc():
            g.trace(name, inputs, fn, num_fn=lambda *a: _quiet(fn, *a), sampler=sampler, tol=1e-9)
        binders = " ".join(f"({an} : {'T' if sh == 'S' else sh + ' T'})" for an, sh in inputs)
        from lib.symtrace import input_pattern
        lets = "".join(f"  let '{input_pattern(an, sh)} := {an} in\n" for an, sh in inputs if sh != 'S')
        pcs.append(f"Definition pc_{name[3:]} {binders} : bool :=\n{lets}  {_pc_term(concolic.PATH)}.\n")
        ctx.stats['path:' + name] = [f"{r} is {t}" for r, t in concolic.PATH]
    unit = lambda rng: (lambda a: a / np.linalg.norm(a))(axis(rng))
    th = lambda rng: float(rng.uniform(-6, 6))
    one('tr_rodrigues_th', [('w', 'V3'), ('th', 'S')], lambda w, t: base.rodrigues(w, t), [('w', u), ('th', 0.7)],
        lambda rng: [unit(rng) * rng.uniform(0.1, 3), th(rng)])
    one('tr_trexp_se3_th', [('tw', 'V6'), ('th', 'S')], lambda tw, t: base.trexp(tw, t), [('tw', np.r_[.3, -.2, .5, u]), ('th', 0.7)],
        lambda rng: [np.r_[rng.normal(size=3), unit(rng)], th(rng) or 1.0])
    one('tr_trexp_se3', [('tw', 'V6')], lambda tw: base.trexp(tw), [('tw', np.r_[.3, -.2, .5, u * 0.7])],
        lambda rng: [np.r_[rng.normal(size=3), unit(rng) * log_uniform(rng, 1e-3, 3.0)]])
    one('tr_trlog_so3_gen', [('R', 'M33')], lambda R: base.trlog(R, check=False, twist=True), [('R', rot_from_axis_angle(u, 0.7))],
        lambda rng: [rot_from_axis_angle(unit(rng), rng.uniform(1e-3, math.pi - 1e-3))])
    concolic.VAL.clear()
    concolic.PATH.clear()
    return ("\n(* ---- path conditions of the concolic traces above (one executed path each) ---- *)\nSection PC.\n"
            "Context {T : Type} (O : ops T).\n"
            "Local Infix \"+\" := (add O). Local Infix \"-\" := (sub O). Local Infix \"*\" := (mul O). Local Infix \"/\" := (div O).\n"
            + "".join(pcs) + "End PC.\n" + "".join(f"Arguments pc_{n} {{T}} O.\n" for n in ('rodrigues_th', 'trexp_se3_th', 'trexp_se3', 'trlog_so3_gen')))


def build(ctx, K):
    g = Gen('C03')
    S = mk_samplers(ctx, K)
    g.pc_text = traces(ctx, g)
    C = S['C']
    M = 'Model.C03_ExpLog'
    tol = 1e-11
    g.model('m_trexp_so3', [('w', 'V3')], 'O:M33', coq='m_trexp_so3', module=M, num_fn=lambda w: base.trexp(w),
            sampler=C('trexp_so3', S['so3']()), tol=tol)
    g.model('m_trexp_so3_code', [('w', 'V3')], 'S', coq='m_trexp_so3_code', module=M, num_fn=err_code(lambda w: base.trexp(w)),
            sampler=C('trexp_so3_code', S['so3']()), tol=tol)
    g.model('m_trexp_so3_th', [('w', 'V3'), ('th', 'S')], 'O:M33', coq='m_trexp_so3_th', module=M,
            num_fn=lambda w, th: base.trexp(w, th), sampler=C('trexp_so3_th', S['so3_th']()), tol=tol)
    g.model('m_trexp_se3', [('tw', 'V6')], 'O:M44', coq='m_trexp_se3', module=M, num_fn=lambda tw: base.trexp(tw),
            sampler=C('trexp_se3', S['se3']()), tol=tol)
    g.model('m_trexp_se3_th', [('tw', 'V6'), ('th', 'S')], 'O:M44', coq='m_trexp_se3_th', module=M,
            num_fn=lambda tw, th: base.trexp(tw, th), sampler=C('trexp_se3_th', S['se3_th']()), tol=tol)
    g.model('m_trexp_se3_th_code', [('tw', 'V6'), ('th', 'S')], 'S', coq='m_trexp_se3_th_code', module=M,
            num_fn=err_code(lambda tw, th: base.trexp(tw, th)), sampler=C('trexp_se3_th_code', S['se3_th']()), tol=tol)
    with_np = lambda f: (lambda *a: _quiet(f, *a))
    g.model('m_trlog_so3_tw', [('R', 'M33')], 'V3', coq='m_trlog_so3_tw', module=M,
            num_fn=with_np(lambda R: base.trlog(R, check=False, twist=True)), sampler=C('trlog_so3_tw', S['R']()), tol=tol)
    g.model('m_trlog_so3_mat', [('R', 'M33')], 'M33', coq='m_trlog_so3_mat', module=M,
            num_fn=with_np(lambda R: base.trlog(R, check=False, twist=False)), sampler=C('trlog_so3_mat', S['R']()), tol=tol)
    g.model('m_trlog_se3_tw', [('T', 'M44')], 'V6', coq='m_trlog_se3_tw', module=M,
            num_fn=with_np(lambda T: base.trlog(T, check=False, twist=True)), sampler=C('trlog_se3_tw', S['T']()), tol=tol)
    g.model('m_trlog_se3_mat', [('T', 'M44')], 'M44', coq='m_trlog_se3_mat', module=M,
            num_fn=with_np(lambda T: base.trlog(T, check=False, twist=False)), sampler=C('trlog_se3_mat', S['T']()), tol=tol)
    g.model('m_trexp2_so2', [('w', 'S')], 'O:M22', coq='m_trexp2_so2', module=M, num_fn=lambda w: base.trexp2([w]),
            sampler=C('trexp2_so2', S['so2']()), tol=tol)
    g.model('m_trexp2_se2', [('tw', 'V3')], 'O:M33', coq='m_trexp2_se2', module=M, num_fn=lambda tw: base.trexp2(tw),
            sampler=C('trexp2_se2', S['se2']()), tol=tol)
    g.model('m_trexp2_se2_th', [('tw', 'V3'), ('th', 'S')], 'O:M33', coq='m_trexp2_se2_th', module=M,
            num_fn=lambda tw, th: base.trexp2(tw, th), sampler=C('trexp2_se2_th', S['se2_th']()), tol=tol)
    def tw3_kinds(rng):
        u_ = axis(rng)
        u_, v_ = u_ / np.linalg.norm(u_), trans(rng)
        k = rng.integers(5)
        tw_ = [np.r_[v_, u_], np.r_[v_, u_ * log_uniform(rng, 1e-3, 3.0)], np.r_[u_, 0, 0, 0], np.r_[u_ * log_uniform(rng, 1e-3, 1e3), 0, 0, 0],
               np.r_[v_, axis(rng) * log_uniform(rng, 1e-9, 1e-3)]][k]
        t_ = [0.0, 1.0, float(rng.uniform(-6, 6)), float(rng.choice([-1.0, 1.0]) * log_uniform(rng, 1e-9, 1e-2)), float(rng.uniform(-400, 400))][rng.integers(5)]
        return [tw_, t_]

    def tw2_kinds(rng):
        v_ = np.zeros(2) if rng.random() < 0.15 else rand_unit(rng, 2) * log_uniform(rng, 1e-6, 1e6)
        k = rng.integers(4)
        tw_ = [np.r_[v_, rng.choice([-1.0, 1.0])], np.r_[v_, rng.uniform(-3, 3)], np.r_[rand_unit(rng, 2), 0.0], np.r_[rand_unit(rng, 2) * log_uniform(rng, 1e-3, 1e3), 0.0]][k]
        t_ = [0.0, 1.0, float(rng.uniform(-6, 6)), float(rng.choice([-1.0, 1.0]) * log_uniform(rng, 1e-9, 1e-2)), float(rng.uniform(-400, 400))][rng.integers(5)]
        return [tw_, t_]
    g.model('m_twist3_exp_theta', [('tw', 'V6'), ('t', 'S')], 'O:M44', coq='m_twist3_exp_theta', module=M,
            num_fn=lambda tw, t: Twist3(tw).exp([t, 0.5 * t])[0].A, sampler=tw3_kinds, tol=tol,
            note='class method, vector-theta branch on a single twist')
    g.model('m_twist2_exp_theta', [('tw', 'V3'), ('t', 'S')], 'O:M33', coq='m_twist2_exp_theta', module=M,
            num_fn=lambda tw, t: Twist2(tw).exp(np.array([0.5 * t, t]))[1].A, sampler=tw2_kinds, tol=tol,
            note='class method, vector-theta branch on a single twist')
    g.model('m_trlog2_so2', [('R', 'M22')], 'S', coq='m_trlog2_so2', module=M,
            num_fn=with_np(lambda R: base.trlog2(R, check=False, twist=True)), sampler=C('trlog2_so2', S['R2']()), tol=tol)
    g.model('m_trlog2_se2_tw', [('T', 'M33')], 'V3', coq='m_trlog2_se2_tw', module=M,
            num_fn=with_np(lambda T: base.trlog2(T, check=False, twist=True)), sampler=C('trlog2_se2_tw', S['T2']()), tol=tol)
    return g, S


def _quiet(f, *a):
    with np.errstate(all='ignore'):
        return f(*a)


# ------------------------------------------------------------------------------------------------------------
# 5. oracle: the property itself on the implementation
# ------------------------------------------------------------------------------------------------------------
TOL = 1e-7
HX = lambda a: [float(x).hex() for x in np.asarray(a, float).flatten()]


def ref_expm(M):
    """50-digit matrix exponential (independent of the library)"""
    import mpmath
    with mpmath.workdps(50):
        E = mpmath.expm(mpmath.matrix(np.asarray(M, float).tolist()))
        return np.array([[float(E[i, j]) for j in range(E.cols)] for i in range(E.rows)])


def skew_np(w):
    return np.array([[0, -w[2], w[1]], [w[2], 0, -w[0]], [-w[1], w[0], 0]], float)


def skewa_np(tw):
    S = np.zeros((4, 4))
    S[:3, :3] = skew_np(tw[3:])
    S[:3, 3] = tw[:3]
    return S


def skewa2_np(tw):
    return np.array([[0, -tw[2], tw[0]], [tw[2], 0, tw[1]], [0, 0, 0]], float)


def rot2_np(th):
    return np.array([[math.cos(th), -math.sin(th)], [math.sin(th), math.cos(th)]])


def rot_mag(rng, upto=math.pi):
    """rotation magnitude: log-uniform 1e-12..pi, pi-1e-12..pi, and the end points"""
    r = rng.random()
    if r < 0.45:
        return min(log_uniform(rng, 1e-12, math.pi), upto)
    if r < 0.8:
        return min(math.pi - log_uniform(rng, 1e-12, 1e-1), upto)
    if r < 0.85:
        return upto
    return rng.uniform(0, upto)


def maxerr(a, b):
    a, b = np.asarray(a), np.asarray(b)
    if a.shape != b.shape or a.dtype == object or b.dtype == object:
        return float('inf')
    with np.errstate(all='ignore'):
        e = np.max(np.abs(a - b)) if a.size else 0.0
    return float(e) if np.isfinite(e) else float('inf')


def oracle(ctx, K):
    rng = ctx.rng
    K = K or dict(k_zero=10, k_iszero=10, k_isunit=10, k_unit=100, k_eye=10, k_half=100)
    ke, kh = K['k_eye'] * EPS, K['k_half'] * EPS
    worst = lambda k, v: ctx.stats.__setitem__('worst:' + k, max(ctx.stats.get('worst:' + k, 0.0), float(v)))

    def call(key, f, replay):
        try:
            with np.errstate(all='ignore'):
                return f()
        except Exception as ex:
            ctx.fail(f'oracle:{key}:raises:{type(ex).__name__}', f"{key} raises {type(ex).__name__}: {ex}", replay)
            return None

    def check(key, got, want, scale, replay, tol=TOL):
        """got vs want to tol*scale; returns error/scale"""
        ctx.count('oracle:' + key)
        e = maxerr(got, want) / scale
        if np.isfinite(e):
            worst(key, e)
        if not e <= tol:
            ctx.fail(f'oracle:{key}', f"{key}: error {e:.3g} (relative to max(1,|t|)) exceeds {tol:g}", dict(replay, got=np.asarray(got).tolist() if np.asarray(got).dtype != object else str(got), want=np.asarray(want).tolist()))
        return e

    # ------------------------------------------------------------------ 3D exp against the reference
    def exp3(n_ref):
        for i in range(n_ref):
            th = rot_mag(rng)
            u, v = axis(rng), trans(rng)
            w = u * th
            tw = np.r_[v, w]
            scale = max(1.0, float(np.linalg.norm(v)))
            rp = {'law': 'exp-ref', 'twist_hex': HX(tw), 'theta': th}
            ctx.case(('exp3', tuple(tw)))
            # so(3)
            R = call('exp3:so3-vector', lambda: base.trexp(w), rp)
            Rref = ref_expm(skew_np(w))
            if R is not None:
                check('exp3:so3-vector:vs-expm', R, Rref, 1.0, rp)
                Rm = call('exp3:so3-matrix', lambda: base.trexp(skew_np(w)), rp)
                if Rm is not None:
                    check('exp3:so3-matrix:vs-vector-form', Rm, R, 1.0, rp, tol=1e-12)
            # se(3)
            T = call('exp3:se3-vector', lambda: base.trexp(tw), rp)
            Tref = ref_expm(skewa_np(tw))
            if T is not None:
                check('exp3:se3-vector:vs-expm', T, Tref, scale, rp)
                Tm = call('exp3:se3-matrix', lambda: base.trexp(skewa_np(tw)), rp)
                if Tm is not None:
                    check('exp3:se3-matrix:vs-vector-form', Tm, T, scale, rp, tol=1e-12)
            # exp(S, theta) = exp(theta S) for a unit twist (rotational: unit w; prismatic: unit v)
            th2 = th * rng.choice([-1.0, 1.0])
            for lab, ut in (('rotational', np.r_[v, u]), ('prismatic', np.r_[u, 0, 0, 0])):
                sc = max(1.0, abs(th2) * float(np.linalg.norm(ut[:3])))
                rp2 = {'law': 'exp-theta', 'unit_twist_hex': HX(ut), 'theta_hex': float(th2).hex()}
                Tt = call(f'exp3:se3-theta-form:{lab}', lambda: base.trexp(ut, th2), rp2)
                if Tt is not None:
                    check(f'exp3:se3-theta-form:{lab}:vs-expm', Tt, ref_expm(skewa_np(ut * th2)), sc, rp2)
            Rt = call('exp3:so3-theta-form', lambda: base.trexp(u, th2), {'law': 'exp-theta', 'axis_hex': HX(u), 'theta_hex': float(th2).hex()})
            if Rt is not None:
                check('exp3:so3-theta-form:vs-expm', Rt, ref_expm(skew_np(u * th2)), 1.0, {'law': 'exp-theta', 'axis_hex': HX(u), 'theta_hex': float(th2).hex()})

    # ------------------------------------------------------------------ 3D log: structure, exp(log T) = T
    def classify3(R):
        if np.linalg.norm(R - np.eye(3)) < ke:
            return 'identity'
        if abs(np.trace(R) + 1) < kh:
            return 'half-turn'
        return 'general'

    def explog3(n):
        for i in range(n):
            r = rng.random()
            th = 0.0 if r < 0.04 else (math.pi if r < 0.08 else rot_mag(rng))
            u = axis(rng)
            R = rot_from_axis_angle(u, th)
            t = trans(rng) if rng.random() < 0.8 else np.zeros(3)
            T = np.eye(4)
            T[:3, :3], T[:3, 3] = R, t
            scale = max(1.0, float(np.linalg.norm(t)))
            br = classify3(R)
            ctx.case(('explog3', tuple(T.flatten())))
            ctx.count('hit:explog3:' + br)
            d = math.pi - th
            for dim, X, sc in (('so3', R, 1.0), ('se3', T, scale)):
                rp = {'law': 'exp(log T) = T', 'T_hex': HX(X), 'theta': th, 'pi_minus_theta': d, 'branch': br}
                Lt = call(f'log3:{dim}:twist-form', lambda: base.trlog(X, check=False, twist=True), rp)
                Lm = call(f'log3:{dim}:matrix-form', lambda: base.trlog(X, check=False, twist=False), rp)
                if Lt is None or Lm is None:
                    continue
                Lt, Lm = np.asarray(Lt), np.asarray(Lm)
                n_t = 3 if dim == 'so3' else 6
                ctx.count(f'oracle:log3:{dim}:structure')
                if Lt.shape != (n_t,) or Lm.shape != X.shape or Lt.dtype.kind != 'f' or Lm.dtype.kind != 'f':
                    ctx.fail(f'oracle:log3:{dim}:not-real-algebra-shape', f"trlog returns shape/dtype {Lt.shape}/{Lt.dtype}, {Lm.shape}/{Lm.dtype}", rp)
                    continue
                if not (np.all(np.isfinite(Lt)) and np.all(np.isfinite(Lm))):
                    ctx.fail(f'oracle:log3:{br}-branch:nonfinite', f"trlog returns non-finite entries for a rotation by {th:g} rad ({br} branch)", rp)
                    continue
                # algebra form: matrix form = skewa / skew of the twist form (exactly skew, last row zero)
                ref_m = skew_np(Lt) if dim == 'so3' else skewa_np(Lt)
                if maxerr(Lm, ref_m) > 1e-12 * max(1.0, float(np.max(np.abs(Lt)))):
                    ctx.fail(f'oracle:log3:{dim}:matrix-form-not-algebra-form-of-twist', "matrix form of the log is not skew/augmented-skew of the twist form", dict(rp, Lm=Lm.tolist(), Lt=Lt.tolist()))
                mag = float(np.linalg.norm(Lt[-3:]))
                worst('log3:rotation-magnitude-minus-pi', max(0.0, mag - math.pi))
                if mag > math.pi + 1e-9:
                    ctx.fail(f'oracle:log3:{dim}:{br}-branch:magnitude-exceeds-pi', f"rotation magnitude of the log is {mag!r} > pi", rp)
                X2 = call(f'explog3:{dim}:exp-of-log', lambda: base.trexp(Lt), rp)
                if X2 is None:
                    continue
                e = maxerr(X2, X) / sc
                ctx.count(f'oracle:explog3:{dim}')
                if e <= TOL:
                    worst(f'explog3:{dim}:{br}', e)
                    continue
                key = f'{br}-branch:error'     # (the acos / exact-half-turn defects repaired by 84bd1d7 would reappear here)
                ctx.fail(f'oracle:explog3:{key}', f"exp(log T) differs from T by {e:.3g} (rel. to max(1,|t|)) for a rotation by pi-{d:.3g} ({br} branch)", dict(rp, error=e))
                # independent reference as well (does not depend on trexp)
            if i % 10 == 0 and br == 'general' and 1e-6 < th < math.pi - 1e-2:
                Lm = base.trlog(T, check=False)
                check('explog3:se3:reference-expm-of-log', ref_expm(Lm), T, scale, {'law': 'expm(log T) = T', 'T_hex': HX(T)})

    # ------------------------------------------------------------------ 3D log(exp S) = S up to pi - 1e-6
    def logexp3(n):
        for i in range(n):
            th = rot_mag(rng, upto=math.pi - 1e-6)
            u, v = axis(rng), trans(rng)
            for dim, Sv, sc in (('so3', u * th, 1.0), ('se3', np.r_[v, u * th], max(1.0, float(np.linalg.norm(v))))):
                rp = {'law': 'log(exp S) = S', 'S_hex': HX(Sv), 'theta': th, 'pi_minus_theta': math.pi - th}
                ctx.case(('logexp3', dim, tuple(Sv)))
                X = call(f'logexp3:{dim}:exp', lambda: base.trexp(Sv), rp)
                if X is None:
                    continue
                br = classify3(X[:3, :3])
                L = call(f'logexp3:{dim}:log', lambda: base.trlog(X, check=False, twist=True), rp)
                if L is None:
                    continue
                ctx.count(f'oracle:logexp3:{dim}')
                d = math.pi - th
                if not np.all(np.isfinite(L)):
                    ctx.fail(f'oracle:log3:{br}-branch:nonfinite', f"trlog(trexp(S)) is non-finite for |w| = {th:g}", rp)
                    continue
                e = maxerr(L, Sv) / sc
                if e <= TOL:
                    worst(f'logexp3:{dim}', e)
                else:
                    ctx.fail(f'oracle:logexp3:{dim}:{br}-branch:error', f"log(exp S) differs from S by {e:.3g} for |w| = pi-{d:.3g} ({br} branch)", dict(rp, error=e, L=L.tolist()))

    # ------------------------------------------------------------------ 2D
    def twist2(X):
        """trlog2(X, twist=True) (closed form since c4462a7: must be a real float vector for every SE(2)/SO(2) input)"""
        with np.errstate(all='ignore'):
            return 'ok', base.trlog2(X, check=False, twist=True)

    def two_d(n):
        for i in range(n):
            th = rot_mag(rng) * rng.choice([-1.0, 1.0])
            v = np.zeros(2) if rng.random() < 0.15 else rand_unit(rng, 2) * log_uniform(rng, 1e-6, 1e6)
            tw = np.r_[v, th]
            scale = max(1.0, float(np.linalg.norm(v)))
            rp = {'law': '2D exp', 'twist_hex': HX(tw)}
            ctx.case(('exp2', tuple(tw)))
            R = call('exp2:so2-vector', lambda: base.trexp2([th]), rp)
            if R is not None:
                check('exp2:so2-vector:vs-rot2', R, rot2_np(th), 1.0, rp)
                Rm = call('exp2:so2-matrix', lambda: base.trexp2(np.array([[0, -th], [th, 0]])), rp)
                if Rm is not None:
                    check('exp2:so2-matrix:vs-vector-form', Rm, R, 1.0, rp, tol=1e-12)
            T = call('exp2:se2-vector', lambda: base.trexp2(tw), rp)
            if T is not None:
                if i % 4 == 0:
                    check('exp2:se2-vector:vs-expm', T, ref_expm(skewa2_np(tw)), scale, rp)
                Tm = call('exp2:se2-matrix', lambda: base.trexp2(skewa2_np(tw)), rp)
                if Tm is not None:
                    check('exp2:se2-matrix:vs-vector-form', Tm, T, scale, rp, tol=1e-12)
            sgn = rng.choice([-1.0, 1.0])
            ut = np.r_[v, sgn]
            th2 = abs(th) * rng.choice([-1.0, 1.0])
            rp2 = {'law': '2D exp-theta', 'unit_twist_hex': HX(ut), 'theta_hex': float(th2).hex()}
            Tt = call('exp2:se2-theta-form', lambda: base.trexp2(ut, th2), rp2)
            if Tt is not None and i % 4 == 1:
                check('exp2:se2-theta-form:vs-expm', Tt, ref_expm(skewa2_np(ut * th2)), max(1.0, abs(th2) * scale), rp2)
            # ---- log: group element built independently
            r = rng.random()
            thg = 0.0 if r < 0.04 else (math.pi * rng.choice([-1.0, 1.0]) if r < 0.08 else th)
            t = np.zeros(2) if rng.random() < 0.2 else rand_unit(rng, 2) * log_uniform(rng, 1e-6, 1e6)
            G = np.eye(3)
            G[:2, :2], G[:2, 2] = rot2_np(thg), t
            d = math.pi - abs(thg)
            for dim, X, sc in (('so2', G[:2, :2].copy(), 1.0), ('se2', G, max(1.0, float(np.linalg.norm(t))))):
                rp = {'law': '2D exp(log T) = T', 'T_hex': HX(X), 'theta': thg, 'pi_minus_abs_theta': d}
                ctx.case(('explog2', dim, tuple(X.flatten())))
                Lm = call(f'log2:{dim}:matrix-form', lambda: base.trlog2(X, check=False, twist=False), rp)
                Lt = call(f'log2:{dim}:twist-form', lambda: twist2(X), rp)
                if Lm is None or Lt is None:
                    continue
                Lm, Lt = np.asarray(Lm), np.asarray(Lt[1])
                ctx.count(f'oracle:log2:{dim}:structure')
                if np.iscomplexobj(Lm) or np.iscomplexobj(Lt) or Lm.dtype.kind != 'f' or Lt.dtype.kind != 'f':
                    ctx.fail(f'oracle:log2:{dim}:not-a-real-array', f"trlog2 returns dtype {Lm.dtype}/{Lt.dtype} for rotation pi-{d:.3g}, |t|={np.linalg.norm(t) if dim == 'se2' else 0:.3g}", rp)
                    continue
                if not (np.all(np.isfinite(Lm)) and np.all(np.isfinite(Lt))):
                    ctx.fail(f'oracle:log2:{dim}:nonfinite', "trlog2 returns non-finite entries", rp)
                    continue
                wv = float(Lt[-1])
                ref_m = np.array([[0, -wv], [wv, 0]]) if dim == 'so2' else skewa2_np(Lt)
                if maxerr(Lm, ref_m) > TOL * sc:
                    ctx.fail(f'oracle:log2:{dim}:not-algebra-form', "matrix form of trlog2 is not (augmented) skew to 1e-7", dict(rp, Lm=Lm.tolist()))
                if abs(wv) > math.pi + 1e-9:
                    ctx.fail(f'oracle:log2:{dim}:magnitude-exceeds-pi', f"rotation magnitude {abs(wv)!r} > pi", rp)
                X2 = call(f'explog2:{dim}:exp-of-log', lambda: base.trexp2(Lt), rp)
                if X2 is None:
                    continue
                ctx.count(f'oracle:explog2:{dim}')
                e = maxerr(X2, X) / sc
                if e <= TOL:
                    worst(f'explog2:{dim}', e)
                else:
                    ctx.fail(f'oracle:explog2:{dim}:error', f"exp(trlog2 T) differs from T by {e:.3g}, rotation pi-{d:.3g}", dict(rp, error=e))
            # ---- log(exp S) = S for |w| <= pi - 1e-6
            if abs(th) <= math.pi - 1e-6 and T is not None:
                rp = {'law': '2D log(exp S) = S', 'S_hex': HX(tw)}
                L = call('logexp2:se2:log', lambda: twist2(T), rp)
                if L is not None:
                    L = np.asarray(L[1])
                    ctx.count('oracle:logexp2:se2')
                    if L.dtype.kind != 'f':
                        ctx.fail('oracle:log2:se2:not-a-real-array', f"trlog2(trexp2(S), twist=True) has dtype {L.dtype}", rp)
                    else:
                        check('logexp2:se2', L, tw, scale, rp)

    # ------------------------------------------------------------------ class methods = base functions
    def same(key, f, want, rp, tol=1e-12):
        got = call('class:' + key, f, rp)
        if got is None:
            return
        ctx.count('oracle:class:' + key)
        got, want = np.asarray(got), np.asarray(want)
        sc = max(1.0, float(np.max(np.abs(want)))) if want.size and want.dtype.kind == 'f' and np.all(np.isfinite(want)) else 1.0
        if maxerr(got, want) > tol * sc:
            ctx.fail(f'oracle:class:{key}:differs-from-base', f"{key} differs from the base function it wraps", dict(rp, got=str(got), want=str(want)))

    def classes(n):
        for i in range(n):
            th = rot_mag(rng, upto=math.pi - 1e-2) if i else 0.3
            th = max(th, 1e-6)
            u, v = axis(rng), trans(rng)
            w, tw = u * th, np.r_[v, u * th]
            rp = {'law': 'class methods', 'twist_hex': HX(tw)}
            ctx.case(('class', tuple(tw)))
            R, T = base.trexp(w), base.trexp(tw)
            same('SO3.Exp:vector', lambda: SO3.Exp(w).A, R, rp)
            same('SO3.Exp:matrix', lambda: SO3.Exp(skew_np(w)).A, R, rp)
            same('SE3.Exp:vector', lambda: SE3.Exp(tw).A, T, rp)
            same('SE3.Exp:se3-matrix-form', lambda: SE3.Exp(skewa_np(tw)).A, T, rp)      # raised ValueError before fix 39bd617
            same('SE3.Exp:list-of-se3-matrices', lambda: SE3.Exp([skewa_np(tw), skewa_np(tw * 0.5)])[1].A, base.trexp(tw * 0.5), rp)
            same('SE3.Exp:list-of-twists', lambda: SE3.Exp([tw, tw * 0.5])[1].A, base.trexp(tw * 0.5), rp)
            same('SO3.log', lambda: SO3(R).log(), base.trlog(R, check=False), rp)
            same('SO3.log:twist', lambda: SO3(R).log(twist=True), base.trlog(R, check=False, twist=True), rp)
            same('SE3.log', lambda: SE3(T).log(), base.trlog(T, check=False), rp)
            Lt = base.trlog(T, check=False, twist=True)
            same('SE3.log:twist', lambda: SE3(T).log(twist=True), Lt, rp)
            same('SE3.Twist3', lambda: SE3(T).Twist3().S, Lt, rp)
            same('Twist3(SE3)', lambda: Twist3(SE3(T)).S, Lt, rp)
            same('Twist3.exp', lambda: Twist3(tw).exp().A, T, rp)
            same('Twist3.SE3', lambda: Twist3(tw).SE3().A, T, rp)
            k = float(rng.uniform(-2, 2))
            same('Twist3.exp:theta', lambda: Twist3(tw).exp(k).A, base.trexp(tw * k), dict(rp, theta=k))
            # round trips through the classes, to the property's tolerance
            sc = max(1.0, float(np.linalg.norm(v)))
            X = call('class:Twist3.SE3.Twist3', lambda: Twist3(tw).SE3().Twist3().S, rp)
            if X is not None:
                check('class:twist->pose->twist', X, tw, sc, rp)
            X = call('class:SE3.Twist3.SE3', lambda: SE3(T).Twist3().SE3().A, rp)
            if X is not None:
                check('class:pose->twist->pose', X, T, sc, rp)
            # 2D
            th2 = th * rng.choice([-1.0, 1.0])
            v2 = v[:2]
            tw2 = np.r_[v2, th2]
            rp = {'law': 'class methods 2D', 'twist_hex': HX(tw2)}
            R2, T2 = base.trexp2([th2]), base.trexp2(tw2)
            same('SO2.Exp:scalar', lambda: SO2.Exp(th2).A, R2, rp)
            same('SO2.Exp:matrix', lambda: SO2.Exp(np.array([[0, -th2], [th2, 0]])).A, R2, rp)
            same('SE2.Exp:vector', lambda: SE2.Exp(tw2).A, T2, rp)
            same('SE2.Exp:matrix', lambda: SE2.Exp(skewa2_np(tw2)).A, T2, rp)
            st2, L2 = twist2(T2)
            L2 = np.asarray(L2) if st2 == 'ok' else None
            if L2 is not None and L2.dtype.kind == 'f':
                same('SE2.log:twist', lambda: SE2(T2).log(twist=True), L2, rp)
                same('SE2.log', lambda: SE2(T2).log(), base.trlog2(T2, check=False), rp)
                same('SO2.log:twist', lambda: SO2(R2).log(twist=True), base.trlog2(R2, check=False, twist=True), rp)
                same('SE2.Twist2', lambda: SE2(T2).Twist2().S, L2, rp)
                same('Twist2(SE2)', lambda: Twist2(SE2(T2)).S, L2, rp)
            same('Twist2.exp', lambda: Twist2(tw2).exp().A, T2, rp)
            same('Twist2.SE2', lambda: Twist2(tw2).SE2().A, T2, rp)
            same('Twist2.exp:theta', lambda: Twist2(tw2).exp(k).A, base.trexp2(tw2 * k), dict(rp, theta=k))

    # ------------------------------------------------------------------ class-level exponentials: every argument form
    def class_exp_grid(n):
        """Twist3.exp / Twist2.exp: theta form {None, float, int, numpy scalar, list, tuple, ndarray, length-1 list, per-twist}
        x twist kind {unit revolute, general screw (non-unit), unit prismatic, non-unit prismatic, sub-threshold rotation}
        x {one twist, several twists} x units {rad, deg}; SE3/SO3/SE2/SO2.Exp: every documented argument form.  Each
        returned element must equal trexp / trexp2 of the SCALED twist (the base function is tied to the Coq model by T-num
        and checked against the 50-digit reference above); a few cells are compared with the reference directly."""
        import io
        import contextlib

        def quiet_call(key, f, rp):
            try:
                with contextlib.redirect_stdout(io.StringIO()), np.errstate(all='ignore'):
                    return f()
            except Exception as ex:
                ctx.fail(f'oracle:class-exp:{key}:raises:{type(ex).__name__}', f"{key} raises {type(ex).__name__}: {ex}", rp)
                return None

        def compare(key, X, want, rp, scale_of=lambda M: 1.0):
            ctx.count('oracle:class-exp:' + key)
            got = [np.asarray(x.A, float) for x in X] if X is not None else None
            if got is None:
                return
            if len(got) != len(want):
                ctx.fail(f'oracle:class-exp:{key}:wrong-length', f"{key}: {len(got)} values returned, {len(want)} expected", dict(rp, got_len=len(got), want_len=len(want)))
                return
            for i, (a, b) in enumerate(zip(got, want)):
                sc = max(1.0, float(np.max(np.abs(b))))
                if maxerr(a, b) > 1e-12 * sc:
                    ctx.fail(f'oracle:class-exp:{key}:differs-from-exp-of-scaled-twist',
                             f"{key}: element {i} differs from the exponential of theta[{i}] * S by {maxerr(a, b):.3g}",
                             dict(rp, element=i, got=a.tolist(), want=b.tolist()))
                    return

        def kinds3():
            u_, v_ = axis(rng), trans(rng)
            u_ = u_ / np.linalg.norm(u_)
            return {'revolute-unit': np.r_[v_, u_], 'screw-nonunit': np.r_[v_, u_ * log_uniform(rng, 1e-2, 3.0)],
                    'prismatic-unit': np.r_[u_, 0, 0, 0], 'prismatic-nonunit': np.r_[u_ * log_uniform(rng, 1e-2, 1e3), 0, 0, 0],
                    'negligible-rotation': np.r_[rand_unit(rng) * log_uniform(rng, 1e-2, 1e2), axis(rng) * rng.uniform(0, 0.4) * K['k_zero'] * EPS]}

        def kinds2():
            v_ = rand_unit(rng, 2) * log_uniform(rng, 1e-3, 1e3)
            return {'revolute-unit': np.r_[v_, rng.choice([-1.0, 1.0])], 'revolute-nonunit': np.r_[v_, rng.uniform(-3, 3)],
                    'prismatic-unit': np.r_[rand_unit(rng, 2), 0.0], 'prismatic-nonunit': np.r_[v_, 0.0]}

        def theta_forms(m):
            """forms valid for an object holding m twists: name -> (argument, list of per-element multipliers or None)"""
            a, b = float(rng.uniform(-3, 3)), int(rng.integers(-3, 4))
            vec = rng.uniform(-3, 3, size=3 if m == 1 else m)
            vec[int(rng.integers(len(vec)))] = 0.0 if rng.random() < 0.3 else vec[0]
            forms = {'none': (None, None), 'float': (a, [a]), 'int': (b, [float(b)]), 'numpy-scalar': (np.float64(a), [a]),
                     'list': (list(map(float, vec)), list(vec)), 'tuple': (tuple(map(float, vec)), list(vec)), 'ndarray': (vec.copy(), list(vec)),
                     'length-1-list': ([a], [a]), 'length-1-ndarray': (np.array([a]), [a])}
            return forms

        def expected(tws, mult, to_rad, ex):
            if mult is None:
                return [ex(t) for t in tws]
            mult = [to_rad(x) for x in mult]
            if len(tws) == 1:
                return [ex(tws[0] * x) for x in mult]
            if len(mult) == 1:
                return [ex(t * mult[0]) for t in tws]
            return [ex(t * x) for t, x in zip(tws, mult)]

        for it in range(n):
            for dim, Tw, kinds, ex, ref in ((3, Twist3, kinds3(), base.trexp, skewa_np), (2, Twist2, kinds2(), base.trexp2, skewa2_np)):
                names = list(kinds)
                for kn in names:
                    tw = kinds[kn]
                    for units, to_rad in (('rad', lambda x: x), ('deg', math.radians)):
                        for fn_, (arg, mult) in theta_forms(1).items():
                            rp = {'law': 'class exp = exp of the scaled twist', 'class': Tw.__name__, 'twist_hex': HX(tw), 'twist_kind': kn,
                                  'theta_form': fn_, 'theta': repr(arg), 'units': units}
                            ctx.case(('class-exp', dim, kn, fn_, units, tuple(tw)))
                            key = f'Twist{dim}.exp:theta-{fn_}:single'
                            X = quiet_call(key, (lambda: Tw(tw).exp(arg, units=units)) if arg is not None else (lambda: Tw(tw).exp(units=units)), rp)
                            want = expected([tw], mult, to_rad, ex)
                            compare(key, X, want, rp)
                            if it == 0 and fn_ == 'ndarray' and units == 'rad' and X is not None:
                                for i, x in enumerate(mult):
                                    check(f'class-exp:Twist{dim}.exp:theta-ndarray:vs-expm', X[i].A, ref_expm(ref(tw * x)), max(1.0, abs(x) * float(np.linalg.norm(tw[:dim]))), rp, tol=1e-9)
                # several twists in one object (mixed kinds)
                tws = [kinds[k] for k in names[:3]]
                for fn_, (arg, mult) in theta_forms(3).items():
                    rp = {'law': 'class exp, several twists', 'class': Tw.__name__, 'twists_hex': [HX(t) for t in tws], 'theta_form': fn_, 'theta': repr(arg)}
                    key = f'Twist{dim}.exp:theta-{fn_}:multi'
                    X = quiet_call(key, (lambda: Tw(tws).exp(arg)) if arg is not None else (lambda: Tw(tws).exp()), rp)
                    compare(key, X, expected(tws, mult, lambda x: x, ex), rp)
                    # .SE3() / .SE2() = exp()
                if dim == 3:
                    compare('Twist3.SE3:multi', quiet_call('Twist3.SE3:multi', lambda: Twist3(tws).SE3(), {}), [ex(t) for t in tws], {'twists_hex': [HX(t) for t in tws]})
                else:
                    compare('Twist2.SE2:multi', quiet_call('Twist2.SE2:multi', lambda: Twist2(tws).SE2(), {}), [ex(t) for t in tws], {'twists_hex': [HX(t) for t in tws]})
            # ---- Exp constructors, every documented argument form
            k3 = kinds3()
            for kn, tw in k3.items():
                rp = {'law': 'Exp forms', 'twist_hex': HX(tw), 'twist_kind': kn}
                T_, T2_ = base.trexp(tw), base.trexp(tw * 0.5)
                for fn_, f in (('list', lambda: SE3.Exp(list(map(float, tw)))), ('tuple', lambda: SE3.Exp(tuple(map(float, tw)))), ('ndarray', lambda: SE3.Exp(tw.copy())),
                               ('column', lambda: SE3.Exp(tw.reshape(6, 1))), ('se3-matrix', lambda: SE3.Exp(skewa_np(tw)))):
                    compare(f'SE3.Exp:{fn_}', quiet_call(f'SE3.Exp:{fn_}', f, rp), [T_], rp)
                for fn_, f in (('Nx6-ndarray', lambda: SE3.Exp(np.array([tw, tw * 0.5]))), ('list-of-vectors', lambda: SE3.Exp([tw, tw * 0.5])),
                               ('list-of-matrices', lambda: SE3.Exp([skewa_np(tw), skewa_np(tw * 0.5)]))):
                    compare(f'SE3.Exp:{fn_}', quiet_call(f'SE3.Exp:{fn_}', f, rp), [T_, T2_], rp)
                w_ = tw[3:] if np.linalg.norm(tw[3:]) > 1e-6 else tw[:3]
                R_, R2_ = base.trexp(w_), base.trexp(w_ * 0.5)
                for fn_, f in (('list', lambda: SO3.Exp(list(map(float, w_)))), ('ndarray', lambda: SO3.Exp(w_.copy())), ('so3-matrix', lambda: SO3.Exp(skew_np(w_)))):
                    compare(f'SO3.Exp:{fn_}', quiet_call(f'SO3.Exp:{fn_}', f, rp), [R_], rp)
                compare('SO3.Exp:Nx3-ndarray', quiet_call('SO3.Exp:Nx3-ndarray', lambda: SO3.Exp(np.array([w_, w_ * 0.5]), so3=False), rp), [R_, R2_], rp)
            for kn, tw in kinds2().items():
                rp = {'law': 'Exp forms 2D', 'twist_hex': HX(tw), 'twist_kind': kn}
                T_, T2_ = base.trexp2(tw), base.trexp2(tw * 0.5)
                for fn_, f in (('list', lambda: SE2.Exp(list(map(float, tw)))), ('tuple', lambda: SE2.Exp(tuple(map(float, tw)))), ('ndarray', lambda: SE2.Exp(tw.copy())),
                               ('se2-matrix', lambda: SE2.Exp(skewa2_np(tw)))):
                    compare(f'SE2.Exp:{fn_}', quiet_call(f'SE2.Exp:{fn_}', f, rp), [T_], rp)
                for fn_, f in (('list-of-vectors', lambda: SE2.Exp([tw, tw * 0.5])), ('list-of-matrices', lambda: SE2.Exp([skewa2_np(tw), skewa2_np(tw * 0.5)]))):
                    compare(f'SE2.Exp:{fn_}', quiet_call(f'SE2.Exp:{fn_}', f, rp), [T_, T2_], rp)
                a_ = float(tw[2]) if tw[2] != 0 else 0.7
                for fn_, f in (('float', lambda: SO2.Exp(a_)), ('length-1-list', lambda: SO2.Exp([a_])), ('so2-matrix', lambda: SO2.Exp(np.array([[0, -a_], [a_, 0]])))):
                    compare(f'SO2.Exp:{fn_}', quiet_call(f'SO2.Exp:{fn_}', f, rp), [base.trexp2([a_])], rp)
                compare('SO2.Exp:list-of-angles', quiet_call('SO2.Exp:list-of-angles', lambda: SO2.Exp([a_, a_ * 0.5]), rp), [base.trexp2([a_]), base.trexp2([a_ * 0.5])], rp)

    # ------------------------------------------------------------------ aliasing / poisoning of returned arrays
    def alias():
        """every exp/log entry point must return a fresh array: not sharing memory with an argument or with an earlier
        result, and overwriting a returned array in place must not change any later result (a shared module-level
        identity returned on the zero-rotation path would be corrupted by the first caller that writes into exp(0))."""
        w, tw = np.array([0.3, -0.2, 0.5]), np.array([1.0, 2.0, 3.0, 0.3, -0.2, 0.5])
        u = w / np.linalg.norm(w)
        z3, z6 = np.zeros(3), np.zeros(6)
        tiny3 = np.array([1e-17, 0, 0])
        Rg, Tg = rot_from_axis_angle(u, 0.7), np.eye(4)
        Tg[:3, :3], Tg[:3, 3] = Rg, [1.0, -2.0, 0.5]
        Tt = np.eye(4)
        Tt[:3, 3] = [1.0, 2.0, 3.0]
        Rh = rot_from_axis_angle(u, math.pi)
        R2, T2 = rot2_np(0.4), np.eye(3)
        T2[:2, :2], T2[:2, 2] = R2, [1.0, -2.0]
        Tt2 = np.eye(3)
        Tt2[:2, 2] = [1.0, 2.0]
        E = [  # (entry point, thunk, ndarray arguments, independent reference or None)
            ('trexp:so3-zero-vector', lambda: base.trexp(z3), [z3], np.eye(3)),
            ('trexp:so3-below-zero-threshold', lambda: base.trexp(tiny3), [tiny3], np.eye(3)),
            ('trexp:so3-zero-matrix', lambda a=np.zeros((3, 3)): base.trexp(a), [], np.eye(3)),
            ('trexp:so3-vector', lambda: base.trexp(w), [w], ref_expm(skew_np(w))),
            ('trexp:so3-matrix', lambda a=skew_np(w): base.trexp(a), [], ref_expm(skew_np(w))),
            ('trexp:so3-theta-form', lambda: base.trexp(u, 0.7), [u], Rg),
            ('trexp:so3-theta-form-zero', lambda: base.trexp(u, 0.0), [u], np.eye(3)),
            ('trexp:se3-zero-vector', lambda: base.trexp(z6), [z6], np.eye(4)),
            ('trexp:se3-zero-matrix', lambda a=np.zeros((4, 4)): base.trexp(a), [], np.eye(4)),
            ('trexp:se3-vector', lambda: base.trexp(tw), [tw], ref_expm(skewa_np(tw))),
            ('trexp:se3-pure-translation', lambda a=np.r_[1.0, 2.0, 3.0, 0, 0, 0]: base.trexp(a), [], Tt),
            ('trexp:se3-theta-form', lambda a=np.r_[1.0, 2.0, 3.0, u]: base.trexp(a, 0.7), [], None),
            ('trexp:se3-theta-form-zero', lambda a=np.r_[1.0, 2.0, 3.0, u]: base.trexp(a, 0), [], np.eye(4)),
            ('rodrigues:zero', lambda: base.rodrigues(z3), [z3], np.eye(3)),
            ('rodrigues:zero-with-theta', lambda: base.rodrigues(z3, 0.5), [z3], np.eye(3)),
            ('rodrigues:1-vector-zero', lambda: base.rodrigues([0.0]), [], np.eye(2)),
            ('rodrigues:vector', lambda: base.rodrigues(w), [w], ref_expm(skew_np(w))),
            ('trexp2:so2-zero', lambda: base.trexp2([0.0]), [], np.eye(2)),
            ('trexp2:so2-zero-matrix', lambda a=np.zeros((2, 2)): base.trexp2(a), [], np.eye(2)),
            ('trexp2:so2', lambda: base.trexp2([0.4]), [], R2),
            ('trexp2:se2-zero', lambda: base.trexp2(z3), [z3], np.eye(3)),
            ('trexp2:se2-pure-translation', lambda a=np.array([1.0, 2.0, 0.0]): base.trexp2(a), [], Tt2),
            ('trexp2:se2', lambda a=np.array([1.0, -2.0, 0.4]): base.trexp2(a), [], ref_expm(skewa2_np([1.0, -2.0, 0.4]))),
            ('trlog:so3-identity', lambda a=np.eye(3): base.trlog(a), [], np.zeros((3, 3))),
            ('trlog:so3-identity-twist', lambda a=np.eye(3): base.trlog(a, twist=True), [], np.zeros(3)),
            ('trlog:so3-general', lambda: base.trlog(Rg), [Rg], skew_np(u * 0.7)),
            ('trlog:so3-general-twist', lambda: base.trlog(Rg, twist=True), [Rg], u * 0.7),
            ('trlog:so3-half-turn-twist', lambda: base.trlog(Rh, check=False, twist=True), [Rh], None),
            ('trlog:se3-identity', lambda a=np.eye(4): base.trlog(a), [], np.zeros((4, 4))),
            ('trlog:se3-identity-twist', lambda a=np.eye(4): base.trlog(a, twist=True), [], np.zeros(6)),
            ('trlog:se3-pure-translation', lambda: base.trlog(Tt), [Tt], skewa_np(np.r_[1.0, 2.0, 3.0, 0, 0, 0])),
            ('trlog:se3-pure-translation-twist', lambda: base.trlog(Tt, twist=True), [Tt], np.r_[1.0, 2.0, 3.0, 0, 0, 0]),
            ('trlog:se3-general', lambda: base.trlog(Tg), [Tg], None),
            ('trlog:se3-general-twist', lambda: base.trlog(Tg, twist=True), [Tg], None),
            ('trlog2:so2-identity', lambda a=np.eye(2): base.trlog2(a), [], np.zeros((2, 2))),
            ('trlog2:so2', lambda: base.trlog2(R2, twist=True), [R2], np.array([0.4])),
            ('trlog2:se2-identity', lambda a=np.eye(3): base.trlog2(a, twist=True), [], np.zeros(3)),
            ('trlog2:se2', lambda: base.trlog2(T2), [T2], None),
            ('SO3.Exp:zero', lambda: SO3.Exp(np.zeros(3)).A, [], np.eye(3)),
            ('SO3.Exp', lambda: SO3.Exp(w).A, [w], ref_expm(skew_np(w))),
            ('SE3.Exp:zero', lambda: SE3.Exp(np.zeros(6)).A, [], np.eye(4)),
            ('SE3.Exp', lambda: SE3.Exp(tw).A, [tw], ref_expm(skewa_np(tw))),
            ('SO2.Exp:zero', lambda: SO2.Exp(0.0).A, [], np.eye(2)),
            ('SE2.Exp:zero', lambda: SE2.Exp(np.zeros(3)).A, [], np.eye(3)),
            ('Twist3.exp:zero-theta', lambda: Twist3(tw).exp(0).A, [tw], np.eye(4)),
            ('Twist3.exp', lambda: Twist3(tw).exp().A, [tw], ref_expm(skewa_np(tw))),
            ('Twist2.exp:zero-theta', lambda: Twist2([1.0, -2.0, 0.4]).exp(0).A, [], np.eye(3)),
            ('SO3.log', lambda: SO3(Rg).log(), [Rg], skew_np(u * 0.7)),
            ('SE3.log:twist', lambda: SE3(Tg).log(twist=True), [Tg], None),
            ('SE3.log:identity', lambda: SE3().log(twist=True), [], np.zeros(6)),
        ]
        same_arr = lambda a, b: a.shape == b.shape and a.dtype == b.dtype and bool(np.array_equal(a, b, equal_nan=True))

        def run_one(name, f):
            with np.errstate(all='ignore'):
                return np.asarray(f())
        base_res, args_snap = {}, {}
        for name, f, args, ref in E:
            try:
                r = run_one(name, f)
            except Exception as ex:
                ctx.fail(f'oracle:alias:{name}:raises:{type(ex).__name__}', f"{name} raises {type(ex).__name__}: {ex}", {'entry': name})
                continue
            base_res[name] = r.copy()
            ctx.case(('alias-base', name))
            if ref is not None and not maxerr(r, np.asarray(ref, float)) <= 1e-9:
                ctx.fail(f'oracle:alias:{name}:baseline-differs-from-reference', f"{name} differs from the independent reference", {'entry': name, 'got': r.tolist(), 'want': np.asarray(ref).tolist()})
        live = []      # results kept alive: a later result must not share memory with them
        for name, f, args, ref in E:
            if name not in base_res:
                continue
            r = run_one(name, f)
            ctx.count('oracle:alias:entries')
            ctx.case(('alias', name))
            rp = {'entry': name, 'procedure': 'call; overwrite the returned array with NaN in place; repeat this and every other entry point'}
            if not same_arr(r, base_res[name]):
                ctx.fail(f'oracle:alias:{name}:not-repeatable', f"{name}: a second identical call gives a different result", dict(rp, first=base_res[name].tolist(), second=r.tolist()))
                break
            if any(np.shares_memory(r, a) for a in args):
                ctx.fail(f'oracle:alias:{name}:shares-memory-with-argument', f"{name}: the result shares memory with an argument", rp)
            if any(np.shares_memory(r, q) for _, q in live):
                other = next(n for n, q in live if np.shares_memory(r, q))
                ctx.fail(f'oracle:alias:{name}:shares-memory-with-previous-result', f"{name}: the result shares memory with an earlier result of {other}", dict(rp, other=other))
            snap = [a.copy() for a in args]
            if r.dtype.kind in 'fc' and r.flags.writeable and r.size:
                r[...] = np.nan          # the caller modifies what it was given, in place
            elif r.dtype.kind in 'fc' and r.size:
                ctx.fail(f'oracle:alias:{name}:read-only-result', f"{name}: the returned array is read-only", rp)
            if any(not same_arr(a, b) for a, b in zip(args, snap)):
                ctx.fail(f'oracle:alias:{name}:argument-changed-by-writing-result', f"{name}: writing into the result changed an argument", rp)
            live.append((name, r))
            bad = None
            for name2, f2, _, _ in E:
                if name2 not in base_res:
                    continue
                try:
                    r2 = run_one(name2, f2)
                except Exception as ex:
                    bad = (name2, f"raises {type(ex).__name__}: {ex}")
                    break
                if not same_arr(r2, base_res[name2]):
                    bad = (name2, f"returns {r2.tolist()} instead of {base_res[name2].tolist()}")
                    break
            if bad:
                ctx.fail(f'oracle:alias:{name}:overwriting-the-result-corrupts-later-calls',
                         f"after overwriting in place the array returned by {name}, {bad[0]} {bad[1][:300]}", dict(rp, corrupted_entry=bad[0], detail=bad[1][:600]))
                break        # the shared state stays corrupted: later entries would only repeat the same finding

    # rotation vectors just above the zero threshold (the band 10..100 eps raised TypeError before fix d900630): must be
    # exponentiated, to 1e-12
    for i in range(60):
        u_ = axis(rng)
        wv = u_ * (K['k_zero'] * EPS * (1.0 + 10 ** rng.uniform(-3, 1.2)))
        ctx.case(('exp3-tiny', tuple(wv)))
        Rt = call('exp3:just-above-zero-threshold', lambda: base.trexp(wv), {'law': 'exp total', 'w_hex': HX(wv)})
        if Rt is not None:
            check('exp3:just-above-zero-threshold:vs-first-order', Rt, np.eye(3) + skew_np(wv), 1.0, {'law': 'exp total', 'w_hex': HX(wv)}, tol=1e-12)
    # |w| EXACTLY k_zero*eps (neither zero nor normalisable before fix 4dbd011) and its neighbours must be exponentiated
    for base_v in (np.array([1.0, 0.0, 0.0]), np.array([0.0, 1.0, 0.0]), np.array([0.6, 0.8, 0.0]), np.array([0.0, -0.6, 0.8])):
        for f_ in (1.0, np.nextafter(1.0, 2.0), np.nextafter(1.0, 0.0)):
            wv = base_v * (K['k_zero'] * EPS * f_)
            ctx.case(('exp3-at-threshold', tuple(wv)))
            rp_ = {'law': 'exp total', 'w_hex': HX(wv), 'norm_over_eps': float(np.linalg.norm(wv)) / EPS}
            Rt = call('exp3:at-zero-threshold', lambda: base.trexp(wv), rp_)
            if Rt is not None:
                check('exp3:at-zero-threshold:vs-first-order', Rt, np.eye(3) + skew_np(wv), 1.0, rp_, tol=1e-12)
            R2_ = call('exp2:at-zero-threshold', lambda: base.trexp2([wv[0] + wv[1]]), rp_)
    def dtype_forms():
        """the same group element given as an integer-typed (hand-written poses: signed permutation rotations, whole-number translations),
        or float32 ndarray (the documented argument type is ndarray; nested lists are not accepted by trlog): exp(log(T)) = T and the logarithm equals the one of the float64 copy, in both result forms"""
        import itertools
        rots = []
        for perm in itertools.permutations(range(3)):
            for sg in itertools.product((1, -1), repeat=3):
                Rm = np.zeros((3, 3), dtype=np.int64)
                for r_, c_ in enumerate(perm):
                    Rm[r_, c_] = sg[r_]
                if round(float(np.linalg.det(Rm))) == 1:
                    rots.append(Rm)
        trs = [np.array(t_, dtype=np.int64) for t_ in ((0, 0, 0), (1, 2, 3), (-4, 0, 7), (100, -3, 2))]
        for Rm in rots:
            for t_ in trs:
                Ti = np.eye(4, dtype=np.int64)
                Ti[:3, :3] = Rm
                Ti[:3, 3] = t_
                Tf = Ti.astype(np.float64)
                scale = max(1.0, float(np.linalg.norm(t_)))
                for name, arg in (('int64', Ti), ('int32', Ti.astype(np.int32)), ('float32', Ti.astype(np.float32))):
                    for tw_ in (False, True):
                        rp = {'law': 'log of a non-float64 argument', 'argument_form': name, 'twist': tw_, 'T': Ti.tolist()}
                        ctx.case(('dtype-form', name, tw_, Ti.tobytes()))
                        Lf = call('dtype-form:log-float64', lambda: base.trlog(Tf.copy(), twist=tw_), rp)
                        La = call(f'dtype-form:log-{"int" if name.startswith("int") else name}', lambda: base.trlog(arg, twist=tw_), rp)
                        if Lf is None or La is None:
                            continue
                        key = f'dtype-form:log-differs-from-float64:{"int" if name.startswith("int") else name}:{"twist" if tw_ else "matrix"}'
                        check(key, np.asarray(La, dtype=float), np.asarray(Lf, dtype=float), scale, rp, tol=1e-6)
                        Tb = call('dtype-form:exp-of-log', lambda: base.trexp(La), rp)
                        if Tb is not None:
                            check(f'dtype-form:exp-log:{"int" if name.startswith("int") else name}:{"twist" if tw_ else "matrix"}', Tb, Tf, scale, rp, tol=1e-6)
                # rotation block alone
                for name, arg in (('int64', Rm), ('float32', Rm.astype(np.float32))):
                    rp = {'law': 'log of a non-float64 rotation', 'argument_form': name, 'R': Rm.tolist()}
                    La = call('dtype-form:log-so3', lambda: base.trlog(arg), rp)
                    Lf = call('dtype-form:log-so3', lambda: base.trlog(Rm.astype(float)), rp)
                    if La is not None and Lf is not None:
                        check(f'dtype-form:so3-log-differs-from-float64:{"int" if name.startswith("int") else name}', np.asarray(La, dtype=float), Lf, 1.0, rp, tol=1e-6)
        # class layer
        for Rm in rots[:8]:
            Ti = np.eye(4, dtype=np.int64)
            Ti[:3, :3] = Rm
            Ti[:3, 3] = (1, 2, 3)
            rp = {'law': 'SE3(int array).log()', 'T': Ti.tolist()}
            Lc = call('dtype-form:SE3.log', lambda: SE3(Ti).log(), rp)
            Lf = call('dtype-form:SE3.log', lambda: SE3(Ti.astype(float)).log(), rp)
            if Lc is not None and Lf is not None:
                check('dtype-form:SE3.log-int-differs-from-float64', np.asarray(Lc, dtype=float), Lf, 4.0, rp, tol=1e-6)

    dtype_forms()
    exp3(ctx.n(150, 5000))
    explog3(ctx.n(3000, 100000))
    logexp3(ctx.n(2000, 60000))
    two_d(ctx.n(1200, 40000))
    classes(ctx.n(150, 3000))
    class_exp_grid(ctx.n(6, 120))
    alias()     # last: if an entry point leaks shared state, poisoning it would falsify everything after it
    for br in ('identity', 'half-turn', 'general'):
        if not ctx.stats.get('hit:explog3:' + br):
            ctx.fail('oracle:coverage:' + br, f"the oracle never exercised the {br} branch of trlog", no_input=True)


def run(ctx):
    ctx.rule = ("obligations: theorems of theories/Props/C03.v over the hand model instantiated with the thresholds "
                "regenerated from /repo's AST and over concolic traces of the real code; evaluations: T-num cases "
                "(extracted model vs implementation) + oracle evaluations on the implementation; a case is "
                "distinct/non-trivial by its (law, input) signature")
    ctx.trusted_extra = ["T-const AST pass of props/C03.py (thresholds and branch skeleton of the modelled functions)",
                         "mpmath 50-digit expm as the reference exponential of the oracle"]
    with ctx.timed('regenerate'):
        try:
            K = tconst(ctx)
        except TConstError as ex:
            ctx.fail('tconst:model-correspondence-broken',
                     f"the hand model of exp/log no longer corresponds to the source: {ex}", {'detail': str(ex)}, no_input=True)
            K = None
    if K is None:
        # theorems cannot be re-established; still search for a failing input
        with ctx.timed('oracle'):
            oracle(ctx, None)
        return
    ctx.write_gen('Consts_C03.v', consts_text(K))
    rc, out, err, dt = ctx.coqc(os.path.join(os.path.dirname(ctx.write_gen('Consts_C03.v', consts_text(K))), 'Consts_C03.v'))
    if rc != 0:
        ctx.fail('gen:compile', 'generated constants do not compile: ' + err[-800:], no_input=True)
        return
    with ctx.timed('regenerate'):
        g, S = build(ctx, K)
        text = g.coq_text() + g.pc_text + WRAPPERS
        p = ctx.write_gen(MOD + '.v', text)
    rc, out, err, dt = ctx.coqc(p)
    if rc != 0:
        ctx.fail('gen:compile', 'generated traces do not compile: ' + err[-800:], no_input=True)
        return
    ctx.prove('theories/Props/C03.v')
    ctx.prove('theories/Props/C03_ode.v')
    ctx.prove('theories/Props/C03_series.v')  # Rodrigues = the exponential power series, entry by entry (Model/C03_Series.v)     # trexp solves the ODE defining exp (Coquelicot derivatives; Model/C03_Ode.v)
    with ctx.timed('correspond'):
        sym_num(ctx, g, MOD, 1500 if ctx.stats.get('tconst:restructured') else ctx.n(40, 1500))
    with ctx.timed('oracle'):
        oracle(ctx, K)
