"""C14 -- normalisation projects onto the group and is idempotent.

Pipeline (see docs/C14.md):
  T-const : thresholds and the branch skeleton of the normalisation kernels, re-read from the source AST (fail closed)
  T-sym   : concolic traces (the library itself run on symbols, comparisons decided under a shadow valuation and
            recorded as path conditions) of every Some/value path
  prove   : theories/Props/C14.v -- properties of the hand models (Model/C14_Norm.v, lemmas in Model/C14_NormProofs.v)
            instantiated with the regenerated thresholds + bridge theorems  path condition -> model = trace
  T-num   : hand models and traces, extracted to OCaml floats, against the numeric library calls (incl. class methods)
  oracle  : the property itself on the implementation over the directed input domain
"""
import ast
import math
import os
from fractions import Fraction

import numpy as np
import sympy

from lib import concolic
from lib.symtrace import Gen, coq_expr, sym_input, input_pattern, coq_type, PrintError
from lib.corr import sym_num
from lib.core import REPO
from lib.gens import log_uniform, rand_unit, rand_rot, rand_trans, rand_rot2

concolic.install()
from spatialmath import base, SE3, SO3, SE2, SO2, Twist3, Twist2, Quaternion, UnitQuaternion  # noqa: E402

MOD = 'Traces_C14'
EPS = float(np.finfo(np.float64).eps)


# ====================================================================================== T-const
KEEP = {'_eps', 'tol', 'np', 'base', 'math', 'self', 'abs', 'iszerovec', 'iszero', 'ishom', 'isrot', 'ishom2', 'isrot2', 'norm', 'None',
        'unitvec', 'getvector', '_symbolics', 'isinstance', 'sympy'}


class _Norm(ast.NodeTransformer):
    """erase local names and numeric literals: what remains is the shape of a test"""
    def visit_Name(self, node):
        return ast.copy_location(ast.Name(id=node.id if node.id in KEEP else '_', ctx=node.ctx), node)

    def visit_Constant(self, node):
        if isinstance(node.value, (int, float)) and not isinstance(node.value, bool):
            return ast.copy_location(ast.Name(id='K', ctx=ast.Load()), node)
        return node


def _shape(node):
    import copy
    return ast.unparse(_Norm().visit(copy.deepcopy(node)))


# the skeleton the hand models in coq/theories/Model/C14_Norm.v were written against: (file, qualified name) -> ordered tests
SKELETON = {
    # first test: symbolic length (fix 2d89a18) -- unreachable for float input and switched off in the harness process
    # by lib.concolic.install(); outside this model (symbolic execution is C16's subject)
    ('base/vectors.py', 'unitvec'): ['if:_symbolics and isinstance(_, sympy.Expr) and (not _.is_number)', 'if:_ >= K * _eps'],
    ('base/vectors.py', 'unitvec_norm'): ['if:_ >= K * _eps'],
    ('base/vectors.py', 'iszerovec'): ['ret:np.linalg.norm(_) < tol * _eps'],
    ('base/vectors.py', 'iszero'): ['ret:abs(_) < tol * _eps'],
    ('base/vectors.py', 'unittwist'): ['if:iszerovec(_, tol=tol)', 'if:iszerovec(_)'],
    ('base/vectors.py', 'unittwist_norm'): ['if:iszerovec(_, tol=tol)', 'if:iszerovec(_)'],
    ('base/vectors.py', 'unittwist2'): ['if:iszero(_)'],
    ('base/vectors.py', 'unittwist2_norm'): ['if:iszero(_)'],
    ('base/vectors.py', 'angdiff'): ['if:_ is None'],
    ('base/quaternions.py', 'unit'): ['if:abs(_) < tol * _eps'],
    ('base/transforms3d.py', 'trnorm'): ['if:not ishom(_) and (not isrot(_))', 'if:ishom(_)'],
    ('base/transforms2d.py', 'trnorm2'): ['if:not ishom2(_) and (not isrot2(_))', 'if:ishom2(_)'],
}


class ConstError(Exception):
    pass


def _find_func(tree, name):
    for n in tree.body:
        if isinstance(n, ast.FunctionDef) and n.name == name:
            return n
    raise ConstError(f"function {name} not found")


def _tests(fn):
    out = []
    for n in ast.walk(fn):
        if isinstance(n, ast.If):
            out.append((n.lineno, 'if:' + _shape(n.test), n.test))
        elif isinstance(n, ast.Return) and isinstance(n.value, ast.Compare):
            out.append((n.lineno, 'ret:' + _shape(n.value), n.value))
        elif isinstance(n, (ast.While, ast.IfExp)):
            out.append((n.lineno, 'other:' + _shape(n.test), n.test))
    out.sort(key=lambda x: x[0])
    return out


def _default(fn, pname):
    a = fn.args
    names = [x.arg for x in a.args]
    defs = [None] * (len(names) - len(a.defaults)) + list(a.defaults)
    for n, d in zip(names, defs):
        if n == pname:
            if isinstance(d, ast.Constant) and isinstance(d.value, (int, float)) and not isinstance(d.value, bool):
                return d.value
            raise ConstError(f"{fn.name}: default of {pname} is not a numeric literal")
    raise ConstError(f"{fn.name}: no parameter {pname}")


def _threshold(fn, expr):
    """threshold expression  k * _eps | tol * _eps | literal   ->  ('keps', k) | ('lit', Fraction)"""
    def val(e):
        if isinstance(e, ast.Constant) and isinstance(e.value, (int, float)) and not isinstance(e.value, bool):
            return ('num', e.value)
        if isinstance(e, ast.Name) and e.id == '_eps':
            return ('eps', 1)
        if isinstance(e, ast.Name) and e.id == 'tol':
            return ('num', _default(fn, 'tol'))
        if isinstance(e, ast.BinOp) and isinstance(e.op, ast.Mult):
            l, r = val(e.left), val(e.right)
            if l[0] == 'num' and r[0] == 'num':
                return ('num', l[1] * r[1])
            if l[0] == 'num' and r[0] == 'eps':
                return ('eps', l[1] * r[1])
            if l[0] == 'eps' and r[0] == 'num':
                return ('eps', l[1] * r[1])
        raise ConstError(f"{fn.name}: threshold expression `{ast.unparse(e)}` has an unsupported form")
    k, v = val(expr)
    if k == 'eps':
        if float(v) != int(v):
            raise ConstError(f"{fn.name}: non-integer multiple of _eps: {v}")
        return ('keps', int(v))
    return ('lit', Fraction(*float(v).as_integer_ratio()))


def _thr_of_compare(fn, cmp):
    """the threshold is whichever side of the comparison is built from literals, tol and _eps only"""
    found = []
    for side in [cmp.left] + list(cmp.comparators):
        try:
            found.append(_threshold(fn, side))
        except ConstError:
            pass
    if len(found) != 1:
        raise ConstError(f"{fn.name}: `{ast.unparse(cmp)}` does not compare one quantity with one threshold")
    return found[0]


def thr_value(t):
    return t[1] * EPS if t[0] == 'keps' else float(t[1])


def thr_coq(t):
    if t[0] == 'keps':
        return f"(of_Z O {t[1]}%Z) * (eps O)" if t[1] >= 0 else f"(of_Z O ({t[1]})%Z) * (eps O)"
    p, q = t[1].numerator, t[1].denominator
    ps = f"{p}%Z" if p >= 0 else f"({p})%Z"
    return f"(of_Z O {ps}) / (of_Z O {q}%Z)"


def read_consts(ctx):
    """returns dict name -> threshold; raises ConstError (fail closed) when the code no longer has the modelled shape"""
    trees = {}
    problems = []
    funcs = {}
    for (f, name), want in SKELETON.items():
        if f not in trees:
            trees[f] = ast.parse(open(os.path.join(REPO, 'spatialmath', f)).read())
        try:
            fn = _find_func(trees[f], name)
        except ConstError as e:
            problems.append(str(e))
            continue
        funcs[name] = fn
        got = [s for _, s, _ in _tests(fn)]
        if got != want:
            problems.append(f"{f}:{name}: branch skeleton is {got}, the model was written for {want}")
    # angdiff body is expected to be np.mod(x + math.pi, 2 * math.pi) - math.pi in both branches (recorded if it is not;
    # the tie is the bridge theorem C14_bridge_angdiff on the regenerated trace)
    if 'angdiff' in funcs:
        rets = [n for n in ast.walk(funcs['angdiff']) if isinstance(n, ast.Return)]
        shapes = sorted(_shape(r.value) for r in rets)
        want = sorted(['np.mod(_ + math.pi, K * math.pi) - math.pi', 'np.mod(_ - _ + math.pi, K * math.pi) - math.pi'])
        if shapes != want:
            problems.append(f"base/vectors.py:angdiff: return expressions {shapes} are not the modelled {want}")
    # a differing skeleton is not by itself a failure: the bridge + coverage theorems of Props/C14.v tie every path of the
    # regenerated traces to the models for all inputs, so a change of meaning breaks a proof.  It is recorded, and the
    # constants must still be extractable from the compares (otherwise: fail closed).
    ctx.stats['skeleton_differs'] = problems
    for pr in problems:
        ctx.notes.append('T-const: ' + pr)
    missing = [n for (_, n) in SKELETON if n not in funcs]
    if missing:
        raise ConstError('; '.join(problems))
    T = {n: _tests(f) for n, f in funcs.items()}
    try:
        return _extract(funcs, T)
    except ConstError:
        raise
    except Exception as e:
        raise ConstError(f"thresholds not found where the models expect them ({type(e).__name__}: {e}); " + '; '.join(problems))


TSOFT = [('spatialmath/base/vectors.py', 'unitvec'), ('spatialmath/base/vectors.py', 'unitvec_norm'), ('spatialmath/base/vectors.py', 'iszerovec'),
         ('spatialmath/base/vectors.py', 'iszero'), ('spatialmath/base/vectors.py', 'unittwist'), ('spatialmath/base/vectors.py', 'unittwist_norm'),
         ('spatialmath/base/vectors.py', 'unittwist2'), ('spatialmath/base/vectors.py', 'unittwist2_norm'), ('spatialmath/base/vectors.py', 'angdiff'),
         ('spatialmath/base/quaternions.py', 'unit'), ('spatialmath/base/transforms3d.py', 'trnorm'), ('spatialmath/base/transforms2d.py', 'trnorm2')]
_TSOFT_STOP = {'unitvec', 'unitvec_norm', 'iszerovec', 'iszero', 'unittwist', 'unittwist_norm', 'unittwist2', 'unittwist2_norm', 'angdiff', 'unit', 'trnorm',
               'trnorm2'}


def _tsoft_thr(fname):
    """restructured function (its threshold test moved into a same-module helper): the threshold read from the threshold summary of the
    function + helper closure, provided that summary is the recorded one (lib/tsoft.py) and holds one distinct k*_eps comparison"""
    import re
    from lib import tsoft
    for rel, q in TSOFT:
        if q == fname:
            ok, found, base = tsoft.same_thresholds(REPO, 'C14', rel, q, _TSOFT_STOP - {q})
            cm = sorted({t for t in (found or []) if t.startswith('cmp ')})
            m = re.fullmatch(r'cmp \w+ (?:\w+=)?(\d+)\*eps', cm[0]) if len(cm) == 1 else None
            if ok and m:
                return ('keps', int(m.group(1)))
    return None


def _extract(funcs, T):
    def cmp_thr(fname):
        """the threshold of the ONE test of the function that compares a quantity with a literal/tol/_eps expression"""
        found = []
        for _, _, node in T[fname]:
            while isinstance(node, ast.UnaryOp) and isinstance(node.op, ast.Not):    # `not (n < thr)`: the operator is tied by the bridge
                node = node.operand
            if isinstance(node, ast.Compare):
                try:
                    found.append(_thr_of_compare(funcs[fname], node))
                except ConstError:
                    pass
        if len(found) != 1:
            soft = _tsoft_thr(fname)
            if soft is not None:
                return soft
            raise ConstError(f"{fname}: expected exactly one threshold comparison, found {len(found)}")
        return found[0]
    th = {}
    th['unitvec'] = cmp_thr('unitvec')
    th['unitvec_norm'] = cmp_thr('unitvec_norm')
    th['qunit'] = cmp_thr('unit')
    zv = cmp_thr('iszerovec')       # with iszerovec's own default tol
    th['twist_w'] = zv
    th['twist2_w'] = cmp_thr('iszero')
    # iszerovec(S, tol=tol): the caller's tol replaces iszerovec's: value = default tol of the caller * _eps
    if zv[0] != 'keps':
        raise ConstError('iszerovec threshold is not a multiple of _eps')
    for nm in ('unittwist', 'unittwist_norm'):
        tol = _default(funcs[nm], 'tol')
        if float(tol) != int(tol):
            raise ConstError(f'{nm}: non-integer tol')
        th['twist_S' if nm == 'unittwist' else 'twistn_S'] = ('keps', int(tol))
    return th


CONSTS_TEMPLATE = """
(* ---- T-const: thresholds re-read from the source AST on this run; hand models instantiated with them ---- *)
From SM Require Import Base.Lin Model.C14_Norm.
Section Consts.
Context {T : Type} (O : ops T).
Local Infix "*" := (mul O). Local Infix "/" := (div O).
@THR@
Definition m_unitvec (v : V3 T) : option (V3 T) := unitvec_m O thr_unitvec v.
Definition m_unitvec_norm (v : V3 T) : option (V4 T) :=
  match unitvec_norm_m O thr_unitvec_norm v with Some ((a,b,c), n) => Some (a,b,c,n) | None => None end.
Definition m_qunit (q : V4 T) : option (V4 T) := qunit_m O thr_qunit q.
Definition m_trnorm33 (R : M33 T) : option (M33 T) := trnorm33_m O thr_unitvec R.
Definition m_trnorm44 (A : M44 T) : option (M44 T) := trnorm44_m O thr_unitvec A.
Definition m_unittwist (S : V6 T) : option (V6 T) := unittwist_m O thr_twist_S thr_twist_w S.
Definition m_unittwist_norm (S : V6 T) : option (V8 T) :=
  match unittwist_norm_m O thr_twistn_S thr_twist_w S with
  | Some ((a,b,c,d,e,f), th) => Some (a,b,c,d,e,f,th,zero O) | None => None end.
Definition m_unittwist2 (S : V3 T) : V3 T := unittwist2_m O thr_twist2_w S.
Definition m_unittwist2_norm (S : V3 T) : V4 T :=
  let '((a,b,c), th) := unittwist2_norm_m O thr_twist2_w S in (a,b,c,th).
Definition m_angdiff1 (a : T) : T := angdiff1_m O a.
Definition m_angdiff2 (a b : T) : T := angdiff2_m O a b.
(* Twist3.unit = Twist3(base.unittwist(S)), Twist2.unit = Twist2(base.unittwist2(S)) *)
Definition m_twist3_unit (S : V6 T) : option (V6 T) := unittwist_m O thr_twist_S thr_twist_w S.
Definition m_twist2_unit (S : V3 T) : V3 T := unittwist2_m O thr_twist2_w S.
(* trnorm2 calls the same unitvec (same threshold) on the second column *)
Definition m_trnorm22 (R : M22 T) : option (M22 T) := trnorm22_m O thr_unitvec R.
Definition m_trnorm23 (A : M33 T) : option (M33 T) := trnorm23_m O thr_unitvec A.
End Consts.
Create HintDb c14gen discriminated.
"""
M_NAMES = ['m_unitvec', 'm_unitvec_norm', 'm_qunit', 'm_trnorm33', 'm_trnorm44', 'm_unittwist', 'm_unittwist_norm',
           'm_unittwist2', 'm_unittwist2_norm', 'm_angdiff1', 'm_angdiff2', 'm_twist3_unit', 'm_twist2_unit', 'm_trnorm22', 'm_trnorm23']
THR_NAMES = ['unitvec', 'unitvec_norm', 'qunit', 'twist_S', 'twistn_S', 'twist_w', 'twist2_w']


def consts_text(th):
    thr = "".join(f"Definition thr_{n} : T := {thr_coq(th[n])}.\n" for n in THR_NAMES)
    txt = CONSTS_TEMPLATE.replace('@THR@', thr)
    names = ['thr_' + n for n in THR_NAMES] + M_NAMES
    txt += "".join(f"Arguments {n} {{T}} O.\n" for n in names)
    txt += "#[export] Hint Unfold " + " ".join(names) + " : c14gen.\n"
    return txt


# ====================================================================================== T-sym (concolic)
PATHS = {}     # trace / pc name -> (inputs, [(relational, truth)])


def conc(name, libfn, vals, alloc=False, expect_none=False):
    """wrap a library call for Gen.trace: set the shadow valuation, run on symbols, keep the recorded path"""
    def fn(*symargs):
        concolic.VAL.clear()
        for s, v in zip(symargs, vals):
            for sym, x in zip(np.asarray(s, dtype=object).flatten(), np.asarray(v, dtype=float).flatten()):
                concolic.VAL[sym] = float(x)
        concolic.PATH.clear()
        try:
            if alloc:
                with concolic.object_alloc():
                    r = libfn(*symargs)
            else:
                r = libfn(*symargs)
        finally:
            PATHS[name] = list(concolic.PATH)
        return r
    return fn


def _fix_floats(e):
    """floats that may appear in a trace: 1.0, math.pi, 2*math.pi (angdiff).  pi is printed as pi_f; anything else is refused"""
    e = sympy.sympify(e)

    def conv(f):
        x = float(f)
        if x == 1.0:
            return sympy.Integer(1)
        if x == -1.0:
            return sympy.Integer(-1)
        if x == math.pi:
            return sympy.pi
        if x == -math.pi:
            return -sympy.pi
        if x == 2 * math.pi:
            return 2 * sympy.pi
        raise PrintError(f"unexpected float literal {f!r} in an angdiff trace")
    return e.replace(lambda t: t.is_Float, conv)


def mod_to_floor(e):
    """np.mod on Python/NumPy floats with a positive modulus: x - y*floor(x/y)"""
    e = _fix_floats(e)
    # build the argument of floor unevaluated in the form x/y
    return e.replace(lambda t: isinstance(t, sympy.Mod),
                     lambda t: t.args[0] - t.args[1] * sympy.floor(t.args[0] / t.args[1]))


def pc_text(name, inputs, path):
    """Definition pc_<name> {T} (O : ops T) args : Prop := conjunction of the recorded comparisons"""
    binders = " ".join(f"({an} : {coq_type(sh)})" for an, sh in inputs)
    lets = "".join(f"  let '{input_pattern(an, sh)} := {an} in\n" for an, sh in inputs if sh != 'S')
    atoms = []
    for rel, truth in path:
        op = rel.rel_op
        a, b = coq_expr(rel.lhs), coq_expr(rel.rhs)
        if op == '<':
            t = f"ltb O {a} {b}"
        elif op == '>':
            t = f"ltb O {b} {a}"
        elif op == '<=':
            t = f"leb O {a} {b}"
        elif op == '>=':
            t = f"leb O {b} {a}"
        else:
            raise PrintError(f"unsupported relational {rel}")
        atoms.append(f"({t} = {'true' if truth else 'false'})")
    body = " /\\ ".join(atoms + ["True"])
    return (f"Definition {name} {binders} : Prop :=\n{lets}  {body}.\n")


PC_HEADER = """
(* ---- path conditions recorded by the concolic runs (comparisons of the library on symbols) ---- *)
Section PC.
Context {T : Type} (O : ops T).
Local Infix "+" := (add O). Local Infix "-" := (sub O). Local Infix "*" := (mul O). Local Infix "/" := (div O).
"""


def pc_only(name, inputs, libfn, vals, alloc=False):
    """a path on which the library returns None / raises: only the path condition is emitted"""
    args = [sym_input(an, sh)[0] for an, sh in inputs]
    try:
        r = conc(name, libfn, vals, alloc)(*args)
    except Exception as ex:   # the None path of trnorm / unit raises
        r = ex
    return r


S6 = [0.3, -1.2, 0.7, 0.4, 0.5, -0.6]
S6_IRR = [0.3, -1.2, 0.7, 0.0, 0.0, 0.0]
R0 = [[0.36, 0.48, -0.8], [-0.8, 0.6, 0.0], [0.48, 0.64, 0.6]]


def build(ctx, th):
    g = Gen('C14')
    tv, tq = thr_value(th['unitvec']), thr_value(th['qunit'])
    tS, tw, t2 = thr_value(th['twist_S']), thr_value(th['twist_w']), thr_value(th['twist2_w'])

    def vec_sampler(n, lo=1e-6, hi=1e6):
        lo = max(lo, 4 * max(tv, tq))      # value path only (thresholds are far below 1e-6 on the unchanged tree)
        return lambda rng: [rand_unit(rng, n) * log_uniform(rng, lo, hi)]

    def twist_sampler(kind):
        def s(rng):
            v = rand_unit(rng) * log_uniform(rng, 1e-6, 1e6)
            if kind == 'rot':
                w = rand_unit(rng) * log_uniform(rng, 4 * tw, 1e6)
            else:
                w = np.zeros(3) if rng.random() < 0.5 else rand_unit(rng) * log_uniform(rng, 1e-30, tw / 4)
            return [np.r_[v, w]]
        return s

    def twist2_sampler(kind):
        def s(rng):
            v = rand_unit(rng, 2) * log_uniform(rng, 1e-6, 1e6)
            if kind == 'rot':
                w = log_uniform(rng, 4 * t2, 1e6) * rng.choice([-1.0, 1.0])
            else:
                w = 0.0 if rng.random() < 0.5 else log_uniform(rng, 1e-30, t2 / 4) * rng.choice([-1.0, 1.0])
            return [np.r_[v, w]]
        return s

    def mat_sampler(n):
        def s(rng):
            R = rand_rot(rng) + rng.normal(size=(3, 3)) * log_uniform(rng, 1e-15, 1e-2)
            if n == 3:
                return [R]
            T = np.eye(4)
            T[:3, :3] = R
            T[:3, 3] = rand_trans(rng, 1e-6, 1e6)
            return [T]
        return s

    def mat2_sampler(n):
        def s(rng):
            R = rand_rot2(rng) + rng.normal(size=(2, 2)) * log_uniform(rng, 1e-15, 1e-2)
            if n == 2:
                return [R]
            T = np.eye(3)
            T[:2, :2] = R
            T[:2, 2] = rand_trans(rng, 1e-6, 1e6, 2)
            return [T]
        return s

    def ang_sampler(k):
        # stay away from the wrap points (the float floor-form and fmod may differ by one turn within an ulp of them)
        def one(rng):
            while True:
                a = rng.uniform(-1e3, 1e3)
                r = math.remainder(a + math.pi, 2 * math.pi)
                if abs(r) > 1e-6:
                    return a
        if k == 1:
            return lambda rng: [one(rng)]

        def two(rng):
            while True:
                a, b = rng.uniform(-1e3, 1e3), rng.uniform(-1e3, 1e3)
                if abs(math.remainder(a - b + math.pi, 2 * math.pi)) > 1e-6:
                    return [a, b]
        return two

    # ---- traces of the value paths (the library itself on symbols)
    V3i, V4i, V6i = [('v', 'V3')], [('q', 'V4')], [('S', 'V6')]
    g.trace('tr_unitvec', V3i, conc('tr_unitvec', base.unitvec, [[1, 2, 3]]), num_fn=base.unitvec, sampler=vec_sampler(3))
    g.trace('tr_unitvec_norm', V3i, conc('tr_unitvec_norm', lambda v: _pack(base.unitvec_norm(v)), [[1, 2, 3]]), out='V4',
            num_fn=lambda v: _pack(base.unitvec_norm(v)), sampler=vec_sampler(3))
    g.trace('tr_qunit', V4i, conc('tr_qunit', base.unit, [[1, 2, 3, 4]]), num_fn=base.unit, sampler=vec_sampler(4))
    g.trace('tr_unittwist_rot', V6i, conc('tr_unittwist_rot', base.unittwist, [S6]), num_fn=base.unittwist, sampler=twist_sampler('rot'))
    g.trace('tr_unittwist_irr', V6i, conc('tr_unittwist_irr', base.unittwist, [S6_IRR]), num_fn=base.unittwist, sampler=twist_sampler('irr'))
    pk8 = lambda r: np.r_[r[0], r[1], 0]
    g.trace('tr_unittwist_norm_rot', V6i, conc('tr_unittwist_norm_rot', lambda S: pk8(base.unittwist_norm(S)), [S6]), out='V8',
            num_fn=lambda S: pk8(base.unittwist_norm(S)), sampler=twist_sampler('rot'))
    g.trace('tr_unittwist_norm_irr', V6i, conc('tr_unittwist_norm_irr', lambda S: pk8(base.unittwist_norm(S)), [S6_IRR]), out='V8',
            num_fn=lambda S: pk8(base.unittwist_norm(S)), sampler=twist_sampler('irr'))
    S3i = [('S', 'V3')]
    g.trace('tr_unittwist2_rot', S3i, conc('tr_unittwist2_rot', base.unittwist2, [[1, 2, 3]]), num_fn=base.unittwist2, sampler=twist2_sampler('rot'))
    g.trace('tr_unittwist2_irr', S3i, conc('tr_unittwist2_irr', base.unittwist2, [[1, 2, 0]]), num_fn=base.unittwist2, sampler=twist2_sampler('irr'))
    g.trace('tr_unittwist2_norm_rot', S3i, conc('tr_unittwist2_norm_rot', lambda S: _pack(base.unittwist2_norm(S)), [[1, 2, 3]]), out='V4',
            num_fn=lambda S: _pack(base.unittwist2_norm(S)), sampler=twist2_sampler('rot'))
    g.trace('tr_unittwist2_norm_irr', S3i, conc('tr_unittwist2_norm_irr', lambda S: _pack(base.unittwist2_norm(S)), [[1, 2, 0]]), out='V4',
            num_fn=lambda S: _pack(base.unittwist2_norm(S)), sampler=twist2_sampler('irr'))
    g.trace('tr_angdiff1', [('a', 'S')], conc('tr_angdiff1', base.angdiff, [1.0]), post=mod_to_floor, num_fn=base.angdiff,
            sampler=ang_sampler(1), tol=1e-9, note='np.mod printed as x - y*floor(x/y); math.pi printed as pi_f')
    g.trace('tr_angdiff2', [('a', 'S'), ('b', 'S')], conc('tr_angdiff2', base.angdiff, [1.0, 2.5]), post=mod_to_floor,
            num_fn=base.angdiff, sampler=ang_sampler(2), tol=1e-9)
    g.trace('tr_trnorm33', [('R', 'M33')], conc('tr_trnorm33', base.trnorm, [R0]), num_fn=base.trnorm, sampler=mat_sampler(3))
    T0 = np.eye(4)
    T0[:3, :3] = R0
    T0[:3, 3] = [1, 2, 3]
    g.trace('tr_trnorm44', [('A', 'M44')], conc('tr_trnorm44', base.trnorm, [T0], alloc=True), num_fn=base.trnorm, sampler=mat_sampler(4))
    t3u, t2u = (lambda S: Twist3(S).unit.S), (lambda S: Twist2(S).unit.S)
    g.trace('tr_T3_unit_rot', V6i, conc('tr_T3_unit_rot', t3u, [S6]), num_fn=t3u, sampler=twist_sampler('rot'))
    g.trace('tr_T3_unit_irr', V6i, conc('tr_T3_unit_irr', t3u, [S6_IRR]), num_fn=t3u, sampler=twist_sampler('irr'))
    g.trace('tr_T2_unit_rot', S3i, conc('tr_T2_unit_rot', t2u, [[1, 2, 3]]), num_fn=t2u, sampler=twist2_sampler('rot'))
    g.trace('tr_T2_unit_irr', S3i, conc('tr_T2_unit_irr', t2u, [[1, 2, 0]]), num_fn=t2u, sampler=twist2_sampler('irr'))
    R20 = [[0.6, -0.8], [0.8, 0.6]]
    T20 = [[0.6, -0.8, 1.5], [0.8, 0.6, -2.5], [0, 0, 1]]
    g.trace('tr_trnorm22', [('R', 'M22')], conc('tr_trnorm22', base.trnorm2, [R20], alloc=True), num_fn=base.trnorm2, sampler=mat2_sampler(2))
    g.trace('tr_trnorm23', [('A', 'M33')], conc('tr_trnorm23', base.trnorm2, [T20], alloc=True), num_fn=base.trnorm2, sampler=mat2_sampler(3))
    g.trace('tr_UQ_sv', [('s', 'S'), ('v', 'V3')], conc('tr_UQ_sv', lambda s, v: UnitQuaternion(s, v).vec, [1.0, [2, 3, 4]]),
            num_fn=lambda s, v: UnitQuaternion(s, v).vec,
            sampler=lambda rng: (lambda q: [float(q[0]), q[1:]])(rand_unit(rng, 4) * log_uniform(rng, 1e-6, 1e6)))

    # ---- None / raising paths: path conditions only
    none_paths = {}
    for name, inputs, fn, vals in [
            ('pc_unitvec_none', V3i, base.unitvec, [[0, 0, 0]]),
            ('pc_unitvec_norm_none', V3i, base.unitvec_norm, [[0, 0, 0]]),
            ('pc_qunit_none', V4i, base.unit, [[0, 0, 0, 0]]),
            ('pc_unittwist_none', V6i, base.unittwist, [[0] * 6]),
            ('pc_unittwist_norm_none', V6i, base.unittwist_norm, [[0] * 6]),
            ('pc_trnorm22_none', [('R', 'M22')], base.trnorm2, [[[1, 0], [0, 0]]])]:
        r = pc_only(name, inputs, fn, vals)
        ok = r is None or isinstance(r, (ValueError, TypeError)) or (isinstance(r, tuple) and all(x is None for x in r))
        if not ok:
            raise PrintError(f"{name}: the zero input did not take the None/ValueError path (got {r!r})")
        none_paths[name] = inputs

    # ---- hand models: numeric correspondence T-num (also through the class layer)
    def both(kinds, mk):
        return lambda rng: mk(kinds[int(rng.integers(len(kinds)))])(rng)

    def vec0_sampler(n, thr):
        # norms from exactly zero over both sides of the threshold (never within a factor 4 of it) up to 1e6
        def s(rng):
            r = rng.random()
            if r < 0.1:
                return [np.zeros(n)]
            if r < 0.3:
                return [rand_unit(rng, n) * log_uniform(rng, 1e-30, thr / 4)]
            if r < 0.5 and 4 * thr < 1e-6:
                return [rand_unit(rng, n) * log_uniform(rng, 4 * thr, 1e-6)]
            return [rand_unit(rng, n) * log_uniform(rng, max(1e-6, 4 * thr), 1e6)]
        return s

    def twist0_sampler(rng):
        r = rng.random()
        if r < 0.1:
            return [np.zeros(6)]
        if r < 0.2:
            return [rand_unit(rng, 6) * log_uniform(rng, 1e-30, tS / 4)]
        return twist_sampler('rot' if rng.random() < 0.5 else 'irr')(rng)

    def opt(f):
        def h(*a):
            try:
                return f(*a)
            except ValueError:
                return None
        return h
    g.model('m_unitvec', V3i, 'O:V3', coq='m_unitvec', module=None, num_fn=base.unitvec, sampler=vec0_sampler(3, tv))
    g.model('m_unitvec_norm', V3i, 'O:V4', coq='m_unitvec_norm', module=None, num_fn=lambda v: _pack(base.unitvec_norm(v)),
            sampler=vec0_sampler(3, tv))
    g.model('m_qunit', V4i, 'O:V4', coq='m_qunit', module=None, num_fn=opt(base.unit), sampler=vec0_sampler(4, tq))
    g.model('m_qunit_Quaternion_unit', V4i, 'O:V4', coq='m_qunit', module=None, num_fn=opt(lambda q: Quaternion(q).unit().vec),
            sampler=vec0_sampler(4, tq), note='Quaternion.unit() against the same model')
    g.model('m_qunit_UnitQuaternion', V4i, 'O:V4', coq='m_qunit', module=None, num_fn=opt(lambda q: UnitQuaternion([float(x) for x in q]).vec),
            sampler=vec0_sampler(4, tq), note='UnitQuaternion(4-element list) constructor against the same model')
    g.model('m_qunit_UnitQuaternion_ndarray', V4i, 'O:V4', coq='m_qunit', module=None,
            num_fn=opt(lambda q: UnitQuaternion(np.asarray(q, float)).vec), sampler=vec0_sampler(4, tq),
            note='UnitQuaternion(ndarray of 4 numbers) constructor against the same model (normalised since fix d0fc1b2)')
    g.model('m_qunit_UnitQuaternion_Nx4', V4i, 'O:V4', coq='m_qunit', module=None,
            num_fn=opt(lambda q: UnitQuaternion(np.vstack([np.asarray(q, float), [0.0, 3.0, 0.0, 4.0]])).data[0]),
            sampler=vec0_sampler(4, tq), note='UnitQuaternion(N x 4 array) constructor (row 0 of 2) against the same model')
    # the same constructor forms with the validity check switched off: `check` governs validation only, normalisation is governed by `norm`
    # (default True), so the value stored is still q / |q|
    g.model('m_qunit_UnitQuaternion_nocheck', V4i, 'O:V4', coq='m_qunit', module=None,
            num_fn=opt(lambda q: UnitQuaternion([float(x) for x in q], check=False).vec), sampler=vec0_sampler(4, tq),
            note='UnitQuaternion(4-element list, check=False) against the same model')
    g.model('m_qunit_UnitQuaternion_ndarray_nocheck', V4i, 'O:V4', coq='m_qunit', module=None,
            num_fn=opt(lambda q: UnitQuaternion(np.asarray(q, float), check=False).vec), sampler=vec0_sampler(4, tq),
            note='UnitQuaternion(ndarray of 4 numbers, check=False) against the same model')
    g.model('m_qunit_UnitQuaternion_listofarrays_nocheck', V4i, 'O:V4', coq='m_qunit', module=None,
            num_fn=opt(lambda q: UnitQuaternion([np.asarray(q, float), np.array([0.0, 3.0, 0.0, 4.0])], check=False).data[0]), sampler=vec0_sampler(4, tq),
            note='UnitQuaternion(list of two ndarray(4), check=False), element 0, against the same model')
    g.model('m_trnorm33', [('R', 'M33')], 'O:M33', coq='m_trnorm33', module=None, num_fn=base.trnorm, sampler=mat_sampler(3))
    g.model('m_trnorm44', [('A', 'M44')], 'O:M44', coq='m_trnorm44', module=None, num_fn=base.trnorm, sampler=mat_sampler(4))
    g.model('m_trnorm33_SO3_norm', [('R', 'M33')], 'O:M33', coq='m_trnorm33', module=None,
            num_fn=lambda R: SO3(R, check=False).norm().A, sampler=mat_sampler(3), note='SO3.norm() against the same model')
    g.model('m_trnorm44_SE3_norm', [('A', 'M44')], 'O:M44', coq='m_trnorm44', module=None,
            num_fn=lambda A: SE3(A, check=False).norm().A, sampler=mat_sampler(4), note='SE3.norm() against the same model')
    g.model('m_unittwist', V6i, 'O:V6', coq='m_unittwist', module=None, num_fn=base.unittwist, sampler=twist0_sampler)
    g.model('m_unittwist_norm', V6i, 'O:V8', coq='m_unittwist_norm', module=None,
            num_fn=lambda S: (lambda r: None if r[0] is None else pk8(r))(base.unittwist_norm(S)), sampler=twist0_sampler)
    g.model('m_unittwist2', S3i, 'V3', coq='m_unittwist2', module=None, num_fn=base.unittwist2,
            sampler=both(['rot', 'irr'], twist2_sampler))
    g.model('m_unittwist2_norm', S3i, 'V4', coq='m_unittwist2_norm', module=None, num_fn=lambda S: _pack(base.unittwist2_norm(S)),
            sampler=both(['rot', 'irr'], twist2_sampler))
    g.model('m_angdiff1', [('a', 'S')], 'S', coq='m_angdiff1', module=None, num_fn=base.angdiff, sampler=ang_sampler(1), tol=1e-9)
    g.model('m_angdiff2', [('a', 'S'), ('b', 'S')], 'S', coq='m_angdiff2', module=None, num_fn=base.angdiff, sampler=ang_sampler(2), tol=1e-9)
    g.model('m_twist3_unit', V6i, 'O:V6', coq='m_twist3_unit', module=None, num_fn=t3u,
            sampler=both(['rot', 'irr'], twist_sampler), note='Twist3.unit = Twist3(base.unittwist(S))')
    g.model('m_twist2_unit', S3i, 'V3', coq='m_twist2_unit', module=None, num_fn=t2u,
            sampler=both(['rot', 'irr'], twist2_sampler), note='Twist2.unit = Twist2(base.unittwist2(S))')

    def opt2(f):
        def h(*a):
            try:
                return f(*a)
            except (ValueError, TypeError):
                return None
        return h

    def mat2z_sampler(n):
        # as mat2_sampler, plus second columns that are exactly zero / far below the threshold (trnorm2 raises)
        def s(rng):
            M = mat2_sampler(n)(rng)[0]
            r = rng.random()
            if r < 0.1:
                M[:2, 1] = 0.0
            elif r < 0.2:
                M[:2, 1] = rand_unit(rng, 2) * log_uniform(rng, 1e-30, tv / 4)
            return [M]
        return s
    g.model('m_trnorm22', [('R', 'M22')], 'O:M22', coq='m_trnorm22', module=None, num_fn=opt2(base.trnorm2), sampler=mat2z_sampler(2))
    g.model('m_trnorm23', [('A', 'M33')], 'O:M33', coq='m_trnorm23', module=None, num_fn=opt2(base.trnorm2), sampler=mat2z_sampler(3))
    g.model('m_trnorm22_SO2_norm', [('R', 'M22')], 'O:M22', coq='m_trnorm22', module=None,
            num_fn=lambda R: SO2(R, check=False).norm().A, sampler=mat2_sampler(2), note='SO2.norm() against the same model')
    g.model('m_trnorm23_SE2_norm', [('A', 'M33')], 'O:M33', coq='m_trnorm23', module=None,
            num_fn=lambda A: SE2(A, check=False).norm().A, sampler=mat2_sampler(3), note='SE2.norm() against the same model')
    return g, none_paths


def _pack(r):
    """(vector, scalar) -> one vector; None stays None"""
    if r is None:
        return None
    return np.r_[r[0], r[1]]


def gen_text(g, th, none_paths):
    txt = g.coq_text() + consts_text(th)
    txt += PC_HEADER
    names = []
    for t in g.traces:
        if t.term is not None and PATHS[t.name]:
            names.append('pc_' + t.name[3:])
            txt += pc_text(names[-1], t.inputs, PATHS[t.name])
    for name, inputs in none_paths.items():
        names.append(name)
        txt += pc_text(name, inputs, PATHS[name])
    txt += "End PC.\n" + "".join(f"Arguments {n} {{T}} O.\n" for n in names)
    txt += "#[export] Hint Unfold " + " ".join(names) + " : c14gen.\n"
    return txt


# ====================================================================================== oracle
TOL = 1e-12


def hx(a):
    return [float(x).hex() for x in np.asarray(a, float).flatten()]


class Oracle:
    def __init__(self, ctx, th, rng):
        self.ctx, self.th, self.rng = ctx, th, rng
        self.tw = thr_value(th['twist_w'])
        self.t2 = thr_value(th['twist2_w'])

    def ok(self, law, site, case, err, tol, inputs, extra=None):
        """one evaluation of one law; key = oracle:<law>:<site>:<case>"""
        ctx = self.ctx
        ctx.case((law, site, tuple(np.asarray(inputs, float).flatten()[:16])))
        ctx.count(f'oracle:{law}:{site}')
        e = float(err) if np.isfinite(err) else float('inf')
        k = f'worst:{law}:{site}'
        ctx.stats[k] = max(ctx.stats.get(k, 0.0), e)
        if not e <= tol:
            ctx.fail(f'oracle:{law}:{site}:{case}', f"{law} fails for {site} ({case}): residual {e:g} > {tol:g}",
                     dict(law=law, site=site, case=case, inputs_hex=hx(inputs), residual=e, **(extra or {})))
            return False
        return True

    def raised(self, site, ex, inputs, case=''):
        self.ctx.count(f'oracle:raises:{site}')
        self.ctx.fail(f'oracle:raises:{site}:{type(ex).__name__}' + (':' + case if case else ''),
                      f"{site} raises {type(ex).__name__}: {ex}", dict(site=site, inputs_hex=hx(inputs), error=repr(ex)))

    # ------------------------------------------------------------------ matrices
    @staticmethod
    def so3_residual(R):
        R = np.asarray(R, float)
        if R.shape != (3, 3) or not np.all(np.isfinite(R)):
            return float('inf')
        return max(np.max(np.abs(R @ R.T - np.eye(3))), abs(np.linalg.det(R) - 1))

    def matrices(self, N):
        rng = self.rng
        sites = [('trnorm33', 3, lambda M: base.trnorm(M)), ('trnorm44', 4, lambda M: base.trnorm(M)),
                 ('SO3.norm', 3, lambda M: SO3(M, check=False).norm().A), ('SE3.norm', 4, lambda M: SE3(M, check=False).norm().A)]
        grid = [1e-15, 1e-12, 1e-9, 1e-6, 1e-4, 1e-3, 1e-2]
        for i in range(N):
            R0 = rand_rot(rng)
            mag = grid[i % len(grid)] if i < 4 * len(grid) else log_uniform(rng, 1e-15, 1e-2)
            Rn = R0 + rng.normal(size=(3, 3)) * mag
            t = rand_trans(rng, 1e-6, 1e6)
            for site, n, f in sites:
                if n == 3:
                    M0, M = R0, Rn
                else:
                    M0, M = np.eye(4), np.eye(4)
                    M0[:3, :3], M[:3, :3] = R0, Rn
                    M0[:3, 3] = M[:3, 3] = t
                try:
                    M1 = np.asarray(f(M), float)
                    M2 = np.asarray(f(M1), float)
                    F0 = np.asarray(f(M0), float)
                except Exception as ex:
                    self.raised(site, ex, M)
                    continue
                R1 = M1[:3, :3]
                self.ok('valid', site, 'noisy', self.so3_residual(R1), TOL, M, {'noise': mag})
                self.ok('idempotent', site, 'noisy', np.max(np.abs(M2 - M1)), TOL, M, {'noise': mag})
                self.ok('fixed', site, 'valid-input', np.max(np.abs(F0[:3, :3] - M0[:3, :3])), TOL, M0)
                o, a = M[:3, 1], M[:3, 2]
                self.ok('third-axis', site, 'noisy', np.max(np.abs(R1[:, 2] - a / np.linalg.norm(a))), TOL, M)
                nrm = np.cross(o, a)
                self.ok('second-axis-in-plane', site, 'noisy', abs(R1[:, 1] @ nrm) / np.linalg.norm(nrm), TOL, M)
                # the new second axis is on the same side as the old one
                self.ok('second-axis-side', site, 'noisy', 0.0 if R1[:, 1] @ o > 0 else 1.0, 0.5, M)
                if n == 4:
                    self.ok('translation-kept', site, 'noisy', 0.0 if np.array_equal(M1[:3, 3], t) and np.array_equal(F0[:3, 3], t) else 1.0, 0.5, M)
                    self.ok('last-row', site, 'noisy', 0.0 if np.array_equal(M1[3, :], [0, 0, 0, 1]) else 1.0, 0.5, M)
        self.ctx.sample({'kind': 'oracle', 'law': 'trnorm valid/idempotent', 'noise': mag, 'R_noisy': Rn.tolist()})

    # ------------------------------------------------------------------ vectors and quaternions
    def vectors(self, N):
        rng = self.rng
        uq1 = lambda q: UnitQuaternion([float(x) for x in q]).vec
        uq3 = lambda q: UnitQuaternion(np.asarray(q, float)).vec
        # N x 4 array form: every row is normalised; the observed row is the first of two
        uq4 = lambda q: np.asarray(UnitQuaternion(np.vstack([np.asarray(q, float), np.asarray(q, float)[::-1]])).data[0], float)
        uq2 = lambda q: UnitQuaternion(float(q[0]), q[1:]).vec
        sites = [('unitvec', 3, base.unitvec), ('unitvec_norm', 3, lambda v: base.unitvec_norm(v)[0]),
                 ('qunit', 4, base.unit), ('Quaternion.unit', 4, lambda q: Quaternion(q).unit().vec),
                 ('UnitQuaternion(list)', 4, uq1), ('UnitQuaternion(s,v)', 4, uq2), ('UnitQuaternion(ndarray4)', 4, uq3),
                 ('UnitQuaternion(Nx4)', 4, uq4),
                 ('UnitQuaternion(list,check=False)', 4, lambda q: UnitQuaternion([float(x) for x in q], check=False).vec),
                 ('UnitQuaternion(tuple,check=False)', 4, lambda q: UnitQuaternion(tuple(float(x) for x in q), check=False).vec),
                 ('UnitQuaternion(ndarray4,check=False)', 4, lambda q: UnitQuaternion(np.asarray(q, float), check=False).vec),
                 ('UnitQuaternion(ndarray1x4,check=False)', 4, lambda q: UnitQuaternion(np.asarray(q, float).reshape(1, 4), check=False).vec),
                 ('UnitQuaternion(list-of-ndarray4,check=False)', 4,
                  lambda q: np.asarray(UnitQuaternion([np.asarray(q, float), np.asarray(q, float)[::-1].copy()], check=False).data[1], float)[::-1]),
                 ('UnitQuaternion(s,v,check=False)', 4, lambda q: UnitQuaternion(float(q[0]), q[1:], check=False).vec)]
        norms = [1e-6, 1e6, 1.0, 1 + 1e-15, 1 - 1e-15, 1 + 1e-2, 1 - 1e-2]
        for i in range(N):
            for site, n, f in sites:
                u0 = rand_unit(rng, n)
                if i % 5 == 0:
                    u0 = np.eye(n)[rng.integers(n)] * rng.choice([-1.0, 1.0])
                m = norms[i % len(norms)] if i < 3 * len(norms) else log_uniform(rng, 1e-6, 1e6)
                v = u0 * m
                try:
                    u = np.asarray(f(v), float)
                    u2 = np.asarray(f(u), float)
                    f0 = np.asarray(f(u0), float)
                except Exception as ex:
                    self.raised(site, ex, v)
                    continue
                ref = v / np.linalg.norm(v)
                self.ok('valid', site, 'nonzero', abs(np.linalg.norm(u) - 1), TOL, v)
                self.ok('direction', site, 'nonzero', np.max(np.abs(u - ref)), TOL, v)
                self.ok('idempotent', site, 'nonzero', np.max(np.abs(u2 - u)), TOL, v)
                self.ok('fixed', site, 'unit-input', np.max(np.abs(f0 - u0)), TOL, u0)
            v = rand_unit(rng) * log_uniform(rng, 1e-6, 1e6)
            r = base.unitvec_norm(v)
            self.ok('norm-returned', 'unitvec_norm', 'nonzero', abs(r[1] - np.linalg.norm(v)) / np.linalg.norm(v), TOL, v)
        # unitvec / unitvec_norm return None exactly for the vectors iszerovec calls zero (fix 4dbd011), incl. norm == 10 eps
        for site, f in (('unitvec', base.unitvec), ('unitvec_norm', base.unitvec_norm)):
            for m in [10 * EPS, float(np.nextafter(10 * EPS, 0)), float(np.nextafter(10 * EPS, 1)), 9 * EPS, 11 * EPS, 50 * EPS, 100 * EPS,
                      101 * EPS, 0.0, 1e-300] + [log_uniform(rng, 1e-17, 1e-13) for _ in range(40)]:
                v = np.eye(3)[rng.integers(3)] * m
                r = f(v)
                self.ok('None-iff-iszerovec', site, 'near-threshold', 0.0 if (r is None) == bool(base.iszerovec(v)) else 1.0, 0.5, v)
                if r is not None:
                    u = np.asarray(r[0] if isinstance(r, tuple) else r, float)
                    self.ok('valid', site, 'near-threshold', abs(np.linalg.norm(u) - 1), TOL, v)
        # zero inputs: None / ValueError, not NaN
        self.ok('zero-gives-None', 'unitvec', 'zero', 0.0 if base.unitvec(np.zeros(3)) is None else 1.0, 0.5, np.zeros(3))
        self.ok('zero-gives-None', 'unitvec_norm', 'zero', 0.0 if base.unitvec_norm(np.zeros(3)) is None else 1.0, 0.5, np.zeros(3))
        for site, f in [('qunit', base.unit), ('Quaternion.unit', lambda q: Quaternion(q).unit())]:
            try:
                f(np.zeros(4))
                self.ok('zero-raises-ValueError', site, 'zero', 1.0, 0.5, np.zeros(4))
            except ValueError:
                self.ok('zero-raises-ValueError', site, 'zero', 0.0, 0.5, np.zeros(4))
            except Exception as ex:
                self.raised(site, ex, np.zeros(4), 'zero')
        # UnitQuaternion from an N x 4 array: every element must be a unit quaternion
        A = rng.normal(size=(3, 4)) * 3
        try:
            u = UnitQuaternion(A)
            good = len(u) == 3 and all(np.shape(x) == (4,) and abs(np.linalg.norm(x) - 1) < TOL and
                                       np.max(np.abs(np.asarray(x, float) - r / np.linalg.norm(r))) < TOL for x, r in zip(u.data, A))
            if not good:
                self.ctx.count('oracle:valid:UnitQuaternion(Nx4)')
                self.ctx.fail('oracle:valid:UnitQuaternion(Nx4):rows-not-normalised',
                              f"UnitQuaternion(ndarray N x 4) does not hold unit quaternions: data = {u.data!r}"[:400],
                              dict(site='UnitQuaternion(Nx4)', inputs_hex=hx(A), data=repr(u.data)[:400]))
            else:
                self.ok('valid', 'UnitQuaternion(Nx4)', 'all-rows', 0.0, TOL, A)
        except Exception as ex:
            self.raised('UnitQuaternion(Nx4)', ex, A)

    # ------------------------------------------------------------------ twists
    def wcase(self, wn, thr):
        return 'w-zero' if wn == 0 else ('w-subthreshold' if wn < thr else 'w-above')

    def twist_valid(self, U, thr, nv):
        """unit rotational part, or (rotational part below the zero threshold and) unit translational part"""
        U = np.asarray(U, float)
        if not np.all(np.isfinite(U)):
            return float('inf')
        wn = np.linalg.norm(U[nv:])
        return abs(wn - 1) if wn >= thr else abs(np.linalg.norm(U[:nv]) - 1)

    def twists(self, N):
        rng = self.rng
        tw, t2 = self.tw, self.t2
        s3 = [('unittwist', base.unittwist), ('unittwist_norm', lambda S: base.unittwist_norm(S)[0]),
              ('Twist3.unit->unittwist', lambda S: Twist3(S).unit.S)]
        s2 = [('unittwist2', base.unittwist2), ('unittwist2_norm', lambda S: base.unittwist2_norm(S)[0]),
              ('Twist2.unit->unittwist2', lambda S: Twist2(S).unit.S)]
        for i in range(N):
            for dim, sites, thr in ((3, s3, tw), (2, s2, t2)):
                nv, nw = (3, 3) if dim == 3 else (2, 1)
                total = log_uniform(rng, 1e-6, 1e6) if i % 4 else [1e-6, 1e6, 1.0, 0.5][(i // 4) % 4]
                kind = i % 6
                wdir = rand_unit(rng, nw) if nw > 1 else np.array([rng.choice([-1.0, 1.0])])
                vdir = rand_unit(rng, nv)
                if kind == 0:                      # rotational part exactly zero
                    v, w = vdir * total, np.zeros(nw)
                elif kind == 1:                    # below the threshold, not zero
                    v, w = vdir * total, wdir * log_uniform(rng, 1e-25, thr * 0.9)
                elif kind == 2:                    # just above the threshold
                    v, w = vdir * total, wdir * log_uniform(rng, thr * 1.1, 1e3 * thr)
                elif kind == 3:                    # pure rotation
                    v, w = np.zeros(nv), wdir * total
                else:                              # general screw, |w| above the threshold
                    f = rng.uniform(0.01, 0.99)
                    v, w = vdir * total * f, wdir * total * math.sqrt(1 - f * f)
                S = np.r_[v, w]
                case = self.wcase(np.linalg.norm(w), thr)
                # a valid unit twist near S (for the "valid input unchanged" law)
                if np.linalg.norm(w) >= thr:
                    V0 = S / np.linalg.norm(w)
                else:
                    V0 = np.r_[vdir, np.zeros(nw)]
                for site, f in sites:
                    try:
                        with np.errstate(all='ignore'):
                            U = f(S)
                            U = None if U is None else np.asarray(U, float)
                            U2 = None if U is None else f(U)
                            F0 = f(V0)
                    except Exception as ex:
                        self.raised(site, ex, S)
                        continue
                    if U is None or U2 is None or F0 is None:
                        self.ok('defined', site, case, 1.0, 0.5, S)
                        continue
                    U2, F0 = np.asarray(U2, float), np.asarray(F0, float)
                    self.ok('valid', site, case, self.twist_valid(U, thr, nv), TOL, S)
                    if case == 'w-above':
                        scale = np.linalg.norm(S) / max(np.linalg.norm(U), 1e-300)
                        dres = np.max(np.abs(U * scale - S)) / np.linalg.norm(S)
                    else:
                        # irrotational by the library's test: the direction that must be kept is that of v (the
                        # rotational part is regarded as zero; whether it is scaled or zeroed is not prescribed here)
                        dres = np.max(np.abs(U[:nv] / max(np.linalg.norm(U[:nv]), 1e-300) - v / np.linalg.norm(v)))
                    self.ok('direction', site, case, dres, TOL, S)
                    if case != 'w-above':
                        # since fix 3bd9c1c a rotational part below the zero threshold is exactly zero in the result
                        self.ok('w-zeroed', site, case, float(np.max(np.abs(U[nv:]))), 0.0, S)
                    self.ok('idempotent', site, case, np.max(np.abs(U2 - U)) / max(1.0, np.max(np.abs(U))), TOL, S)
                    self.ok('fixed', site, 'valid-input:' + case, np.max(np.abs(F0 - V0)) / max(1.0, np.max(np.abs(V0))), TOL, V0)
                if dim == 3:
                    U, th = base.unittwist_norm(S)
                    want = np.linalg.norm(w) if np.linalg.norm(w) >= thr else np.linalg.norm(v)
                    self.ok('theta-returned', 'unittwist_norm', case, abs(th - want) / want, TOL, S)
                else:
                    U, th = base.unittwist2_norm(S)
                    want = np.linalg.norm(w) if np.linalg.norm(w) >= thr else np.linalg.norm(v)
                    self.ok('theta-returned', 'unittwist2_norm', case, abs(th - want) / want, TOL, S)
        # multi-valued objects (sequence branch of Twist3.unit / Twist2.unit): the unit twist of each element
        for site, C, f, n in (('Twist3.unit(seq)', Twist3, base.unittwist, 6), ('Twist2.unit(seq)', Twist2, base.unittwist2, 3)):
            for _ in range(20):
                Ss = [np.r_[rand_unit(rng, n - n // 2) * log_uniform(rng, 1e-6, 1e6), rand_unit(rng, n // 2) * log_uniform(rng, 1e-6, 1e6)
                            if n == 6 else [log_uniform(rng, 1e-6, 1e6)]] for _ in range(3)]
                try:
                    U = C(Ss).unit
                    err = 1.0 if len(U) != 3 else max(np.max(np.abs(np.asarray(u, float) - np.asarray(f(x), float))) for u, x in zip(U.data, Ss))
                    self.ok('elementwise', site, 'w-above', err, 0.0, np.r_[Ss[0], Ss[1], Ss[2]])
                except Exception as ex:
                    self.raised(site, ex, np.r_[Ss[0], Ss[1], Ss[2]])
        self.ok('zero-gives-None', 'unittwist', 'zero', 0.0 if base.unittwist(np.zeros(6)) is None else 1.0, 0.5, np.zeros(6))
        self.ok('zero-gives-None', 'unittwist_norm', 'zero', 0.0 if base.unittwist_norm(np.zeros(6)) == (None, None) else 1.0, 0.5, np.zeros(6))
        self.ctx.sample({'kind': 'oracle', 'law': 'unittwist valid/idempotent', 'S': S.tolist()})

    # ------------------------------------------------------------------ 2-D pose normalisation (trnorm2, SO2/SE2.norm)
    @staticmethod
    def so2_residual(R):
        R = np.asarray(R, float)
        if R.shape != (2, 2) or not np.all(np.isfinite(R)):
            return float('inf')
        return max(np.max(np.abs(R @ R.T - np.eye(2))), abs(np.linalg.det(R) - 1))

    def matrices2(self, N):
        rng = self.rng
        sites = [('trnorm2(2x2)', 2, lambda M: base.trnorm2(M)), ('trnorm2(3x3)', 3, lambda M: base.trnorm2(M)),
                 ('SO2.norm()', 2, lambda M: SO2(M, check=False).norm().A), ('SE2.norm()', 3, lambda M: SE2(M, check=False).norm().A)]
        grid = [1e-15, 1e-12, 1e-9, 1e-6, 1e-4, 1e-3, 1e-2]
        for i in range(N):
            R0 = rand_rot2(rng)
            mag = grid[i % len(grid)] if i < 4 * len(grid) else log_uniform(rng, 1e-15, 1e-2)
            Rn = R0 + rng.normal(size=(2, 2)) * mag
            t = rand_trans(rng, 1e-6, 1e6, 2)
            for site, n, f in sites:
                if n == 2:
                    M0, M = R0, Rn
                else:
                    M0, M = np.eye(3), np.eye(3)
                    M0[:2, :2], M[:2, :2] = R0, Rn
                    M0[:2, 2] = M[:2, 2] = t
                try:
                    M1 = np.asarray(f(M), float)
                    M2 = np.asarray(f(M1), float)
                    F0 = np.asarray(f(M0), float)
                except Exception as ex:
                    self.raised(site, ex, M)
                    continue
                R1 = M1[:2, :2]
                self.ok('valid', site, 'noisy', self.so2_residual(R1), TOL, M, {'noise': mag})
                self.ok('idempotent', site, 'noisy', np.max(np.abs(M2 - M1)), TOL, M, {'noise': mag})
                self.ok('fixed', site, 'valid-input', np.max(np.abs(F0[:2, :2] - M0[:2, :2])), TOL, M0)
                y = M[:2, 1]
                self.ok('second-axis', site, 'noisy', np.max(np.abs(R1[:, 1] - y / np.linalg.norm(y))), TOL, M)
                if n == 3:
                    self.ok('translation-kept', site, 'noisy', 0.0 if np.array_equal(M1[:2, 2], t) and np.array_equal(F0[:2, 2], t) else 1.0, 0.5, M)
                    self.ok('last-row', site, 'noisy', 0.0 if np.array_equal(M1[2, :], [0, 0, 1]) else 1.0, 0.5, M)

    # ------------------------------------------------------------------ angles
    @staticmethod
    def ang_same(x, y):
        """|x - y|, except within 1e-12 of the wrap point, where -pi and +pi are the same angle (in floats the
        half-open interval [-pi, pi) of the real-number theorem closes: a value one ulp below -pi wraps to +pi)"""
        d = abs(x - y)
        if min(abs(abs(x) - math.pi), abs(abs(y) - math.pi)) <= 1e-12:
            d = min(d, abs(d - 2 * math.pi))
        return d

    def angles(self, N):
        rng = self.rng
        pi = math.pi
        special = [k * pi for k in range(-318, 319)] + [k * pi / 2 for k in range(-9, 10)] + [1e3, -1e3, 0.0]
        vals = list(special)
        for k in range(-40, 41):
            for d in (1e-15, 1e-12, 1e-9, 1e-6):
                vals += [k * pi + d, k * pi - d]
        vals += [float(np.nextafter(pi, 4)), float(np.nextafter(pi, 0)), float(np.nextafter(-pi, -4)), float(np.nextafter(-pi, 0))]
        vals += list(rng.uniform(-1e3, 1e3, size=N))
        if not self.ctx.thorough:
            idx = rng.permutation(len(vals))[:max(N, 900)]
            vals = [vals[j] for j in sorted(idx)] + [pi, -pi, 3 * pi, -3 * pi, 0.0, 2 * pi, 1e3, -1e3]

        def check(site, a, b, r):
            d = a - (b if b is not None else 0.0)
            scale = max(1.0, abs(a), abs(b or 0.0))
            inp = [a] if b is None else [a, b]
            self.ok('range', site, 'any', max(0.0, r - pi, -pi - r) if np.isfinite(r) else float('inf'), 0.0, inp)
            self.ok('congruent', site, 'any', abs(math.remainder(r - d, 2 * pi)) / scale, TOL, inp)
            r2 = float(base.angdiff(r))
            self.ok('idempotent', site, 'any', self.ang_same(r2, r), TOL, inp)
        for a in vals:
            a = float(a)
            check('angdiff(a)', a, None, float(base.angdiff(a)))
            if -pi <= a < pi:
                self.ok('fixed', 'angdiff(a)', 'in-range', self.ang_same(float(base.angdiff(a)), a), TOL, [a])
        for i in range(len(vals)):
            a, b = float(vals[i]), float(vals[int(rng.integers(len(vals)))])
            if abs(a - b) > 1e3:
                continue
            check('angdiff(a,b)', a, b, float(base.angdiff(a, b)))
        arr = np.array(vals[:50], float)
        ra = np.asarray(base.angdiff(arr), float)
        self.ok('array-form', 'angdiff(array)', 'any', np.max(np.abs(ra - np.array([float(base.angdiff(float(x))) for x in arr]))), 0.0, arr[:4])
        self.ctx.sample({'kind': 'oracle', 'law': 'angdiff range/congruent', 'a': vals[0], 'result': float(base.angdiff(float(vals[0])))})


def oracle_rng(seed):
    """the oracle's own stream, a child of the run's seed (so that a replay can re-run the oracle alone)"""
    return np.random.Generator(np.random.PCG64(np.random.SeedSequence(seed).spawn(1)[0]))


def oracle(ctx, th, rng=None):
    o = Oracle(ctx, th, rng if rng is not None else oracle_rng(ctx.seed))
    o.matrices(ctx.n(700, 15000))
    o.vectors(ctx.n(1500, 40000))
    o.twists(ctx.n(3000, 80000))
    o.matrices2(ctx.n(700, 15000))
    o.angles(ctx.n(5000, 150000))


DEFAULT_TH = {'unitvec': ('keps', 10), 'unitvec_norm': ('keps', 10), 'qunit': ('keps', 10), 'twist_S': ('keps', 10),
              'twistn_S': ('keps', 10), 'twist_w': ('keps', 10), 'twist2_w': ('keps', 10)}


def run(ctx):
    ctx.rule = ("obligations: theorems of theories/Props/C14.v (model properties with the thresholds re-read from the source, "
                "bridge theorems path-condition -> model = concolic trace of the library); evaluations: model/trace vs "
                "implementation cases + oracle evaluations of each law (valid, idempotent, fixed, direction, ...) on the "
                "implementation; a case is distinct by its (law, site, input) signature")
    ctx.trusted_extra = ["T-const AST pass in props/C14.py (thresholds k*_eps, branch skeleton; fail closed)",
                         "np.mod(x, y), y > 0 modelled as x - y*floor(x/y) (sampled away from the wrap points)",
                         "path conditions printed by props/C14.py: pc_text (ltb/leb atoms of the recorded SymPy relationals)"]
    th, gen_ok = DEFAULT_TH, False
    with ctx.timed('regenerate'):
        try:
            th = read_consts(ctx)
            ctx.stats['thresholds'] = {k: (f"{v[1]}*eps" if v[0] == 'keps' else str(v[1])) for k, v in th.items()}
            g, none_paths = build(ctx, th)
            path = ctx.write_gen(MOD + '.v', gen_text(g, th, none_paths))
            ctx.stats['paths'] = {k: [f"{r} is {t}" for r, t in v] for k, v in PATHS.items()}
            gen_ok = True
        except ConstError as e:
            ctx.fail('tconst:skeleton', f"the source no longer has the shape the C14 models were written for: {e}", {'detail': str(e)}, no_input=True)
        except Exception as e:
            ctx.fail('tsym:trace', f"a normalisation kernel could not be traced symbolically: {type(e).__name__}: {e}",
                     {'detail': repr(e)}, no_input=True)
    if gen_ok:
        rc, out, err, dt = ctx.coqc(path)
        if rc != 0:
            ctx.fail('gen:compile', 'generated definitions do not compile: ' + err[-800:], no_input=True)
        else:
            ctx.prove('theories/Props/C14.v')
            with ctx.timed('correspond'):
                try:
                    sym_num(ctx, g, MOD, ctx.n(150, 3000))
                except Exception as e:
                    ctx.fail('corr:harness', f"the correspondence run could not complete: {type(e).__name__}: {e}",
                             {'detail': repr(e)}, no_input=True)
    with ctx.timed('oracle'):
        oracle(ctx, th)


def replay(ctx, path):
    """oracle findings: re-run the oracle alone with the recorded seed and tier and look for the recorded key;
    anything else (broken obligation, correspondence): re-run the whole check"""
    import json
    rec = json.load(open(path))
    key = rec.get('key') or ('obligation:' + rec.get('broken_obligation', ''))
    if key.startswith('oracle:'):
        ctx.tier = rec.get('tier', ctx.tier)
        try:
            th = read_consts(ctx)
        except ConstError:
            th = DEFAULT_TH
        oracle(ctx, th, oracle_rng(int(rec.get('seed', ctx.seed))))
        keys = {f.key for f in ctx.findings}
    else:
        run(ctx)
        keys = {f.key for f in ctx.findings} | {'obligation:' + o.name for o in ctx.obligations if o.ok is False}
    if key in keys:
        f = [x for x in ctx.findings if x.key == key]
        print(f"REPRODUCED {key}" + (f": {f[0].what}" if f else ''))
        return 1
    print(f"not reproduced: {key}")
    return 0
