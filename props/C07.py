"""C07 -- invalid values are rejected: objects never hold non-members.

  regenerate : gen/Consts_C07.v -- default tolerances of every predicate + comparison skeleton of each modelled function,
               from the source AST (fail-closed: a skeleton change means the hand model no longer corresponds)
  prove      : Props/C07_pred.v   predicates over R (completeness / rejection band / soundness, _refuted/_partial pairs)
               (same file, "bridge") the tag abstraction of the container model is justified by the predicate theorems
               Props/C07_ctor.v   container model (lists, no Reals, axiom-free): ctor c a = Ok data -> Forall valid data, ...
  correspond : T-num  Model/C07_Pred.v extracted to OCaml floats vs the real predicates on perturbations 1e-12..1,
                      reflections, last-row corruption (a factor 2 away from every threshold)
               T-tab  Model/C07_Ctor.v (vm_compute) vs the real constructors on the whole table
                      class x container form x shape x defect kind x position of the bad item
  oracle     : the property itself on the implementation: constructor outputs accepted by the predicates, everything
               beyond the 1e-6 band rejected, reflections rejected; every table cell either raises or yields an object
               whose .data holds only members (independent NumPy classifier), no None, no partially built object
"""
import ast
import math
import os
from fractions import Fraction

import numpy as np

from lib import core
from lib.symtrace import Gen
from lib.corr import sym_num
from lib.gens import log_uniform, rand_rot, rand_rot2, rand_unit, rand_trans, rand_se3, rand_se2

import spatialmath.base as base  # noqa: E402
from spatialmath import SO2, SE2, SO3, SE3, Quaternion, UnitQuaternion, Twist2, Twist3  # noqa: E402

MOD = 'Traces_C07'
EPS = float(np.finfo(np.float64).eps)
BAND = 1e-6

# =====================================================================================================
# part 2: containers
# =====================================================================================================
CLS = {'cSO2': SO2, 'cSE2': SE2, 'cSO3': SO3, 'cSE3': SE3, 'cUQ': UnitQuaternion, 'cTw2': Twist2, 'cTw3': Twist3}
GROUP = {'cSO2': 'pose', 'cSE2': 'pose', 'cSO3': 'pose', 'cSE3': 'pose', 'cUQ': 'UnitQuaternion', 'cTw2': 'twist', 'cTw3': 'twist'}
SHAPES = ([('Sq', n) for n in range(1, 6)] + [('Vec', n) for n in range(1, 8)] +
          [('Rect', r, c) for r, c in [(1, 3), (3, 1), (2, 3), (3, 2), (2, 4), (3, 4), (4, 3), (1, 4), (4, 1), (5, 4),
                                       (1, 6), (6, 1), (5, 3), (1, 2), (2, 1)]])


def np_shape(sh):
    return (sh[1], sh[1]) if sh[0] == 'Sq' else (sh[1],) if sh[0] == 'Vec' else (sh[1], sh[2])


def coq_shape(sh):
    return f"(Sq {sh[1]})" if sh[0] == 'Sq' else f"(Vec {sh[1]})" if sh[0] == 'Vec' else f"(Rect {sh[1]} {sh[2]})"


def is_vec(sh, n=None):
    d = np_shape(sh)
    if n is None:
        return len(d) == 1 or (len(d) == 2 and (d[0] == 1 or d[1] == 1))
    return d in ((n,), (1, n), (n, 1))


def applicable(c, sh):
    """defect kinds that are meaningful for an ndarray of shape sh handed to class c.  Written from the documented
    constructor forms, independently of Model/C07_Ctor.v (whose `wf` must agree: checked for every cell).
    AltForm = a documented alternative argument form, not an invalid value."""
    if sh[0] == 'NonArray':
        return ['WrongShape']
    d = np_shape(sh)
    n = {'cSO2': 2, 'cSE2': 3, 'cSO3': 3, 'cSE3': 4}.get(c)
    if n is not None:
        if d == (n, n):
            return ['Valid', 'NotOrtho', 'Reflect'] + (['BadRow'] if c in ('cSE2', 'cSE3') else [])
        if c == 'cSO2' and is_vec(sh):                                   # SO2(vector of angles)
            return ['AltForm']
        if c == 'cSE3' and (is_vec(sh, 3) or (len(d) == 2 and d[1] == 3)):  # SE3(t), SE3(Nx3 translations)
            return ['AltForm']
        if c == 'cSE2' and d in ((2,), (2, 1), (3,)):                     # SE2(t), SE2([x,y,theta])
            return ['AltForm']
        return ['WrongShape']
    if c == 'cUQ':
        if d == (4,):             # a unit 4-vector; any other non-zero 4-vector is normalised (documented form); the zero vector cannot be
            return ['Valid', 'AltForm', 'ZeroRow']
        if d == (3, 3):
            return ['Valid', 'NotOrtho', 'Reflect']
        if d == (4, 4):           # a valid SE(3) matrix, or -- any other 4x4 -- the documented N x 4 form with N = 4
            return ['Valid', 'AltForm', 'ZeroRow']
        if len(d) == 2 and d[1] == 4:                                      # UnitQuaternion(N x 4 array of quaternion rows)
            return ['AltForm', 'ZeroRow']
        return ['WrongShape']
    m = 6 if c == 'cTw3' else 3
    k = 4 if c == 'cTw3' else 3
    if d == (m,):
        return ['Valid']
    if d == (k, k):
        return ['Valid', 'NotAlgebra']
    return ['WrongShape']


def rot(rng, n):
    return rand_rot(rng) if n == 3 else rand_rot2(rng)


def bad_rot(rng, n, tag):
    """n x n matrix of the given defect kind, orthogonality defect >= 1e-5 for NotOrtho"""
    R = rot(rng, n)
    if tag == 'Valid':
        return R
    if tag == 'Reflect':
        D = np.eye(n)
        D[rng.integers(n)] *= -1
        Q = R @ D if rng.random() < 0.5 else D @ R
        if rng.random() < 0.2:
            Q = np.diag([1.0] * (n - 1) + [-1.0])
        return Q
    assert tag == 'NotOrtho'
    while True:
        m = log_uniform(rng, 1e-5, 1.0)
        P = R.copy()
        u = rng.random()
        if u < 0.4:
            P[rng.integers(n), rng.integers(n)] += m * rng.choice([-1.0, 1.0])
        elif u < 0.8:
            P = P + m * rng.normal(size=(n, n))
        else:                       # uniform scaling: the residual R R' - I is purely diagonal
            P = P * (1 + log_uniform(rng, 2e-6, 1e-2) * rng.choice([-1.0, 1.0]))
        if np.linalg.norm(P @ P.T - np.eye(n)) >= 4e-6:
            return P


def hom(rng, n, tag):
    """(n+1)x(n+1) homogeneous matrix of the given defect kind"""
    T = np.eye(n + 1)
    T[:n, :n] = bad_rot(rng, n, tag if tag in ('NotOrtho', 'Reflect') else 'Valid')
    T[:n, n] = rand_trans(rng, 1e-3, 1e3, n)
    if tag == 'BadRow':
        j = rng.integers(n + 1)
        T[n, j] += log_uniform(rng, 1e-12, 1.0) * rng.choice([-1.0, 1.0])
        assert not np.all(T[n, :] == np.r_[np.zeros(n), 1])
    return T


def algebra(rng, c, tag):
    """augmented skew-symmetric matrix (se(3) / se(2)) or a corruption of one"""
    if c == 'cTw3':
        M = base.skewa(rng.normal(size=6) * log_uniform(rng, 1e-2, 1e2))
        n = 3
    else:
        M = base.skewa(rng.normal(size=3) * log_uniform(rng, 1e-2, 1e2))
        n = 2
    if tag == 'NotAlgebra':
        m = log_uniform(rng, 1e-5, 1.0) * rng.choice([-1.0, 1.0])
        k = rng.integers(3)
        if k == 0:      # rotational block not skew
            i, j = rng.choice(n, size=2, replace=False)
            M[i, j] += m
        elif k == 1:    # non-zero diagonal (any of the n+1 entries)
            i = rng.integers(n + 1)
            M[i, i] += m
        else:           # non-zero last row
            M[n, rng.integers(n + 1)] += m
    return M


def make_item(rng, c, sh, tag):
    """a concrete ndarray (or non-array) for the abstract item (shape, tag) as seen by class c"""
    if sh[0] == 'NonArray':
        return 3.0
    shape = np_shape(sh)
    if tag in ('WrongShape', 'AltForm'):
        return rng.normal(size=shape) * (log_uniform(rng, 1e-3, 1e3) if tag == 'AltForm' else 1.0)
    if c in ('cSO2', 'cSO3'):
        return bad_rot(rng, sh[1], tag)
    if c in ('cSE2', 'cSE3'):
        return hom(rng, sh[1] - 1, tag)
    if c == 'cUQ':
        if sh == ('Sq', 3):
            return bad_rot(rng, 3, tag)
        if sh == ('Sq', 4) and tag == 'Valid':
            return hom(rng, 3, tag)
        if len(shape) == 2 and shape[1] == 4:       # N x 4 quaternion rows; for N = 4 mostly SE(3)-like matrices that fail ishom
            if shape[0] == 4 and rng.random() < 0.75:
                X = hom(rng, 3, str(rng.choice(['NotOrtho', 'Reflect', 'BadRow'])))
            else:
                X = rng.normal(size=shape) * log_uniform(rng, 1e-3, 1e3)
            if tag == 'ZeroRow':
                X[rng.integers(shape[0])] = 0.0 if rng.random() < 0.7 else rand_unit(rng, 4) * log_uniform(rng, 1e-30, 1e-15)
            return X
        if sh == ('Vec', 4):
            q = rand_unit(rng, 4)
            if tag == 'AltForm':
                q = q * (1 + log_uniform(rng, 1e-5, 1.0) * rng.choice([-0.9, 1.0])) * (1.0 if rng.random() < 0.7 else log_uniform(rng, 1e-6, 1e6))
            elif tag == 'ZeroRow':
                q = np.zeros(4) if rng.random() < 0.7 else q * log_uniform(rng, 1e-30, 1e-15)
            return q
        raise ValueError((c, sh, tag))
    if c in ('cTw2', 'cTw3'):
        if sh[0] == 'Vec':
            return rng.normal(size=shape) * log_uniform(rng, 1e-2, 1e2)
        return algebra(rng, c, tag)
    raise ValueError((c, sh, tag))


def member(c, x):
    """independent (NumPy-only) classification of one element of .data against the group of class c:
    'member' or the reason it is not one.  Tolerance 1e-6 (the property's band)."""
    if x is None:
        return 'None'
    if not isinstance(x, np.ndarray):
        return 'not-an-array:' + type(x).__name__
    x = np.asarray(x)
    if x.dtype == object or not np.all(np.isfinite(x.astype(float))):
        return 'non-finite'
    n = {'cSO2': 2, 'cSE2': 2, 'cSO3': 3, 'cSE3': 3}.get(c)
    if c in ('cSO2', 'cSO3', 'cSE2', 'cSE3'):
        se = c in ('cSE2', 'cSE3')
        if x.shape != ((n + 1, n + 1) if se else (n, n)):
            return 'shape'
        R = x[:n, :n]
        if np.linalg.norm(R @ R.T - np.eye(n)) > BAND:
            return 'NotOrtho'
        d = R[0, 0] * R[1, 1] - R[0, 1] * R[1, 0] if n == 2 else float(np.dot(R[0], np.cross(R[1], R[2])))
        if d < 0:
            return 'Reflect'
        if se and not np.all(x[n, :] == np.r_[np.zeros(n), 1.0]):
            return 'BadRow'
        return 'member'
    if c == 'cUQ':
        if x.shape != (4,):
            return 'shape'
        return 'member' if abs(math.sqrt(float(x @ x)) - 1) <= BAND else 'NotUnit'
    if c in ('cTw2', 'cTw3'):
        return 'member' if x.shape == ((6,) if c == 'cTw3' else (3,)) else 'shape'
    raise ValueError(c)


def observe(c, form, arrays):
    """run the real constructor; canonical outcome: ('Err', kind) or ('Ok', [slot per data element]) where a slot is
    ('arr', index of the supplied item it is identical/equal to or None, member(...)) / 'None' / 'float'"""
    K = CLS[c]
    if form == 'bare':
        arg = arrays[0]
    elif form == 'list':
        arg = list(arrays)
    else:
        arg = tuple(arrays)
    try:
        with np.errstate(all='ignore'):
            obj = K(arg)
    except Exception as ex:  # noqa
        return ('Err', type(ex).__name__), None
    if not isinstance(obj, K) or not isinstance(getattr(obj, 'data', None), list):
        return ('Bad', 'no .data list'), obj
    slots = []
    for el in obj.data:
        if el is None:
            slots.append('NoneElt')
        elif isinstance(el, (float, np.floating)):
            slots.append('NormFloat')
        else:
            src = None
            for i, a in enumerate(arrays):
                if isinstance(a, np.ndarray) and (el is a or (el.shape == a.shape and np.array_equal(el, a))):
                    src = i
                    break
            slots.append(('arr', src, member(c, el)))
    return ('Ok', slots), obj


# items used inside lists, per class
def seq_items(c):
    nat = {'cSO2': ('Sq', 2), 'cSE2': ('Sq', 3), 'cSO3': ('Sq', 3), 'cSE3': ('Sq', 4)}.get(c)
    if nat:
        shapes = [nat, ('Sq', nat[1] + 1), ('Sq', nat[1] - 1), ('Vec', 3), ('Vec', 4)]
    elif c == 'cUQ':
        shapes = [('Vec', 4), ('Sq', 3), ('Sq', 4), ('Vec', 3), ('Rect', 2, 4)]
    else:
        m, k = (6, 4) if c == 'cTw3' else (3, 3)
        shapes = [('Vec', m), ('Sq', k), ('Vec', m + 1), ('Sq', k + 1), ('Rect', 1, m)]
    items = [(sh, t) for sh in shapes for t in applicable(c, sh)]
    return items, [(('NonArray',), 'WrongShape')]


def cells():
    """the table: (class, form, [(shape, tag), ...])"""
    out = []
    for c in CLS:
        for sh in SHAPES:
            for t in applicable(c, sh):
                out.append((c, 'bare', [(sh, t)]))
        items, extra = seq_items(c)
        good = [it for it in items if it[1] == 'Valid' and accepts_native(c, it[0])]
        for form in ('list', 'tuple'):
            out.append((c, form, []))
            for a in items:
                out.append((c, form, [a]))
                for b in items + extra:
                    out.append((c, form, [a, b]))
            # exactly one bad item among valid ones, at every position of a 3-list; and two bad ones
            for bad in [it for it in items + extra if it not in good]:
                for pos in range(3):
                    l = [good[(pos + k) % len(good)] for k in range(3)]
                    l[pos] = bad
                    if l[0][0][0] != 'NonArray':
                        out.append((c, form, l))
            for g in good:
                out.append((c, form, [g, good[0], g, good[-1]]))
    return out


def accepts_native(c, sh):
    """shapes whose Valid items the class takes as list elements"""
    return {'cSO2': [('Sq', 2)], 'cSE2': [('Sq', 3)], 'cSO3': [('Sq', 3)], 'cSE3': [('Sq', 4)], 'cUQ': [('Vec', 4)],
            'cTw2': [('Vec', 3), ('Sq', 3)], 'cTw3': [('Vec', 6), ('Sq', 4)]}[c].count(sh) > 0


EXC_CODE = {'ValueError': 1, 'TypeError': 2, 'IndexError': 3, 'AssertionError': 4, 'AttributeError': 5}
SLOT_CODE = {'NoneElt': 1, 'NormFloat': 2}


def impl_summary(c, form, items, arrays):
    """(exception code | 0, slot codes, clean) observed on the implementation; clean is the property verdict of the cell,
    decided without the model: an object came back => every supplied item was valid and every element is a member"""
    (kind, val), obj = observe(c, form, arrays)
    if kind == 'Err':
        return (EXC_CODE.get(val, 99), [], True), val, []
    if kind == 'Bad':
        return (98, [], False), val, ['no-data']
    codes = [SLOT_CODE.get(sl, 0) if isinstance(sl, str) else 0 for sl in val]
    reasons = []
    for sl in val:
        if isinstance(sl, str):
            reasons.append('holds-' + {'NoneElt': 'None', 'NormFloat': 'float'}[sl])
        elif sl[2] != 'member':
            reasons.append('holds-' + sl[2])
    for sh, t in items:
        if t not in ('Valid', 'AltForm'):
            reasons.append('accepts-' + t)
    return (0, codes, not reasons), val, sorted(set(reasons))


def coq_item(it):
    sh, t = it
    return f"(Arr {'NonArray' if sh[0] == 'NonArray' else coq_shape(sh)} {t})"


def coq_arg(form, items):
    if form == 'bare':
        return f"(Bare {coq_item(items[0])})"
    return "(Seq [" + "; ".join(coq_item(i) for i in items) + "])"



# =====================================================================================================
# T-const: tolerances and comparison skeletons from the source AST (fail-closed)
# =====================================================================================================
def _dotted(n):
    if isinstance(n, ast.Name):
        return n.id
    if isinstance(n, ast.Attribute):
        return _dotted(n.value) + '.' + n.attr
    return '?'


def _side(n):
    if isinstance(n, ast.BinOp) and isinstance(n.op, ast.Mult) and {_dotted(n.left), _dotted(n.right)} == {'tol', '_eps'}:
        return 'tol*_eps'
    if isinstance(n, ast.Constant):
        return f'const:{n.value!r}'
    if isinstance(n, ast.Call) and _dotted(n.func) == 'np.array' and n.args and isinstance(n.args[0], ast.List) \
            and all(isinstance(e, ast.Constant) for e in n.args[0].elts):
        return 'row:' + ','.join(repr(e.value) for e in n.args[0].elts)
    if isinstance(n, ast.Tuple) and all(isinstance(e, ast.Constant) for e in n.elts):
        return 'shape:' + ','.join(repr(e.value) for e in n.elts)
    return 'expr'


def _kws(call):
    return sorted([k.arg, _dotted(k.value) if isinstance(k.value, (ast.Name, ast.Attribute)) else
                   (repr(k.value.value) if isinstance(k.value, ast.Constant) else '?')] for k in call.keywords)


_TRUE, _FALSE = ['const', 'True'], ['const', 'False']


def _nnf(f):
    """negation normal form of the and/or/not skeleton, flattened; comparison operators are NOT flipped (NaN)"""
    if f[0] == 'not':
        g = f[1]
        if g[0] == 'not':
            return _nnf(g[1])
        if g[0] in ('and', 'or'):
            return _nnf(['or' if g[0] == 'and' else 'and'] + [['not', x] for x in g[1:]])
        if g == _TRUE:
            return _FALSE
        if g == _FALSE:
            return _TRUE
        if g[0] == 'ite':
            return ['ite', _nnf(g[1]), _nnf(['not', g[2]]), _nnf(['not', g[3]])]
        return ['not', g]
    if f[0] in ('and', 'or'):
        unit, zero = (_TRUE, _FALSE) if f[0] == 'and' else (_FALSE, _TRUE)
        out = []
        for x in f[1:]:
            x = _nnf(x)
            if x == unit:
                continue
            if x == zero:
                return zero
            out += x[1:] if x[0] == f[0] else [x]
        return unit if not out else out[0] if len(out) == 1 else [f[0]] + out
    if f[0] == 'ite':
        c, t, e = _nnf(f[1]), _nnf(f[2]), _nnf(f[3])
        plain = lambda x: x[0] not in ('raise', 'none')      # noqa: E731
        if t == _TRUE and plain(e):
            return _nnf(['or', c, e])
        if t == _FALSE and plain(e):
            return _nnf(['and', ['not', c], e])
        if e == _FALSE and plain(t):
            return _nnf(['and', c, t])
        if e == _TRUE and plain(t):
            return _nnf(['or', ['not', c], t])
        return ['ite', c, t, e]
    return f


class _Summ:
    """normalised semantic summary of one function: single-assignment locals inlined, early-return chains folded into the
    boolean formula the function returns; `fine=True` keeps the (alpha-renamed) source of every atom, `fine=False` only its
    kind (comparison operator, which side is tol*_eps / a literal row / a shape, callee and keywords)"""

    def __init__(self, f):
        self.f = f
        self.params = [a.arg for a in f.args.args + f.args.kwonlyargs]
        body = [st for st in f.body if not (isinstance(st, ast.Expr) and isinstance(st.value, ast.Constant))]
        counts = {}
        for n in ast.walk(ast.Module(body=body, type_ignores=[])):
            if isinstance(n, ast.Name) and isinstance(n.ctx, ast.Store):
                counts[n.id] = counts.get(n.id, 0) + 1
        self.single = {k for k, v in counts.items() if v == 1 and k not in self.params}
        self.env = {}
        self.locals = {}
        self.body = body

    # -- inlining
    def inline(self, node):
        env = self.env

        class T(ast.NodeTransformer):
            def visit_Name(self_, n):
                if isinstance(n.ctx, ast.Load) and n.id in env:
                    return ast.parse(ast.unparse(env[n.id]), mode='eval').body
                return n
        return T().visit(ast.parse(ast.unparse(node), mode='eval').body)

    def rename(self, node):
        """alpha-rename the locals that could not be inlined (order of first appearance)"""
        locs = self.locals
        params = self.params

        class T(ast.NodeTransformer):
            def visit_Name(self_, n):
                if n.id in params or n.id not in allstores:
                    return n
                locs.setdefault(n.id, f'_l{len(locs)}')
                return ast.Name(id=locs[n.id], ctx=n.ctx)
        allstores = self.allstores
        return T().visit(node)

    # -- atoms
    def atom(self, e, fine):
        if isinstance(e, ast.BoolOp):
            return [type(e.op).__name__.lower()] + [self.atom(v, fine) for v in e.values]
        if isinstance(e, ast.UnaryOp) and isinstance(e.op, ast.Not):
            return ['not', self.atom(e.operand, fine)]
        if isinstance(e, ast.IfExp):
            return ['ite', self.atom(e.test, fine), self.atom(e.body, fine), self.atom(e.orelse, fine)]
        if isinstance(e, ast.Constant):
            return ['const', repr(e.value)]
        if fine:
            return ['src', ast.unparse(self.rename(e))]
        if isinstance(e, ast.Compare):
            if len(e.ops) != 1:
                return ['chain']
            return [type(e.ops[0]).__name__, _side(e.left), _side(e.comparators[0])]
        if isinstance(e, ast.Call):
            inner = [self.atom(a, fine) for a in e.args if isinstance(a, (ast.BoolOp, ast.Compare))]
            return ['call', _dotted(e.func), _kws(e)] + inner
        if isinstance(e, ast.Name):
            return ['name', e.id if e.id in self.params else 'local']
        return ['expr']

    # -- statements -> formula
    def fold(self, stmts, fine):
        for k, st in enumerate(stmts):
            if isinstance(st, ast.Assign) and len(st.targets) == 1 and isinstance(st.targets[0], ast.Name) and st.targets[0].id in self.single:
                self.env[st.targets[0].id] = self.inline(st.value)
            elif isinstance(st, ast.Return):
                return ['none'] if st.value is None else self.atom(self.inline(st.value), fine)
            elif isinstance(st, ast.Raise):
                return ['raise']
            elif isinstance(st, ast.If):
                rest = stmts[k + 1:]
                saved = dict(self.env)
                t = self.fold(list(st.body) + rest, fine)
                self.env = dict(saved)
                e = self.fold(list(st.orelse) + rest, fine)
                self.env = saved
                return ['ite', self.atom(self.inline(st.test), fine), t, e]
        return ['none']

    def run(self):
        self.allstores = {n.id for st in self.body for n in ast.walk(st) if isinstance(n, ast.Name) and isinstance(n.ctx, ast.Store)}
        self.env = {}
        coarse = _nnf(self.fold(self.body, False))
        self.env, self.locals = {}, {}
        fine = _nnf(self.fold(self.body, True))
        # library callees (predicates, argument normalisers) with keywords and literal positional arguments, position-independent;
        # numpy / math / builtins and method calls on values are arithmetic, not part of the summary
        self.env = {}
        skip_roots = {'np', 'math', 'sympy', 'abs', 'len', 'isinstance', 'all', 'any', 'map', 'range', 'type', 'float', 'int', 'bool',
                      'list', 'tuple', 'ValueError', 'TypeError', 'super', 'getattr', 'copy', '?'} | set(self.params) | self.allstores
        callees = sorted([_dotted(n.func), _kws(n), [_side(x) for x in n.args if isinstance(x, ast.Constant)]]
                         for st in self.body for n in ast.walk(st)
                         if isinstance(n, ast.Call) and _dotted(n.func).split('.')[0] not in skip_roots and _dotted(n.func) != '?')
        pos = self.f.args.args
        defaults = {}
        for a, d in zip(pos[len(pos) - len(self.f.args.defaults):], self.f.args.defaults):
            defaults[a.arg] = d.value if isinstance(d, ast.Constant) else '<expr>'
        return {'defaults': defaults, 'formula': coarse, 'callees': callees}, fine


def _stmts(ss):
    """statement layout (not compared as a requirement: a difference here alone only escalates the numeric correspondence)"""
    r = []
    for st in ss:
        if isinstance(st, ast.Return):
            r.append('return')
        elif isinstance(st, ast.If):
            r.append(['if', _stmts(st.body), _stmts(st.orelse)])
        elif isinstance(st, ast.Raise):
            r.append('raise')
        else:
            r.append(type(st).__name__)
    return r


def fn_summary(path, name, cls=None):
    tree = ast.parse(open(os.path.join(core.REPO, path)).read())
    scope = tree.body
    if cls:
        scope = [c for c in tree.body if isinstance(c, ast.ClassDef) and c.name == cls][0].body
    f = [x for x in scope if isinstance(x, ast.FunctionDef) and x.name == name]
    if len(f) != 1:
        raise ValueError(f"{path}: {len(f)} definitions of {name}")
    hard, fine = _Summ(f[0]).run()
    body = [st for st in f[0].body if not (isinstance(st, ast.Expr) and isinstance(st.value, ast.Constant))]
    return hard, fine, _stmts(body)


_N, _3, _2, _V, _Q = ('spatialmath/base/transformsNd.py', 'spatialmath/base/transforms3d.py', 'spatialmath/base/transforms2d.py',
                      'spatialmath/base/vectors.py', 'spatialmath/base/quaternions.py')
_U = 'spatialmath/smuserlist.py'
# (file, function, class, Consts name of the `tol` default or None)
MODELLED = [
    (_N, 'isR', None, 'isR_tol'), (_N, 'isskew', None, 'isskew_tol'), (_N, 'isskewa', None, 'isskewa_tol'), (_N, 'iseye', None, 'iseye_tol'),
    (_3, 'ishom', None, 'ishom_tol'), (_3, 'isrot', None, 'isrot_tol'), (_2, 'ishom2', None, None), (_2, 'isrot2', None, None),
    (_V, 'isunitvec', None, 'isunitvec_tol'), (_V, 'iszerovec', None, 'iszerovec_tol'), (_V, 'iszero', None, 'iszero_tol'),
    (_V, 'isunittwist', None, 'isunittwist_tol'), (_V, 'isunittwist2', None, 'isunittwist2_tol'), (_Q, 'isunit', None, 'isunit_tol'),
    ('spatialmath/twist.py', 'isvalid', 'Twist3', None), ('spatialmath/twist.py', 'isvalid', 'Twist2', None),
    ('spatialmath/quaternion.py', 'isvalid', 'UnitQuaternion', None),
    ('spatialmath/pose3d.py', 'isvalid', 'SO3', None), ('spatialmath/pose3d.py', 'isvalid', 'SE3', None),
    ('spatialmath/pose2d.py', 'isvalid', 'SO2', None), ('spatialmath/pose2d.py', 'isvalid', 'SE2', None),
    (_U, '_import', 'SMUserList', None), (_U, 'arghandler', 'SMUserList', None),
    (_U, '__setitem__', 'SMUserList', None), (_U, 'append', 'SMUserList', None), (_U, 'extend', 'SMUserList', None), (_U, 'insert', 'SMUserList', None),
]
# registrations of the numeric correspondence that depend on a function (escalated to thorough size when only its text changed)
DEPENDS = {
    'isR': ['m_isR3', 'm_isR2', 'm_isrot', 'm_ishom', 'm_isrot2', 'm_ishom2', 'm_SO3_isvalid', 'm_SE3_isvalid', 'm_SO2_isvalid', 'm_SE2_isvalid'],
    'isrot': ['m_isrot', 'm_isrot_nocheck', 'm_SO3_isvalid'], 'ishom': ['m_ishom', 'm_ishom_nocheck', 'm_SE3_isvalid'],
    'isrot2': ['m_isrot2', 'm_SO2_isvalid'], 'ishom2': ['m_ishom2', 'm_SE2_isvalid'],
    'isskew': ['m_isskew3', 'm_isskew2', 'm_Twist3_isvalid', 'm_Twist2_isvalid'], 'isskewa': ['m_isskewa4', 'm_isskewa3'], 'iseye': ['m_iseye3'],
    'isunitvec': ['m_isunitvec2', 'm_isunitvec3', 'm_isunitvec4', 'm_isunit_q', 'm_isunittwist', 'm_isunittwist2', 'm_UQ_isvalid'],
    'iszerovec': ['m_iszerovec2', 'm_iszerovec3', 'm_iszerovec4', 'm_Twist3_isvalid', 'm_Twist2_isvalid'], 'iszero': ['m_iszero'],
    'isunittwist': ['m_isunittwist'], 'isunittwist2': ['m_isunittwist2'], 'isunit': ['m_isunit_q'],
    'Twist3.isvalid': ['m_Twist3_isvalid', 'm_Twist3_isvalid_nocheck'], 'Twist2.isvalid': ['m_Twist2_isvalid'],
    'UnitQuaternion.isvalid': ['m_UQ_isvalid'], 'SO3.isvalid': ['m_SO3_isvalid'], 'SE3.isvalid': ['m_SE3_isvalid'],
    'SO2.isvalid': ['m_SO2_isvalid'], 'SE2.isvalid': ['m_SE2_isvalid'],
}
# normalised semantic summaries the hand models were written against (generated from the tree the models mirror, then fixed)
EXPECTED = {'isR': {'hard': {'defaults': {'tol': 100}, 'formula': ['and', ['Lt', 'expr', 'tol*_eps'], ['Gt', 'expr', 'const:0']], 'callees': []},
         'fine': ['and', ['src', 'np.linalg.norm(R @ R.T - np.eye(R.shape[0])) < tol * _eps'], ['src', 'np.linalg.det(R) > 0']],
         'layout': ['return']},
 'isskew': {'hard': {'defaults': {'tol': 10}, 'formula': ['Lt', 'expr', 'tol*_eps'], 'callees': [['base.vectors._asdouble', [], []]]},
            'fine': ['src', 'np.linalg.norm(S + S.T) < tol * _eps'],
            'layout': ['Assign', 'return']},
 'isskewa': {'hard': {'defaults': {'tol': 10},
                      'formula': ['and', ['Lt', 'expr', 'tol*_eps'], ['call', 'np.all', [], ['Eq', 'expr', 'const:0']]],
                      'callees': [['base.vectors._asdouble', [], []]]},
             'fine': ['and', ['src', 'np.linalg.norm(S[0:-1, 0:-1] + S[0:-1, 0:-1].T) < tol * _eps'], ['src', 'np.all(S[-1, :] == 0)']],
             'layout': ['Assign', 'return']},
 'iseye': {'hard': {'defaults': {'tol': 10},
                    'formula': ['and', ['not', ['NotEq', 'expr', 'const:2']], ['not', ['NotEq', 'expr', 'expr']], ['Lt', 'expr', 'tol*_eps']],
                    'callees': []},
           'fine': ['and', ['not', ['src', 'len(S.shape) != 2']], ['not', ['src', 'S.shape[0] != S.shape[1]']],
                    ['src', 'np.linalg.norm(S - np.eye(S.shape[0])) < tol * _eps']],
           'layout': ['Assign', ['if', ['return'], []], 'return']},
 'ishom': {'hard': {'defaults': {'check': False, 'tol': 100},
                    'formula': ['and', ['call', 'isinstance', []], ['Eq', 'expr', 'shape:4,4'],
                                ['or', ['not', ['name', 'check']],
                                 ['and', ['call', 'base.isR', [['tol', 'tol']]], ['call', 'np.all', [], ['Eq', 'expr', 'row:0,0,0,1']]]]],
                    'callees': [['base.isR', [['tol', 'tol']], []]]},
           'fine': ['and', ['src', 'isinstance(T, np.ndarray)'], ['src', 'T.shape == (4, 4)'],
                    ['or', ['not', ['src', 'check']],
                     ['and', ['src', 'base.isR(T[:3, :3], tol=tol)'], ['src', 'np.all(T[3, :] == np.array([0, 0, 0, 1]))']]]],
           'layout': ['return']},
 'isrot': {'hard': {'defaults': {'check': False, 'tol': 100},
                    'formula': ['and', ['call', 'isinstance', []], ['Eq', 'expr', 'shape:3,3'],
                                ['or', ['not', ['name', 'check']], ['call', 'base.isR', [['tol', 'tol']]]]],
                    'callees': [['base.isR', [['tol', 'tol']], []]]},
           'fine': ['and', ['src', 'isinstance(R, np.ndarray)'], ['src', 'R.shape == (3, 3)'],
                    ['or', ['not', ['src', 'check']], ['src', 'base.isR(R, tol=tol)']]],
           'layout': ['return']},
 'ishom2': {'hard': {'defaults': {'check': False},
                     'formula': ['and', ['call', 'isinstance', []], ['Eq', 'expr', 'shape:3,3'],
                                 ['or', ['not', ['name', 'check']],
                                  ['and', ['call', 'base.isR', []], ['call', 'np.all', [], ['Eq', 'expr', 'row:0,0,1']]]]],
                     'callees': [['base.isR', [], []]]},
            'fine': ['and', ['src', 'isinstance(T, np.ndarray)'], ['src', 'T.shape == (3, 3)'],
                     ['or', ['not', ['src', 'check']], ['and', ['src', 'base.isR(T[:2, :2])'], ['src', 'np.all(T[2, :] == np.array([0, 0, 1]))']]]],
            'layout': ['return']},
 'isrot2': {'hard': {'defaults': {'check': False},
                     'formula': ['and', ['call', 'isinstance', []], ['Eq', 'expr', 'shape:2,2'],
                                 ['or', ['not', ['name', 'check']], ['call', 'base.isR', []]]],
                     'callees': [['base.isR', [], []]]},
            'fine': ['and', ['src', 'isinstance(R, np.ndarray)'], ['src', 'R.shape == (2, 2)'],
                     ['or', ['not', ['src', 'check']], ['src', 'base.isR(R)']]],
            'layout': ['return']},
 'isunitvec': {'hard': {'defaults': {'tol': 10}, 'formula': ['Lt', 'expr', 'tol*_eps'], 'callees': [['_asdouble', [], []]]},
               'fine': ['src', 'abs(np.linalg.norm(_asdouble(v)) - 1) < tol * _eps'],
               'layout': ['return']},
 'iszerovec': {'hard': {'defaults': {'tol': 10}, 'formula': ['Lt', 'expr', 'tol*_eps'], 'callees': [['_asdouble', [], []]]},
               'fine': ['src', 'np.linalg.norm(_asdouble(v)) < tol * _eps'],
               'layout': ['return']},
 'iszero': {'hard': {'defaults': {'tol': 10}, 'formula': ['Lt', 'expr', 'tol*_eps'], 'callees': []},
            'fine': ['src', 'abs(v) < tol * _eps'],
            'layout': ['return']},
 'isunittwist': {'hard': {'defaults': {'tol': 10},
                          'formula': ['ite', ['Eq', 'expr', 'const:6'],
                                      ['or', ['call', 'isunitvec', [['tol', 'tol']]],
                                       ['and', ['Lt', 'expr', 'tol*_eps'], ['call', 'isunitvec', [['tol', 'tol']]]]],
                                      ['raise']],
                          'callees': [['getvector', [], []], ['isunitvec', [['tol', 'tol']], []], ['isunitvec', [['tol', 'tol']], []]]},
                 'fine': ['ite', ['src', 'len(v) == 6'],
                          ['or', ['src', 'isunitvec(v[3:6], tol=tol)'],
                           ['and', ['src', 'np.linalg.norm(v[3:6]) < tol * _eps'], ['src', 'isunitvec(v[0:3], tol=tol)']]],
                          ['raise']],
                 'layout': ['Assign', ['if', ['return'], ['raise']]]},
 'isunittwist2': {'hard': {'defaults': {'tol': 10},
                           'formula': ['ite', ['Eq', 'expr', 'const:3'],
                                       ['or', ['call', 'isunitvec', [['tol', 'tol']]],
                                        ['and', ['Lt', 'expr', 'tol*_eps'], ['call', 'isunitvec', [['tol', 'tol']]]]],
                                       ['raise']],
                           'callees': [['getvector', [], []], ['isunitvec', [['tol', 'tol']], []], ['isunitvec', [['tol', 'tol']], []]]},
                  'fine': ['ite', ['src', 'len(v) == 3'],
                           ['or', ['src', 'isunitvec(v[2], tol=tol)'],
                            ['and', ['src', 'np.abs(v[2]) < tol * _eps'], ['src', 'isunitvec(v[0:2], tol=tol)']]],
                           ['raise']],
                  'layout': ['Assign', ['if', ['return'], ['raise']]]},
 'isunit': {'hard': {'defaults': {'tol': 100},
                     'formula': ['call', 'base.isunitvec', [['tol', 'tol']]],
                     'callees': [['base.getvector', [], ['const:4']], ['base.isunitvec', [['tol', 'tol']], []]]},
            'fine': ['src', 'base.isunitvec(base.getvector(q, 4), tol=tol)'],
            'layout': ['return']},
 'Twist3.isvalid': {'hard': {'defaults': {'check': True},
                             'formula': ['or', ['call', 'base.isvector', []],
                                         ['and', ['call', 'base.ismatrix', []], ['call', 'base.iszerovec', []], ['call', 'base.iszerovec', []],
                                          ['or', ['not', ['name', 'check']], ['call', 'base.isskew', []]]]],
                             'callees': [['base.ismatrix', [], []], ['base.isskew', [], []], ['base.isvector', [], ['const:6']],
                                         ['base.iszerovec', [], []], ['base.iszerovec', [], []]]},
                    'fine': ['or', ['src', 'base.isvector(v, 6)'],
                             ['and', ['src', 'base.ismatrix(v, (4, 4))'], ['src', 'base.iszerovec(v.diagonal())'], ['src', 'base.iszerovec(v[3, :])'],
                              ['or', ['not', ['src', 'check']], ['src', 'base.isskew(v[:3, :3])']]]],
                    'layout': [['if', ['return'], [['if', [['if', ['return'], []], ['if', ['return'], []], ['if', ['return'], []], 'return'], []]]],
                               'return']},
 'Twist2.isvalid': {'hard': {'defaults': {'check': True},
                             'formula': ['or', ['call', 'base.isvector', []],
                                         ['and', ['call', 'base.ismatrix', []], ['call', 'base.iszerovec', []], ['call', 'base.iszerovec', []],
                                          ['or', ['not', ['name', 'check']], ['call', 'base.isskew', []]]]],
                             'callees': [['base.ismatrix', [], []], ['base.isskew', [], []], ['base.isvector', [], ['const:3']],
                                         ['base.iszerovec', [], []], ['base.iszerovec', [], []]]},
                    'fine': ['or', ['src', 'base.isvector(v, 3)'],
                             ['and', ['src', 'base.ismatrix(v, (3, 3))'], ['src', 'base.iszerovec(v.diagonal())'], ['src', 'base.iszerovec(v[2, :])'],
                              ['or', ['not', ['src', 'check']], ['src', 'base.isskew(v[:2, :2])']]]],
                    'layout': [['if', ['return'], [['if', [['if', ['return'], []], ['if', ['return'], []], ['if', ['return'], []], 'return'], []]]],
                               'return']},
 'UnitQuaternion.isvalid': {'hard': {'defaults': {'check': True},
                                     'formula': ['and', ['Eq', 'expr', 'shape:4'],
                                                 ['or', ['not', ['name', 'check']], ['call', 'base.isunitvec', []]]],
                                     'callees': [['base.isunitvec', [], []]]},
                            'fine': ['and', ['src', 'x.shape == (4,)'], ['or', ['not', ['src', 'check']], ['src', 'base.isunitvec(x)']]],
                            'layout': ['return']},
 'SO3.isvalid': {'hard': {'defaults': {'check': True},
                          'formula': ['call', 'base.isrot', [['check', 'True']]],
                          'callees': [['base.isrot', [['check', 'True']], []]]},
                 'fine': ['src', 'base.isrot(x, check=True)'],
                 'layout': ['return']},
 'SE3.isvalid': {'hard': {'defaults': {'check': True},
                          'formula': ['call', 'base.ishom', [['check', 'check']]],
                          'callees': [['base.ishom', [['check', 'check']], []]]},
                 'fine': ['src', 'base.ishom(x, check=check)'],
                 'layout': ['return']},
 'SO2.isvalid': {'hard': {'defaults': {'check': True},
                          'formula': ['or', ['not', ['name', 'check']], ['call', 'tr.isrot2', [['check', 'True']]]],
                          'callees': [['tr.isrot2', [['check', 'True']], []]]},
                 'fine': ['or', ['not', ['src', 'check']], ['src', 'tr.isrot2(x, check=True)']],
                 'layout': ['return']},
 'SE2.isvalid': {'hard': {'defaults': {'check': True},
                          'formula': ['or', ['not', ['name', 'check']], ['call', 'tr.ishom2', [['check', 'True']]]],
                          'callees': [['tr.ishom2', [['check', 'True']], []]]},
                 'fine': ['or', ['not', ['src', 'check']], ['src', 'tr.ishom2(x, check=True)']],
                 'layout': ['return']},
 'SMUserList._import': {'hard': {'defaults': {'check': True},
                                 'formula': ['ite', ['or', ['not', ['name', 'check']], ['call', 'self.isvalid', [['check', 'check']]]], ['name', 'x'],
                                             ['const', 'None']],
                                 'callees': []},
                        'fine': ['ite', ['or', ['not', ['src', 'check']], ['src', 'self.isvalid(x, check=check)']], ['src', 'x'], ['const', 'None']],
                        'layout': [['if', ['return'], ['return']]]},
 'SMUserList.arghandler': {'hard': {'defaults': {'convertfrom': '<expr>', 'check': True},
                                    'formula': ['or', ['Is', 'expr', 'const:None'],
                                                ['ite', ['call', 'isinstance', []], ['IsNot', 'expr', 'const:None'],
                                                 ['ite', ['call', 'isinstance', []],
                                                  ['or', ['Eq', 'expr', 'const:0'],
                                                   ['ite', ['call', 'isinstance', []], ['ite', ['call', 'any', []], ['raise'], ['const', 'True']],
                                                    ['ite', ['Eq', 'expr', 'expr'],
                                                     ['ite', ['not', ['call', 'all', []]], ['raise'], ['const', 'True']],
                                                     ['and', ['call', 'argcheck.isnumberlist', []], ['Eq', 'expr', 'const:1'],
                                                      ['Eq', 'expr', 'expr']]]]],
                                                  ['or', ['and', ['call', 'isinstance', []], ['Eq', 'expr', 'expr']], ['In', 'expr', 'expr']]]]],
                                    'callees': [['argcheck.isnumberlist', [], []]]},
                           'fine': ['or', ['src', 'arg is None'],
                                    ['ite', ['src', 'isinstance(arg, np.ndarray)'], ['src', '_l0 is not None'],
                                     ['ite', ['src', 'isinstance(arg, (list, tuple))'],
                                      ['or', ['src', 'len(arg) == 0'],
                                       ['ite', ['src', 'isinstance(arg[0], np.ndarray)'],
                                        ['ite', ['src', 'any((_l0 is None for _l0 in [self._import(_l0, check=check) for _l0 in arg]))'], ['raise'],
                                         ['const', 'True']],
                                        ['ite', ['src', 'type(arg[0]) == type(self)'],
                                         ['ite', ['not', ['src', 'all((len(_l0) == 1 for _l0 in arg))']], ['raise'], ['const', 'True']],
                                         ['and', ['src', 'argcheck.isnumberlist(arg)'], ['src', 'len(self.shape) == 1'],
                                          ['src', 'len(arg) == self.shape[0]']]]]],
                                      ['or', ['and', ['src', 'isinstance(arg, self.__class__)'], ['src', 'arg.shape == self.shape']],
                                       ['src', 'arg.__class__ in convertfrom']]]]],
                           'layout': [['if', ['Assign'],
                                       [['if', ['Assign', ['if', ['Assign'], ['return']]],
                                         [['if',
                                           [['if', ['Assign'],
                                             [['if', ['Assign', ['if', ['raise'], []], 'Assign'],
                                               [['if', ['Assert', ['if', ['raise'], []], 'Assign'], [['if', ['Assign'], ['return']]]]]]]]],
                                           [['if', ['Assign'], [['if', ['Try', 'Assign'], ['return']]]]]]]]]],
                                      'return']},
 'SMUserList.__setitem__': {'hard': {'defaults': {},
                                     'formula': ['ite', ['not', ['Eq', 'expr', 'expr']], ['raise'],
                                                 ['ite', ['NotEq', 'expr', 'const:1'], ['raise'],
                                                  ['ite', ['call', 'isinstance', []], ['raise'], ['none']]]],
                                     'callees': []},
                            'fine': ['ite', ['not', ['src', 'type(self) == type(value)']], ['raise'],
                                     ['ite', ['src', 'len(value) != 1'], ['raise'], ['ite', ['src', 'isinstance(i, slice)'], ['raise'], ['none']]]],
                            'layout': [['if', ['raise'], []], ['if', ['raise'], []], ['if', ['raise'], []], 'Assign']},
 'SMUserList.append': {'hard': {'defaults': {},
                                'formula': ['ite', ['not', ['Eq', 'expr', 'expr']], ['raise'],
                                            ['ite', ['NotEq', 'expr', 'const:1'], ['raise'], ['none']]],
                                'callees': []},
                       'fine': ['ite', ['not', ['src', 'type(self) == type(item)']], ['raise'],
                                ['ite', ['src', 'len(item) != 1'], ['raise'], ['none']]],
                       'layout': [['if', ['raise'], []], ['if', ['raise'], []], 'Expr']},
 'SMUserList.extend': {'hard': {'defaults': {}, 'formula': ['ite', ['not', ['Eq', 'expr', 'expr']], ['raise'], ['none']], 'callees': []},
                       'fine': ['ite', ['not', ['src', 'type(self) == type(iterable)']], ['raise'], ['none']],
                       'layout': [['if', ['raise'], []], 'Expr']},
 'SMUserList.insert': {'hard': {'defaults': {},
                                'formula': ['ite', ['not', ['Eq', 'expr', 'expr']], ['raise'],
                                            ['ite', ['NotEq', 'expr', 'const:1'], ['raise'], ['none']]],
                                'callees': []},
                       'fine': ['ite', ['not', ['src', 'type(self) == type(item)']], ['raise'],
                                ['ite', ['src', 'len(item) != 1'], ['raise'], ['none']]],
                       'layout': [['if', ['raise'], []], ['if', ['raise'], []], 'Expr']}}
TOL = {}   # regenerated defaults, as floats (used by the samplers)
ESCALATE = set()   # registrations whose function changed textually but not semantically (this run)


TSOFT = [('spatialmath/base/transformsNd.py', 'isR'),
         ('spatialmath/base/transformsNd.py', 'isskew'),
         ('spatialmath/base/transformsNd.py', 'isskewa'),
         ('spatialmath/base/transformsNd.py', 'iseye'),
         ('spatialmath/base/transforms3d.py', 'ishom'),
         ('spatialmath/base/transforms3d.py', 'isrot'),
         ('spatialmath/base/transforms2d.py', 'ishom2'),
         ('spatialmath/base/transforms2d.py', 'isrot2'),
         ('spatialmath/base/vectors.py', 'isunitvec'),
         ('spatialmath/base/vectors.py', 'iszerovec'),
         ('spatialmath/base/vectors.py', 'iszero'),
         ('spatialmath/base/vectors.py', 'isunittwist'),
         ('spatialmath/base/vectors.py', 'isunittwist2'),
         ('spatialmath/base/quaternions.py', 'isunit'),
         ('spatialmath/twist.py', 'Twist3.isvalid'),
         ('spatialmath/twist.py', 'Twist2.isvalid'),
         ('spatialmath/quaternion.py', 'UnitQuaternion.isvalid'),
         ('spatialmath/pose3d.py', 'SO3.isvalid'),
         ('spatialmath/pose3d.py', 'SE3.isvalid'),
         ('spatialmath/pose2d.py', 'SO2.isvalid'),
         ('spatialmath/pose2d.py', 'SE2.isvalid'),
         ('spatialmath/smuserlist.py', 'SMUserList._import'),
         ('spatialmath/smuserlist.py', 'SMUserList.arghandler'),
         ('spatialmath/smuserlist.py', 'SMUserList.__setitem__'),
         ('spatialmath/smuserlist.py', 'SMUserList.append'),
         ('spatialmath/smuserlist.py', 'SMUserList.extend'),
         ('spatialmath/smuserlist.py', 'SMUserList.insert')]
_TSOFT_STOP = {'isR', 'isskew', 'isskewa', 'iseye', 'ishom', 'isrot', 'ishom2', 'isrot2', 'isunitvec', 'iszerovec', 'iszero', 'isunittwist', 'isunittwist2', 'isunit', 'Twist3.isvalid', 'Twist2.isvalid', 'UnitQuaternion.isvalid', 'SO3.isvalid', 'SE3.isvalid', 'SO2.isvalid', 'SE2.isvalid', 'SMUserList._import', 'SMUserList.arghandler', 'SMUserList.__setitem__', 'SMUserList.append', 'SMUserList.extend', 'SMUserList.insert'}


def _tsoft_same(path, label):
    from lib import tsoft
    return tsoft.same_thresholds(core.REPO, 'C07', path, label, _TSOFT_STOP - {label})[0]


def consts_pass(ctx):
    """emit gen/Consts_C07.v; a skeleton that differs from the recorded one breaks the correspondence of the hand model"""
    lines = ["(* GENERATED on every run by props/C07.py from the AST of /repo's working tree -- do not edit.\n"
             "   Default tolerances (`tol=` keyword defaults) of the predicates modelled in theories/Model/C07_Pred.v. *)\n"
             "From Coq Require Import ZArith.\nFrom SM Require Import Base.Ops.\nSection C. Context {T : Type} (O : ops T).\n"]
    names = []
    ESCALATE.clear()
    for path, name, cls, cname in MODELLED:
        label = (cls + '.' if cls else '') + name
        try:
            hard, fine, layout = fn_summary(path, name, cls)
        except Exception as ex:  # noqa
            ctx.fail(f'ast:missing:{label}', f"modelled function {label} not found / not analysable in {path}: {ex}", no_input=True)
            hard, fine, layout = {'defaults': {}}, None, None
        defaults = hard['defaults']
        ctx.count('ast:functions')
        exp = EXPECTED.get(label)
        if fine is not None and exp is not None:
            # the tolerance default itself is not part of the comparison: it is regenerated into Consts and the theorems re-prove their side condition
            strip = lambda h: dict(h, defaults={k: v for k, v in h['defaults'].items() if k != 'tol'})   # noqa: E731
            if strip(hard) != strip(exp['hard']) and _tsoft_same(path, label):
                # restructured (helpers extracted, early returns, ...) with every numeric threshold / tolerance default of the function and of the
                # same-module helpers it calls unchanged: not a broken tie by itself; the execution correspondence (escalated) and the exhaustive
                # constructor / mutator tables decide
                ctx.notes.append(f"{label}: semantic summary differs from the recorded one but its numeric thresholds are unchanged (lib/tsoft.py) -> "
                                 f"numeric correspondence of {DEPENDS.get(label, [])} escalated to thorough size")
                ctx.count('ast:escalated')
                ctx.count('ast:restructured')
                ESCALATE.update(DEPENDS.get(label, []))
            elif strip(hard) != strip(exp['hard']):
                ctx.fail(f'ast:skeleton:{label}',
                         f"the semantic summary of {label} ({path}) -- boolean formula returned, comparison operators and thresholds, defaults, library "
                         f"callees with keywords -- differs from the one the hand model was written against: the model no longer corresponds.  "
                         f"expected {exp['hard']}  found {hard}", {'function': label, 'expected': exp['hard'], 'found': hard}, no_input=True)
            elif fine != exp['fine'] or layout != exp['layout']:
                what = 'text of an atom' if fine != exp['fine'] else 'statement layout only'
                ctx.notes.append(f"{label}: same semantic summary, {what} changed -> numeric correspondence of {DEPENDS.get(label, [])} escalated to thorough size")
                ctx.count('ast:escalated')
                ESCALATE.update(DEPENDS.get(label, []))
        if cname:
            v = defaults.get('tol')
            if isinstance(v, bool) or not isinstance(v, (int, float)) or not math.isfinite(v):
                ctx.fail(f'ast:tol:{label}', f"default of tol in {label} is not a numeric literal: {v!r}", no_input=True)
                v = 0
            fr = Fraction(v)
            TOL[cname] = float(v)
            z = lambda k: f"(of_Z O ({k})%Z)"
            body = z(fr.numerator) if fr.denominator == 1 else f"(div O {z(fr.numerator)} {z(fr.denominator)})"
            lines.append(f"Definition {cname} : T := {body}.   (* {path}: {label}(.., tol={v!r}) *)\n")
            names.append(cname)
    lines.append("End C.\n")
    ctx.stats['tolerances'] = dict(TOL)
    p = ctx.write_gen('Consts_C07.v', "".join(lines))
    rc, out, err, dt = ctx.coqc(p)
    if rc != 0:
        ctx.fail('gen:compile', 'generated constants do not compile: ' + err[-800:], no_input=True)
        return False
    return True


# =====================================================================================================
# part 1: predicates -- T-num correspondence of Model/C07_Pred.v
# =====================================================================================================
def skew3(v):
    return np.array([[0, -v[2], v[1]], [v[2], 0, -v[0]], [-v[1], v[0], 0.0]])


def noise_mag(rng):
    """0, sub-threshold rounding-size noise, or 1e-12 .. 1"""
    r = rng.random()
    if r < 0.2:
        return 0.0
    if r < 0.3:
        return log_uniform(rng, 1e-18, 1e-13)
    return log_uniform(rng, 1e-12, 1.0)


def perturb(rng, X):
    X = np.array(X, dtype=float)
    m = noise_mag(rng)
    if m == 0:
        return X
    if rng.random() < 0.5:
        idx = tuple(rng.integers(k) for k in X.shape)
        X[idx] += m * rng.choice([-1.0, 1.0])
    else:
        X = X + m * rng.normal(size=X.shape)
    return X


def pick_tol(rng, default):
    # never below 10: with tol = 1 the threshold (1 eps) is the size of the rounding noise of the compared quantity itself
    return default if rng.random() < 0.7 else float(rng.choice([10.0, 100.0, 1e3, 1e6]))


def away(pairs):
    """every (quantity, threshold) pair is at least a factor 2 away from the threshold (where model and implementation
    may legitimately differ by one rounding)"""
    return all(not (th / 2 < q < 2 * th) for q, th in pairs)


def rot_like(rng, n):
    """rotation, reflection, many-factor product, scaled or random matrix"""
    r = rng.random()
    R = rot(rng, n)
    if r < 0.5:
        return R
    if r < 0.7:
        D = np.eye(n)
        D[rng.integers(n), :] *= -1
        return R @ D if rng.random() < 0.7 else np.diag([1.0] * (n - 1) + [-1.0])
    if r < 0.85:
        for _ in range(int(rng.integers(2, 30))):
            R = R @ rot(rng, n)
        return R
    if r < 0.93:
        return R * (1 + log_uniform(rng, 1e-12, 1.0) * rng.choice([-1.0, 1.0]))
    return rng.normal(size=(n, n))


def orth_defect(R):
    return float(np.linalg.norm(R @ R.T - np.eye(R.shape[0])))


def s_isR(n, tolname, with_tol=True):
    def f(rng):
        while True:
            tol = pick_tol(rng, TOL[tolname]) if with_tol else TOL[tolname]
            R = perturb(rng, rot_like(rng, n))
            if away([(orth_defect(R), tol * EPS)]):
                return [tol, R]
    return f


def s_hom(n, tolname, with_tol=True):
    def f(rng):
        while True:
            tol = pick_tol(rng, TOL[tolname]) if with_tol else TOL[tolname]
            T = np.eye(n + 1)
            T[:n, :n] = rot_like(rng, n)
            T[:n, n] = rand_trans(rng, 1e-3, 1e3, n)
            r = rng.random()
            if r < 0.5:
                T = perturb(rng, T)                      # anywhere, last row included
            elif r < 0.7:
                T[n, rng.integers(n + 1)] += log_uniform(rng, 1e-16, 1.0) * rng.choice([-1.0, 1.0])   # last-row corruption only
            if away([(orth_defect(T[:n, :n]), tol * EPS)]):
                return [tol, T]
    return f


def s_skew(n, tolname):
    def f(rng):
        while True:
            tol = pick_tol(rng, TOL[tolname])
            S = (skew3(rng.normal(size=3)) if n == 3 else np.array([[0, -1.0], [1.0, 0]]) * rng.normal()) * log_uniform(rng, 1e-3, 1e3)
            S = perturb(rng, S)
            if away([(float(np.linalg.norm(S + S.T)), tol * EPS)]):
                return [tol, S]
    return f


def s_skewa(n, tolname):
    def f(rng):
        while True:
            tol = pick_tol(rng, TOL[tolname])
            S = base.skewa(rng.normal(size=6 if n == 3 else 3) * log_uniform(rng, 1e-3, 1e3))
            if rng.random() < 0.6:
                S = perturb(rng, S)
            B = S[:n, :n]
            if away([(float(np.linalg.norm(B + B.T)), tol * EPS)]):
                return [tol, S]
    return f


def s_eye(rng):
    while True:
        tol = pick_tol(rng, TOL['iseye_tol'])
        S = perturb(rng, np.eye(3)) if rng.random() < 0.8 else rot_like(rng, 3)
        if away([(float(np.linalg.norm(S - np.eye(3))), tol * EPS)]):
            return [tol, S]


def unit_like(rng, n):
    r = rng.random()
    v = rand_unit(rng, n)
    if r < 0.15:
        v = np.eye(n)[rng.integers(n)] * rng.choice([-1.0, 1.0])
    elif r < 0.3:
        v = v * (1 + log_uniform(rng, 1e-12, 1.0) * rng.choice([-1.0, 1.0]))
    elif r < 0.4:
        v = v * log_uniform(rng, 1e-18, 1e-3)
    elif r < 0.45:
        v = np.zeros(n)
    return v


def s_unitvec(n, tolname='isunitvec_tol', with_tol=True):
    def f(rng):
        while True:
            tol = pick_tol(rng, TOL[tolname]) if with_tol else TOL[tolname]
            v = perturb(rng, unit_like(rng, n))
            if away([(abs(float(np.linalg.norm(v)) - 1), tol * EPS)]):
                return [tol, v]
    return f


def s_zerovec(n, tolname):
    def f(rng):
        while True:
            tol = pick_tol(rng, TOL[tolname])
            v = unit_like(rng, n)
            if away([(float(np.linalg.norm(v)), tol * EPS)]):
                return [tol, v]
    return f


def s_zero(rng):
    while True:
        tol = pick_tol(rng, TOL['iszero_tol'])
        x = float(rng.choice([0.0, 1.0, -1.0])) if rng.random() < 0.2 else log_uniform(rng, 1e-18, 1.0) * rng.choice([-1.0, 1.0])
        if away([(abs(x), tol * EPS)]):
            return [tol, x]


def s_unittwist(rng):
    while True:
        tol = pick_tol(rng, TOL['isunittwist_tol'])
        r = rng.random()
        if r < 0.35:
            w, v = unit_like(rng, 3), rng.normal(size=3) * log_uniform(rng, 1e-3, 1e3)
        elif r < 0.7:
            w = np.zeros(3) if rng.random() < 0.5 else rand_unit(rng) * log_uniform(rng, 1e-18, 1e-10)
            v = unit_like(rng, 3)
        else:
            w, v = unit_like(rng, 3), unit_like(rng, 3)
        if rng.random() < 0.3:
            w, v = perturb(rng, w), perturb(rng, v)
        nw, nv = float(np.linalg.norm(w)), float(np.linalg.norm(v))
        if away([(abs(nw - 1), tol * EPS), (nw, tol * EPS), (abs(nv - 1), tol * EPS)]):
            return [tol, np.r_[v, w]]


def s_unittwist2(rng):
    while True:
        tol = pick_tol(rng, TOL['isunittwist2_tol'])
        r = rng.random()
        if r < 0.35:
            w = float(rng.choice([-1.0, 1.0])) * (1 + (0 if rng.random() < 0.5 else log_uniform(rng, 1e-12, 1.0) * rng.choice([-1.0, 1.0])))
            v = rng.normal(size=2) * log_uniform(rng, 1e-3, 1e3)
        elif r < 0.7:
            w = 0.0 if rng.random() < 0.5 else log_uniform(rng, 1e-18, 1e-10) * rng.choice([-1.0, 1.0])
            v = unit_like(rng, 2)
        else:
            w, v = float(rng.normal()), unit_like(rng, 2)
        if rng.random() < 0.3:
            v = perturb(rng, v)
        nv = float(np.linalg.norm(v))
        if away([(abs(abs(w) - 1), tol * EPS), (abs(w), tol * EPS), (abs(nv - 1), tol * EPS)]):
            return [tol, np.r_[v, w]]


def s_twmat(c):
    n = 3 if c == 'cTw3' else 2

    def f(rng):
        while True:
            tz, ts = TOL['iszerovec_tol'], TOL['isskew_tol']
            M = algebra(rng, c, 'Valid')
            r = rng.random()
            if r < 0.5:
                M = perturb(rng, M)
            elif r < 0.7:
                M = algebra(rng, c, 'NotAlgebra')
            B = M[:n, :n]
            if away([(float(np.linalg.norm(np.diag(M))), tz * EPS), (float(np.linalg.norm(M[n, :])), tz * EPS),
                     (float(np.linalg.norm(B + B.T)), ts * EPS)]):
                return [tz, ts, M]
    return f


def build_models():
    g = Gen('C07')
    P = 'SM.Model.C07_Pred.'
    kw = dict(module='Model.C07_Pred', out='B')
    S, M22, M33, M44 = ('tol', 'S'), ('R', 'M22'), ('R', 'M33'), ('R', 'M44')
    g.model('m_isR3', [S, M33], coq=P + 'isR3', num_fn=lambda tol, R: base.isR(R, tol=tol), sampler=s_isR(3, 'isR_tol'), **kw)
    g.model('m_isR2', [S, M22], coq=P + 'isR2', num_fn=lambda tol, R: base.isR(R, tol=tol), sampler=s_isR(2, 'isR_tol'), **kw)
    g.model('m_isrot', [S, M33], coq=P + 'isrot_on', num_fn=lambda tol, R: base.isrot(R, check=True, tol=tol), sampler=s_isR(3, 'isrot_tol'), **kw)
    g.model('m_isrot_nocheck', [S, M33], coq=P + 'isrot_off', num_fn=lambda tol, R: base.isrot(R, check=False, tol=tol), sampler=s_isR(3, 'isrot_tol'), **kw)
    g.model('m_ishom', [S, M44], coq=P + 'ishom_on', num_fn=lambda tol, T: base.ishom(T, check=True, tol=tol), sampler=s_hom(3, 'ishom_tol'), **kw)
    g.model('m_ishom_nocheck', [S, M44], coq=P + 'ishom_off', num_fn=lambda tol, T: base.ishom(T, check=False, tol=tol), sampler=s_hom(3, 'ishom_tol'), **kw)
    # the 2-D predicates and the class-level isvalid take no tol: the model receives the regenerated default of the callee
    g.model('m_isrot2', [S, M22], coq=P + 'isrot2_on', num_fn=lambda tol, R: base.isrot2(R, check=True), sampler=s_isR(2, 'isR_tol', False), **kw)
    g.model('m_ishom2', [S, M33], coq=P + 'ishom2_on', num_fn=lambda tol, T: base.ishom2(T, check=True), sampler=s_hom(2, 'isR_tol', False), **kw)
    g.model('m_SO3_isvalid', [S, M33], coq=P + 'isrot_on', num_fn=lambda tol, R: SO3.isvalid(R, check=True), sampler=s_isR(3, 'isrot_tol', False), **kw)
    g.model('m_SE3_isvalid', [S, M44], coq=P + 'ishom_on', num_fn=lambda tol, T: SE3.isvalid(T, check=True), sampler=s_hom(3, 'ishom_tol', False), **kw)
    g.model('m_SO2_isvalid', [S, M22], coq=P + 'isrot2_on', num_fn=lambda tol, R: SO2.isvalid(R, check=True), sampler=s_isR(2, 'isR_tol', False), **kw)
    g.model('m_SE2_isvalid', [S, M33], coq=P + 'ishom2_on', num_fn=lambda tol, T: SE2.isvalid(T, check=True), sampler=s_hom(2, 'isR_tol', False), **kw)
    g.model('m_isskew3', [S, M33], coq=P + 'isskew3', num_fn=lambda tol, X: base.isskew(X, tol=tol), sampler=s_skew(3, 'isskew_tol'), **kw)
    g.model('m_isskew2', [S, M22], coq=P + 'isskew2', num_fn=lambda tol, X: base.isskew(X, tol=tol), sampler=s_skew(2, 'isskew_tol'), **kw)
    g.model('m_isskewa4', [S, M44], coq=P + 'isskewa4', num_fn=lambda tol, X: base.isskewa(X, tol=tol), sampler=s_skewa(3, 'isskewa_tol'), **kw)
    g.model('m_isskewa3', [S, M33], coq=P + 'isskewa3', num_fn=lambda tol, X: base.isskewa(X, tol=tol), sampler=s_skewa(2, 'isskewa_tol'), **kw)
    g.model('m_iseye3', [S, M33], coq=P + 'iseye3', num_fn=lambda tol, X: base.iseye(X, tol=tol), sampler=s_eye, **kw)
    for n, sh in ((2, 'V2'), (3, 'V3'), (4, 'V4')):
        g.model(f'm_isunitvec{n}', [S, ('v', sh)], coq=P + f'isunitvec{n}', num_fn=lambda tol, v: base.isunitvec(v, tol=tol), sampler=s_unitvec(n), **kw)
        g.model(f'm_iszerovec{n}', [S, ('v', sh)], coq=P + f'iszerovec{n}', num_fn=lambda tol, v: base.iszerovec(v, tol=tol), sampler=s_zerovec(n, 'iszerovec_tol'), **kw)
    g.model('m_iszero', [S, ('x', 'S')], coq=P + 'iszero', num_fn=lambda tol, x: base.iszero(x, tol=tol), sampler=s_zero, **kw)
    g.model('m_isunit_q', [S, ('q', 'V4')], coq=P + 'isunit_q', num_fn=lambda tol, q: base.isunit(q, tol=tol), sampler=s_unitvec(4, 'isunit_tol'), **kw)
    g.model('m_isunittwist', [S, ('s', 'V6')], coq=P + 'isunittwist', num_fn=lambda tol, s: base.isunittwist(s, tol=tol), sampler=s_unittwist, **kw)
    g.model('m_isunittwist2', [S, ('s', 'V3')], coq=P + 'isunittwist2', num_fn=lambda tol, s: base.isunittwist2(s, tol=tol), sampler=s_unittwist2, **kw)
    T2 = [('tz', 'S'), ('ts', 'S')]
    g.model('m_Twist3_isvalid', T2 + [('A', 'M44')], coq=P + 'tw3_valid_on', num_fn=lambda tz, ts, A: Twist3.isvalid(A, check=True), sampler=s_twmat('cTw3'), **kw)
    g.model('m_Twist3_isvalid_nocheck', T2 + [('A', 'M44')], coq=P + 'tw3_valid_off', num_fn=lambda tz, ts, A: Twist3.isvalid(A, check=False), sampler=s_twmat('cTw3'), **kw)
    g.model('m_Twist2_isvalid', T2 + [('A', 'M33')], coq=P + 'tw2_valid_on', num_fn=lambda tz, ts, A: Twist2.isvalid(A, check=True), sampler=s_twmat('cTw2'), **kw)
    g.model('m_UQ_isvalid', [S, ('q', 'V4')], coq=P + 'uq_valid_on', num_fn=lambda tol, q: UnitQuaternion.isvalid(q, check=True),
            sampler=s_unitvec(4, 'isunitvec_tol', False), **kw)
    return g


# =====================================================================================================
# oracle, part 1: the predicates on the implementation
# =====================================================================================================
def hexes(*arrs):
    out = []
    for a in arrs:
        out += [float(x).hex() for x in np.asarray(a, dtype=float).flatten()]
    return out


def oracle_pred(ctx):
    rng = ctx.rng
    from lib.gens import angle
    N = ctx.n(250, 30000)

    def expect(key, what, got, want, *inputs, names=''):
        ctx.case((key, tuple(hexes(*inputs)[:12])))
        ctx.count('oracle:' + key.split(':')[1])
        if bool(got) != want:
            ctx.fail(key, f"{what}: returned {bool(got)}, expected {want}", {'inputs': names, 'inputs_hex': hexes(*inputs),
                                                                       'shapes': [list(np.shape(a)) for a in inputs]})

    def accepted(pred, cons, got, *inputs):
        expect(f'oracle:complete:{pred}:{cons}', f"{pred} rejects a value produced by {cons}", got, True, *inputs, names=cons)

    for i in range(N):
        a, b, c = angle(rng), angle(rng), angle(rng)
        ax = rand_unit(rng) * log_uniform(rng, 1e-3, 1e3)
        q = rand_unit(rng, 4)
        t = rand_trans(rng, 1e-6, 1e6)
        # ---- (a) completeness: primitive constructors
        rots = {'rotx': base.rotx(a), 'roty': base.roty(a), 'rotz': base.rotz(a), 'rpy2r': base.rpy2r(a, b, c),
                'rpy2r-xyz': base.rpy2r(a, b, c, order='xyz'), 'eul2r': base.eul2r(a, b, c), 'angvec2r': base.angvec2r(a, ax),
                'q2r': base.q2r(q), 'rotx@roty@rotz': base.rotx(a) @ base.roty(b) @ base.rotz(c), 'SO3.Rx': SO3.Rx(a).A,
                'SO3.RPY': SO3.RPY([a, b, c]).A, 'UnitQuaternion.R': UnitQuaternion(q).R, 'trexp': base.trexp(ax / np.linalg.norm(ax) * a)}
        for k, R in rots.items():
            accepted('isR', k, base.isR(R), R)
            accepted('isrot', k, base.isrot(R, check=True), R)
            accepted('SO3.isvalid', k, SO3.isvalid(R), R)
        homs = {'trotx': base.trotx(a), 'troty': base.troty(b), 'trotz': base.trotz(c), 'transl': base.transl(t), 'rpy2tr': base.rpy2tr(a, b, c),
                'rt2tr': base.rt2tr(rots['rpy2r'], t), 'SE3.Rx': SE3.Rx(a).A, 'SE3(x,y,z)': SE3(t[0], t[1], t[2]).A,
                'SE3.RPY': SE3.RPY([a, b, c]).A, 'SE3*SE3': (SE3.Ry(b) * SE3(t[0], t[1], t[2])).A, 'trinv': base.trinv(base.rt2tr(rots['angvec2r'], t[:3] / max(1, np.linalg.norm(t))))}
        for k, T in homs.items():
            accepted('ishom', k, base.ishom(T, check=True), T)
            accepted('SE3.isvalid', k, SE3.isvalid(T, check=True), T)
        t2 = t[:2]
        r2 = {'rot2': base.rot2(a), 'SO2(th)': SO2(a).A, 'rot2@rot2': base.rot2(a) @ base.rot2(b)}
        for k, R in r2.items():
            accepted('isrot2', k, base.isrot2(R, check=True), R)
            accepted('SO2.isvalid', k, SO2.isvalid(R, check=True), R)
        h2 = {'trot2': base.trot2(a), 'transl2': base.transl2(t2), 'SE2(x,y,th)': SE2(t2[0], t2[1], a).A, 'trot2(t)': base.trot2(a, t=t2)}
        for k, T in h2.items():
            accepted('ishom2', k, base.ishom2(T, check=True), T)
            accepted('SE2.isvalid', k, SE2.isvalid(T, check=True), T)
        v6 = rng.normal(size=6) * log_uniform(rng, 1e-3, 1e3)
        accepted('isskew', 'skew', base.isskew(base.skew(ax)), ax)
        accepted('isskew', 'skew(2d)', base.isskew(base.skew(a)), [a])
        accepted('isskewa', 'skewa', base.isskewa(base.skewa(v6)), v6)
        accepted('isskewa', 'skewa(2d)', base.isskewa(base.skewa(v6[:3])), v6[:3])
        accepted('Twist3.isvalid', 'skewa', Twist3.isvalid(base.skewa(v6), check=True), v6)
        accepted('Twist2.isvalid', 'skewa(2d)', Twist2.isvalid(base.skewa(v6[:3]), check=True), v6[:3])
        accepted('isunitvec', 'unitvec', base.isunitvec(base.unitvec(ax)), ax)
        accepted('isunitvec', 'axis', base.isunitvec(np.eye(3)[i % 3]), np.eye(3)[i % 3])
        uq = {'UnitQuaternion.Rx': UnitQuaternion.Rx(a).vec, 'r2q': base.r2q(rots['rpy2r']), 'unit': base.unit(q * log_uniform(rng, 1e-3, 1e3)),
              'UnitQuaternion(SO3)': UnitQuaternion(SO3(rots['eul2r'], check=False)).vec, 'UnitQuaternion.RPY': UnitQuaternion.RPY([a, b, c]).vec}
        for k, u in uq.items():
            accepted('isunitvec', k, base.isunitvec(u), u)
            accepted('UnitQuaternion.isvalid', k, UnitQuaternion.isvalid(np.asarray(u, dtype=float), check=True), u)
        ut = base.unittwist(np.r_[rng.normal(size=3), ax])
        accepted('isunittwist', 'unittwist', base.isunittwist(ut), ut)
        ut = base.unittwist(np.r_[ax, 0, 0, 0])
        accepted('isunittwist', 'unittwist(prismatic)', base.isunittwist(ut), ut)
        ut = base.unittwist(np.r_[ax, rand_unit(rng) * log_uniform(rng, 1e-30, 1e-16)])      # rotational part below the zero threshold
        accepted('isunittwist', 'unittwist(sub-threshold w)', base.isunittwist(ut), ut)
        ut = base.unittwist(ut)
        accepted('isunittwist', 'unittwist(unittwist)', base.isunittwist(ut), ut)
        # poses made from a sequence of unit quaternions: one valid pose per value
        uqs = UnitQuaternion([rand_unit(rng, 4) for _ in range(3)])
        for k_, P in (('UnitQuaternion.SO3()', uqs.SO3()), ('UnitQuaternion.SE3()', uqs.SE3())):
            ctx.case((k_, i))
            ctx.count('oracle:complete')
            okc = len(P) == 3 and all(member('cSO3' if k_.endswith('SO3()') else 'cSE3', el) == 'member' for el in P.data)
            if not okc:
                ctx.fail(f'oracle:complete:{k_}:sequence', f"{k_} of 3 unit quaternions does not hold 3 valid poses: {[np.shape(e) for e in P.data]}",
                         {'inputs_hex': hexes(*uqs.data)})
        accepted('iseye', 'eye', base.iseye(np.eye(3)), np.eye(3))
        accepted('iszerovec', 'zeros', base.iszerovec(np.zeros(3)), np.zeros(3))
        accepted('iszero', '0.0', base.iszero(0.0), [0.0])

        # ---- (b) rejection beyond the 1e-6 band
        def rej(pred, kind, got, *inputs):
            expect(f'oracle:reject:{pred}:{kind}', f"{pred} accepts an invalid value ({kind}; defect beyond the 1e-6 band, or a corrupted last row)", got, False, *inputs, names=kind)

        R = bad_rot(rng, 3, 'NotOrtho')
        R2 = bad_rot(rng, 2, 'NotOrtho')
        rej('isR', 'not-orthonormal', base.isR(R), R)
        rej('isR', 'not-orthonormal', base.isR(R2), R2)
        rej('isrot', 'not-orthonormal', base.isrot(R, check=True), R)
        rej('isrot2', 'not-orthonormal', base.isrot2(R2, check=True), R2)
        T = hom(rng, 3, 'NotOrtho')
        T2 = hom(rng, 2, 'NotOrtho')
        rej('ishom', 'not-orthonormal', base.ishom(T, check=True), T)
        rej('ishom2', 'not-orthonormal', base.ishom2(T2, check=True), T2)
        T = hom(rng, 3, 'BadRow')
        T2 = hom(rng, 2, 'BadRow')
        rej('ishom', 'last-row', base.ishom(T, check=True), T)
        rej('ishom2', 'last-row', base.ishom2(T2, check=True), T2)
        # reflections: every rotation predicate goes through base.isR -> one root cause, one key
        Rf, Rf2, Tf, Tf2 = bad_rot(rng, 3, 'Reflect'), bad_rot(rng, 2, 'Reflect'), hom(rng, 3, 'Reflect'), hom(rng, 2, 'Reflect')
        for pred, got, X in (('isR', base.isR(Rf), Rf), ('isR(2x2)', base.isR(Rf2), Rf2), ('isrot', base.isrot(Rf, check=True), Rf),
                             ('isrot2', base.isrot2(Rf2, check=True), Rf2), ('ishom', base.ishom(Tf, check=True), Tf),
                             ('ishom2', base.ishom2(Tf2, check=True), Tf2), ('SO3.isvalid', SO3.isvalid(Rf), Rf),
                             ('SE3.isvalid', SE3.isvalid(Tf, check=True), Tf)):
            expect('oracle:reject:reflection-accepted', f"{pred} accepts an orthogonal matrix with determinant -1", got, False, X, names=pred)
        m = log_uniform(rng, 1.001e-6, 1.0) * rng.choice([-1.0, 1.0])
        S = base.skew(ax)
        i_, j_ = rng.choice(3, size=2, replace=False)
        S[i_, j_] += m
        rej('isskew', 'symmetric-part', base.isskew(S), S)
        Sa = base.skewa(v6)
        Sa[i_, j_] += m
        rej('isskewa', 'symmetric-part', base.isskewa(Sa), Sa)
        rej('Twist3.isvalid', 'symmetric-part', Twist3.isvalid(Sa, check=True), Sa)
        Sa = base.skewa(v6)
        Sa[3, rng.integers(4)] += m
        rej('isskewa', 'last-row', base.isskewa(Sa), Sa)
        rej('Twist3.isvalid', 'last-row', Twist3.isvalid(Sa, check=True), Sa)
        Sa = base.skewa(v6)
        Sa[i_, i_] += m
        rej('Twist3.isvalid', 'diagonal', Twist3.isvalid(Sa, check=True), Sa)
        E = np.eye(3)
        E[i_, rng.integers(3)] += m
        rej('iseye', 'entry', base.iseye(E), E)
        u = rand_unit(rng) * (1 + m if 1 + m > 0 else 2.0)
        if abs(np.linalg.norm(u) - 1) >= 1.0005e-6:
            rej('isunitvec', 'norm', base.isunitvec(u), u)
            uq_ = rand_unit(rng, 4) * np.linalg.norm(u)
            rej('UnitQuaternion.isvalid', 'norm', UnitQuaternion.isvalid(uq_, check=True), uq_)
            rej('isunittwist', 'norm', base.isunittwist(np.r_[rng.normal(size=3), u]), u)
        z = rand_unit(rng) * abs(m)
        rej('iszerovec', 'norm', base.iszerovec(z), z)
        rej('iszero', 'abs', base.iszero(m), [m])
        # ---- quaternions.isunit against its definition (outside the band)
        uq1 = rand_unit(rng, 4)
        accepted('isunit', 'unit quaternion', base.isunit(uq1), uq1)
        accepted('isunit', 'r2q', base.isunit(base.r2q(rots['rpy2r'])), rots['rpy2r'])
        rej('isunit', 'zero quaternion', base.isunit(np.zeros(4)), np.zeros(4))
        qn = uq1 * (1 + abs(m) + 1e-6)
        rej('isunit', 'norm', base.isunit(qn), qn)
        # wrong length / shape: rejected with ValueError (fix 3312c9b), never answered True
        for bad in (rand_unit(rng, 3), rand_unit(rng, 5), np.eye(2), np.r_[1.0], list(rand_unit(rng, 6))):
            ctx.case(('isunit-len', np.shape(bad), i))
            ctx.count('oracle:isunit-length')
            try:
                r_ = base.isunit(bad)
                ctx.fail('oracle:isunit:wrong-length-not-rejected', f"base.isunit of an argument of shape {np.shape(bad)} returned {r_} instead of raising ValueError",
                         {'inputs_hex': hexes(bad), 'shape': list(np.shape(bad))})
            except ValueError:
                pass
            except Exception as ex:  # noqa
                ctx.fail(f'oracle:isunit:wrong-length:{type(ex).__name__}', f"base.isunit of an argument of shape {np.shape(bad)} raised {type(ex).__name__}, not ValueError",
                         {'inputs_hex': hexes(bad), 'shape': list(np.shape(bad))})
    ctx.sample({'kind': 'oracle-pred', 'reflection': Rf.tolist(), 'isR': bool(base.isR(Rf))})


# =====================================================================================================
# oracle, part 1b: membership is a property of the VALUES, not of the dtype they are stored in
# =====================================================================================================
DTYPES = [np.float32, np.float16, np.int64, np.longdouble, object]
# (numpy evaluates norm / + of a float16 array in half precision; since fix b29003f the vector / skew predicates promote reduced-precision
# float arrays to float64 first, so float16 cells are held to the same per-predicate keys as every other dtype)
STRICT = (np.float32, np.int64)      # dtypes every predicate / constructor handles: exact members must be ACCEPTED in these


def signed_perm(rng, n, det):
    """exactly representable orthogonal matrix (entries 0, +-1) with the given determinant"""
    while True:
        P = np.eye(n)[rng.permutation(n)] * rng.choice([-1.0, 1.0], size=(n, 1))
        if round(float(np.linalg.det(P))) == det:
            return P


def near_band_rot(rng, n):
    """a rotation pushed 1.5e-6 .. 1e-4 away from SO(n): uniform scaling (diagonal residual) or one entry"""
    R = rot(rng, n)
    k = log_uniform(rng, 1.5e-6, 1e-4) * rng.choice([-1.0, 1.0])
    if rng.random() < 0.5:
        return R * (1 + k)
    R = R.copy()
    R[rng.integers(n), rng.integers(n)] += 2 * k
    return R


def rot_defect(R):
    n = R.shape[0]
    d = R[0, 0] * R[1, 1] - R[0, 1] * R[1, 0] if n == 2 else float(np.dot(R[0], np.cross(R[1], R[2])))
    return float('inf') if d <= 0 else float(np.linalg.norm(R @ R.T - np.eye(n)))


def hom_defect(T):
    n = T.shape[0] - 1
    return float('inf') if not np.all(T[n, :] == np.r_[np.zeros(n), 1.0]) else rot_defect(T[:n, :n])


def mk_hom(R, t):
    n = R.shape[0]
    T = np.eye(n + 1)
    T[:n, :n] = R
    T[:n, n] = t
    return T


def oracle_dtypes(ctx):
    """every predicate with check on and every constructor, on values stored as float32 / float16 / int64 / longdouble / object
    arrays: a value whose defect (computed on the stored value, in float64) exceeds the band must not be accepted whatever its dtype;
    an exact member stored as float32 or int64 must be accepted.  Exceptions count as 'not accepted' (float16 / longdouble / object
    are not supported by numpy.linalg)."""
    rng = ctx.rng
    N = ctx.n(120, 6000)

    def families():
        n = int(rng.choice([2, 3]))
        Pm, Pr = signed_perm(rng, n, 1), signed_perm(rng, n, -1)
        bad = near_band_rot(rng, n) if rng.random() < 0.7 else bad_rot(rng, n, str(rng.choice(['NotOrtho', 'Reflect'])))
        ti = rng.integers(-5, 6, size=n).astype(float)
        if n == 3:
            preds = [('isR', lambda X: base.isR(X)), ('isrot', lambda X: base.isrot(X, check=True)), ('SO3.isvalid', lambda X: SO3.isvalid(X))]
            hp = [('ishom', lambda X: base.ishom(X, check=True)), ('SE3.isvalid', lambda X: SE3.isvalid(X, check=True))]
            KR, KT = SO3, SE3
        else:
            preds = [('isR(2x2)', lambda X: base.isR(X)), ('isrot2', lambda X: base.isrot2(X, check=True)), ('SO2.isvalid', lambda X: SO2.isvalid(X, check=True))]
            hp = [('ishom2', lambda X: base.ishom2(X, check=True)), ('SE2.isvalid', lambda X: SE2.isvalid(X, check=True))]
            KR, KT = SO2, SE2
        yield 'rotation', [Pm], [Pr, bad], rot_defect, preds, [(KR.__name__, KR, 'cSO%d' % n)]
        Tbad = mk_hom(bad, ti)
        Trow = mk_hom(Pm, ti)
        Trow[n, rng.integers(n + 1)] += float(rng.choice([1.0, -1.0, 0.5, 2.0 ** -20]))
        yield 'homogeneous', [mk_hom(Pm, ti)], [mk_hom(Pr, ti), Tbad, Trow], hom_defect, hp, [(KT.__name__, KT, 'cSE%d' % n)]
        vi = rng.integers(-4, 5, size=6).astype(float)
        m = log_uniform(rng, 1.5e-6, 1e-3) * rng.choice([-1.0, 1.0])
        S = base.skew(vi[:3])
        Sb = S.copy()
        Sb[0, 1] += m
        yield 'skew', [S], [Sb], lambda X: float(np.linalg.norm(X + X.T)), [('isskew', lambda X: base.isskew(X))], []
        A = base.skewa(vi)
        Ab, Ac = A.copy(), A.copy()
        Ab[rng.integers(3), rng.integers(3)] += m
        Ac[3, rng.integers(4)] += float(rng.choice([1.0, m]))
        adef = lambda X: max(float(np.linalg.norm(X[3, :])), float(np.linalg.norm(X[:3, :3] + X[:3, :3].T)), float(np.linalg.norm(np.diag(X))))   # noqa: E731
        yield 'se(3) matrix', [A], [Ab, Ac], adef, [('isskewa', lambda X: base.isskewa(X)), ('Twist3.isvalid', lambda X: Twist3.isvalid(X, check=True))], \
            [('Twist3', Twist3, 'cTw3')]
        E = np.eye(3)
        Eb = E.copy()
        Eb[rng.integers(3), rng.integers(3)] += m
        yield 'identity', [E], [Eb], lambda X: float(np.linalg.norm(X - np.eye(3))), [('iseye', lambda X: base.iseye(X))], []
        for dim in (3, 4):
            u = np.eye(dim)[rng.integers(dim)] * rng.choice([-1.0, 1.0])
            ub = [u * (1 + m), rand_unit(rng, dim) * (1 + m), np.zeros(dim)]
            pr = [('isunitvec', lambda X: base.isunitvec(X))]
            if dim == 4:
                pr += [('isunit', lambda X: base.isunit(X)), ('UnitQuaternion.isvalid', lambda X: UnitQuaternion.isvalid(np.asarray(X), check=True))]
            yield f'unit {dim}-vector', [u], ub, lambda X: abs(float(np.linalg.norm(X)) - 1), pr, []
        z = rand_unit(rng) * abs(m)
        yield 'zero vector', [np.zeros(3)], [z], lambda X: float(np.linalg.norm(X)), [('iszerovec', lambda X: base.iszerovec(X))], []
        w = np.eye(3)[rng.integers(3)]
        yield 'unit twist', [np.r_[vi[:3], w], np.r_[np.eye(3)[rng.integers(3)], 0, 0, 0]], [np.r_[vi[:3], w * (1 + m)], np.r_[vi[:3] * 0 + 2, 0, 0, 0]], \
            lambda X: min(abs(np.linalg.norm(X[3:]) - 1), max(np.linalg.norm(X[3:]), abs(np.linalg.norm(X[:3]) - 1))), \
            [('isunittwist', lambda X: base.isunittwist(X))], []

    def cast(X, dt):
        if dt is np.int64 and not np.all(X == np.round(X)):
            return None
        with np.errstate(all='ignore'):
            return X.astype(dt)

    for it in range(N):
        for fam, members, invalids, defect, preds, ctors in families():
            for dt in DTYPES:
                dn = np.dtype(dt).name
                for X64, want_member in [(m_, True) for m_ in members] + [(b_, False) for b_ in invalids]:
                    X = cast(X64, dt)
                    if X is None:
                        continue
                    V = np.asarray(X, dtype=float)                      # the VALUE that is stored
                    d = defect(V)
                    if want_member and d != 0:
                        continue
                    if not want_member and not d >= 1.5e-6:
                        continue                                      # the cast moved the value into the band / onto the group
                    rep_ = {'family': fam, 'dtype': dn, 'stored_value_hex': hexes(V), 'shape': list(V.shape), 'defect_of_stored_value': d}
                    for pname, pf in preds:
                        ctx.case(('dtype', pname, dn, want_member, it))
                        ctx.count('oracle:dtype')
                        try:
                            with np.errstate(all='ignore'):
                                got = bool(pf(X))
                        except Exception as ex:  # noqa
                            got = type(ex).__name__
                        if not want_member and got is True:
                            ctx.fail(f'oracle:dtype:reject:{pname}', f"{pname} accepts a {dn} array whose value is {d:g} from the group / the definition (band 1e-6): "
                                     "membership must not depend on the dtype", dict(rep_, predicate=pname))
                        if want_member and dt in STRICT and got is not True:
                            ctx.fail(f'oracle:dtype:accept:{pname}', f"{pname} does not accept an exact member stored as {dn}: {got}", dict(rep_, predicate=pname))
                    for cname, K, cc in ctors:
                        for form in ('bare', 'list'):
                            ctx.case(('dtype-ctor', cname, dn, form, want_member, it))
                            ctx.count('oracle:dtype')
                            try:
                                with np.errstate(all='ignore'):
                                    obj = K(X) if form == 'bare' else K([cast(members[0], dt), X])
                                held = [member(cc, np.asarray(e, dtype=float) if isinstance(e, np.ndarray) else e) for e in obj.data]
                            except Exception as ex:  # noqa
                                held = type(ex).__name__
                            if not want_member and not isinstance(held, str):
                                ctx.fail(f'oracle:dtype:ctor:{cname}:accepts-invalid', f"{cname}({form}) accepts a {dn} array whose value is {d:g} from the group; it holds {held}",
                                         dict(rep_, constructor=cname, form=form))
                            if want_member and dt in STRICT and (isinstance(held, str) or any(h != 'member' for h in held)):
                                ctx.fail(f'oracle:dtype:ctor:{cname}:rejects-member', f"{cname}({form}) of an exact member stored as {dn}: {held}", dict(rep_, constructor=cname, form=form))


# =====================================================================================================
# T-tab + oracle, part 2: the constructors on the whole table
# =====================================================================================================
COQ_HDR = "From Coq Require Import List.\nImport ListNotations.\nFrom SM Require Import Model.C07_Ctor.\n"


def reason_key(c, form, reason, items):
    where = GROUP[c] + ':seq' if form != 'bare' else CLS[c].__name__ + ':bare'
    return f'ctor:{where}:{reason}'


def table(ctx):
    rng = ctx.rng
    cs = cells()
    ctx.stats['table:cells'] = len(cs)
    terms = [f"(summary {c} {coq_arg(form, items)}, wf {c} {coq_arg(form, items)})" for c, form, items in cs]
    vals = ctx.coq_eval(COQ_HDR, terms, name='tab', chunk=600)
    reps = ctx.n(3, 80)
    import re
    for (c, form, items), val in zip(cs, vals):
        m = re.fullmatch(r'\((\d+), \[([0-9; ]*)\], (true|false), (true|false)\)', val.strip())
        if not m:
            raise RuntimeError('cannot parse model summary: ' + val)
        model = (int(m.group(1)), [int(x) for x in m.group(2).split(';') if x.strip()], m.group(3) == 'true')
        cell = {'class': CLS[c].__name__, 'form': form, 'items': [[list(sh), t] for sh, t in items]}
        if m.group(4) != 'true':
            ctx.fail('corr:ctor:wf', f"table cell outside the model's domain (wf = false): {cell}", cell, no_input=True)
        for r in range(reps):
            arrays = [make_item(rng, c, sh, t) for sh, t in items]
            summ, val_, reasons = impl_summary(c, form, items, arrays)
            ctx.corr['cases'] += 1
            ctx.case(('tab', c, form, tuple(items), r), nontrivial=(r == 0))
            rep = dict(cell, arrays_hex=[hexes(a) if isinstance(a, np.ndarray) else repr(a) for a in arrays],
                       observed=repr(val_), model_summary=list(model), impl_summary=list(summ))
            if summ != model:
                ctx.corr['disagreements'] += 1
                ctx.fail(f"corr:ctor:{CLS[c].__name__}:{'bare' if form == 'bare' else 'seq'}",
                         f"constructor model and implementation disagree on {cell}: model (exc|0, slots, all-valid)={model} implementation={summ} observed={val_}", rep)
            # the property itself, decided without the model
            ctx.count('oracle:ctor')
            prim = [x for x in reasons if x.startswith('holds-')] or reasons
            for reason in sorted(set(prim)):
                ctx.fail(reason_key(c, form, reason, items),
                         f"{CLS[c].__name__}({form}) returned an object although the argument holds an invalid value: {reason}; data={val_}", rep)
    ctx.corr['functions'] += len(CLS)
    ctx.sample({'kind': 'T-tab', 'cell': [cs[40][0], cs[40][1], str(cs[40][2])], 'model': vals[40]})


def stack_probes(ctx):
    """container forms OUTSIDE the constructor model: the items arrive inside ONE ndarray -- a 3-D stack np.stack([...]) (what np.load of a
    logged trajectory gives) or a 1-D object array of matrices.  Decided without any model, by the property itself: either the constructor
    raises, or every element of the returned object is a member and no supplied item was invalid (no None element, no partially built object)."""
    rng = ctx.rng
    for c in ('cSO2', 'cSE2', 'cSO3', 'cSE3', 'cUQ', 'cTw2', 'cTw3'):
        items, _extra = seq_items(c)
        nat = [it for it in items if accepts_native(c, it[0])]
        good = [it for it in nat if it[1] == 'Valid']
        if not good:
            continue
        combos = [[g] for g in good[:1]] + [[good[0], good[-1]]]
        for bad in [it for it in nat if it[1] != 'Valid']:
            if bad[0] != good[0][0]:
                continue                     # np.stack needs one shape
            for pos in range(3):
                l = [good[0]] * 3
                l[pos] = bad
                combos.append(l)
            combos.append([bad, bad])
            combos.append([bad])
        for l in combos:
            if any(it[0] != l[0][0] for it in l):
                continue
            for form in ('stack',):       # (a 1-D object array of matrices is read by SE3 as a symbolic translation vector: outside the domain)
                for r in range(ctx.n(2, 6)):
                    arrays = [make_item(rng, c, sh, t) for sh, t in l]
                    if form == 'stack':
                        arg = np.stack(arrays)
                    else:
                        arg = np.empty(len(arrays), dtype=object)
                        for k_, a_ in enumerate(arrays):
                            arg[k_] = a_
                    ctx.case(('stack', c, form, tuple(l), r), nontrivial=(r == 0))
                    ctx.count('oracle:ctor-ndarray-container')
                    try:
                        with np.errstate(all='ignore'):
                            obj = CLS[c](arg)
                    except Exception:  # noqa: rejecting the whole argument is what the property asks for when an item is invalid
                        ctx.count('oracle:ctor-ndarray-container:rejected')
                        continue
                    data = getattr(obj, 'data', None)
                    reasons = []
                    if not isinstance(obj, CLS[c]) or not isinstance(data, list):
                        reasons.append('no-data-list')
                    else:
                        for el in data:
                            if el is None:
                                reasons.append('holds-None')
                            elif not isinstance(el, np.ndarray):
                                reasons.append('holds-non-array')
                            elif member(c, el) != 'member':
                                reasons.append('holds-' + str(member(c, el)))
                        # (an object whose elements are all members is fine even if an item was invalid: SO2(<1x2x2 array>) reads the
                        #  entries as four ANGLES -- the argument was reinterpreted, no non-member is held)
                    for reason in sorted(set(reasons)):
                        ctx.fail(f"oracle:ctor:{CLS[c].__name__}:ndarray-{form}:{reason}",
                                 f"{CLS[c].__name__}(<{form} of {len(l)} items {[t for _sh, t in l]}>) returned an object: {reason}; "
                                 f"data = {[None if e is None else getattr(e, 'shape', type(e).__name__) for e in (data or [])]}",
                                 {'class': CLS[c].__name__, 'form': form, 'items': [[list(sh), t] for sh, t in l],
                                  'arrays_hex': [hexes(a) for a in arrays]})


# =====================================================================================================
# T-tab + oracle, part 3: values that arrive as objects -- list mutators and the constructor given an object
# =====================================================================================================
OCLS = {'oSO2': SO2, 'oSE2': SE2, 'oSO3': SO3, 'oSE3': SE3, 'oQ': Quaternion, 'oUQ': UnitQuaternion, 'oTw2': Twist2, 'oTw3': Twist3}
RECV = ['oSO2', 'oSE2', 'oSO3', 'oSE3', 'oUQ', 'oTw2', 'oTw3']       # Quaternion has no constraint: operand only
O2C = {'oSO2': 'cSO2', 'oSE2': 'cSE2', 'oSO3': 'cSO3', 'oSE3': 'cSE3', 'oUQ': 'cUQ', 'oTw2': 'cTw2', 'oTw3': 'cTw3'}


def mk_obj(rng, o, n):
    """an object of class o holding n valid values of its class (independent construction from arrays, check on)"""
    K = OCLS[o]
    if n == 0:
        return K.Empty()
    if o == 'oSO2':
        vals = [rand_rot2(rng) for _ in range(n)]
    elif o == 'oSE2':
        vals = [rand_se2(rng, 1e-3, 1e3) for _ in range(n)]
    elif o == 'oSO3':
        vals = [rand_rot(rng) for _ in range(n)]
    elif o == 'oSE3':
        vals = [rand_se3(rng, 1e-3, 1e3) for _ in range(n)]
    elif o == 'oQ':
        return Quaternion([Quaternion(rng.normal(size=4) * 3 + 2) for _ in range(n)])
    elif o == 'oUQ':
        vals = [rand_unit(rng, 4) for _ in range(n)]
    elif o == 'oTw2':
        vals = [rng.normal(size=3) for _ in range(n)]
    else:
        vals = [rng.normal(size=6) for _ in range(n)]
    x = K(vals)
    assert len(x) == n and type(x) is K
    return x


def mut_cells():
    """(receiver class, receiver length, mutator term for the model, python action, operand class, operand length)"""
    out = []
    for r in RECV:
        for L in (1, 3):
            for o in list(OCLS) + ['oArr']:
                for n in ((0, 1, 2) if o != 'oArr' else (1,)):
                    for i in (0, L - 1, -1, L, -L - 1):
                        pos = i if i >= 0 else (L + i if L + i >= 0 else L)
                        out.append((r, L, f"(SetInt {pos})", ('setitem', i), o, n))
                    for lo, hi in ((0, 1), (0, min(2, L)), (1, 1)):
                        out.append((r, L, f"(SetSlice {lo} {hi})", ('setslice', lo, hi), o, n))
                    out.append((r, L, "Append", ('append',), o, n))
                    for i in (0, 1, L + 5, -1):
                        pos = min(i, L) if i >= 0 else max(0, L + i)
                        out.append((r, L, f"(Insert {pos})", ('insert', i), o, n))
                    out.append((r, L, "Extend", ('extend',), o, n))
    return out


def elements_bits(r, data):
    return [member(O2C[r], el) == 'member' for el in data]


def same_data(a, b):
    return len(a) == len(b) and all((x is y) or (isinstance(x, np.ndarray) and isinstance(y, np.ndarray) and x.shape == y.shape and np.array_equal(x, y))
                                    for x, y in zip(a, b))


def mut_key(r, act, o, n):
    R, O = OCLS[r].__name__, (OCLS[o].__name__ if o in OCLS else 'ndarray')
    return f"mut:{act[0]}:{R}-from-{O}:holds-nonmember"


def obj_key(r, o, n):
    R, O = OCLS[r].__name__, OCLS[o].__name__
    return f"ctor:object-arg:{R}-from-{O}:holds-nonmember"


def parse_bits(val):
    import re
    m = re.fullmatch(r'\((\d+), \[([a-z; ]*)\]\)', val.strip())
    if not m:
        raise RuntimeError('cannot parse model summary: ' + val)
    return (int(m.group(1)), [x.strip() == 'true' for x in m.group(2).split(';') if x.strip()])


def table_objects(ctx):
    rng = ctx.rng
    cs = mut_cells()
    oc = [(r, o, n) for r in RECV for o in OCLS for n in (0, 1, 2)]
    ctx.stats['table:mutator-cells'] = len(cs)
    ctx.stats['table:object-ctor-cells'] = len(oc)
    terms = [f"mut_summary {r} {L} {mt} (Opd {o} {n})" for r, L, mt, act, o, n in cs] + [f"obj_summary {r} (Opd {o} {n})" for r, o, n in oc]
    vals = [parse_bits(v) for v in ctx.coq_eval(COQ_HDR, terms, name='mut', chunk=800)]
    reps = ctx.n(1, 12)
    for (r, L, mt, act, o, n), model in zip(cs, vals):
        for k in range(reps):
            recv = mk_obj(rng, r, L)
            x = mk_obj(rng, o, n) if o in OCLS else (np.ones((3, 3)) if k % 2 == 0 else [np.eye(3)])
            before = list(recv.data)
            cell = {'receiver': OCLS[r].__name__, 'receiver_len': L, 'mutator': list(act), 'operand': OCLS[o].__name__ if o in OCLS else 'ndarray/list',
                    'operand_len': n, 'operand_data_hex': [hexes(e) for e in (x.data if o in OCLS else [])]}
            try:
                if act[0] == 'setitem':
                    recv[act[1]] = x
                elif act[0] == 'setslice':
                    recv[act[1]:act[2]] = x
                elif act[0] == 'append':
                    recv.append(x)
                elif act[0] == 'insert':
                    recv.insert(act[1], x)
                else:
                    recv.extend(x)
                summ = (0, elements_bits(r, recv.data))
                raised = None
            except Exception as ex:  # noqa
                raised = type(ex).__name__
                summ = (EXC_CODE.get(raised, 99), [])
            ctx.corr['cases'] += 1
            ctx.case(('mut', r, L, mt, o, n, k), nontrivial=(k == 0))
            cell['observed'] = raised or [('member' if b else 'NON-MEMBER: ' + repr(np.shape(e) if isinstance(e, np.ndarray) else e)) for b, e in zip(summ[1], recv.data)]
            if summ != model:
                ctx.corr['disagreements'] += 1
                ctx.fail(f"corr:mut:{act[0]}:{OCLS[r].__name__}", f"mutator model and implementation disagree on {cell}: model {model} implementation {summ}", cell)
            ctx.count('oracle:mut')
            if raised is None and not all(summ[1]):
                ctx.fail(mut_key(r, act, o, n), f"after {act} the {OCLS[r].__name__} object holds a value outside its group: {cell['observed']}", cell)
            if raised is not None and not same_data(before, recv.data):
                ctx.fail(f"mut:{act[0]}:receiver-changed-although-exception", f"{act} raised {raised} but the receiver was modified: {cell}", cell)
    for (r, o, n), model in zip(oc, vals[len(cs):]):
        for k in range(reps):
            x = mk_obj(rng, o, n)
            cell = {'class': OCLS[r].__name__, 'argument': OCLS[o].__name__, 'argument_len': n, 'argument_data_hex': [hexes(e) for e in x.data]}
            try:
                obj = OCLS[r](x)
                summ = (0, elements_bits(r, obj.data))
                cell['observed'] = [('member' if b else 'NON-MEMBER: ' + repr(np.shape(e) if isinstance(e, np.ndarray) else type(e).__name__)) for b, e in zip(summ[1], obj.data)]
            except Exception as ex:  # noqa
                summ = (EXC_CODE.get(type(ex).__name__, 99), [])
                cell['observed'] = type(ex).__name__
            ctx.corr['cases'] += 1
            ctx.case(('obj', r, o, n, k), nontrivial=(k == 0))
            if summ != model:
                ctx.corr['disagreements'] += 1
                ctx.fail(f"corr:ctor-obj:{OCLS[r].__name__}", f"object-argument constructor model and implementation disagree on {cell}: model {model} implementation {summ}", cell)
            ctx.count('oracle:ctor-obj')
            if summ[0] == 0 and not all(summ[1]):
                ctx.fail(obj_key(r, o, n), f"{OCLS[r].__name__}({OCLS[o].__name__} object of length {n}) holds a value outside its group: {cell['observed']}", cell)
    # ---- constructor given a LIST of objects
    import itertools
    related = {'oSO2': ['oSE2', 'oSO3'], 'oSE2': ['oSO2', 'oSE3'], 'oSO3': ['oSE3', 'oSO2'], 'oSE3': ['oSO3', 'oTw3'], 'oUQ': ['oQ', 'oSO3'],
               'oTw2': ['oTw3', 'oSE2'], 'oTw3': ['oTw2', 'oSE3']}
    lc = []
    for r in RECV:
        ops = [(r, 1), (r, 0), (r, 2)] + [(o, 1) for o in related[r]]
        for k in (1, 2, 3):
            for combo in itertools.product(ops, repeat=k):
                if k == 3 and sum(1 for c_ in combo if c_ != (r, 1)) != 1:
                    continue          # 3-lists: exactly one element that is not a singleton of the class, at every position
                lc.append((r, list(combo)))
    ctx.stats['table:object-list-cells'] = len(lc)
    modelled = [(r, l) for r, l in lc if l[0][0] == r]
    lvals = [parse_bits(v) for v in ctx.coq_eval(COQ_HDR, ["objs_summary %s [%s]" % (r, "; ".join(f"Opd {o} {n}" for o, n in l)) for r, l in modelled],
                                                 name='objs', chunk=800)]
    mv = {(r, tuple(l)): v for (r, l), v in zip(modelled, lvals)}
    for r, l in lc:
        for form in (list, tuple):
            arg = form(mk_obj(rng, o, n) for o, n in l)
            cell = {'class': OCLS[r].__name__, 'form': form.__name__, 'elements': [[OCLS[o].__name__, n] for o, n in l]}
            try:
                obj = OCLS[r](arg)
                summ = (0, elements_bits(r, obj.data))
                cell['observed'] = [('member' if b else 'NON-MEMBER: ' + repr(np.shape(e) if isinstance(e, np.ndarray) else type(e).__name__)) for b, e in zip(summ[1], obj.data)]
            except Exception as ex:  # noqa
                summ = (EXC_CODE.get(type(ex).__name__, 99), [])
                cell['observed'] = type(ex).__name__
            ctx.corr['cases'] += 1
            ctx.case(('objs', r, tuple(l), form.__name__))
            model = mv.get((r, tuple(l)))
            if model is not None and summ != model:
                ctx.corr['disagreements'] += 1
                ctx.fail(f"corr:ctor-objs:{OCLS[r].__name__}", f"list-of-objects constructor model and implementation disagree on {cell}: model {model} implementation {summ}", cell)
            ctx.count('oracle:ctor-objs')
            if summ[0] == 0 and (not all(summ[1]) or any((o != r and not (r == 'oUQ' and o in ('oSO3', 'oSE3'))) for o, n in l)):
                # an object came back: every element must be a member, and no element of another class may have been taken
                # (UnitQuaternion([SO3 / SE3 objects]) is a documented conversion)
                ctx.fail(f"ctor:object-list:{OCLS[r].__name__}:holds-nonmember-or-foreign", f"{OCLS[r].__name__}({cell['elements']}) returned an object: {cell['observed']}", cell)
    ctx.corr['functions'] += 3


def run(ctx):
    ctx.rule = ("obligations: theorems of Props/C07_pred.v (over R, at the tolerances regenerated from the AST, incl. the tag bridge) and "
                "C07_ctor.v (lists, axiom-free); evaluations: T-num cases (extracted predicate model vs implementation), table "
                "cells x representatives (constructor model vs implementation, and the property verdict of each cell), oracle "
                "evaluations of each predicate on constructor outputs / perturbations / reflections; a case is distinct by its "
                "(check, input) signature")
    ctx.trusted_extra = ["AST pass of props/C07.py (tolerance defaults, comparison skeletons); tag abstraction of ndarrays in "
                         "Model/C07_Ctor.v (representatives drawn by props/C07.py: make_item), independent NumPy membership classifier"]
    with ctx.timed('regenerate'):
        ok = consts_pass(ctx)
        g = build_models() if ok else None
        if g:
            rc, out, err, dt = ctx.coqc(ctx.write_gen(MOD + '.v', g.coq_text()))
            if rc != 0:
                ctx.fail('gen:compile', 'generated file does not compile: ' + err[-800:], no_input=True)
                g = None
    if ok:
        ctx.prove('theories/Props/C07_pred.v')
    ctx.prove('theories/Props/C07_ctor.v')
    ctx.prove('theories/Props/C07_mut.v')
    if g:
        with ctx.timed('correspond'):
            base_text = g.extract_text          # several python entry points share one model function: extract each once
            g.extract_text = lambda modname: _dedup_extract(base_text(modname))
            sym_num(ctx, g, MOD, ctx.n(150, 12000))
            if ESCALATE and not ctx.thorough:
                g2 = Gen('C07')
                g2.traces = [t for t in g.traces if t.name in ESCALATE]
                base2 = g2.extract_text
                g2.extract_text = lambda modname: _dedup_extract(base2(modname))
                ctx.stats['escalated-registrations'] = sorted(t.name for t in g2.traces)
                sym_num(ctx, g2, MOD, 12000)
    with ctx.timed('table'):
        table(ctx)
        table_objects(ctx)
        stack_probes(ctx)
    with ctx.timed('oracle'):
        oracle_pred(ctx)
        oracle_dtypes(ctx)


def _dedup_extract(text):
    import re
    m = re.search(r'(Extraction "[^"]+" )(.*)\.\n$', text, re.S)
    names = []
    for n in m.group(2).split():
        if n not in names:
            names.append(n)
    return text[:m.start()] + m.group(1) + " ".join(names) + ".\n"
